module verif

go 1.22

require (
	github.com/beevik/etree v1.5.0
	github.com/crewjam/saml v0.0.0
	github.com/russellhaering/goxmldsig v1.4.0
	golang.org/x/crypto v0.33.0
	gotest.tools v2.2.0+incompatible
)

require (
	github.com/google/go-cmp v0.7.0 // indirect
	github.com/pkg/errors v0.9.1 // indirect
)

require (
	github.com/anishathalye/porcupine v1.3.0
	github.com/golang-jwt/jwt/v4 v4.5.2
	github.com/jonboulle/clockwork v0.2.2 // indirect
	github.com/mattermost/xml-roundtrip-validator v0.1.0 // indirect
	golang.org/x/net v0.34.0
)

replace github.com/crewjam/saml => /repo
