#!/bin/bash
# run.sh <Cxx> <quick|thorough>   |   run.sh replay <file>
# Rebuilds the harness from /repo's current working tree (module replace), then runs the check.
# VERIF_REPO=<dir> runs the same check against a scratch copy of the repository instead (separate binary,
# VERIF_EVIDENCE_DIR/VERIF_REPLAY_DIR default to <dir>/.verif-out so committed evidence is never touched).
set -u
cd /verif
export GOFLAGS=-mod=mod GOPROXY=off GOSUMDB=off GOTOOLCHAIN=local
export VERIF_SEED="${VERIF_SEED:-0}"
mkdir -p bin evidence replay
suffix=""; modflag=()
if [ -n "${VERIF_REPO:-}" ] && [ "$VERIF_REPO" != "/repo" ]; then
  suffix=".$$"
  sed "s#=> /repo#=> $VERIF_REPO#" go.mod > "bin/alt$suffix.mod"; cp go.sum "bin/alt$suffix.sum"
  modflag=(-modfile="bin/alt$suffix.mod")
  export VERIF_EVIDENCE_DIR="${VERIF_EVIDENCE_DIR:-$VERIF_REPO/.verif-out/evidence}" VERIF_REPLAY_DIR="${VERIF_REPLAY_DIR:-$VERIF_REPO/.verif-out/replay}"
  mkdir -p "$VERIF_EVIDENCE_DIR" "$VERIF_REPLAY_DIR"
  export VERIF_RACEPASS_BIN="/verif/bin/racepass$suffix"
fi
cleanup() { [ -n "$suffix" ] && rm -f "bin/overlay$suffix.log" "bin/vcheck$suffix" "bin/vcheck-c20$suffix" "bin/racepass$suffix" "bin/alt$suffix.mod" "bin/alt$suffix.sum" "bin/build$suffix.err"; [ -n "${ov:-}" ] && rm -rf "$ov"; }
trap cleanup EXIT
berr="bin/build$suffix.err"
build_plain() {
  go build "${modflag[@]}" -o "bin/vcheck$suffix" ./cmd/vcheck 2> "$berr" || { echo "BUILD-ERROR: the harness does not build against the repository's working tree:" >&2; cat "$berr" >&2; exit 2; }
}
build_c20() {
  # (a) a build in which the repository's "sync" import is rewritten to the scheduler shim (go build -overlay, generated
  # from the current working tree; the repository itself is not touched) and (b) a -race build of the free-running pass.
  ov="$(mktemp -d /tmp/verif-overlay-XXXXXX)"
  go run "${modflag[@]}" ./tools/mkoverlay "$ov" > "bin/overlay$suffix.log" 2>&1 || { echo "BUILD-ERROR: overlay generation failed" >&2; cat "bin/overlay$suffix.log" >&2; exit 2; }
  go build "${modflag[@]}" -overlay "$ov/overlay.json" -o "bin/vcheck-c20$suffix" ./cmd/vcheck 2> "$berr" || { echo "BUILD-ERROR: overlay build failed:" >&2; cat "$berr" >&2; exit 2; }
  go build "${modflag[@]}" -race -o "bin/racepass$suffix" ./cmd/racepass 2> "$berr" || { echo "BUILD-ERROR: -race build failed:" >&2; cat "$berr" >&2; exit 2; }
}
if [ "$1" = "replay" ]; then
  if grep -q '"property": "C20"' "$2" 2>/dev/null; then
    build_c20; "bin/vcheck-c20$suffix" replay "$2"; exit $?
  fi
  build_plain; "bin/vcheck$suffix" replay "$2"; exit $?
fi
id="$1"; tier="${2:-${VERIF_TIER:-quick}}"
if [ "$id" = "C20" ]; then
  build_c20; "bin/vcheck-c20$suffix" run "$id" "$tier"; exit $?
fi
build_plain
"bin/vcheck$suffix" run "$id" "$tier"; exit $?
