#!/bin/bash
# run.sh <Cxx> <quick|thorough>   |   run.sh replay <file>
# Rebuilds the harness from /repo's current working tree (module replace), then runs the check.
set -u
cd /verif
export GOFLAGS=-mod=mod GOPROXY=off GOSUMDB=off GOTOOLCHAIN=local
export VERIF_SEED="${VERIF_SEED:-0}"
mkdir -p bin evidence replay
cp -f /repo/go.sum go.sum.repo 2>/dev/null || true
if ! go build -o bin/vcheck ./cmd/vcheck 2> bin/build.err; then
  echo "BUILD-ERROR: the harness does not build against /repo's working tree:" >&2
  cat bin/build.err >&2
  exit 2
fi
if [ "$1" = "replay" ]; then
  exec bin/vcheck replay "$2"
fi
id="$1"; tier="${2:-${VERIF_TIER:-quick}}"
if [ -x "checks/pre_$id.sh" ]; then
  "checks/pre_$id.sh" "$tier" || exit $?
fi
exec bin/vcheck run "$id" "$tier"
