#!/bin/bash
# run.sh <Cxx> <quick|thorough>   |   run.sh replay <file>
# Rebuilds the harness from /repo's current working tree (module replace), then runs the check.
set -u
cd /verif
export GOFLAGS=-mod=mod GOPROXY=off GOSUMDB=off GOTOOLCHAIN=local
export VERIF_SEED="${VERIF_SEED:-0}"
mkdir -p bin evidence replay
cp -f /repo/go.sum go.sum.repo 2>/dev/null || true
if ! go build -o bin/vcheck ./cmd/vcheck 2> bin/build.err; then
  echo "BUILD-ERROR: the harness does not build against /repo's working tree:" >&2
  cat bin/build.err >&2
  exit 2
fi
if [ "$1" = "replay" ]; then
  if grep -q '"property": "C20"' "$2" 2>/dev/null; then
    ov="$(mktemp -d /tmp/verif-overlay-XXXXXX)"; trap 'rm -rf "$ov"' EXIT
    go run ./tools/mkoverlay "$ov" > bin/overlay.log 2>&1 && go build -overlay "$ov/overlay.json" -o bin/vcheck-c20 ./cmd/vcheck && go build -race -o bin/racepass ./cmd/racepass || exit 2
    bin/vcheck-c20 replay "$2"; exit $?
  fi
  exec bin/vcheck replay "$2"
fi
id="$1"; tier="${2:-${VERIF_TIER:-quick}}"
if [ "$id" = "C20" ]; then
  # C20 needs (a) a build in which the repository's "sync" import is rewritten to the scheduler shim (go build -overlay,
  # generated from the current working tree; /repo itself is not touched) and (b) a -race build of the free-running pass.
  ov="$(mktemp -d /tmp/verif-overlay-XXXXXX)"
  trap 'rm -rf "$ov"' EXIT
  go run ./tools/mkoverlay "$ov" > bin/overlay.log 2>&1 || { echo "BUILD-ERROR: overlay generation failed" >&2; cat bin/overlay.log >&2; exit 2; }
  go build -overlay "$ov/overlay.json" -o bin/vcheck-c20 ./cmd/vcheck 2> bin/build.err || { echo "BUILD-ERROR: overlay build failed:" >&2; cat bin/build.err >&2; exit 2; }
  go build -race -o bin/racepass ./cmd/racepass 2> bin/build.err || { echo "BUILD-ERROR: -race build failed:" >&2; cat bin/build.err >&2; exit 2; }
  bin/vcheck-c20 run "$id" "$tier"; rc=$?
  exit $rc
fi
exec bin/vcheck run "$id" "$tier"
