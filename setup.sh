#!/bin/bash
# setup.sh — offline build of the framework and warm-up of Go build caches (plain, overlay and -race builds).
set -eu
cd /verif
export GOFLAGS=-mod=mod GOPROXY=off GOSUMDB=off GOTOOLCHAIN=local
mkdir -p bin evidence replay
go build -o bin/vcheck ./cmd/vcheck
ov="$(mktemp -d /tmp/verif-overlay-XXXXXX)"
trap 'rm -rf "$ov"' EXIT
go run ./tools/mkoverlay "$ov" > bin/overlay.log
go build -overlay "$ov/overlay.json" -o bin/vcheck-c20 ./cmd/vcheck
go build -race -o bin/racepass ./cmd/racepass
echo "setup ok: $(bin/vcheck list | tr '\n' ' ')"
