#!/bin/bash
# setup.sh — offline build of the framework and warm-up of Go build caches.
set -eu
cd /verif
export GOFLAGS=-mod=mod GOPROXY=off GOSUMDB=off GOTOOLCHAIN=local
mkdir -p bin evidence replay
go build -o bin/vcheck ./cmd/vcheck
bin/vcheck list > /dev/null
echo "setup ok: $(bin/vcheck list | tr '\n' ' ')"
