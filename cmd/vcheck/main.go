// vcheck: one binary, one sub-command per property.
//
//	vcheck run <Cxx> <quick|thorough>     parent: forks workers, merges, writes evidence, prints verdict lines
//	vcheck worker <Cxx> <tier> <i> <n> <out> <status> [only]   one shard
//	vcheck replay <file>                  re-runs exactly the case recorded in a replay artefact
//	vcheck list
package main

import (
	"context"
	"encoding/json"
	"fmt"
	"os"
	"os/exec"
	"path/filepath"
	"strconv"
	"strings"
	"sync"
	"time"

	"verif/checks"
	"verif/engine/core"
)

const root = "/verif"

// evidenceDir / replayDir can be redirected (used when a check is run against a scratch copy of the repository,
// so that such runs never overwrite the committed evidence).
func evidenceDir() string {
	if d := os.Getenv("VERIF_EVIDENCE_DIR"); d != "" {
		return d
	}
	return filepath.Join(root, "evidence")
}

func replayDir() string {
	if d := os.Getenv("VERIF_REPLAY_DIR"); d != "" {
		return d
	}
	return filepath.Join(root, "replay")
}

func seed() int64 {
	s, _ := strconv.ParseInt(os.Getenv("VERIF_SEED"), 10, 64)
	return s
}

func main() {
	if len(os.Args) < 2 {
		fmt.Fprintln(os.Stderr, "usage: vcheck run|worker|replay|list ...")
		os.Exit(2)
	}
	switch os.Args[1] {
	case "list":
		for _, id := range checks.IDs() {
			fmt.Println(id)
		}
	case "worker":
		worker(os.Args[2:])
	case "run":
		if len(os.Args) < 4 {
			fmt.Fprintln(os.Stderr, "usage: vcheck run <Cxx> <quick|thorough>")
			os.Exit(2)
		}
		os.Exit(run(os.Args[2], os.Args[3]))
	case "replay":
		os.Exit(replay(os.Args[2]))
	default:
		fmt.Fprintln(os.Stderr, "unknown sub-command")
		os.Exit(2)
	}
}

func worker(a []string) {
	id, tier := a[0], a[1]
	i, _ := strconv.Atoi(a[2])
	n, _ := strconv.Atoi(a[3])
	out, status := a[4], a[5]
	ck := checks.Get(id)
	if ck == nil {
		fmt.Fprintln(os.Stderr, "no such check", id)
		os.Exit(2)
	}
	c := core.NewCtx(id, tier, seed(), i, n)
	if len(a) > 6 {
		c.Only = a[6]
	}
	if status != "-" {
		f, err := os.Create(status)
		if err == nil {
			c.Status = f
			defer f.Close()
		}
	}
	cap := ck.CapQuick
	if tier == "thorough" {
		cap = ck.CapThorough
	}
	if s := os.Getenv("VERIF_CAP_S"); s != "" {
		if v, err := strconv.Atoi(s); err == nil {
			cap = time.Duration(v) * time.Second
		}
	}
	if cap > 0 && c.Only == "" {
		c.Deadline = time.Now().Add(cap)
	}
	ck.Run(c)
	b, _ := json.Marshal(c.Result())
	if err := os.WriteFile(out, b, 0o644); err != nil {
		fmt.Fprintln(os.Stderr, err)
		os.Exit(2)
	}
}

type shardOut struct {
	res    *core.Result
	err    error
	status string
	stderr string
}

func spawn(id, tier string, i, n int, dir string, only string) shardOut {
	out := filepath.Join(dir, fmt.Sprintf("out-%d.json", i))
	status := filepath.Join(dir, fmt.Sprintf("status-%d", i))
	args := []string{"worker", id, tier, strconv.Itoa(i), strconv.Itoa(n), out, status}
	if only != "" {
		args = append(args, only)
	}
	// a worker that is still running long after its own deadline is stuck inside one case (a call into the library that never returns):
	// it is killed and reported as a crash on the case named in its status file
	limit := 10 * time.Minute
	if ck := checks.Get(id); ck != nil {
		limit = ck.CapQuick
		if tier == "thorough" {
			limit = ck.CapThorough
		}
		limit += 5 * time.Minute
	}
	ctx, cancel := context.WithTimeout(context.Background(), limit)
	defer cancel()
	cmd := exec.CommandContext(ctx, os.Args[0], args...)
	cmd.Env = append(os.Environ(), "GOMAXPROCS=2")
	var eb strings.Builder
	cmd.Stderr = &eb
	cmd.Stdout = &eb
	err := cmd.Run()
	so := shardOut{err: err, stderr: eb.String()}
	if sb, e := os.ReadFile(status); e == nil {
		so.status = string(sb)
	}
	if err == nil {
		b, e := os.ReadFile(out)
		if e != nil {
			so.err = e
			return so
		}
		var r core.Result
		if e := json.Unmarshal(b, &r); e != nil {
			so.err = e
			return so
		}
		so.res = &r
	}
	return so
}

func tail(s string, n int) string {
	if len(s) > n {
		return s[len(s)-n:]
	}
	return s
}

func run(id, tier string) int {
	start := time.Now()
	ck := checks.Get(id)
	if ck == nil {
		fmt.Fprintln(os.Stderr, "no such check", id)
		return 2
	}
	dir, err := os.MkdirTemp("", "vcheck-"+id+"-")
	if err != nil {
		fmt.Fprintln(os.Stderr, err)
		return 2
	}
	defer os.RemoveAll(dir)
	n := ck.Workers
	if n == 0 {
		n = core.NumWorkers()
	}
	outs := make([]shardOut, n)
	var wg sync.WaitGroup
	for i := 0; i < n; i++ {
		wg.Add(1)
		go func(i int) {
			defer wg.Done()
			outs[i] = spawn(id, tier, i, n, dir, "")
		}(i)
	}
	wg.Wait()

	total := core.NewCtx(id, tier, seed(), 0, 1).Result()
	shardOf := map[string]int{} // finding|case -> worker that reported it
	for i, o := range outs {
		if o.res != nil {
			for _, v := range o.res.Violations {
				if _, ok := shardOf[v.Finding+"|"+v.Case]; !ok {
					shardOf[v.Finding+"|"+v.Case] = i
				}
			}
			core.Merge(total, o.res)
			continue
		}
		// worker died: attribute to the case it was running
		f := "worker-crash"
		if o.err != nil && strings.Contains(o.err.Error(), "killed") {
			f = "worker-crash/stuck-in-a-case"
		}
		if strings.Contains(o.stderr, "stack overflow") {
			f = "worker-crash/stack-overflow"
		} else if strings.Contains(o.stderr, "out of memory") {
			f = "worker-crash/out-of-memory"
		}
		total.Violations = append(total.Violations, core.Violation{Finding: f, Case: o.status,
			Detail: fmt.Sprintf("worker %d exited: %v\n%s", i, o.err, tail(o.stderr, 1500))})
		total.ViolCount[f]++
		total.Capped = true
	}

	known, err := core.LoadKnown(filepath.Join(root, "known-findings.json"))
	if err != nil {
		fmt.Fprintln(os.Stderr, "known-findings.json:", err)
		return 2
	}
	// classify
	exit := 0
	seenKnown := map[string]bool{}
	reported := map[string]bool{}
	historyDependent := map[string]int{}
	shardRerun := map[int][]map[string]bool{}
	alsoSeen := 0
	unconfirmed := 0
	nviol := 0
	os.MkdirAll(replayDir(), 0o755)
	var knownSeen []string
	for _, v := range total.Violations {
		if k := core.MatchKnown(known, id, v.Finding); k != nil {
			if !seenKnown[k.Finding] {
				seenKnown[k.Finding] = true
				fmt.Printf("KNOWN-FINDING: property=%s %s [%s] (e.g. case %s)\n", id, k.What, k.Finding, v.Case)
				knownSeen = append(knownSeen, k.Finding)
			}
			continue
		}
		if reported[v.Finding] {
			continue
		}
		reported[v.Finding] = true
		if nviol >= maxConfirmed {
			// enough confirmed violations to fail the run: further distinct findings are listed, not separately confirmed or reported
			alsoSeen++
			fmt.Printf("ALSO-SEEN property=%s finding=%s cases=%d first=%s (not separately confirmed)\n", id, v.Finding, total.ViolCount[v.Finding], v.Case)
			continue
		}
		if strings.Contains(v.Finding, "/harness/") {
			// the harness reporting trouble of its own (a fixture that does not build, a schedule prefix that does not replay): never a
			// property violation; the run cannot be called a pass either
			fmt.Fprintf(os.Stderr, "HARNESS-ERROR: %s (case %q): %s\n", v.Finding, v.Case, tail(v.Detail, 800))
			unconfirmed++
			continue
		}
		if v.Finding == "panic@unknown" {
			// a panic whose stack holds no frame of the library is the harness's own: never reported as a property violation
			fmt.Fprintf(os.Stderr, "HARNESS-ERROR: case %q panicked outside the library:\n%s\n", v.Case, tail(v.Detail, 1500))
			return 2
		}
		// confirm determinism: re-run the single case twice in fresh processes
		if !strings.HasPrefix(v.Finding, "worker-crash") && os.Getenv("VERIF_NO_CONFIRM") == "" {
			ok := 0
			for r := 0; r < 2; r++ {
				o := spawn(id, tier, 0, 1, dir, v.Case)
				if o.res != nil {
					for _, vv := range o.res.Violations {
						if vv.Finding == v.Finding {
							ok++
							break
						}
					}
				} else if o.err != nil {
					ok++ // crashed again
				}
			}
			if ok != 2 {
				// not reproducible in a fresh process on its own: does it reproduce when the worker's whole share of the enumeration is
				// re-run (the library carrying state from earlier calls)? Twice, in fresh processes.
				sh, known := shardOf[v.Finding+"|"+v.Case]
				hist := 0
				if known {
					// one pair of re-runs per worker share, whatever the number of findings that came out of it
					if _, done := shardRerun[sh]; !done {
						for r := 0; r < 2; r++ {
							set := map[string]bool{}
							if o := spawn(id, tier, sh, n, dir, ""); o.res != nil {
								for _, vv := range o.res.Violations {
									set[vv.Finding] = true
								}
							}
							shardRerun[sh] = append(shardRerun[sh], set)
						}
					}
					for _, set := range shardRerun[sh] {
						if set[v.Finding] {
							hist++
						}
					}
				}
				if hist != 2 {
					// not believed and not reported as a violation; the run ends with exit 2 unless a confirmed violation is found as well
					fmt.Fprintf(os.Stderr, "HARNESS-ERROR: case %q finding %q did not reproduce deterministically (alone %d/2, with its worker's history %d/2)\n", v.Case, v.Finding, ok, hist)
					unconfirmed++
					continue
				}
				historyDependent[v.Finding] = sh
			}
		}
		nviol++
		rf := core.ReplayFile{Property: id, Tier: tier, Seed: seed(), Finding: v.Finding, Case: v.Case, Detail: v.Detail, Inputs: v.Inputs,
			How: "cd /verif && ./run.sh replay <this file>"}
		if sh, ok := historyDependent[v.Finding]; ok {
			rf.HistoryDependent, rf.Shard, rf.NShards = true, sh, n
			rf.Detail = "[shows only after the cases that ran before it in the same process: the library carries state between calls; replay re-runs worker " + fmt.Sprint(sh) + " of " + fmt.Sprint(n) + "]\n" + rf.Detail
		}
		p := filepath.Join(replayDir(), fmt.Sprintf("%s-%s.json", id, core.Hash12(v.Finding+"|"+v.Case)))
		b, _ := json.MarshalIndent(rf, "", " ")
		os.WriteFile(p, b, 0o644)
		fmt.Printf("VIOLATION property=%s replay=%s\n", id, p)
		fmt.Printf("  finding=%s cases=%d first=%s\n  %s\n", v.Finding, total.ViolCount[v.Finding], v.Case, strings.ReplaceAll(tail(v.Detail, 1200), "\n", "\n  "))
		exit = 1
	}

	// evidence
	bounds := ""
	if ck.Bounds != nil {
		bounds = ck.Bounds(tier)
	}
	if len(total.Samples) == 0 {
		total.Samples = append(total.Samples, map[string]string{"note": "no sample captured"})
	}
	if len(total.Samples) > 6 {
		total.Samples = total.Samples[:6]
	}
	cov := map[string]interface{}{
		"evaluations":                   total.Evaluations,
		"distinct_nontrivial":           total.NonTrivial,
		"rule":                          ck.Rule,
		"samples":                       total.Samples,
		"states":                        total.Evaluations,
		"transitions":                   total.Transitions,
		"traces_validated_against_impl": total.Validated,
		"exhaustive":                    !total.Capped && total.Skipped == 0,
		"bounds":                        bounds,
		"verdict_counts":                total.Verdicts,
		"distinct_outcomes":             len(total.Outcomes),
		"outcome_counts":                total.Outcomes,
		"groups":                        total.Groups,
		"skipped_by_time_cap":           total.Skipped,
		"known_findings_seen":           knownSeen,
		"violation_classes":             total.ViolCount,
		"workers":                       n,
		"engine":                        ck.Engine,
	}
	for k, v := range total.Notes {
		cov["note_"+k] = v
	}
	if ck.Post != nil {
		ck.Post(total, cov)
	}
	ev := core.Evidence{PropertyID: id, Tier: tier, Seed: seed(), Level: "model_checking", Coverage: cov,
		Assumptions: ck.Assumptions, WallS: time.Since(start).Seconds(), Violations: nviol}
	os.MkdirAll(evidenceDir(), 0o755)
	b, _ := json.MarshalIndent(ev, "", " ")
	if err := os.WriteFile(filepath.Join(evidenceDir(), id+".json"), b, 0o644); err != nil {
		fmt.Fprintln(os.Stderr, err)
		return 2
	}
	fmt.Printf("%s %s: cases=%d nontrivial=%d impl_calls=%d validated=%d outcomes=%d verdicts=%v exhaustive=%v wall=%.1fs violations=%d\n",
		id, tier, total.Evaluations, total.NonTrivial, total.Transitions, total.Validated, len(total.Outcomes), total.Verdicts,
		!total.Capped && total.Skipped == 0, time.Since(start).Seconds(), nviol)
	if exit == 0 && unconfirmed > 0 {
		return 2 // something failed once and could not be reproduced: neither a pass nor a violation
	}
	return exit
}

// maxConfirmed is the number of distinct findings confirmed and reported as VIOLATION lines in one run; the rest are listed as ALSO-SEEN.
const maxConfirmed = 8

func replay(path string) int {
	b, err := os.ReadFile(path)
	if err != nil {
		fmt.Fprintln(os.Stderr, err)
		return 2
	}
	var rf core.ReplayFile
	if err := json.Unmarshal(b, &rf); err != nil {
		fmt.Fprintln(os.Stderr, err)
		return 2
	}
	os.Setenv("VERIF_SEED", strconv.FormatInt(rf.Seed, 10))
	dir, _ := os.MkdirTemp("", "vreplay-")
	defer os.RemoveAll(dir)
	o := spawn(rf.Property, rf.Tier, 0, 1, dir, rf.Case)
	if rf.HistoryDependent && rf.NShards > 0 {
		o = spawn(rf.Property, rf.Tier, rf.Shard, rf.NShards, dir, "")
		if o.res != nil {
			var keep []core.Violation
			for _, v := range o.res.Violations {
				if v.Finding == rf.Finding {
					keep = append(keep, v)
				}
			}
			o.res.Violations = keep
		}
	}
	if o.res == nil {
		fmt.Printf("replay: worker crashed: %v\n%s\n", o.err, tail(o.stderr, 3000))
		fmt.Printf("VIOLATION property=%s replay=%s\n", rf.Property, path)
		return 1
	}
	if o.res.Evaluations == 0 {
		fmt.Printf("replay: case %q not found in the enumeration of %s/%s\n", rf.Case, rf.Property, rf.Tier)
		return 2
	}
	if len(o.res.Violations) == 0 {
		fmt.Printf("replay: case %q passes\n", rf.Case)
		return 0
	}
	for _, v := range o.res.Violations {
		fmt.Printf("replay: finding=%s case=%s\n%s\n", v.Finding, v.Case, v.Detail)
	}
	fmt.Printf("VIOLATION property=%s replay=%s\n", rf.Property, path)
	return 1
}
