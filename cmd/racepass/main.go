// racepass runs the C20 scenario bodies free-running (no scheduler installed,
// real sync) so that the race detector can see unsynchronised accesses.
// Build with: go build -race -o bin/racepass ./cmd/racepass
package main

import (
	"os"
	"strconv"

	"verif/checks"
)

func main() {
	reps := 10
	if len(os.Args) > 1 {
		if v, err := strconv.Atoi(os.Args[1]); err == nil {
			reps = v
		}
	}
	checks.RacePassMain(reps)
}
