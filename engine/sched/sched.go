// Package sched is a cooperative scheduler for stateless exploration of goroutine
// interleavings. Threads are real goroutines; exactly one runs at a time. A
// thread calls Point before every synchronisation or store operation; the
// scheduler decides which thread proceeds. sync.RWMutex / sync.Mutex are
// modelled (reader/writer counts and announced writers) so that no real
// blocking ever happens while a scheduler is installed.
//
// The package imports nothing from the code under test: the shim that replaces
// "sync" in the instrumented package (see overlay/vsync.go.tmpl) calls Hook().
package sched

import (
	"fmt"
	"strings"
	"sync"
	"sync/atomic"
)

// OpKind enumerates scheduling points.
type OpKind int

const (
	OpStart OpKind = iota
	OpRLock
	OpRUnlock
	OpLockAnnounce
	OpLockAcquire
	OpUnlock
	OpMLock
	OpMUnlock
	OpStore // a Store call (always enabled)
	OpYield
)

var opNames = []string{"start", "RLock", "RUnlock", "Lock(announce)", "Lock(acquire)", "Unlock", "Mutex.Lock", "Mutex.Unlock", "store", "yield"}

// lock model
type lockState struct {
	writer  bool
	readers int
	waiting int
	holderW int
	name    string
}

type thread struct {
	id      int
	resume  chan bool // true = go on, false = abort
	pending *op
	done    bool
	steps   int
	held    []string
}

type op struct {
	kind OpKind
	lock interface{}
	desc string
}

// Point is one scheduling decision.
type Point struct {
	Enabled []int // thread ids in canonical order
	Chosen  int   // index into Enabled
	Running int   // thread that was running before the decision (-1 at start)
	Desc    string
}

// Execution is the record of one run.
type Execution struct {
	Points      []Point
	Deadlock    bool
	DeadlockMsg string
	Trace       []string
	Diverged    bool
	Panics      []string
}

// Scheduler drives one execution.
type Scheduler struct {
	mu       sync.Mutex
	threads  []*thread
	locks    map[interface{}]*lockState
	lockSeq  int
	prefix   []int
	exec     *Execution
	yield    chan int // thread id that reached a point or finished
	current  int
	maxSteps int
	aborted  atomic.Bool
}

var (
	hookMu  sync.RWMutex
	current *Scheduler
	// ShimLinked is set by the sync shim's init(): a build without the overlay leaves it false.
	ShimLinked bool
)

// Hook returns the installed scheduler (nil = free running).
func Hook() *Scheduler {
	hookMu.RLock()
	defer hookMu.RUnlock()
	return current
}

func install(s *Scheduler) {
	hookMu.Lock()
	current = s
	hookMu.Unlock()
}

type abortSignal struct{}

// gid -> thread mapping: threads register themselves through a goroutine-local channel handed in at spawn.
// The shim cannot pass a thread handle, so the scheduler tracks "the running thread": only one runs at a time.

// Run executes bodies as threads under the choice prefix (choice 0 afterwards) and returns the execution.
func Run(prefix []int, bodies []func(), maxSteps int) *Execution {
	s := &Scheduler{locks: map[interface{}]*lockState{}, prefix: prefix, exec: &Execution{}, yield: make(chan int), current: -1, maxSteps: maxSteps}
	if s.maxSteps == 0 {
		s.maxSteps = 5000
	}
	install(s)
	defer install(nil)
	var exited sync.WaitGroup
	defer exited.Wait() // aborted threads must finish unwinding before the next execution installs its scheduler
	for i, b := range bodies {
		exited.Add(1)
		t := &thread{id: i, resume: make(chan bool), pending: &op{kind: OpStart, desc: "start"}}
		s.threads = append(s.threads, t)
		go func(t *thread, b func()) {
			defer exited.Done()
			defer func() {
				if r := recover(); r != nil {
					if _, ok := r.(abortSignal); !ok {
						s.mu.Lock()
						s.exec.Panics = append(s.exec.Panics, fmt.Sprintf("thread %d: %v", t.id, r))
						s.mu.Unlock()
					} else {
						return // aborted: do not report back
					}
				}
				t.done = true
				s.yield <- t.id
			}()
			if !<-t.resume {
				panic(abortSignal{})
			}
			b()
		}(t, b)
	}
	s.loop()
	return s.exec
}

func (s *Scheduler) lockOf(l interface{}) *lockState {
	ls, ok := s.locks[l]
	if !ok {
		s.lockSeq++
		ls = &lockState{name: fmt.Sprintf("L%d", s.lockSeq), holderW: -1}
		s.locks[l] = ls
	}
	return ls
}

func (s *Scheduler) enabled(t *thread) bool {
	if t.done || t.pending == nil {
		return false
	}
	o := t.pending
	switch o.kind {
	case OpRLock:
		ls := s.lockOf(o.lock)
		return !ls.writer && ls.waiting == 0
	case OpLockAcquire:
		ls := s.lockOf(o.lock)
		return !ls.writer && ls.readers == 0
	case OpMLock:
		ls := s.lockOf(o.lock)
		return !ls.writer
	}
	return true
}

func (s *Scheduler) grant(t *thread) {
	o := t.pending
	switch o.kind {
	case OpRLock:
		s.lockOf(o.lock).readers++
	case OpRUnlock:
		s.lockOf(o.lock).readers--
	case OpLockAnnounce:
		s.lockOf(o.lock).waiting++
	case OpLockAcquire:
		ls := s.lockOf(o.lock)
		ls.writer, ls.holderW = true, t.id
		ls.waiting--
	case OpUnlock, OpMUnlock:
		ls := s.lockOf(o.lock)
		ls.writer, ls.holderW = false, -1
	case OpMLock:
		ls := s.lockOf(o.lock)
		ls.writer, ls.holderW = true, t.id
	}
}

func (s *Scheduler) describe(t *thread) string {
	o := t.pending
	if o.lock != nil {
		return fmt.Sprintf("T%d:%s(%s)", t.id, opNames[o.kind], s.lockOf(o.lock).name)
	}
	return fmt.Sprintf("T%d:%s", t.id, o.desc)
}

func (s *Scheduler) loop() {
	steps := 0
	for {
		// all threads are parked (pending op set) or done
		alive := 0
		var en []int
		for _, t := range s.threads {
			if !t.done {
				alive++
				if s.enabled(t) {
					en = append(en, t.id)
				}
			}
		}
		if alive == 0 {
			return
		}
		steps++
		if len(en) == 0 || steps > s.maxSteps {
			s.exec.Deadlock = true
			var parts []string
			for _, t := range s.threads {
				if !t.done {
					parts = append(parts, s.describe(t)+" blocked")
				}
			}
			if steps > s.maxSteps {
				parts = append(parts, fmt.Sprintf("step horizon %d exceeded (livelock)", s.maxSteps))
			}
			var ls []string
			for _, l := range s.locks {
				ls = append(ls, fmt.Sprintf("%s{writer=%v readers=%d waitingWriters=%d}", l.name, l.writer, l.readers, l.waiting))
			}
			s.exec.DeadlockMsg = strings.Join(parts, ", ") + " | " + strings.Join(ls, " ")
			s.abortAll()
			return
		}
		// canonical order: the running thread first if still enabled, then ascending ids
		order := en
		for i, id := range en {
			if id == s.current {
				order = append([]int{id}, append(append([]int{}, en[:i]...), en[i+1:]...)...)
				break
			}
		}
		choice := 0
		pi := len(s.exec.Points)
		if pi < len(s.prefix) {
			choice = s.prefix[pi]
			if choice >= len(order) {
				s.exec.Diverged = true
				s.abortAll()
				return
			}
		}
		t := s.threads[order[choice]]
		s.exec.Points = append(s.exec.Points, Point{Enabled: order, Chosen: choice, Running: s.current, Desc: s.describe(t)})
		s.exec.Trace = append(s.exec.Trace, s.describe(t))
		s.grant(t)
		t.pending = nil
		s.current = t.id
		t.resume <- true
		<-s.yield // wait until the thread reaches its next point or finishes
	}
}

func (s *Scheduler) abortAll() {
	s.aborted.Store(true)
	for _, t := range s.threads {
		if !t.done && t.pending != nil {
			t.done = true
			t.resume <- false // every live thread is parked on its resume channel
		}
	}
}

// Point is called by the running thread before an operation; it parks the thread until the scheduler grants the operation.
func (s *Scheduler) Point(kind OpKind, lock interface{}, desc string) {
	if s.aborted.Load() {
		return // unwinding after an abort (deferred unlocks): nothing is scheduled any more
	}
	t := s.threads[s.current]
	t.pending = &op{kind: kind, lock: lock, desc: desc}
	t.steps++
	s.yield <- t.id
	if !<-t.resume {
		panic(abortSignal{})
	}
}

// ---- API used by the sync shim and the store wrapper ----

// RLock etc. are called by the shim when a scheduler is installed.
func (s *Scheduler) RLock(l interface{})   { s.Point(OpRLock, l, "") }
func (s *Scheduler) RUnlock(l interface{}) { s.Point(OpRUnlock, l, "") }
func (s *Scheduler) Lock(l interface{}) {
	s.Point(OpLockAnnounce, l, "")
	s.Point(OpLockAcquire, l, "")
}
func (s *Scheduler) Unlock(l interface{})  { s.Point(OpUnlock, l, "") }
func (s *Scheduler) MLock(l interface{})   { s.Point(OpMLock, l, "") }
func (s *Scheduler) MUnlock(l interface{}) { s.Point(OpMUnlock, l, "") }

// Store marks a store operation boundary.
func (s *Scheduler) Store(desc string) { s.Point(OpStore, nil, desc) }

// Step returns the number of decisions made so far (used to stamp call/return events).
func (s *Scheduler) Step() int { return len(s.exec.Points) }

// ---------- exploration ----------

// Stats of one exploration.
type Stats struct {
	Executions int
	Points     int
	Deadlocks  int
	MaxPoints  int
	Capped     bool
}

// Explore runs every schedule of bodies() with at most bound preemptions (bound < 0: unbounded), calling check on every
// complete execution. mk must return fresh bodies (fresh objects) for every execution. Returns when done or when limit executions ran.
func Explore(mk func() []func(), bound int, limit int, check func(x *Execution, choices []int) bool) Stats {
	var st Stats
	var rec func(prefix []int) bool
	rec = func(prefix []int) bool {
		if limit > 0 && st.Executions >= limit {
			st.Capped = true
			return false
		}
		x := Run(prefix, mk(), 0)
		st.Executions++
		st.Points += len(x.Points)
		if len(x.Points) > st.MaxPoints {
			st.MaxPoints = len(x.Points)
		}
		if x.Deadlock {
			st.Deadlocks++
		}
		choices := make([]int, len(x.Points))
		for i, p := range x.Points {
			choices[i] = p.Chosen
		}
		if !check(x, choices) {
			return false
		}
		// preemptions used before point i
		pre := 0
		preAt := make([]int, len(x.Points)+1)
		for i, p := range x.Points {
			preAt[i] = pre
			if p.Running >= 0 && p.Enabled[p.Chosen] != p.Running && contains(p.Enabled, p.Running) {
				pre++
			}
		}
		for i := len(prefix); i < len(x.Points); i++ {
			p := x.Points[i]
			for alt := 1; alt < len(p.Enabled); alt++ {
				cost := preAt[i]
				if p.Running >= 0 && contains(p.Enabled, p.Running) && p.Enabled[alt] != p.Running {
					cost++
				}
				if bound >= 0 && cost > bound {
					continue
				}
				np := append(append([]int{}, choices[:i]...), alt)
				if !rec(np) {
					return false
				}
			}
		}
		return true
	}
	rec(nil)
	return st
}

func contains(a []int, v int) bool {
	for _, x := range a {
		if x == v {
			return true
		}
	}
	return false
}
