// Package harness wires samlgen documents to the real library: SP/IdP
// construction, pinning of the library's global seams, message assembly.
package harness

import (
	"bytes"
	"crypto/rsa"
	"crypto/sha256"
	"encoding/base64"
	"encoding/binary"
	"fmt"
	"io"
	"net/http"
	"net/url"
	"os"
	"reflect"
	"strings"
	"time"

	"github.com/beevik/etree"
	"github.com/crewjam/saml"
	"github.com/crewjam/saml/xmlenc"
	dsig "github.com/russellhaering/goxmldsig"

	"verif/engine/samlgen"
	"verif/engine/xenc"
)

// CtrReader is a deterministic recording reader (SHA-256 in counter mode).
type CtrReader struct {
	Seed  string
	ctr   uint64
	buf   []byte
	Drawn []byte // everything served so far
	Calls []int  // size of each Read
}

// NewCtr makes a reader.
func NewCtr(seed string) *CtrReader { return &CtrReader{Seed: seed} }

func (r *CtrReader) Read(p []byte) (int, error) {
	for len(r.buf) < len(p) {
		var c [8]byte
		binary.BigEndian.PutUint64(c[:], r.ctr)
		r.ctr++
		h := sha256.Sum256(append([]byte(r.Seed), c[:]...))
		r.buf = append(r.buf, h[:]...)
	}
	n := copy(p, r.buf[:len(p)])
	r.buf = r.buf[n:]
	r.Drawn = append(r.Drawn, p[:n]...)
	r.Calls = append(r.Calls, n)
	return n, nil
}

var _ io.Reader = (*CtrReader)(nil)

// Globals snapshot of the library seams.
type Globals struct {
	timeNow  func() time.Time
	clock    *dsig.Clock
	rr       io.Reader
	xr       io.Reader
	delay    time.Duration
	skew     time.Duration
	restored bool
}

// Pin sets the library clock seams to now and deterministic readers; call Restore afterwards.
func Pin(now time.Time) *Globals {
	g := &Globals{timeNow: saml.TimeNow, clock: saml.Clock, rr: saml.RandReader, xr: xmlenc.RandReader,
		delay: saml.MaxIssueDelay, skew: saml.MaxClockSkew}
	saml.TimeNow = func() time.Time { return now }
	saml.Clock = dsig.NewFakeClockAt(now)
	saml.RandReader = NewCtr("saml")
	xmlenc.RandReader = NewCtr("xmlenc")
	return g
}

// SetNow moves the pinned clock.
func SetNow(now time.Time) {
	saml.TimeNow = func() time.Time { return now }
	saml.Clock = dsig.NewFakeClockAt(now)
}

// Restore puts the seams back.
func (g *Globals) Restore() {
	saml.TimeNow, saml.Clock, saml.RandReader, xmlenc.RandReader = g.timeNow, g.clock, g.rr, g.xr
	saml.MaxIssueDelay, saml.MaxClockSkew = g.delay, g.skew
}

// Layout says which elements carry a signature and whether the assertion is encrypted.
type Layout struct {
	SignResponse  bool
	SignAssertion bool
	Encrypt       bool
}

func (l Layout) String() string {
	s := ""
	if l.SignResponse {
		s += "R"
	}
	if l.SignAssertion {
		s += "A"
	}
	if s == "" {
		s = "none"
	}
	if l.Encrypt {
		s += "+enc"
	}
	return s
}

// EncryptAssertionEl wraps a serialised assertion into saml:EncryptedAssertion for the SP key (harness-side encryptor).
func EncryptAssertionEl(plaintext []byte, sp *samlgen.KeyPair, seed string) *etree.Element {
	pub := sp.Cert.PublicKey.(*rsa.PublicKey)
	ed, err := xenc.Encrypt(xenc.AES128CBC, xenc.KeyTransport{Alg: xenc.OAEPMGF1P, DigestURI: "http://www.w3.org/2000/09/xmldsig#sha1"},
		pub, sp.CertB64, NewCtr("enc"+seed), plaintext)
	if err != nil {
		panic(err)
	}
	ea := etree.NewElement("saml:EncryptedAssertion")
	ea.CreateAttr("xmlns:saml", samlgen.NSAssertion)
	ea.AddChild(ed)
	return ea
}

// BuildResponse assembles, signs and optionally encrypts. Returns the Response element.
func BuildResponse(r *samlgen.Response, as []*samlgen.Assertion, lay Layout, signer *samlgen.KeyPair, spKey *samlgen.KeyPair) *etree.Element {
	rel := r.Element()
	for i, a := range as {
		ael := a.Element()
		rel.AddChild(ael)
		if lay.SignAssertion {
			samlgen.Sign(ael, signer, "")
		}
		if lay.Encrypt {
			rel.RemoveChild(ael)
			rel.AddChild(EncryptAssertionEl(samlgen.Doc(ael), spKey, fmt.Sprint(i)))
		}
	}
	if lay.SignResponse {
		samlgen.Sign(rel, signer, "")
	}
	return rel
}

// SPOpt configures a ServiceProvider under test.
type SPOpt struct {
	Trust         string // meta1 (default), meta2 (two signing + distinct encryption cert), pinned, fingerprint
	NoEntityID    bool
	SPKey         string // key fixture name, default sp2048
	AllowIDPInit  bool
	SignMethod    string
	IDPSSOURL     string
	IDPSLOURL     string
	LogoutBinding []string
}

func keyDesc(use, certB64 string) saml.KeyDescriptor {
	return saml.KeyDescriptor{Use: use, KeyInfo: saml.KeyInfo{X509Data: saml.X509Data{X509Certificates: []saml.X509Certificate{{Data: certB64}}}}}
}

// MustURL parses a URL.
func MustURL(s string) url.URL {
	u, err := url.Parse(s)
	if err != nil {
		panic(err)
	}
	return *u
}

// IDPMetadata builds harness IdP metadata for a trust configuration.
func IDPMetadata(trust, sso, slo string) *saml.EntityDescriptor {
	if sso == "" {
		sso = samlgen.IDPSSO
	}
	if slo == "" {
		slo = samlgen.IDPSLO
	}
	var kds []saml.KeyDescriptor
	switch trust {
	case "meta2":
		kds = []saml.KeyDescriptor{keyDesc("signing", samlgen.Key("idp2").CertB64), keyDesc("encryption", samlgen.Key("idpenc").CertB64), keyDesc("signing", samlgen.Key("idp1").CertB64)}
	case "metaenconly": // no signing key published at all: nothing is trusted
		kds = []saml.KeyDescriptor{keyDesc("encryption", samlgen.Key("idpenc").CertB64)}
	case "metaemptysign": // an empty signing descriptor next to an encryption one: nothing is trusted
		kds = []saml.KeyDescriptor{keyDesc("signing", ""), keyDesc("encryption", samlgen.Key("idpenc").CertB64)}
	case "metanouse":
		kds = []saml.KeyDescriptor{keyDesc("", samlgen.Key("idp1").CertB64), keyDesc("encryption", samlgen.Key("idpenc").CertB64)}
	default:
		kds = []saml.KeyDescriptor{keyDesc("signing", samlgen.Key("idp1").CertB64), keyDesc("encryption", samlgen.Key("idpenc").CertB64)}
	}
	if list, ok := strings.CutPrefix(trust, "metacerts:"); ok { // "metacerts:idp1,idpnext": one signing descriptor per named fixture, in that order
		kds = nil
		for _, n := range strings.Split(list, ",") {
			kds = append(kds, keyDesc("signing", samlgen.Key(n).CertB64))
		}
		kds = append(kds, keyDesc("encryption", samlgen.Key("idpenc").CertB64))
	}
	return &saml.EntityDescriptor{
		EntityID: samlgen.IDPEntity,
		IDPSSODescriptors: []saml.IDPSSODescriptor{{
			SSODescriptor: saml.SSODescriptor{
				RoleDescriptor: saml.RoleDescriptor{
					ProtocolSupportEnumeration: "urn:oasis:names:tc:SAML:2.0:protocol",
					KeyDescriptors:             kds,
				},
				SingleLogoutServices: []saml.Endpoint{
					{Binding: saml.HTTPRedirectBinding, Location: slo},
					{Binding: saml.HTTPPostBinding, Location: slo},
				},
				ArtifactResolutionServices: []saml.IndexedEndpoint{{Binding: saml.SOAPBinding, Location: samlgen.IDPArt, Index: 0}},
			},
			SingleSignOnServices: []saml.Endpoint{
				{Binding: saml.HTTPRedirectBinding, Location: sso},
				{Binding: saml.HTTPPostBinding, Location: sso},
			},
		}},
	}
}

// Fingerprint formats a SHA-256 certificate fingerprint as the library expects.
func Fingerprint(kp *samlgen.KeyPair) string {
	h := sha256.Sum256(kp.Cert.Raw)
	var parts []string
	for _, b := range h {
		parts = append(parts, fmt.Sprintf("%02X", b))
	}
	return strings.Join(parts, ":")
}

// NewSP builds the SP under test.
func NewSP(o SPOpt) *saml.ServiceProvider {
	kn := o.SPKey
	if kn == "" {
		kn = "sp2048"
	}
	kp := samlgen.Key(kn)
	sp := &saml.ServiceProvider{
		EntityID:          samlgen.SPEntity,
		Key:               kp.Key,
		Certificate:       kp.Cert,
		MetadataURL:       MustURL(samlgen.SPMetaURL),
		AcsURL:            MustURL(samlgen.SPAcs),
		SloURL:            MustURL(samlgen.SPSlo),
		IDPMetadata:       IDPMetadata(o.Trust, o.IDPSSOURL, o.IDPSLOURL),
		AllowIDPInitiated: o.AllowIDPInit,
		SignatureMethod:   o.SignMethod,
		LogoutBindings:    o.LogoutBinding,
	}
	if o.NoEntityID {
		sp.EntityID = ""
	}
	switch o.Trust {
	case "pinned":
		c := samlgen.Key("idp1").CertB64
		sp.IDPCertificate = &c
	case "fingerprint":
		fp := Fingerprint(samlgen.Key("idp1"))
		alg := "http://www.w3.org/2001/04/xmlenc#sha256"
		sp.IDPCertificateFingerprint = &fp
		sp.IDPCertificateFingerprintAlgorithm = &alg
	}
	if v, ok := strings.CutPrefix(o.Trust, "fingerprint-spelt:"); ok {
		// fingerprint trust whose configured value is idp1's fingerprint written some other way (or not a fingerprint at all)
		fp := Fingerprint(samlgen.Key("idp1"))
		raw := sha256.Sum256(samlgen.Key("idp1").Cert.Raw)
		switch v {
		case "openssl-line":
			fp = "SHA256 Fingerprint=" + fp
		case "algorithm-prefix":
			fp = "SHA256:" + fp
		case "0x-prefix":
			fp = "0x" + strings.ReplaceAll(fp, ":", "")
		case "base64":
			fp = base64.StdEncoding.EncodeToString(raw[:])
		case "empty":
			fp = ""
		case "first-8-octets":
			fp = fp[:23]
		case "not-hex":
			fp = "zz:zz"
		case "lower-case":
			fp = strings.ToLower(fp)
		case "no-colons":
			fp = strings.ReplaceAll(fp, ":", "")
		case "blank-padded":
			fp = " " + fp + "\n"
		case "one-colon":
			fp = ":"
		}
		alg := "http://www.w3.org/2001/04/xmlenc#sha256"
		sp.IDPCertificateFingerprint = &fp
		sp.IDPCertificateFingerprintAlgorithm = &alg
	}
	return sp
}

// SoapEnvelope wraps an ArtifactResponse element.
func SoapEnvelope(inner *etree.Element) *etree.Element {
	env := etree.NewElement("soap:Envelope")
	env.CreateAttr("xmlns:soap", samlgen.NSSoap)
	body := env.CreateElement("soap:Body")
	body.AddChild(inner)
	return env
}

// ArtifactResponseEl builds samlp:ArtifactResponse around a Response element.
func ArtifactResponseEl(id, inResponseTo, issueInstant string, issuer *string, status string, resp *etree.Element) *etree.Element {
	ar := etree.NewElement("samlp:ArtifactResponse")
	ar.CreateAttr("xmlns:samlp", samlgen.NSProtocol)
	ar.CreateAttr("xmlns:saml", samlgen.NSAssertion)
	ar.CreateAttr("ID", id)
	ar.CreateAttr("Version", "2.0")
	if inResponseTo != "\x00absent" {
		ar.CreateAttr("InResponseTo", inResponseTo)
	}
	ar.CreateAttr("IssueInstant", issueInstant)
	if issuer != nil {
		ar.CreateElement("saml:Issuer").SetText(*issuer)
	}
	ar.CreateElement("samlp:Status").CreateElement("samlp:StatusCode").CreateAttr("Value", status)
	if resp != nil {
		ar.AddChild(resp)
	}
	return ar
}

// ErrClass reduces an error from the response-parsing API to a short class.
func ErrClass(err error) string {
	if err == nil {
		return "accept"
	}
	if ire, ok := err.(*saml.InvalidResponseError); ok {
		if ire.PrivateErr == nil {
			return "reject:nil-private"
		}
		m := ire.PrivateErr.Error()
		if _, ok := ire.PrivateErr.(saml.ErrBadStatus); ok {
			return "reject:bad-status"
		}
		if len(m) > 40 {
			m = m[:40]
		}
		// strip variable parts
		m = strings.Map(func(r rune) rune {
			if r >= '0' && r <= '9' {
				return -1
			}
			return r
		}, m)
		return "reject:" + m
	}
	return "reject-other:" + fmt.Sprintf("%T", err)
}

// Equal compares byte slices.
func Equal(a, b []byte) bool { return bytes.Equal(a, b) }

// ---------- IdP under test ----------

// SPRegistry is a map-backed ServiceProviderProvider.
type SPRegistry map[string]*saml.EntityDescriptor

// GetServiceProvider implements saml.ServiceProviderProvider.
func (r SPRegistry) GetServiceProvider(_ *http.Request, id string) (*saml.EntityDescriptor, error) {
	if md, ok := r[id]; ok {
		return md, nil
	}
	return nil, os.ErrNotExist
}

// FixedSession is a SessionProvider that always returns S (nil: writes a 401 and returns nil).
type FixedSession struct{ S *saml.Session }

// GetSession implements saml.SessionProvider.
func (f FixedSession) GetSession(w http.ResponseWriter, _ *http.Request, _ *saml.IdpAuthnRequest) *saml.Session {
	if f.S == nil {
		http.Error(w, "no session", http.StatusUnauthorized)
		return nil
	}
	return f.S
}

// NullLogger discards.
type NullLogger struct{}

func (NullLogger) Printf(string, ...interface{}) {}
func (NullLogger) Print(...interface{})          {}
func (NullLogger) Println(...interface{})        {}
func (NullLogger) Fatal(...interface{})          {}
func (NullLogger) Fatalf(string, ...interface{}) {}
func (NullLogger) Fatalln(...interface{})        {}
func (NullLogger) Panic(...interface{})          {}
func (NullLogger) Panicf(string, ...interface{}) {}
func (NullLogger) Panicln(...interface{})        {}

// NewIDP builds the IdP under test with key fixture kn.
func NewIDP(kn string, reg SPRegistry, sess *saml.Session) *saml.IdentityProvider {
	kp := samlgen.Key(kn)
	return &saml.IdentityProvider{
		Key:                     kp.Key,
		Certificate:             kp.Cert,
		Logger:                  NullLogger{},
		MetadataURL:             MustURL(samlgen.IDPEntity),
		SSOURL:                  MustURL(samlgen.IDPSSO),
		LogoutURL:               MustURL(samlgen.IDPSLO),
		ServiceProviderProvider: reg,
		SessionProvider:         FixedSession{S: sess},
	}
}

// longLivedIDP is ONE IdentityProvider value per process that the IdP-side checks reconfigure from case to case instead of building a
// fresh one: every exported field is overwritten with the case's configuration, anything else the value may hold (state the library
// carries between requests) stays. On a library without such state this is indistinguishable from a fresh value; with it, the
// enumeration order of the worker becomes one long reconfiguration history.
var longLivedIDP saml.IdentityProvider

// ReuseIDP reconfigures and returns the process's long-lived IdentityProvider.
func ReuseIDP(kn string, reg SPRegistry, sess *saml.Session) *saml.IdentityProvider {
	fresh := NewIDP(kn, reg, sess)
	dst, src := reflect.ValueOf(&longLivedIDP).Elem(), reflect.ValueOf(fresh).Elem()
	for i := 0; i < dst.NumField(); i++ {
		if dst.Type().Field(i).IsExported() {
			dst.Field(i).Set(src.Field(i))
		}
	}
	return &longLivedIDP
}
