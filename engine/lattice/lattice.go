// Package lattice enumerates deviation-bounded products: every assignment of
// the fields in which the summed deviation weight of the non-default values is
// at most k. Value index 0 is the default of each field.
package lattice

// Field is one dimension.
type Field struct {
	Name   string
	N      int             // number of values, index 0 = default
	Weight func(i int) int // deviation weight of value i (nil: 0 for i==0 else 1)
	Label  func(i int) string
}

func (f *Field) weight(i int) int {
	if f.Weight != nil {
		return f.Weight(i)
	}
	if i == 0 {
		return 0
	}
	return 1
}

// Enumerate calls fn for every point with total deviation <= k (k < 0: full product).
// The idx slice is reused between calls.
func Enumerate(fields []Field, k int, fn func(idx []int, dev int)) {
	idx := make([]int, len(fields))
	var rec func(pos, used int)
	rec = func(pos, used int) {
		if pos == len(fields) {
			fn(idx, used)
			return
		}
		f := &fields[pos]
		for i := 0; i < f.N; i++ {
			w := f.weight(i)
			if k >= 0 && used+w > k {
				continue
			}
			idx[pos] = i
			rec(pos+1, used+w)
		}
		idx[pos] = 0
	}
	rec(0, 0)
}

// Count returns the number of points Enumerate would visit.
func Count(fields []Field, k int) int {
	n := 0
	Enumerate(fields, k, func([]int, int) { n++ })
	return n
}
