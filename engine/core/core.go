// Package core is the case runner shared by all checks: deterministic
// enumeration, sharding across OS processes, panic capture, verdict
// bookkeeping, known-finding matching, replay artefacts and evidence.
package core

import (
	"crypto/sha256"
	"encoding/hex"
	"encoding/json"
	"fmt"
	"os"
	"path"
	"regexp"
	"runtime"
	"runtime/debug"
	"sort"
	"strings"
	"time"
)

// Verdict of a reference model for one case.
type Verdict int

const (
	DontCare Verdict = iota
	MustAccept
	MustReject
)

func (v Verdict) String() string {
	switch v {
	case MustAccept:
		return "MUST_ACCEPT"
	case MustReject:
		return "MUST_REJECT"
	}
	return "DONT_CARE"
}

// Violation is one failing case.
type Violation struct {
	Finding string            `json:"finding"` // finding key (class of failure), stable across runs
	Case    string            `json:"case"`    // unique case key
	Detail  string            `json:"detail"`
	Inputs  map[string]string `json:"inputs,omitempty"`
}

// T is handed to a case body.
type T struct {
	c          *Ctx
	key        string
	viol       []Violation
	inputs     map[string]string
	nontrivial bool
	modelled   bool
	outcome    string
	impl       int
	extra      int
	sample     interface{}
}

// Evals records that this case body evaluated n distinct points (block cases that
// sweep a dense range report the true number of points instead of 1).
func (t *T) Evals(n int) { t.extra += n }

// Impl counts n calls into the implementation (transitions).
func (t *T) Impl(n int) { t.impl += n }

// NonTrivial marks the case as non-trivial by the check's rule.
func (t *T) NonTrivial() { t.nontrivial = true }

// Modelled records that the implementation's outcome was compared with a
// reference-model verdict (v != DontCare counts as validated).
func (t *T) Modelled(v Verdict) {
	t.c.res.Verdicts[v.String()]++
	if v != DontCare {
		t.modelled = true
	}
}

// Compared records that an oracle comparison was made for this case.
func (t *T) Compared() { t.modelled = true }

// Outcome records an observed outcome class (for the distinct-outcome count).
func (t *T) Outcome(o string) { t.outcome = o }

// Input attaches replay data (kept only for violating / sampled cases).
func (t *T) Input(name, val string) {
	if t.inputs == nil {
		t.inputs = map[string]string{}
	}
	if len(val) > 20000 {
		val = val[:20000] + "...[truncated]"
	}
	t.inputs[name] = val
}

// Sample sets the value written to evidence if this case is sampled.
func (t *T) Sample(v interface{}) { t.sample = v }

// Fail records a violation with a finding key.
func (t *T) Fail(finding, format string, a ...interface{}) {
	t.viol = append(t.viol, Violation{Finding: finding, Case: t.key, Detail: fmt.Sprintf(format, a...)})
}

// Failed reports whether the case has failed so far.
func (t *T) Failed() bool { return len(t.viol) > 0 }

// Result is what a worker reports.
type Result struct {
	Evaluations int                    `json:"evaluations"`
	NonTrivial  int                    `json:"nontrivial"`
	Transitions int                    `json:"transitions"`
	Validated   int                    `json:"validated"`
	Verdicts    map[string]int         `json:"verdicts"`
	Outcomes    map[string]int         `json:"outcomes"`
	Violations  []Violation            `json:"violations"`
	ViolCount   map[string]int         `json:"viol_count"`
	Samples     []interface{}          `json:"samples"`
	Capped      bool                   `json:"capped"`
	Skipped     int                    `json:"skipped"`
	Notes       map[string]interface{} `json:"notes"`
	Groups      map[string]int         `json:"groups"`
}

// Ctx drives enumeration in one process.
type Ctx struct {
	Prop     string
	Tier     string
	Seed     int64
	Shard    int
	NShards  int
	Only     string // run only this case key (replay)
	Deadline time.Time
	Status   *os.File
	n        int
	chk      int
	res      Result
	group    string
	stop     bool
	aff      int
	useAff   bool
	ncases   int
}

// Affinity makes subsequent cases be assigned to shards by i instead of by the
// running case index (so that cases sharing expensive inputs land in the same
// worker and hit its caches). Affinity(-1) returns to the default.
func (c *Ctx) Affinity(i int) {
	c.useAff = i >= 0
	c.aff = i
}

// NewCtx makes a context.
func NewCtx(prop, tier string, seed int64, shard, nshards int) *Ctx {
	return &Ctx{Prop: prop, Tier: tier, Seed: seed, Shard: shard, NShards: nshards,
		res: Result{Verdicts: map[string]int{}, Outcomes: map[string]int{}, ViolCount: map[string]int{},
			Notes: map[string]interface{}{}, Groups: map[string]int{}}}
}

// Thorough reports tier == thorough.
func (c *Ctx) Thorough() bool { return c.Tier == "thorough" }

// Group names the sub-space subsequent cases belong to (reported in evidence).
func (c *Ctx) Group(g string) { c.group = g }

// Note stores a free-form measurement in the evidence (last writer wins across shards unless numeric, which is summed).
func (c *Ctx) Note(k string, v interface{}) { c.res.Notes[k] = v }

// Mine reports whether the next case index belongs to this shard (without consuming it).
func (c *Ctx) capped() bool {
	if c.stop {
		return true
	}
	// (counted in this worker's OWN cases: with cases dealt out by index, c.n at a worker's own cases is always congruent to its shard
	// number, so "every 64th value of c.n" was reached by one worker in sixteen only)
	c.chk++
	if !c.Deadline.IsZero() && c.chk%64 == 0 && time.Now().After(c.Deadline) {
		c.stop = true
		c.res.Capped = true
	}
	return c.stop
}

// Stopped reports whether this worker has already stopped taking cases (deadline passed): an enumeration over a very large product can
// skip the work of naming the remaining cases.
func (c *Ctx) Stopped() bool { return c.stop }

// TimeUp reports whether the worker's deadline has passed; a long-running case that sees it stops exploring, and the run is marked as
// capped (exhaustive: false) - it is not a failure.
func (c *Ctx) TimeUp() bool {
	if !c.Deadline.IsZero() && time.Now().After(c.Deadline) {
		c.stop = true
		c.res.Capped = true
		return true
	}
	return false
}

var funcRe = regexp.MustCompile(`(?m)^(github\.com/crewjam/saml[^\s(]*)\.([A-Za-z0-9_.()*]+)\(`)

// PanicSite extracts the innermost in-repo function from a stack trace.
func PanicSite(stack string) string {
	// skip frames up to the panic call
	idx := strings.Index(stack, "panic(")
	if idx >= 0 {
		stack = stack[idx:]
	}
	m := funcRe.FindStringSubmatch(stack)
	if m == nil {
		return "unknown"
	}
	f := m[2]
	f = strings.NewReplacer("(*", "", ")", "").Replace(f)
	pk := m[1][strings.LastIndex(m[1], "/")+1:]
	return pk + "." + f
}

// Case runs one case if it belongs to this shard.
func (c *Ctx) Case(key string, fn func(t *T)) {
	idx := c.n
	c.n++
	if c.Only != "" {
		if key != c.Only {
			return
		}
	} else {
		sel := idx
		if c.useAff {
			sel = c.aff
		}
		if sel%c.NShards != c.Shard {
			return
		}
		if c.capped() {
			c.res.Skipped++
			return
		}
	}
	if c.Status != nil {
		c.Status.Truncate(0)
		c.Status.WriteAt([]byte(key), 0)
	}
	t := &T{c: c, key: key}
	func() {
		defer func() {
			if r := recover(); r != nil {
				st := string(debug.Stack())
				site := PanicSite(st)
				t.Fail("panic@"+site, "panic: %v\n%s", r, trimStack(st))
			}
		}()
		fn(t)
	}()
	c.res.Evaluations++
	c.res.Groups[c.group]++
	if t.extra > 1 {
		c.res.Evaluations += t.extra - 1
		c.res.Groups[c.group] += t.extra - 1
		if t.nontrivial {
			c.res.NonTrivial += t.extra - 1
		}
		if t.modelled {
			c.res.Validated += t.extra - 1
		}
	}
	c.res.Transitions += t.impl
	if t.nontrivial {
		c.res.NonTrivial++
	}
	if t.modelled {
		c.res.Validated++
	}
	if t.outcome != "" {
		c.res.Outcomes[t.outcome]++
	}
	for _, v := range t.viol {
		v.Inputs = t.inputs
		c.res.ViolCount[v.Finding]++
		if c.res.ViolCount[v.Finding] <= 3 {
			c.res.Violations = append(c.res.Violations, v)
		}
	}
	c.ncases++
	if len(c.res.Samples) < 4 && (c.ncases%97 == 1 || (t.sample != nil && t.extra > 1)) {
		s := t.sample
		if s == nil {
			s = map[string]interface{}{"case": key, "outcome": t.outcome}
		}
		c.res.Samples = append(c.res.Samples, s)
	}
}

func trimStack(s string) string {
	lines := strings.Split(s, "\n")
	var out []string
	for _, l := range lines {
		if strings.Contains(l, "crewjam/saml") || strings.Contains(l, "panic") {
			out = append(out, strings.TrimSpace(l))
		}
		if len(out) > 14 {
			break
		}
	}
	return strings.Join(out, "\n")
}

// Result returns the worker's result.
func (c *Ctx) Result() *Result { return &c.res }

// Merge adds b into a.
func Merge(a, b *Result) {
	a.Evaluations += b.Evaluations
	a.NonTrivial += b.NonTrivial
	a.Transitions += b.Transitions
	a.Validated += b.Validated
	a.Skipped += b.Skipped
	a.Capped = a.Capped || b.Capped
	for k, v := range b.Verdicts {
		a.Verdicts[k] += v
	}
	for k, v := range b.Outcomes {
		a.Outcomes[k] += v
	}
	for k, v := range b.Groups {
		a.Groups[k] += v
	}
	for k, v := range b.ViolCount {
		a.ViolCount[k] += v
	}
	for k, v := range b.Notes {
		if fv, ok := v.(float64); ok {
			if av, ok := a.Notes[k].(float64); ok {
				a.Notes[k] = av + fv
				continue
			}
		}
		a.Notes[k] = v
	}
	a.Violations = append(a.Violations, b.Violations...)
	if len(a.Samples) < 6 {
		a.Samples = append(a.Samples, b.Samples...)
	}
}

// KnownFinding is one entry of known-findings.json.
type KnownFinding struct {
	Property string `json:"property"`
	Finding  string `json:"finding"` // exact finding key or prefix ending in '*'
	Status   string `json:"status"`  // "known" or "fixed"
	What     string `json:"what"`
	Commit   string `json:"commit,omitempty"`
}

// LoadKnown reads known-findings.json.
func LoadKnown(path string) ([]KnownFinding, error) {
	b, err := os.ReadFile(path)
	if err != nil {
		if os.IsNotExist(err) {
			return nil, nil
		}
		return nil, err
	}
	var f struct {
		Findings []KnownFinding `json:"findings"`
	}
	if err := json.Unmarshal(b, &f); err != nil {
		return nil, err
	}
	return f.Findings, nil
}

// MatchKnown returns the known (status=known) entry matching a violation.
func MatchKnown(known []KnownFinding, prop, finding string) *KnownFinding {
	for i := range known {
		k := &known[i]
		if k.Property != prop || k.Status != "known" {
			continue
		}
		if k.Finding == finding {
			return k
		}
		if strings.Contains(k.Finding, "*") {
			if ok, _ := path.Match(k.Finding, finding); ok {
				return k
			}
		}
	}
	return nil
}

// ReplayFile is the artefact written for each violation.
type ReplayFile struct {
	Property string            `json:"property"`
	Tier     string            `json:"tier"`
	Seed     int64             `json:"seed"`
	Finding  string            `json:"finding"`
	Case     string            `json:"case"`
	Detail   string            `json:"detail"`
	Inputs   map[string]string `json:"inputs,omitempty"`
	How      string            `json:"how_to_replay"`
	// a violation that shows only after the cases that ran before it in the same worker process (state the library carries between
	// calls): the replay re-runs that worker's whole share of the enumeration
	HistoryDependent bool `json:"history_dependent,omitempty"`
	Shard            int  `json:"shard,omitempty"`
	NShards          int  `json:"nshards,omitempty"`
}

// Hash12 is a short stable hash.
func Hash12(s string) string {
	h := sha256.Sum256([]byte(s))
	return hex.EncodeToString(h[:])[:12]
}

// Evidence mirrors EVIDENCE.schema.json.
type Evidence struct {
	PropertyID  string                 `json:"property_id"`
	Tier        string                 `json:"tier"`
	Seed        int64                  `json:"seed"`
	Level       string                 `json:"level"`
	Coverage    map[string]interface{} `json:"coverage"`
	Assumptions []string               `json:"assumptions"`
	WallS       float64                `json:"wall_s"`
	Violations  int                    `json:"violations"`
}

// SortedKeys returns sorted map keys.
func SortedKeys(m map[string]int) []string {
	var ks []string
	for k := range m {
		ks = append(ks, k)
	}
	sort.Strings(ks)
	return ks
}

// NumWorkers picks the worker count.
func NumWorkers() int {
	n := runtime.NumCPU()
	if s := os.Getenv("VERIF_WORKERS"); s != "" {
		fmt.Sscanf(s, "%d", &n)
	}
	if n < 1 {
		n = 1
	}
	return n
}
