// Package htmlform is an independent decoder of the auto-submit HTML forms
// the library emits (HTML5 tokenizer from golang.org/x/net/html).
package htmlform

import (
	"bytes"
	"io"

	"golang.org/x/net/html"
)

// Tag is one start tag with its attributes in source order.
type Tag struct {
	Name  string
	Attrs [][2]string
}

// Attr returns the first attribute named k.
func (t Tag) Attr(k string) (string, bool) {
	for _, a := range t.Attrs {
		if a[0] == k {
			return a[1], true
		}
	}
	return "", false
}

// Form is the decoded document.
type Form struct {
	Tags    []Tag             // every start / self-closing tag in order
	Scripts []string          // text content of each script element
	Text    []string          // non-whitespace text outside scripts
	Action  string            // action of the first form
	Fields  map[string]string // name -> value of inputs
	NForms  int
	Dup     []string // input names seen more than once
}

// Parse tokenises doc.
func Parse(doc []byte) (*Form, error) {
	z := html.NewTokenizer(bytes.NewReader(doc))
	f := &Form{Fields: map[string]string{}}
	inScript := false
	for {
		tt := z.Next()
		switch tt {
		case html.ErrorToken:
			if z.Err() == io.EOF {
				return f, nil
			}
			return f, z.Err()
		case html.StartTagToken, html.SelfClosingTagToken:
			tok := z.Token()
			tg := Tag{Name: tok.Data}
			for _, a := range tok.Attr {
				tg.Attrs = append(tg.Attrs, [2]string{a.Key, a.Val})
			}
			f.Tags = append(f.Tags, tg)
			switch tok.Data {
			case "form":
				f.NForms++
				if f.NForms == 1 {
					f.Action, _ = tg.Attr("action")
				}
			case "input":
				if n, ok := tg.Attr("name"); ok {
					if _, dup := f.Fields[n]; dup {
						f.Dup = append(f.Dup, n)
					}
					f.Fields[n], _ = tg.Attr("value")
				}
			case "script":
				if tt == html.StartTagToken {
					inScript = true
					f.Scripts = append(f.Scripts, "")
				}
			}
		case html.EndTagToken:
			if z.Token().Data == "script" {
				inScript = false
			}
		case html.TextToken:
			txt := string(z.Text())
			if inScript && len(f.Scripts) > 0 {
				f.Scripts[len(f.Scripts)-1] += txt
			} else if len(bytes.TrimSpace([]byte(txt))) > 0 {
				f.Text = append(f.Text, txt)
			}
		}
	}
}
