// Package samlgen is the harness-side "IdP": it builds SAML messages as etree
// documents from small specs, signs them with keys the harness owns (through
// goxmldsig, independently of the library's own IdP code) and encrypts them.
package samlgen

import (
	"crypto"
	"crypto/x509"
	"encoding/base64"
	"encoding/pem"
	"fmt"
	"os"
	"sync"
	"time"

	"github.com/beevik/etree"
	dsig "github.com/russellhaering/goxmldsig"
)

// KeysDir holds the committed PEM fixtures.
var KeysDir = "/verif/keys"

// KeyPair is a private key with its self-signed certificate.
type KeyPair struct {
	Name    string
	Key     crypto.Signer
	Cert    *x509.Certificate
	CertB64 string
}

var (
	keyMu    sync.Mutex
	keyCache = map[string]*KeyPair{}
)

// Key loads /verif/keys/<name>.{key,crt}.
func Key(name string) *KeyPair {
	keyMu.Lock()
	defer keyMu.Unlock()
	if k, ok := keyCache[name]; ok {
		return k
	}
	kb, err := os.ReadFile(KeysDir + "/" + name + ".key")
	if err != nil {
		panic(err)
	}
	cb, err := os.ReadFile(KeysDir + "/" + name + ".crt")
	if err != nil {
		panic(err)
	}
	kblk, _ := pem.Decode(kb)
	cblk, _ := pem.Decode(cb)
	pk, err := x509.ParsePKCS8PrivateKey(kblk.Bytes)
	if err != nil {
		panic(err)
	}
	cert, err := x509.ParseCertificate(cblk.Bytes)
	if err != nil {
		panic(err)
	}
	k := &KeyPair{Name: name, Key: pk.(crypto.Signer), Cert: cert, CertB64: base64.StdEncoding.EncodeToString(cert.Raw)}
	keyCache[name] = k
	return k
}

// Well-known world constants.
const (
	IDPEntity = "https://idp.example.com/saml/metadata"
	IDPSSO    = "https://idp.example.com/saml/sso"
	IDPSLO    = "https://idp.example.com/saml/slo"
	IDPArt    = "https://idp.example.com/saml/artifact"
	SPEntity  = "https://sp.example.com/entity"
	SPMetaURL = "https://sp.example.com/saml/metadata"
	SPAcs     = "https://sp.example.com/saml/acs"
	SPSlo     = "https://sp.example.com/saml/slo"
	ReqID     = "id-req-0123456789abcdef"

	NSAssertion = "urn:oasis:names:tc:SAML:2.0:assertion"
	NSProtocol  = "urn:oasis:names:tc:SAML:2.0:protocol"
	NSDsig      = "http://www.w3.org/2000/09/xmldsig#"
	NSSoap      = "http://schemas.xmlsoap.org/soap/envelope/"
	StatusOK    = "urn:oasis:names:tc:SAML:2.0:status:Success"
)

// T0 is the pinned "now" used by most checks.
var T0 = time.Date(2030, 6, 15, 12, 0, 0, 0, time.UTC)

// TS formats an instant the way IdPs do (ms, Z).
func TS(t time.Time) string { return t.UTC().Format("2006-01-02T15:04:05.000Z") }

// S returns a pointer to s (optional field present).
func S(s string) *string { return &s }

// Confirmation is one SubjectConfirmation.
type Confirmation struct {
	NoData       bool // omit SubjectConfirmationData entirely
	InResponseTo *string
	Recipient    *string
	NotOnOrAfter *string
	Method       string
	NotBefore    *string // optional lower bound of the confirmation's own window
	Address      *string
}

// Attr is one attribute.
type Attr struct {
	Name, FriendlyName, NameFormat string
	NoName                         bool
	Values                         []string
	NoValues                       bool
}

// Assertion spec; pointer fields nil = absent.
type Assertion struct {
	ID            string
	NoID          bool
	Version       *string
	IssueInstant  *string
	Issuer        *string
	IssuerFormat  *string // nil = the entity format; "" = no Format attribute
	NoSubject     bool
	NameID        *string
	Confirmations []Confirmation
	NoConditions  bool
	NotBefore     *string
	NotOnOrAfter  *string
	// Audiences: one AudienceRestriction per inner slice.
	Audiences [][]string
	// ProxyRestriction (when HasProxy): Count attribute (nil = absent) and the audiences it lists; OneTimeUse adds that condition.
	HasProxy       bool
	ProxyCount     *string
	ProxyAudiences []string
	OneTimeUse     bool
	NoAuthn        bool
	NoAuthnCtx     bool
	SessionIdx     string
	NoAttrStmt     bool
	Attrs          []Attr
	ExtraAttrSt    [][]Attr // further AttributeStatements
}

// Response spec.
type Response struct {
	ID           string
	Version      *string
	InResponseTo *string
	IssueInstant *string
	Destination  *string
	Issuer       *string
	IssuerFormat *string // nil = the entity format; "" = no Format attribute
	NoStatus     bool
	NoStatusCode bool
	StatusCode   *string // nil = attribute absent
	SubStatus    string  // nested StatusCode value
}

// DefaultAssertion is a fully valid assertion for alice at T0.
func DefaultAssertion() *Assertion {
	return &Assertion{
		ID:           "id-assertion-1",
		Version:      S("2.0"),
		IssueInstant: S(TS(T0)),
		Issuer:       S(IDPEntity),
		NameID:       S("alice@example.com"),
		Confirmations: []Confirmation{{
			InResponseTo: S(ReqID), Recipient: S(SPAcs), NotOnOrAfter: S(TS(T0.Add(5 * time.Minute))),
		}},
		NotBefore:    S(TS(T0.Add(-time.Minute))),
		NotOnOrAfter: S(TS(T0.Add(5 * time.Minute))),
		Audiences:    [][]string{{SPEntity}},
		SessionIdx:   "sess-idx-1",
		Attrs: []Attr{
			{Name: "urn:oid:0.9.2342.19200300.100.1.1", FriendlyName: "uid", NameFormat: "urn:oasis:names:tc:SAML:2.0:attrname-format:uri", Values: []string{"alice"}},
			{Name: "urn:oid:1.3.6.1.4.1.5923.1.1.1.1", FriendlyName: "eduPersonAffiliation", NameFormat: "urn:oasis:names:tc:SAML:2.0:attrname-format:uri", Values: []string{"Users", "Staff"}},
		},
	}
}

// DefaultResponse is a fully valid response envelope at T0.
func DefaultResponse() *Response {
	return &Response{
		ID:           "id-response-1",
		Version:      S("2.0"),
		InResponseTo: S(ReqID),
		IssueInstant: S(TS(T0)),
		Destination:  S(SPAcs),
		Issuer:       S(IDPEntity),
		StatusCode:   S(StatusOK),
	}
}

func setOpt(el *etree.Element, name string, v *string) {
	if v != nil {
		el.CreateAttr(name, *v)
	}
}

// Element builds the assertion tree (xmlns:saml declared on the element itself).
func (a *Assertion) Element() *etree.Element {
	el := etree.NewElement("saml:Assertion")
	el.CreateAttr("xmlns:saml", NSAssertion)
	if !a.NoID {
		el.CreateAttr("ID", a.ID)
	}
	setOpt(el, "IssueInstant", a.IssueInstant)
	setOpt(el, "Version", a.Version)
	if a.Issuer != nil {
		is := el.CreateElement("saml:Issuer")
		issuerFormat(is, a.IssuerFormat)
		is.SetText(*a.Issuer)
	}
	if !a.NoSubject {
		sub := el.CreateElement("saml:Subject")
		if a.NameID != nil {
			n := sub.CreateElement("saml:NameID")
			n.CreateAttr("Format", "urn:oasis:names:tc:SAML:2.0:nameid-format:transient")
			n.SetText(*a.NameID)
		}
		for _, c := range a.Confirmations {
			sc := sub.CreateElement("saml:SubjectConfirmation")
			m := c.Method
			if m == "" {
				m = "urn:oasis:names:tc:SAML:2.0:cm:bearer"
			}
			sc.CreateAttr("Method", m)
			if !c.NoData {
				d := sc.CreateElement("saml:SubjectConfirmationData")
				setOpt(d, "InResponseTo", c.InResponseTo)
				setOpt(d, "NotOnOrAfter", c.NotOnOrAfter)
				setOpt(d, "Recipient", c.Recipient)
				setOpt(d, "NotBefore", c.NotBefore)
				setOpt(d, "Address", c.Address)
			}
		}
	}
	if !a.NoConditions {
		c := el.CreateElement("saml:Conditions")
		setOpt(c, "NotBefore", a.NotBefore)
		setOpt(c, "NotOnOrAfter", a.NotOnOrAfter)
		for _, ar := range a.Audiences {
			r := c.CreateElement("saml:AudienceRestriction")
			for _, au := range ar {
				r.CreateElement("saml:Audience").SetText(au)
			}
		}
		if a.OneTimeUse {
			c.CreateElement("saml:OneTimeUse")
		}
		if a.HasProxy {
			pr := c.CreateElement("saml:ProxyRestriction")
			setOpt(pr, "Count", a.ProxyCount)
			for _, au := range a.ProxyAudiences {
				pr.CreateElement("saml:Audience").SetText(au)
			}
		}
	}
	if !a.NoAuthn {
		as := el.CreateElement("saml:AuthnStatement")
		if a.IssueInstant != nil {
			as.CreateAttr("AuthnInstant", *a.IssueInstant)
		} else {
			as.CreateAttr("AuthnInstant", TS(T0))
		}
		if a.SessionIdx != "" {
			as.CreateAttr("SessionIndex", a.SessionIdx)
		}
		if !a.NoAuthnCtx {
			ac := as.CreateElement("saml:AuthnContext")
			ac.CreateElement("saml:AuthnContextClassRef").SetText("urn:oasis:names:tc:SAML:2.0:ac:classes:PasswordProtectedTransport")
		}
	}
	addStmt := func(attrs []Attr) {
		st := el.CreateElement("saml:AttributeStatement")
		for _, at := range attrs {
			ae := st.CreateElement("saml:Attribute")
			if at.FriendlyName != "" {
				ae.CreateAttr("FriendlyName", at.FriendlyName)
			}
			if !at.NoName {
				ae.CreateAttr("Name", at.Name)
			}
			if at.NameFormat != "" {
				ae.CreateAttr("NameFormat", at.NameFormat)
			}
			if !at.NoValues {
				for _, v := range at.Values {
					ve := ae.CreateElement("saml:AttributeValue")
					ve.CreateAttr("xmlns:xs", "http://www.w3.org/2001/XMLSchema")
					ve.CreateAttr("xmlns:xsi", "http://www.w3.org/2001/XMLSchema-instance")
					ve.CreateAttr("xsi:type", "xs:string")
					ve.SetText(v)
				}
			}
		}
	}
	if !a.NoAttrStmt {
		addStmt(a.Attrs)
	}
	for _, s := range a.ExtraAttrSt {
		addStmt(s)
	}
	return el
}

// Element builds the response envelope without assertions.
func (r *Response) Element() *etree.Element {
	el := etree.NewElement("samlp:Response")
	el.CreateAttr("xmlns:samlp", NSProtocol)
	el.CreateAttr("xmlns:saml", NSAssertion)
	el.CreateAttr("ID", r.ID)
	setOpt(el, "Version", r.Version)
	setOpt(el, "IssueInstant", r.IssueInstant)
	setOpt(el, "Destination", r.Destination)
	setOpt(el, "InResponseTo", r.InResponseTo)
	if r.Issuer != nil {
		is := el.CreateElement("saml:Issuer")
		issuerFormat(is, r.IssuerFormat)
		is.SetText(*r.Issuer)
	}
	if !r.NoStatus {
		st := el.CreateElement("samlp:Status")
		if !r.NoStatusCode {
			sc := st.CreateElement("samlp:StatusCode")
			setOpt(sc, "Value", r.StatusCode)
			if r.SubStatus != "" {
				sc.CreateElement("samlp:StatusCode").CreateAttr("Value", r.SubStatus)
			}
		}
	}
	return el
}

// SigningContext returns a goxmldsig context for kp (exclusive c14n, empty prefix list).
func SigningContext(kp *KeyPair, method string) *dsig.SigningContext {
	ctx, err := dsig.NewSigningContext(kp.Key, [][]byte{kp.Cert.Raw})
	if err != nil {
		panic(err)
	}
	ctx.Canonicalizer = dsig.MakeC14N10ExclusiveCanonicalizerWithPrefixList("")
	if method == "" {
		if _, ok := kp.Key.Public().(interface{ Size() int }); ok {
			method = dsig.RSASHA256SignatureMethod
		} else {
			method = dsig.ECDSASHA256SignatureMethod
		}
	}
	if err := ctx.SetSignatureMethod(method); err != nil {
		panic(err)
	}
	return ctx
}

// Sign signs el in place (in its current tree context) with an enveloped
// signature inserted after the Issuer child (or first), and returns the
// signature element.
func Sign(el *etree.Element, kp *KeyPair, method string) *etree.Element {
	ctx := SigningContext(kp, method)
	sig, err := ctx.ConstructSignature(el, true)
	if err != nil {
		panic(fmt.Sprintf("samlgen.Sign: %v", err))
	}
	InsertSignature(el, sig)
	return sig
}

// InsertSignature places sig after the Issuer child of el, or first.
func InsertSignature(el, sig *etree.Element) {
	idx := 0
	for _, ch := range el.ChildElements() {
		if ch.Tag == "Issuer" {
			idx = ch.Index() + 1
			break
		}
	}
	el.InsertChildAt(idx, sig)
}

// Doc serialises el as a document.
func Doc(el *etree.Element) []byte {
	doc := etree.NewDocument()
	doc.SetRoot(el)
	b, err := doc.WriteToBytes()
	if err != nil {
		panic(err)
	}
	return b
}

// Parse reads bytes into an element (panics on error: harness bug).
func Parse(b []byte) *etree.Element {
	doc := etree.NewDocument()
	if err := doc.ReadFromBytes(b); err != nil {
		panic(err)
	}
	return doc.Root()
}

func issuerFormat(is *etree.Element, f *string) {
	switch {
	case f == nil:
		is.CreateAttr("Format", "urn:oasis:names:tc:SAML:2.0:nameid-format:entity")
	case *f != "":
		is.CreateAttr("Format", *f)
	}
}
