// Package xenc is an independent implementation of the W3C XML-Encryption
// algorithms the library offers, written from the specification on the Go
// standard library only (no code shared with github.com/crewjam/saml/xmlenc).
// It is the reference side of C10/C11 and the harness-side encryptor for
// EncryptedAssertion documents.
package xenc

import (
	"bytes"
	"crypto/aes"
	"crypto/cipher"
	"crypto/des"
	"crypto/rsa"
	"crypto/sha1"
	"crypto/sha256"
	"crypto/sha512"
	"crypto/subtle"
	"encoding/base64"
	"errors"
	"fmt"
	"hash"
	"io"
	"math/big"
	"strings"

	"github.com/beevik/etree"
	ripemd160 "verif/engine/xenc/rmd160"
)

// Algorithm identifiers.
const (
	AES128CBC = "http://www.w3.org/2001/04/xmlenc#aes128-cbc"
	AES192CBC = "http://www.w3.org/2001/04/xmlenc#aes192-cbc"
	AES256CBC = "http://www.w3.org/2001/04/xmlenc#aes256-cbc"
	TDESCBC   = "http://www.w3.org/2001/04/xmlenc#tripledes-cbc"
	AES128GCM = "http://www.w3.org/2009/xmlenc11#aes128-gcm"
	OAEPMGF1P = "http://www.w3.org/2001/04/xmlenc#rsa-oaep-mgf1p"
	OAEP11    = "http://www.w3.org/2009/xmlenc11#rsa-oaep"
	RSA15     = "http://www.w3.org/2001/04/xmlenc#rsa-1_5"

	NSXenc = "http://www.w3.org/2001/04/xmlenc#"
	NSDsig = "http://www.w3.org/2000/09/xmldsig#"
)

// KeySize of a block algorithm in bytes.
func KeySize(alg string) int {
	switch alg {
	case AES128CBC, AES128GCM:
		return 16
	case AES192CBC, TDESCBC:
		return 24
	case AES256CBC:
		return 32
	}
	return 0
}

func block(alg string, key []byte) (cipher.Block, error) {
	if len(key) != KeySize(alg) || len(key) == 0 {
		return nil, fmt.Errorf("xenc: key size %d wrong for %s", len(key), alg)
	}
	if alg == TDESCBC {
		return des.NewTripleDESCipher(key)
	}
	return aes.NewCipher(key)
}

// Pad applies xmlenc padding: fill bytes then the count byte (section 5.2).
func Pad(p []byte, bs int, fill byte) []byte {
	n := bs - len(p)%bs
	out := append([]byte{}, p...)
	for i := 0; i < n-1; i++ {
		out = append(out, fill)
	}
	return append(out, byte(n))
}

// EncryptBlock returns IV||ciphertext (CBC) or nonce||ciphertext||tag (GCM).
func EncryptBlock(alg string, key, iv, plaintext []byte, fill byte) ([]byte, error) {
	b, err := block(alg, key)
	if err != nil {
		return nil, err
	}
	if alg == AES128GCM {
		g, err := cipher.NewGCM(b)
		if err != nil {
			return nil, err
		}
		if len(iv) != 12 {
			return nil, errors.New("xenc: gcm nonce must be 12 bytes")
		}
		return append(append([]byte{}, iv...), g.Seal(nil, iv, plaintext, nil)...), nil
	}
	if len(iv) != b.BlockSize() {
		return nil, errors.New("xenc: iv size")
	}
	pt := Pad(plaintext, b.BlockSize(), fill)
	ct := make([]byte, len(pt))
	cipher.NewCBCEncrypter(b, iv).CryptBlocks(ct, pt)
	return append(append([]byte{}, iv...), ct...), nil
}

// DecryptBlock is the inverse of EncryptBlock.
func DecryptBlock(alg string, key, data []byte) ([]byte, error) {
	b, err := block(alg, key)
	if err != nil {
		return nil, err
	}
	if alg == AES128GCM {
		g, err := cipher.NewGCM(b)
		if err != nil {
			return nil, err
		}
		if len(data) < 12+16 {
			return nil, errors.New("xenc: gcm data too short")
		}
		return g.Open(nil, data[:12], data[12:], nil)
	}
	bs := b.BlockSize()
	if len(data) < 2*bs || len(data)%bs != 0 {
		return nil, errors.New("xenc: cbc data length")
	}
	pt := make([]byte, len(data)-bs)
	cipher.NewCBCDecrypter(b, data[:bs]).CryptBlocks(pt, data[bs:])
	n := int(pt[len(pt)-1])
	if n < 1 || n > bs {
		return nil, errors.New("xenc: bad padding")
	}
	return pt[:len(pt)-n], nil
}

// HashByURI maps digest URIs (both the xmldsig# spellings the library uses
// and the xmlenc# spellings of the specification) to constructors.
func HashByURI(uri string) func() hash.Hash {
	switch uri {
	case "http://www.w3.org/2000/09/xmldsig#sha1":
		return sha1.New
	case "http://www.w3.org/2000/09/xmldsig#sha256", "http://www.w3.org/2001/04/xmlenc#sha256":
		return sha256.New
	case "http://www.w3.org/2000/09/xmldsig#sha512", "http://www.w3.org/2001/04/xmlenc#sha512":
		return sha512.New
	case "http://www.w3.org/2000/09/xmldsig#ripemd160", "http://www.w3.org/2001/04/xmlenc#ripemd160":
		return ripemd160.New
	}
	return nil
}

// MGFByURI maps xmlenc11 MGF URIs to hash constructors.
func MGFByURI(uri string) func() hash.Hash {
	switch uri {
	case "", "http://www.w3.org/2009/xmlenc11#mgf1sha1":
		return sha1.New
	case "http://www.w3.org/2009/xmlenc11#mgf1sha256":
		return sha256.New
	case "http://www.w3.org/2009/xmlenc11#mgf1sha512":
		return sha512.New
	}
	return nil
}

func mgf1(h func() hash.Hash, seed []byte, n int) []byte {
	var out []byte
	var ctr [4]byte
	for i := 0; len(out) < n; i++ {
		ctr[0], ctr[1], ctr[2], ctr[3] = byte(i>>24), byte(i>>16), byte(i>>8), byte(i)
		d := h()
		d.Write(seed)
		d.Write(ctr[:])
		out = d.Sum(out)
	}
	return out[:n]
}

// OAEPEncrypt is RSAES-OAEP with independent label-hash and MGF hash (PKCS#1 v2.1 7.1.1).
func OAEPEncrypt(pub *rsa.PublicKey, lh, mh func() hash.Hash, rnd io.Reader, msg []byte) ([]byte, error) {
	k := (pub.N.BitLen() + 7) / 8
	hl := lh().Size()
	if len(msg) > k-2*hl-2 {
		return nil, errors.New("xenc: message too long")
	}
	lhash := lh().Sum(nil)
	db := make([]byte, k-hl-1)
	copy(db, lhash)
	db[len(db)-len(msg)-1] = 1
	copy(db[len(db)-len(msg):], msg)
	seed := make([]byte, hl)
	if _, err := io.ReadFull(rnd, seed); err != nil {
		return nil, err
	}
	dbMask := mgf1(mh, seed, len(db))
	for i := range db {
		db[i] ^= dbMask[i]
	}
	seedMask := mgf1(mh, db, hl)
	for i := range seed {
		seed[i] ^= seedMask[i]
	}
	em := append([]byte{0}, append(seed, db...)...)
	c := new(big.Int).Exp(new(big.Int).SetBytes(em), big.NewInt(int64(pub.E)), pub.N)
	return c.FillBytes(make([]byte, k)), nil
}

// OAEPDecrypt is the inverse.
func OAEPDecrypt(priv *rsa.PrivateKey, lh, mh func() hash.Hash, ct []byte) ([]byte, error) {
	k := (priv.N.BitLen() + 7) / 8
	hl := lh().Size()
	if len(ct) != k || k < 2*hl+2 {
		return nil, errors.New("xenc: decryption error")
	}
	c := new(big.Int).SetBytes(ct)
	if c.Cmp(priv.N) >= 0 {
		return nil, errors.New("xenc: decryption error")
	}
	em := new(big.Int).Exp(c, priv.D, priv.N).FillBytes(make([]byte, k))
	if em[0] != 0 {
		return nil, errors.New("xenc: decryption error")
	}
	seed := append([]byte{}, em[1:1+hl]...)
	db := append([]byte{}, em[1+hl:]...)
	seedMask := mgf1(mh, db, hl)
	for i := range seed {
		seed[i] ^= seedMask[i]
	}
	dbMask := mgf1(mh, seed, len(db))
	for i := range db {
		db[i] ^= dbMask[i]
	}
	lhash := lh().Sum(nil)
	if subtle.ConstantTimeCompare(db[:hl], lhash) != 1 {
		return nil, errors.New("xenc: decryption error")
	}
	rest := db[hl:]
	i := bytes.IndexByte(rest, 1)
	if i < 0 || bytes.Count(rest[:i], []byte{0}) != i {
		return nil, errors.New("xenc: decryption error")
	}
	return rest[i+1:], nil
}

// PKCS1Encrypt is RSAES-PKCS1-v1_5.
func PKCS1Encrypt(pub *rsa.PublicKey, rnd io.Reader, msg []byte) ([]byte, error) {
	return rsa.EncryptPKCS1v15(rnd, pub, msg)
}

// KeyTransport describes how the content key is wrapped.
type KeyTransport struct {
	Alg       string // OAEPMGF1P, OAEP11, RSA15
	DigestURI string // "" = omit DigestMethod (SHA-1 default)
	MGFURI    string // only for OAEP11; "" = omit (mgf1sha1 default)
}

// WrapKey wraps cek for pub per kt, following the specification's semantics:
// rsa-oaep-mgf1p always uses MGF1 with SHA-1; xmlenc11#rsa-oaep uses the MGF element.
func WrapKey(kt KeyTransport, pub *rsa.PublicKey, rnd io.Reader, cek []byte) ([]byte, error) {
	switch kt.Alg {
	case RSA15:
		return PKCS1Encrypt(pub, rnd, cek)
	case OAEPMGF1P, OAEP11:
		lh := sha1.New
		if kt.DigestURI != "" {
			if lh = HashByURI(kt.DigestURI); lh == nil {
				return nil, errors.New("xenc: unknown digest")
			}
		}
		mh := sha1.New
		if kt.Alg == OAEP11 {
			if mh = MGFByURI(kt.MGFURI); mh == nil {
				return nil, errors.New("xenc: unknown mgf")
			}
		}
		return OAEPEncrypt(pub, lh, mh, rnd, cek)
	}
	return nil, errors.New("xenc: unknown key transport")
}

// UnwrapKey is the inverse of WrapKey.
func UnwrapKey(kt KeyTransport, priv *rsa.PrivateKey, ct []byte) ([]byte, error) {
	switch kt.Alg {
	case RSA15:
		return rsa.DecryptPKCS1v15(nil, priv, ct)
	case OAEPMGF1P, OAEP11:
		lh := sha1.New
		if kt.DigestURI != "" {
			if lh = HashByURI(kt.DigestURI); lh == nil {
				return nil, errors.New("xenc: unknown digest")
			}
		}
		mh := sha1.New
		if kt.Alg == OAEP11 {
			if mh = MGFByURI(kt.MGFURI); mh == nil {
				return nil, errors.New("xenc: unknown mgf")
			}
		}
		return OAEPDecrypt(priv, lh, mh, ct)
	}
	return nil, errors.New("xenc: unknown key transport")
}

func b64(b []byte) string { return base64.StdEncoding.EncodeToString(b) }

// EncryptedKeyEl builds an xenc:EncryptedKey element.
func EncryptedKeyEl(kt KeyTransport, certB64 string, wrapped []byte) *etree.Element {
	ek := etree.NewElement("xenc:EncryptedKey")
	ek.CreateAttr("xmlns:xenc", NSXenc)
	ek.CreateAttr("xmlns:ds", NSDsig)
	em := ek.CreateElement("xenc:EncryptionMethod")
	em.CreateAttr("Algorithm", kt.Alg)
	if kt.DigestURI != "" {
		em.CreateElement("ds:DigestMethod").CreateAttr("Algorithm", kt.DigestURI)
	}
	if kt.MGFURI != "" {
		m := em.CreateElement("xenc11:MGF")
		m.CreateAttr("xmlns:xenc11", "http://www.w3.org/2009/xmlenc11#")
		m.CreateAttr("Algorithm", kt.MGFURI)
	}
	if certB64 != "" {
		ki := ek.CreateElement("ds:KeyInfo")
		ki.CreateElement("ds:X509Data").CreateElement("ds:X509Certificate").SetText(certB64)
	}
	ek.CreateElement("xenc:CipherData").CreateElement("xenc:CipherValue").SetText(b64(wrapped))
	return ek
}

// EncryptedDataEl builds an xenc:EncryptedData element; ek may be nil (direct key).
func EncryptedDataEl(blockAlg string, ek *etree.Element, data []byte) *etree.Element {
	ed := etree.NewElement("xenc:EncryptedData")
	ed.CreateAttr("xmlns:xenc", NSXenc)
	ed.CreateAttr("Type", "http://www.w3.org/2001/04/xmlenc#Element")
	ed.CreateElement("xenc:EncryptionMethod").CreateAttr("Algorithm", blockAlg)
	if ek != nil {
		ki := ed.CreateElement("ds:KeyInfo")
		ki.CreateAttr("xmlns:ds", NSDsig)
		ki.AddChild(ek)
	}
	ed.CreateElement("xenc:CipherData").CreateElement("xenc:CipherValue").SetText(b64(data))
	return ed
}

// Encrypt produces a complete EncryptedData with a wrapped key.
func Encrypt(blockAlg string, kt KeyTransport, pub *rsa.PublicKey, certB64 string, rnd io.Reader, plaintext []byte) (*etree.Element, error) {
	cek := make([]byte, KeySize(blockAlg))
	if _, err := io.ReadFull(rnd, cek); err != nil {
		return nil, err
	}
	ivLen := 16
	if blockAlg == TDESCBC {
		ivLen = 8
	} else if blockAlg == AES128GCM {
		ivLen = 12
	}
	iv := make([]byte, ivLen)
	if _, err := io.ReadFull(rnd, iv); err != nil {
		return nil, err
	}
	data, err := EncryptBlock(blockAlg, cek, iv, plaintext, 0)
	if err != nil {
		return nil, err
	}
	wrapped, err := WrapKey(kt, pub, rnd, cek)
	if err != nil {
		return nil, err
	}
	return EncryptedDataEl(blockAlg, EncryptedKeyEl(kt, certB64, wrapped), data), nil
}

func child(el *etree.Element, tag string) *etree.Element {
	for _, c := range el.ChildElements() {
		if c.Tag == tag {
			return c
		}
	}
	return nil
}

func cipherValue(el *etree.Element) ([]byte, error) {
	cd := child(el, "CipherData")
	if cd == nil {
		return nil, errors.New("xenc: no CipherData")
	}
	cv := child(cd, "CipherValue")
	if cv == nil {
		return nil, errors.New("xenc: no CipherValue")
	}
	return base64.StdEncoding.DecodeString(strings.Join(strings.Fields(cv.Text()), ""))
}

// ParseKeyTransport reads the key-transport parameters of an EncryptedKey element.
func ParseKeyTransport(ek *etree.Element) (KeyTransport, error) {
	em := child(ek, "EncryptionMethod")
	if em == nil {
		return KeyTransport{}, errors.New("xenc: no EncryptionMethod")
	}
	kt := KeyTransport{Alg: em.SelectAttrValue("Algorithm", "")}
	if dm := child(em, "DigestMethod"); dm != nil {
		kt.DigestURI = dm.SelectAttrValue("Algorithm", "")
	}
	if m := child(em, "MGF"); m != nil {
		kt.MGFURI = m.SelectAttrValue("Algorithm", "")
	}
	return kt, nil
}

// DecryptElement decrypts an EncryptedData element; key is *rsa.PrivateKey
// (wrapped key expected) or []byte (direct).
func DecryptElement(key interface{}, ed *etree.Element) ([]byte, error) {
	em := child(ed, "EncryptionMethod")
	if em == nil {
		return nil, errors.New("xenc: no EncryptionMethod")
	}
	alg := em.SelectAttrValue("Algorithm", "")
	data, err := cipherValue(ed)
	if err != nil {
		return nil, err
	}
	var cek []byte
	switch k := key.(type) {
	case []byte:
		cek = k
	case *rsa.PrivateKey:
		ki := child(ed, "KeyInfo")
		if ki == nil {
			return nil, errors.New("xenc: no KeyInfo")
		}
		ek := child(ki, "EncryptedKey")
		if ek == nil {
			return nil, errors.New("xenc: no EncryptedKey")
		}
		kt, err := ParseKeyTransport(ek)
		if err != nil {
			return nil, err
		}
		wrapped, err := cipherValue(ek)
		if err != nil {
			return nil, err
		}
		if cek, err = UnwrapKey(kt, k, wrapped); err != nil {
			return nil, err
		}
	default:
		return nil, errors.New("xenc: key type")
	}
	return DecryptBlock(alg, cek, data)
}
