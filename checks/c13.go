package checks

import (
	"crypto"
	"crypto/ecdsa"
	"crypto/rsa"
	"crypto/sha1"
	"crypto/sha256"
	"crypto/sha512"
	"crypto/x509"
	"encoding/base64"
	"encoding/xml"
	"fmt"
	"math/big"
	"net/url"
	"strings"
	"time"

	"github.com/beevik/etree"
	"github.com/crewjam/saml"
	"github.com/crewjam/saml/samlsp"
	dsig "github.com/russellhaering/goxmldsig"

	"verif/engine/core"
	"verif/engine/harness"
	"verif/engine/htmlform"
	"verif/engine/samlgen"
)

// C13 — signatures on SP outbound messages verify under the SP's published certificate.

var c13Methods = []string{dsig.RSASHA256SignatureMethod, dsig.RSASHA1SignatureMethod, dsig.RSASHA384SignatureMethod, dsig.RSASHA512SignatureMethod,
	dsig.ECDSASHA256SignatureMethod, dsig.ECDSASHA1SignatureMethod, dsig.ECDSASHA384SignatureMethod, dsig.ECDSASHA512SignatureMethod, "urn:example:unknown-signature-method"}

var c13Keys = []string{"sp2048", "sp1024", "sp3072", "sp4096", "spec256", "spec384", "spec521"}

var c13Messages = []string{"authn-redirect", "authn-post", "logoutreq-redirect", "logoutreq-post", "logoutresp-redirect", "logoutresp-post", "artifact-resolve"}

// c13Serialised are the other exported ways the same signed messages leave the library: the serialisers on the message types themselves
// (an application that delivers a message over its own channel uses these): Bytes / Deflate where the type has them, else Element()
// written out. (encoding/xml's Marshal of the Go structs is not one of them: the Signature field is not part of what it writes, on the
// pinned tree too, so nothing signed ever leaves that way.)
var c13Serialised = []string{"logoutreq-bytes", "logoutreq-deflate", "logoutreq-element", "logoutresp-element", "authn-post-element", "artifact-resolve-element"}

func hashFor(method string) (crypto.Hash, func([]byte) []byte) {
	switch {
	case strings.HasSuffix(method, "sha1"):
		return crypto.SHA1, func(b []byte) []byte { h := sha1.Sum(b); return h[:] }
	case strings.HasSuffix(method, "sha256"):
		return crypto.SHA256, func(b []byte) []byte { h := sha256.Sum256(b); return h[:] }
	case strings.HasSuffix(method, "sha384"):
		return crypto.SHA384, func(b []byte) []byte { h := sha512.Sum384(b); return h[:] }
	case strings.HasSuffix(method, "sha512"):
		return crypto.SHA512, func(b []byte) []byte { h := sha512.Sum512(b); return h[:] }
	}
	return 0, nil
}

// verifyDetached verifies sig over msg under cert with the named method, independently of goxmldsig.
func verifyDetached(cert *x509.Certificate, method string, msg, sig []byte) bool {
	h, sum := hashFor(method)
	if sum == nil {
		return false
	}
	d := sum(msg)
	switch pk := cert.PublicKey.(type) {
	case *rsa.PublicKey:
		return strings.Contains(method, "rsa-") && rsa.VerifyPKCS1v15(pk, h, d, sig) == nil
	case *ecdsa.PublicKey:
		if !strings.Contains(method, "ecdsa-") {
			return false
		}
		if ecdsa.VerifyASN1(pk, d, sig) {
			return true
		}
		if len(sig)%2 == 0 { // xmldsig r||s form
			r, s := new(big.Int).SetBytes(sig[:len(sig)/2]), new(big.Int).SetBytes(sig[len(sig)/2:])
			return ecdsa.Verify(pk, d, r, s)
		}
	}
	return false
}

func init() {
	Register(&Check{
		ID:     "C13",
		Engine: "lattice",
		Rule: "full product of 9 signature-method URIs (8 supported + unknown) x 7 SP keys (RSA 1024/2048/3072/4096, ECDSA P-256/384/521) x 7 message kinds (AuthnRequest redirect/POST, LogoutRequest redirect/POST, LogoutResponse redirect/POST, ArtifactResolve) x relay states x IdP endpoint with/without query string x request options (ForceAuthn / RequestedAuthnContext); " +
			"oracle: the verifying certificate is taken from the SP's published metadata serialised and re-parsed; redirect binding: the octets SAMLRequest=..[&RelayState=..]&SigAlg=.. exactly as they appear in the emitted URL verify with crypto/rsa or crypto/ecdsa (independent of goxmldsig); XML: exactly one enveloped signature that verifies under a fresh context rooted in that certificate and names the configured method; a method that does not fit the key or is unknown yields an error and no message. non-trivial = every configuration",
		Bounds: func(tier string) string {
			return "full product (quick: RSA-3072/4096 and P-384/521 keys with 2 relay states; thorough: everything)"
		},
		Assumptions: []string{"ECDSA signature values are accepted in ASN.1 or r||s encoding", "DSA / Ed25519 are not offered by the library"},
		Run:         runC13,
		CapQuick:    6 * time.Minute,
		CapThorough: 15 * time.Minute,
	})
}

func runC13(c *core.Ctx) {
	g := harness.Pin(samlgen.T0)
	defer g.Restore()
	relays := []string{"", "rs", "a b&c=d#e+f/%?;é"}
	for _, kn := range c13Keys {
		for _, method := range c13Methods {
			for _, msg := range append(append([]string{}, c13Messages...), c13Serialised...) {
				for ri, relay := range relays {
					for _, epq := range []string{"", "?x=1&y=2"} {
						for opt := 0; opt < 4; opt++ {
							if ri > 0 && (strings.HasSuffix(msg, "-element") || strings.HasSuffix(msg, "-bytes") || strings.HasSuffix(msg, "-deflate")) {
								continue
							}
							heavy := kn == "sp3072" || kn == "sp4096" || kn == "spec384" || kn == "spec521"
							if !c.Thorough() && heavy && (ri == 1 || opt == 1) {
								continue
							}
							if (opt == 1 || opt == 2) && !strings.HasPrefix(msg, "authn") {
								continue
							}
							if opt == 3 && !strings.HasPrefix(msg, "logout") {
								continue
							}
							kn, method, msg, relay, epq, opt := kn, method, msg, relay, epq, opt
							key := fmt.Sprintf("key=%s/method=%s/%s/relay=%d/epq=%v/opt=%d", kn, shortAlg(method), msg, ri, epq != "", opt)
							c.Case(key, func(t *core.T) { c13One(t, kn, method, msg, relay, epq, opt, key) })
						}
					}
				}
			}
		}
	}
	c13Sequences(c)
	c13Resign(c)
	c13HeldOutputs(c)
	c13PeerShapes(c)
	c13MethodNearMisses(c)
	c13LogoutNameIDs(c)

	// the ServiceProvider that samlsp builds when request signing is asked for: whatever key type it is given, it signs (with a method
	// that fits the key) and the signatures verify under what it publishes
	c.Group("samlsp-default-service-provider-with-SignRequest")
	for _, kn := range c13Keys {
		for _, msg := range c13Messages {
			kn, msg := kn, msg
			key := fmt.Sprintf("samlsp-default/key=%s/%s", kn, msg)
			c.Case(key, func(t *core.T) {
				t.NonTrivial()
				kp := samlgen.Key(kn)
				var sp saml.ServiceProvider
				_, p := guard(func() error {
					sp = samlsp.DefaultServiceProvider(samlsp.Options{URL: harness.MustURL("https://sp.example.com/"), Key: kp.Key, Certificate: kp.Cert, IDPMetadata: harness.IDPMetadata("meta1", "", ""), SignRequest: true})
					return nil
				})
				t.Impl(1)
				if p != "" {
					t.Fail("C13/samlsp-default/panic@"+p[strings.LastIndex(p, "@")+1:], "samlsp.DefaultServiceProvider panicked: %s", p)
					return
				}
				if sp.SignatureMethod == "" {
					t.Fail("C13/samlsp-default/signing-asked-for-but-not-configured", "Options.SignRequest is set, key %s: the ServiceProvider has no signature method (it will emit unsigned requests)", kn)
					return
				}
				c13Emit(t, &sp, kn, sp.SignatureMethod, msg, "rs", key)
			})
		}
	}

	// one AuthnRequest object rendered more than once (a page that offers both a redirect link and an auto-posting form): rendering it
	// for one binding takes nothing away from the other
	c.Group("one-request-object-rendered-twice")
	for _, km := range [][2]string{{"sp2048", dsig.RSASHA256SignatureMethod}, {"spec256", dsig.ECDSASHA256SignatureMethod}} {
		for _, made := range []string{saml.HTTPPostBinding, saml.HTTPRedirectBinding} {
			for _, seq := range [][]string{{"redirect", "post"}, {"post", "redirect"}, {"post", "post"}, {"redirect", "redirect", "post"}, {"element", "redirect", "post"}} {
				km, made, seq := km, made, seq
				key := fmt.Sprintf("rendered-twice/key=%s/made-for=%s/%s", km[0], made[strings.LastIndex(made, ":")+1:], strings.Join(seq, ">"))
				c.Case(key, func(t *core.T) {
					t.NonTrivial()
					sp := harness.NewSP(harness.SPOpt{SPKey: km[0], SignMethod: km[1]})
					cert := samlgen.Key(km[0]).Cert
					req, err := sp.MakeAuthenticationRequest(sp.GetSSOBindingLocation(made), made, saml.HTTPPostBinding)
					t.Impl(1)
					if err != nil {
						t.Fail("C13/rendered-twice/constructor-error", "%v", err)
						return
					}
					t.Compared()
					for i, how := range seq {
						switch how {
						case "element":
							_ = req.Element()
						case "redirect":
							u, rerr := req.Redirect("rs", sp)
							if rerr != nil {
								t.Fail("C13/rendered-twice/redirect-error", "rendering #%d: %v", i+1, rerr)
								return
							}
							raw := u.RawQuery
							a, b := strings.Index(raw, "SAMLRequest="), strings.Index(raw, "&Signature=")
							if a < 0 || b < a {
								t.Fail("C13/rendered-twice/redirect-unsigned", "rendering #%d (%s): the redirect URL carries no Signature although signing is configured", i+1, how)
								return
							}
							sigB64, _ := url.QueryUnescape(raw[b+len("&Signature="):])
							sig, _ := base64.StdEncoding.DecodeString(sigB64)
							if !verifyDetached(cert, km[1], []byte(raw[a:b]), sig) {
								t.Fail("C13/rendered-twice/redirect-signature-does-not-verify", "rendering #%d", i+1)
							}
						case "post":
							f, ferr := htmlform.Parse(req.Post("rs"))
							if ferr != nil {
								t.Fail("C13/rendered-twice/post-form", "rendering #%d: %v", i+1, ferr)
								return
							}
							rawReq, _ := base64.StdEncoding.DecodeString(f.Fields["SAMLRequest"])
							el := samlgen.Parse(rawReq)
							if made == saml.HTTPPostBinding {
								n, ok, _, _, verr := verifyEnveloped(el, []*x509.Certificate{cert}, samlgen.T0)
								if n != 1 || !ok {
									t.Fail("C13/rendered-twice/post-form-unsigned-or-invalid", "rendering #%d (after %v): the posted AuthnRequest carries %d enveloped signatures, valid=%v (%s), although it was made signed for the POST binding", i+1, seq[:i], n, ok, verr)
									return
								}
							}
						}
					}
				})
			}
		}
	}

	// an SP that publishes its certificate chain (ServiceProvider.Intermediates): the first certificate of the signing descriptor is still
	// the SP's own, and everything it signs verifies under it
	c.Group("sp-with-intermediate-certificates")
	for _, km := range [][2]string{{"sp2048", dsig.RSASHA256SignatureMethod}, {"spec256", dsig.ECDSASHA256SignatureMethod}} {
		for ni, chain := range [][]string{{"idpca"}, {"idpca", "idp2"}, {"idp2", "idpca", "attacker"}} {
			for _, msg := range c13Messages {
				km, chain, msg := km, chain, msg
				key := fmt.Sprintf("intermediates/key=%s/chain=%d/%s", km[0], ni, msg)
				c.Case(key, func(t *core.T) {
					t.NonTrivial()
					sp := harness.NewSP(harness.SPOpt{SPKey: km[0], SignMethod: km[1]})
					for _, n := range chain {
						sp.Intermediates = append(sp.Intermediates, samlgen.Key(n).Cert)
					}
					c13Emit(t, sp, km[0], km[1], msg, "rs", key)
				})
			}
		}
	}
}

// c13NameID is the name identifier the LogoutRequest cases ask to log out.
var c13NameID = "alice@example.com"

// c13LogoutNameIDs: signed LogoutRequests for name identifiers with characters XML serialisation treats specially: the signature verifies
// over the element a receiver parses, and the name it reads there is the one given.
func c13LogoutNameIDs(c *core.Ctx) {
	c.Group("logout-request-name-ids")
	ids := []string{"EXAMPLE\\ross\r", "a\r\nb", "a\nb", "\ta b ", " lead and trail ", "q\"uote'<>&amp;", "é\u2028\U0001F600", "]]>", "<!-- c -->", "a\u0085b", "x&#13;y"}
	for _, km := range [][2]string{{"sp2048", dsig.RSASHA256SignatureMethod}, {"spec256", dsig.ECDSASHA256SignatureMethod}} {
		for ni, id := range ids {
			for _, msg := range []string{"logoutreq-post", "logoutreq-redirect"} {
				km, id, msg := km, id, msg
				key := fmt.Sprintf("logout-nameid/key=%s/id=%d/%s", km[0], ni, msg)
				c.Case(key, func(t *core.T) {
					t.NonTrivial()
					c13NameID = id
					defer func() { c13NameID = "alice@example.com" }()
					sp := harness.NewSP(harness.SPOpt{SPKey: km[0], SignMethod: km[1]})
					c13Emit(t, sp, km[0], km[1], msg, "rs", key)
				})
			}
		}
	}
}

// c13MethodNearMisses: configured signature-method strings that are almost one of the eight URIs (blanks around it, other letter case, a
// character more or less): either the constructor refuses, or the message names a real method and verifies - never a message whose SigAlg
// / SignatureMethod no relying party knows.
func c13MethodNearMisses(c *core.Ctx) {
	c.Group("signature-method-near-misses")
	for _, km := range [][2]string{{"sp2048", dsig.RSASHA256SignatureMethod}, {"sp2048", dsig.RSASHA1SignatureMethod}, {"spec256", dsig.ECDSASHA256SignatureMethod}} {
		b := km[1]
		forms := []string{b + "\n", " " + b, b + " ", "\t" + b + "\r\n", strings.ToUpper(b), b + "#", b[:len(b)-1], b + "/", strings.Replace(b, "http://", "https://", 1), b + "\x00", "\u00a0" + b}
		for fi, m := range forms {
			for _, msg := range c13Messages {
				for ri, relay := range []string{"", "rs"} {
					km, m, msg, relay := km, m, msg, relay
					key := fmt.Sprintf("method-near-miss/key=%s/base=%s/form=%d/%s/relay=%d", km[0], shortAlg(b), fi, msg, ri)
					c.Case(key, func(t *core.T) {
						t.NonTrivial()
						sp := harness.NewSP(harness.SPOpt{SPKey: km[0], SignMethod: m})
						c13Emit(t, sp, km[0], m, msg, relay, key)
					})
				}
			}
		}
	}
}

// c13EndpointQueries are query strings an IdP endpoint Location may carry already; most of them are not byte-identical to their re-encoded
// form (escapes a re-encoder would write differently, valueless parameters, unsorted names, separators inside values).
var c13EndpointQueries = []string{"", "?x=1&y=2", "?tenant=acme%20corp", "?passive", "?spEntityID=https://sp.example.com/metadata", "?b=2&a=1",
	"?a=1&", "?a=b+c", "?a=%2f%3a", "?%C3%A9=1", "?a==b", "?a=b;c", "?a=1&a=2"}

// c13PeerShapes: what the IdP's metadata says about itself must not change whether or how the SP signs: endpoint Locations with every
// query-string shape above x WantAuthnRequestsSigned absent / "true" / "false" x every message kind, for an RSA and an ECDSA key.
func c13PeerShapes(c *core.Ctx) {
	c.Group("idp-endpoint-query-shapes-x-want-requests-signed")
	tr, fa := true, false
	wants := []*bool{nil, &tr, &fa}
	for _, km := range [][2]string{{"sp2048", dsig.RSASHA256SignatureMethod}, {"spec256", dsig.ECDSASHA256SignatureMethod}} {
		for qi, q := range c13EndpointQueries {
			for wi, want := range wants {
				for _, msg := range c13Messages {
					for ri, relay := range []string{"", "a b&c=d#e+f/%?;é"} {
						if !c.Thorough() && km[0] == "spec256" && (ri == 1 || qi > 5) {
							continue
						}
						km, q, want, msg, relay := km, q, want, msg, relay
						key := fmt.Sprintf("peer-shapes/key=%s/q=%d/want=%d/%s/relay=%d", km[0], qi, wi, msg, ri)
						c.Case(key, func(t *core.T) {
							t.NonTrivial()
							sp := harness.NewSP(harness.SPOpt{SPKey: km[0], SignMethod: km[1], IDPSSOURL: samlgen.IDPSSO + q, IDPSLOURL: samlgen.IDPSLO + q})
							for i := range sp.IDPMetadata.IDPSSODescriptors {
								sp.IDPMetadata.IDPSSODescriptors[i].WantAuthnRequestsSigned = want
							}
							c13Emit(t, sp, km[0], km[1], msg, relay, key)
						})
					}
				}
			}
		}
	}
}

// c13HeldOutputs: every ordered pair and triple of message kinds produced one after the other on one ServiceProvider; each output is
// verified only after all of them exist, on exactly the value that was returned (a form still held by a caller when the next one is made).
func c13HeldOutputs(c *core.Ctx) {
	c.Group("outputs-verified-after-later-calls")
	kinds := c13Messages
	for _, kn := range []string{"sp2048", "spec256"} {
		method := dsig.RSASHA256SignatureMethod
		if kn == "spec256" {
			method = dsig.ECDSASHA256SignatureMethod
		}
		var seqs [][]int
		for a := range kinds {
			for b := range kinds {
				seqs = append(seqs, []int{a, b})
				seqs = append(seqs, []int{a, b, a})
			}
		}
		for _, sq := range seqs {
			kn, method, sq := kn, method, sq
			var names []string
			for _, i := range sq {
				names = append(names, kinds[i])
			}
			key := fmt.Sprintf("held/key=%s/%s", kn, strings.Join(names, ">"))
			c.Case(key, func(t *core.T) {
				t.NonTrivial()
				sp := harness.NewSP(harness.SPOpt{SPKey: kn, SignMethod: method})
				var later []func()
				for step, i := range sq {
					c13EmitHold(t, sp, kn, method, kinds[i], fmt.Sprintf("relay-%d", step), key, &later)
				}
				for step, v := range later {
					before := t.Failed()
					v()
					if !before && t.Failed() {
						t.Fail("C13/held-output/"+kinds[sq[step]]+"/altered-by-a-later-call", "%s: output %d (%s) no longer verifies after the later messages were produced", key, step+1, kinds[sq[step]])
						return
					}
				}
			})
		}
	}
}

// c13Resign: the exported Sign* methods applied to a message that is already signed (after the application changed a field, or simply
// twice): the signature the message then carries must verify like any other.
func c13Resign(c *core.Ctx) {
	c.Group("sign-again")
	for _, kn := range []string{"sp2048", "spec256"} {
		for _, kind := range []string{"authn", "logout-request", "logout-response", "artifact-resolve"} {
			for _, how := range []string{"twice", "after-edit", "three-times"} {
				kn, kind, how := kn, kind, how
				key := fmt.Sprintf("resign/key=%s/%s/%s", kn, kind, how)
				c.Case(key, func(t *core.T) {
					t.NonTrivial()
					method := dsig.RSASHA256SignatureMethod
					if kn == "spec256" {
						method = dsig.ECDSASHA256SignatureMethod
					}
					sp := harness.NewSP(harness.SPOpt{SPKey: kn, SignMethod: method})
					cert := samlgen.Key(kn).Cert
					var el *etree.Element
					var err error
					n := 2
					if how == "three-times" {
						n = 3
					}
					_, p := guard(func() error {
						switch kind {
						case "authn":
							var r *saml.AuthnRequest
							if r, err = sp.MakeAuthenticationRequest(samlgen.IDPSSO, saml.HTTPPostBinding, saml.HTTPPostBinding); err != nil {
								return nil
							}
							for i := 1; i < n && err == nil; i++ {
								if how == "after-edit" {
									tr := true
									r.ForceAuthn = &tr
								}
								err = sp.SignAuthnRequest(r)
							}
							el = r.Element()
						case "logout-request":
							var r *saml.LogoutRequest
							if r, err = sp.MakeLogoutRequest(samlgen.IDPSLO, "alice"); err != nil {
								return nil
							}
							for i := 1; i < n && err == nil; i++ {
								if how == "after-edit" {
									r.Destination = samlgen.IDPSLO + "?edited=1"
								}
								err = sp.SignLogoutRequest(r)
							}
							el = r.Element()
						case "logout-response":
							var r *saml.LogoutResponse
							if r, err = sp.MakeLogoutResponse(samlgen.IDPSLO, "id-given"); err != nil {
								return nil
							}
							for i := 1; i < n && err == nil; i++ {
								if how == "after-edit" {
									r.InResponseTo = "id-edited"
								}
								err = sp.SignLogoutResponse(r)
							}
							el = r.Element()
						case "artifact-resolve":
							var r *saml.ArtifactResolve
							if r, err = sp.MakeArtifactResolveRequest("artifact-1"); err != nil {
								return nil
							}
							for i := 1; i < n && err == nil; i++ {
								if how == "after-edit" {
									r.Artifact = "artifact-2"
								}
								err = sp.SignArtifactResolve(r)
							}
							el = r.Element()
						}
						return nil
					})
					t.Impl(n)
					t.Compared()
					if p != "" {
						t.Fail("C13/sign-again/"+kind+"/panic@"+p[strings.LastIndex(p, "@")+1:], "panicked: %s", p)
						return
					}
					if err != nil {
						t.Fail("C13/sign-again/"+kind+"/error", "%s: %v", key, err)
						return
					}
					wire := samlgen.Parse(samlgen.Doc(el))
					ns, ok, alg, _, verr := verifyEnveloped(wire, []*x509.Certificate{cert}, samlgen.T0)
					t.Outcome(fmt.Sprintf("signatures=%d ok=%v", ns, ok))
					if ns != 1 || !ok {
						t.Fail("C13/sign-again/"+kind+"/signature-does-not-verify", "%s: after signing the already signed message again it carries %d signatures; verification under the SP certificate: %v %s", key, ns, ok, verr)
						t.Input("element", string(samlgen.Doc(wire.Copy())))
					} else if alg != method {
						t.Fail("C13/sign-again/"+kind+"/method", "SignatureMethod %q, configured %q", alg, method)
					}
				})
			}
		}
	}
}

// c13Sequences: ONE ServiceProvider value reconfigured between messages (signature method and/or key pair changed), as a long-lived
// middleware would be. Every message of every sequence is verified against the configuration in force when it was made.
func c13Sequences(c *core.Ctx) {
	c.Group("reconfiguration-sequences")
	type conf struct{ key, method string }
	confs := []conf{{"sp2048", dsig.RSASHA256SignatureMethod}, {"sp2048", dsig.RSASHA1SignatureMethod}, {"sp2048", dsig.RSASHA512SignatureMethod},
		{"sp2048", dsig.ECDSASHA256SignatureMethod}, {"sp2048", "urn:example:unknown-signature-method"},
		{"spec256", dsig.ECDSASHA256SignatureMethod}, {"spec256", dsig.RSASHA256SignatureMethod}, {"sp1024", dsig.RSASHA256SignatureMethod}}
	maxLen := 3
	if c.Thorough() {
		maxLen = 4
	}
	var seqs [][]int
	var gen func(cur []int)
	gen = func(cur []int) {
		if len(cur) >= 2 {
			seqs = append(seqs, append([]int{}, cur...))
		}
		if len(cur) == maxLen {
			return
		}
		for i := range confs {
			gen(append(cur, i))
		}
	}
	gen(nil)
	for _, sq := range seqs {
		for mi, last := range c13Messages {
			for _, firstKind := range []string{"authn-redirect", "logoutresp-post"} {
				sq, last, firstKind := sq, last, firstKind
				var names []string
				for _, ci := range sq {
					names = append(names, confs[ci].key+":"+shortAlg(confs[ci].method))
				}
				key := fmt.Sprintf("seq/%s/first=%s/last=%s", strings.Join(names, ">"), firstKind, last)
				c.Affinity(mi)
				c.Case(key, func(t *core.T) {
					t.NonTrivial()
					sp := harness.NewSP(harness.SPOpt{SPKey: confs[sq[0]].key, SignMethod: confs[sq[0]].method})
					for step, ci := range sq {
						cf := confs[ci]
						kp := samlgen.Key(cf.key)
						sp.Key, sp.Certificate, sp.SignatureMethod = kp.Key, kp.Cert, cf.method
						kind := firstKind
						if step == len(sq)-1 {
							kind = last
						}
						before := t.Failed()
						c13Emit(t, sp, cf.key, cf.method, kind, "rs", fmt.Sprintf("%s step %d", key, step+1))
						if !before && t.Failed() && step > 0 {
							t.Fail("C13/sequence/"+kind+"/wrong-after-reconfiguration", "%s: step %d (%s with %s) is wrong although the same configuration is right on a fresh ServiceProvider", key, step+1, kind, names[step])
							return
						}
					}
				})
			}
		}
	}
	c.Affinity(-1)
}

func c13One(t *core.T, kn, method, msg, relay, epq string, opt int, key string) {
	t.NonTrivial()
	sso, slo := samlgen.IDPSSO+epq, samlgen.IDPSLO+epq
	sp := harness.NewSP(harness.SPOpt{SPKey: kn, SignMethod: method, IDPSSOURL: sso, IDPSLOURL: slo})
	tr := true
	switch opt {
	case 1:
		sp.ForceAuthn = &tr
	case 2:
		sp.ForceAuthn = &tr
		sp.RequestedAuthnContext = &saml.RequestedAuthnContext{Comparison: "exact", AuthnContextClassRef: "urn:oasis:names:tc:SAML:2.0:ac:classes:PasswordProtectedTransport"}
	case 3:
		// the IdP's logout endpoints advertise a ResponseLocation different from their Location
		for i := range sp.IDPMetadata.IDPSSODescriptors {
			for j := range sp.IDPMetadata.IDPSSODescriptors[i].SingleLogoutServices {
				sp.IDPMetadata.IDPSSODescriptors[i].SingleLogoutServices[j].ResponseLocation = "https://idp.example.com/saml/slo-return"
			}
		}
	}
	c13Emit(t, sp, kn, method, msg, relay, key)
}

// c13Emit makes sp (key fixture kn, configured method) emit one message and verifies it as a peer would.
func c13Emit(t *core.T, sp *saml.ServiceProvider, kn, method, msg, relay, key string) {
	c13EmitHold(t, sp, kn, method, msg, relay, key, nil)
}

// c13EmitHold is c13Emit with the verification optionally postponed: with hold != nil the message is produced now and the closure that
// verifies exactly what was returned (the same byte slice / URL / element, not a copy) is appended to *hold for the caller to run later.
func c13EmitHold(t *core.T, sp *saml.ServiceProvider, kn, method, msg, relay, key string, hold *[]func()) {
	kp := samlgen.Key(kn)
	_, isRSA := kp.Cert.PublicKey.(*rsa.PublicKey)
	known := func(m string) bool {
		for _, k := range c13Methods[:8] {
			if k == m {
				return true
			}
		}
		return false
	}
	family := func(m string) bool {
		return (isRSA && strings.Contains(m, "#rsa-")) || (!isRSA && strings.Contains(m, "#ecdsa-"))
	}
	fits := known(method) && family(method)
	// a configured value that is a known URI with blanks around it: refusing it is right, and so is signing with the URI meant - but then
	// what is emitted names that URI, exactly
	near := !known(method) && known(strings.TrimSpace(method)) && family(strings.TrimSpace(method))
	fk := func(k string) string { return "C13/" + msg + "/" + k }
	nameID := c13NameID

	var u *url.URL
	var page []byte
	var rawxml []byte
	var el *etree.Element
	var err error
	_, p := guard(func() error {
		switch msg {
		case "logoutreq-bytes", "logoutreq-deflate", "logoutreq-element":
			var lr *saml.LogoutRequest
			lr, err = sp.MakeLogoutRequest(sp.GetSLOBindingLocation(saml.HTTPRedirectBinding), c13NameID)
			if err == nil {
				switch msg {
				case "logoutreq-bytes":
					rawxml, err = lr.Bytes()
				case "logoutreq-deflate":
					var z []byte
					if z, err = lr.Deflate(); err == nil {
						rawxml, err = inflate(z)
					}
				default:
					rawxml = samlgen.Doc(lr.Element())
				}
			}
		case "logoutresp-element":
			var lr *saml.LogoutResponse
			lr, err = sp.MakeLogoutResponse(sp.GetSLOBindingLocation(saml.HTTPRedirectBinding), "id-given")
			if err == nil {
				rawxml = samlgen.Doc(lr.Element())
			}
		case "authn-post-element":
			var ar *saml.AuthnRequest
			ar, err = sp.MakeAuthenticationRequest(sp.GetSSOBindingLocation(saml.HTTPPostBinding), saml.HTTPPostBinding, saml.HTTPPostBinding)
			if err == nil {
				rawxml = samlgen.Doc(ar.Element())
			}
		case "artifact-resolve-element":
			var ar *saml.ArtifactResolve
			ar, err = sp.MakeArtifactResolveRequest("artifact-1")
			if err == nil {
				rawxml = samlgen.Doc(ar.Element())
			}
		case "authn-redirect":
			u, err = sp.MakeRedirectAuthenticationRequest(relay)
		case "authn-post":
			page, err = sp.MakePostAuthenticationRequest(relay)
		case "logoutreq-redirect":
			u, err = sp.MakeRedirectLogoutRequest(c13NameID, relay)
		case "logoutreq-post":
			page, err = sp.MakePostLogoutRequest(c13NameID, relay)
		case "logoutresp-redirect":
			u, err = sp.MakeRedirectLogoutResponse("id-given", relay)
		case "logoutresp-post":
			page, err = sp.MakePostLogoutResponse("id-given", relay)
		case "artifact-resolve":
			var ar *saml.ArtifactResolve
			ar, err = sp.MakeArtifactResolveRequest("artifact-1")
			if err == nil {
				el = ar.SoapRequest()
			}
		}
		return nil
	})
	t.Impl(1)
	t.Compared()
	verify := func() {
		if p != "" {
			t.Fail(fk("panic@"+p[strings.LastIndex(p, "@")+1:]), "panicked: %s", p)
			return
		}
		if near {
			if err != nil {
				t.Modelled(core.DontCare)
				t.Outcome("refused")
				return
			}
			t.Modelled(core.DontCare)
			method = strings.TrimSpace(method)
			fits = true
		}
		if !fits {
			t.Modelled(core.MustReject)
			t.Outcome("refused")
			if err == nil {
				t.Fail(fk("mismatched-method-not-refused"), "signature method %s does not fit key %s (or is unknown) but a message was produced", method, kn)
			}
			return
		}
		if !near {
			t.Modelled(core.MustAccept)
		}
		if err != nil {
			t.Fail(fk("constructor-error"), "method %s with key %s: %v", method, kn, err)
			return
		}
		t.Outcome("signed")

		// the certificate a peer would use: from the published metadata, serialised and re-parsed
		mb, merr := xml.Marshal(sp.Metadata())
		var md saml.EntityDescriptor
		if merr == nil {
			merr = xml.Unmarshal(mb, &md)
		}
		if merr != nil || len(md.SPSSODescriptors) != 1 {
			t.Fail(fk("metadata"), "SP metadata does not round-trip: %v", merr)
			return
		}
		sd := md.SPSSODescriptors[0]
		var cert *x509.Certificate
		for _, kd := range sd.KeyDescriptors {
			if kd.Use == "signing" && len(kd.KeyInfo.X509Data.X509Certificates) > 0 {
				der, derr := base64.StdEncoding.DecodeString(strings.Join(strings.Fields(kd.KeyInfo.X509Data.X509Certificates[0].Data), ""))
				if derr == nil {
					// the descriptor may carry leaf + intermediates concatenated; the leaf is first
					if cs, perr := x509.ParseCertificates(der); perr == nil && len(cs) > 0 {
						cert = cs[0]
					}
				}
			}
		}
		if cert == nil {
			t.Fail(fk("metadata-no-signing-certificate"), "published metadata carries no usable signing certificate")
			return
		}
		if !cert.Equal(kp.Cert) {
			t.Fail(fk("metadata-wrong-certificate"), "published signing certificate is not the SP's certificate")
		}

		if msg == "authn-redirect" {
			raw := u.RawQuery
			t.Input("url", u.String())
			i := strings.Index(raw, "SAMLRequest=")
			j := strings.Index(raw, "&Signature=")
			if i < 0 || j < 0 || j < i {
				t.Fail(fk("no-signature-parameter"), "no SAMLRequest=...&Signature= in %q", truncStr(raw, 200))
				return
			}
			signed := raw[i:j]
			sigB64, _ := url.QueryUnescape(raw[j+len("&Signature="):])
			if k := strings.Index(sigB64, "&"); k >= 0 {
				sigB64 = sigB64[:k]
			}
			sig, derr := base64.StdEncoding.DecodeString(sigB64)
			if derr != nil {
				t.Fail(fk("signature-not-base64"), "%v", derr)
				return
			}
			// shape: SAMLRequest=..[&RelayState=..]&SigAlg=..
			parts := strings.Split(signed, "&")
			okShape := strings.HasPrefix(parts[0], "SAMLRequest=") && strings.HasPrefix(parts[len(parts)-1], "SigAlg=") &&
				(len(parts) == 2 && relay == "" || len(parts) == 3 && strings.HasPrefix(parts[1], "RelayState=") && relay != "")
			if !okShape {
				t.Fail(fk("signed-octets-shape"), "signed octets are not SAMLRequest=..[&RelayState=..]&SigAlg=..: %q", truncStr(signed, 200))
			}
			alg, _ := url.QueryUnescape(strings.TrimPrefix(parts[len(parts)-1], "SigAlg="))
			if alg != method {
				t.Fail(fk("sigalg"), "SigAlg %q, configured %q", alg, method)
			}
			if !verifyDetached(cert, method, []byte(signed), sig) {
				whole := verifyDetached(cert, method, []byte(raw[:j]), sig)
				f := "signature-does-not-verify"
				if whole && i > 0 {
					f = "signature-covers-preexisting-query"
				}
				t.Fail(fk(f), "signature over the octets %q... does not verify under the published certificate (verifies over the whole query prefix incl. pre-existing parameters: %v)", truncStr(signed, 60), whole)
			}
			return
		}

		// XML-level signatures
		param := "SAMLRequest"
		if strings.HasPrefix(msg, "logoutresp") {
			param = "SAMLResponse"
		}
		if u != nil {
			keys, vals, _ := splitQuery(u.RawQuery)
			for i, k := range keys {
				if k == "RelayState" && vals[i] != relay {
					t.Fail(fk("url-is-not-the-one-for-this-call"), "the URL carries RelayState %q, this call was made with %q", truncStr(vals[i], 40), truncStr(relay, 40))
				}
				if k == param {
					raw, derr := base64.StdEncoding.DecodeString(vals[i])
					if derr == nil {
						if x, ierr := inflate(raw); ierr == nil {
							el = samlgen.Parse(x)
						}
					}
				}
			}
		} else if page != nil {
			f, ferr := htmlform.Parse(page)
			if ferr == nil && f.Fields["RelayState"] != relay && !strings.ContainsAny(relay, "\r\n\x00") {
				t.Fail(fk("form-is-not-the-one-for-this-call"), "the form carries RelayState %q, this call was made with %q", truncStr(f.Fields["RelayState"], 40), truncStr(relay, 40))
			}
			if ferr == nil {
				if raw, derr := base64.StdEncoding.DecodeString(f.Fields[param]); derr == nil {
					el = samlgen.Parse(raw)
				}
			}
		} else if rawxml != nil {
			el = samlgen.Parse(rawxml)
		} else if el != nil {
			// ArtifactResolve travels inside a SOAP body: take the wire form
			wire := samlgen.Parse(samlgen.Doc(el))
			if ars := findNS(wire, samlgen.NSProtocol, "ArtifactResolve"); len(ars) == 1 {
				el = ars[0]
			} else {
				el = nil
			}
		}
		if el == nil {
			t.Fail(fk("undecodable"), "cannot recover the emitted element from its wire form")
			return
		}
		n, ok, alg, certs, verr := verifyEnveloped(el, []*x509.Certificate{cert}, samlgen.T0)
		if n != 1 {
			t.Fail(fk("unsigned-or-multiply-signed"), "emitted %s carries %d enveloped signatures although signing is configured", el.Tag, n)
			return
		}
		if !ok {
			t.Fail(fk("xml-signature-does-not-verify"), "enveloped signature on %s does not verify under the published certificate: %s", el.Tag, verr)
			t.Input("element", string(samlgen.Doc(el.Copy())))
		}
		if alg != method {
			t.Fail(fk("xml-signature-method"), "SignatureMethod %q, configured %q", alg, method)
		}
		if strings.HasPrefix(msg, "logoutreq") {
			got := ""
			if n := findNS(el, samlgen.NSAssertion, "NameID"); len(n) == 1 {
				got = n[0].Text()
			}
			if got != nameID {
				t.Fail(fk("name-id-altered"), "the signed LogoutRequest names %+q, the call named %+q", got, nameID)
			}
		}
		_ = certs
		_ = time.Now
	}
	if hold != nil {
		*hold = append(*hold, verify)
		return
	}
	verify()
}
