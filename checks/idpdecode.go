package checks

import (
	"bytes"
	"crypto/x509"
	"encoding/base64"
	"fmt"
	"strings"
	"time"

	"github.com/beevik/etree"
	dsig "github.com/russellhaering/goxmldsig"

	"verif/engine/htmlform"
	"verif/engine/samlgen"
	"verif/engine/xenc"
)

// decodedResponse is what an independent decoder reads from an IdP-emitted POST form.
type decodedResponse struct {
	Form             *htmlform.Form
	Raw              []byte // decoded Response XML
	Resp             *etree.Element
	Destination      string
	InResponseTo     *string
	RespIssuer       string
	StatusCode       string
	RespIssueInstant string

	NAssertions, NEncrypted int
	Encrypted               bool
	EncEl                   *etree.Element
	Plain                   []byte // decrypted assertion bytes (if encrypted)
	Ass                     *etree.Element
	AssIssuer               string
	NameID                  string
	NameIDFormat            string
	SPNameQualifier         string
	Confs                   []decodedConf
	NotBefore, NotOnOrAfter string
	Audiences               []string
	SessionIndex            string
	Attrs                   []decodedAttr

	RespSigs, AssSigs         int
	RespSigOK, AssSigOK       bool
	RespSigErr, AssSigErr     string
	RespSigAlg, AssSigAlg     string
	RespSigCerts, AssSigCerts []string
}

type decodedConf struct {
	Method                           string
	HasData                          bool
	InResponseTo                     *string
	Recipient, NotOnOrAfter, Address string
}

type decodedAttr struct {
	Name, FriendlyName, NameFormat string
	Values                         []string
}

func attrPtr(el *etree.Element, k string) *string {
	if a := el.SelectAttr(k); a != nil {
		v := a.Value
		return &v
	}
	return nil
}

func one(el *etree.Element, ns, tag string) *etree.Element {
	if c := childNS(el, ns, tag); len(c) > 0 {
		return c[0]
	}
	return nil
}

func textOf(el *etree.Element) string {
	if el == nil {
		return ""
	}
	var sb strings.Builder
	for _, ch := range el.Child {
		if cd, ok := ch.(*etree.CharData); ok {
			sb.WriteString(cd.Data)
		}
	}
	return sb.String()
}

// verifyEnveloped validates the unique direct-child signature of el under roots with a fresh context.
func verifyEnveloped(el *etree.Element, roots []*x509.Certificate, now time.Time) (n int, ok bool, alg string, certs []string, errs string) {
	sigs := childNS(el, samlgen.NSDsig, "Signature")
	n = len(sigs)
	if n != 1 {
		return n, false, "", nil, fmt.Sprintf("%d direct-child signatures", n)
	}
	if sm := findNS(sigs[0], samlgen.NSDsig, "SignatureMethod"); len(sm) > 0 {
		alg = sm[0].SelectAttrValue("Algorithm", "")
	}
	for _, c := range findNS(sigs[0], samlgen.NSDsig, "X509Certificate") {
		certs = append(certs, strings.Join(strings.Fields(c.Text()), ""))
	}
	det, err := detach(el)
	if err != nil {
		return n, false, alg, certs, err.Error()
	}
	vc := dsig.NewDefaultValidationContext(&dsig.MemoryX509CertificateStore{Roots: roots})
	vc.IdAttribute = "ID"
	vc.Clock = dsig.NewFakeClockAt(now)
	func() {
		defer func() {
			if r := recover(); r != nil {
				errs = fmt.Sprint("panic: ", r)
			}
		}()
		_, err := vc.Validate(det)
		if err != nil {
			errs = err.Error()
		} else {
			ok = true
		}
	}()
	return
}

// decodeIDPForm decodes an HTML page the IdP wrote. spPriv may be nil (no decryption attempted).
func decodeIDPForm(body []byte, sp *samlgen.KeyPair, idpCert *x509.Certificate, now time.Time) (*decodedResponse, error) {
	f, err := htmlform.Parse(body)
	if err != nil {
		return nil, fmt.Errorf("html: %w", err)
	}
	d := &decodedResponse{Form: f}
	v, ok := f.Fields["SAMLResponse"]
	if !ok {
		return d, fmt.Errorf("no SAMLResponse field")
	}
	raw, err := base64.StdEncoding.DecodeString(v)
	if err != nil {
		return d, fmt.Errorf("SAMLResponse is not base64: %w", err)
	}
	d.Raw = raw
	doc := etree.NewDocument()
	if err := doc.ReadFromBytes(raw); err != nil || doc.Root() == nil {
		return d, fmt.Errorf("SAMLResponse is not well-formed XML: %v", err)
	}
	r := doc.Root()
	if r.Tag != "Response" || r.NamespaceURI() != samlgen.NSProtocol {
		return d, fmt.Errorf("root is %s in %s", r.Tag, r.NamespaceURI())
	}
	d.Resp = r
	d.Destination = r.SelectAttrValue("Destination", "")
	d.InResponseTo = attrPtr(r, "InResponseTo")
	d.RespIssueInstant = r.SelectAttrValue("IssueInstant", "")
	d.RespIssuer = textOf(one(r, samlgen.NSAssertion, "Issuer"))
	if st := one(r, samlgen.NSProtocol, "Status"); st != nil {
		if sc := one(st, samlgen.NSProtocol, "StatusCode"); sc != nil {
			d.StatusCode = sc.SelectAttrValue("Value", "")
		}
	}
	roots := []*x509.Certificate{idpCert}
	d.RespSigs, d.RespSigOK, d.RespSigAlg, d.RespSigCerts, d.RespSigErr = verifyEnveloped(r, roots, now)

	plainAs := childNS(r, samlgen.NSAssertion, "Assertion")
	encAs := childNS(r, samlgen.NSAssertion, "EncryptedAssertion")
	d.NAssertions, d.NEncrypted = len(plainAs), len(encAs)
	var a *etree.Element
	switch {
	case len(plainAs) == 1 && len(encAs) == 0:
		a = plainAs[0]
	case len(encAs) == 1 && len(plainAs) == 0:
		d.Encrypted = true
		d.EncEl = encAs[0]
		if sp == nil {
			return d, nil
		}
		eds := findNS(encAs[0], xenc.NSXenc, "EncryptedData")
		if len(eds) != 1 {
			return d, fmt.Errorf("%d EncryptedData", len(eds))
		}
		pt, err := xenc.DecryptElement(sp.Key, eds[0])
		if err != nil {
			return d, fmt.Errorf("independent decryption failed: %w", err)
		}
		d.Plain = pt
		pd := etree.NewDocument()
		if err := pd.ReadFromBytes(pt); err != nil || pd.Root() == nil {
			return d, fmt.Errorf("decrypted assertion is not XML: %v", err)
		}
		a = pd.Root()
		if a.Tag != "Assertion" || a.NamespaceURI() != samlgen.NSAssertion {
			return d, fmt.Errorf("decrypted root is %s", a.Tag)
		}
	default:
		return d, fmt.Errorf("%d Assertion and %d EncryptedAssertion children", len(plainAs), len(encAs))
	}
	d.Ass = a
	d.AssSigs, d.AssSigOK, d.AssSigAlg, d.AssSigCerts, d.AssSigErr = verifyEnveloped(a, roots, now)
	d.AssIssuer = textOf(one(a, samlgen.NSAssertion, "Issuer"))
	if sub := one(a, samlgen.NSAssertion, "Subject"); sub != nil {
		if n := one(sub, samlgen.NSAssertion, "NameID"); n != nil {
			d.NameID = textOf(n)
			d.NameIDFormat = n.SelectAttrValue("Format", "")
			d.SPNameQualifier = n.SelectAttrValue("SPNameQualifier", "")
		}
		for _, sc := range childNS(sub, samlgen.NSAssertion, "SubjectConfirmation") {
			c := decodedConf{Method: sc.SelectAttrValue("Method", "")}
			if sd := one(sc, samlgen.NSAssertion, "SubjectConfirmationData"); sd != nil {
				c.HasData = true
				c.InResponseTo = attrPtr(sd, "InResponseTo")
				c.Recipient = sd.SelectAttrValue("Recipient", "")
				c.NotOnOrAfter = sd.SelectAttrValue("NotOnOrAfter", "")
				c.Address = sd.SelectAttrValue("Address", "")
			}
			d.Confs = append(d.Confs, c)
		}
	}
	if cond := one(a, samlgen.NSAssertion, "Conditions"); cond != nil {
		d.NotBefore = cond.SelectAttrValue("NotBefore", "")
		d.NotOnOrAfter = cond.SelectAttrValue("NotOnOrAfter", "")
		for _, ar := range childNS(cond, samlgen.NSAssertion, "AudienceRestriction") {
			for _, au := range childNS(ar, samlgen.NSAssertion, "Audience") {
				d.Audiences = append(d.Audiences, textOf(au))
			}
		}
	}
	if as := one(a, samlgen.NSAssertion, "AuthnStatement"); as != nil {
		d.SessionIndex = as.SelectAttrValue("SessionIndex", "")
	}
	for _, st := range childNS(a, samlgen.NSAssertion, "AttributeStatement") {
		for _, at := range childNS(st, samlgen.NSAssertion, "Attribute") {
			da := decodedAttr{Name: at.SelectAttrValue("Name", ""), FriendlyName: at.SelectAttrValue("FriendlyName", ""), NameFormat: at.SelectAttrValue("NameFormat", "")}
			for _, v := range childNS(at, samlgen.NSAssertion, "AttributeValue") {
				if nid := one(v, samlgen.NSAssertion, "NameID"); nid != nil {
					da.Values = append(da.Values, "nameid:"+textOf(nid))
				} else {
					da.Values = append(da.Values, textOf(v))
				}
			}
			d.Attrs = append(d.Attrs, da)
		}
	}
	return d, nil
}

func parseTS(s string) (time.Time, error) {
	return time.Parse(time.RFC3339Nano, s)
}

var _ = bytes.Equal
