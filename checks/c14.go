package checks

import (
	"bytes"
	"encoding/json"
	"encoding/xml"
	"fmt"
	"net/http/httptest"
	"net/url"
	"reflect"
	"strings"
	"time"

	"github.com/crewjam/saml"
	"github.com/crewjam/saml/samlidp"
	"github.com/crewjam/saml/samlsp"

	"verif/engine/core"
	"verif/engine/harness"
	"verif/engine/htmlform"
	"verif/engine/samlgen"
)

// C14 — peer-controlled strings cannot alter emitted HTML forms or smuggle script URLs.

var c14Tokens = []string{"a", "\"", "'", "<", ">", "&", "`", "\\", "=", " ", "\x00", "\n", " ", "{{", "}}", "</form>", "</script>", "<script>", "-->", "javascript:", "JaVaScRiPt:", " javascript:", "data:", "&quot;", "onmouseover=", "\r", "\t", "<!--", "vbscript:", "//"}

// schemeOf mimics how a browser finds the scheme of a URL attribute: leading C0/space stripped, TAB/CR/LF removed anywhere.
func schemeOf(s string) string {
	s = strings.TrimLeftFunc(s, func(r rune) bool { return r <= 0x20 })
	s = strings.NewReplacer("\t", "", "\r", "", "\n", "").Replace(s)
	i := strings.IndexAny(s, ":/?#")
	if i <= 0 || s[i] != ':' {
		return ""
	}
	sc := strings.ToLower(s[:i])
	for _, r := range sc {
		if !(r >= 'a' && r <= 'z' || r >= '0' && r <= '9' || r == '+' || r == '-' || r == '.') {
			return ""
		}
	}
	return sc
}

func scriptScheme(s string) bool {
	switch schemeOf(s) {
	case "javascript", "vbscript", "data", "livescript", "mocha", "jscript":
		return true
	}
	return false
}

// tokNL applies what HTML itself does to an attribute value: CRLF/CR become LF, NUL cannot be carried and becomes U+FFFD.
func tokNL(s string) string {
	s = strings.ReplaceAll(strings.ReplaceAll(s, "\r\n", "\n"), "\r", "\n")
	return strings.ReplaceAll(s, "\x00", "\ufffd")
}

type c14Form struct {
	name        string
	tags        []string            // expected start-tag sequence
	attrs       map[string][]string // tag#ordinal -> expected attribute names
	fields      []string            // hidden fields that carry peer strings
	render      func(urlStr, payload, relay string) ([]byte, error)
	script      []string // expected script bodies
	fixedAction string   // when set, the action the form must have whatever the peer string is (the string travels elsewhere, e.g. in the request)
}

func init() {
	Register(&Check{
		ID:     "C14",
		Engine: "lattice",
		Rule: "forms: every string of <=2 tokens over a 30-token HTML/JS/URL metacharacter alphabet (quotes, angle brackets, backtick, NUL, LF/CR/U+2028, template delimiters, closing tags, script schemes in several spellings, entity look-alikes) in every interpolated position (action URL, RelayState, payload/Toast) of the SP AuthnRequest / LogoutRequest / LogoutResponse forms, the IdP response form and the bundled IdP login form, tokenised with an HTML5 tokenizer; " +
			"metadata: scheme x binding (5 known + 2 unknown) x {Location, ResponseLocation} x every endpoint-bearing element x 3 parsers. Oracle: the start-tag sequence and attribute names are exactly the template's, hidden fields carry the input verbatim, the action never resolves to a script scheme, script bodies are unchanged; parsed metadata locations of known bindings are http(s) or parsing failed, of unknown bindings blank. non-trivial = all but the benign string",
		Bounds: func(tier string) string {
			if tier == "thorough" {
				return "strings of <= 3 tokens in the URL and RelayState positions"
			}
			return "strings of <= 2 tokens (931) in every position of 5 forms; all metadata documents (about 5,700)"
		},
		Assumptions: []string{"HTML5 tokenizer of golang.org/x/net/html stands in for browsers; quirks beyond it are not covered", "custom ResponseFormTemplate / LoginFormTemplate are out of scope"},
		Run:         runC14,
		CapQuick:    5 * time.Minute,
		CapThorough: 20 * time.Minute,
	})
}

func runC14(c *core.Ctx) {
	g := harness.Pin(samlgen.T0)
	defer g.Restore()
	var strs []string
	maxTok := 2
	if c.Thorough() {
		maxTok = 3
	}
	var gen func(p string, d int)
	gen = func(p string, d int) {
		strs = append(strs, p)
		if d == maxTok {
			return
		}
		for _, tk := range c14Tokens {
			gen(p+tk, d+1)
		}
	}
	gen("", 0)

	sp := harness.NewSP(harness.SPOpt{})
	spMD := spMetadataFor(sp)
	spScript := []string{`document.getElementById('SAMLSubmitButton').style.visibility="hidden";document.getElementById('SAMLRequestForm').submit();`}
	forms := []c14Form{
		{name: "sp-authn-request", tags: []string{"form", "input", "input", "input", "script"}, fields: []string{"RelayState"}, script: spScript,
			render: func(u, _, relay string) ([]byte, error) {
				ar, err := sp.MakeAuthenticationRequest(u, saml.HTTPPostBinding, saml.HTTPPostBinding)
				if err != nil {
					return nil, err
				}
				return ar.Post(relay), nil
			}},
		{name: "sp-logout-request", tags: []string{"form", "input", "input", "input", "script"}, fields: []string{"RelayState"}, script: spScript,
			render: func(u, _, relay string) ([]byte, error) {
				lr, err := sp.MakeLogoutRequest(u, "alice")
				if err != nil {
					return nil, err
				}
				return lr.Post(relay), nil
			}},
		{name: "sp-logout-response", tags: []string{"form", "input", "input", "input", "script"}, fields: []string{"RelayState"},
			script: []string{`document.getElementById('SAMLSubmitButton').style.visibility="hidden";document.getElementById('SAMLResponseForm').submit();`},
			render: func(u, _, relay string) ([]byte, error) {
				lr, err := sp.MakeLogoutResponse(u, "id-1")
				if err != nil {
					return nil, err
				}
				return lr.Post(relay), nil
			}},
		{name: "idp-response", tags: []string{"html", "form", "input", "input", "input", "script", "script"}, fields: []string{"RelayState"},
			script: []string{`document.getElementById('SAMLSubmitButton').style.visibility='hidden';`, `document.getElementById('SAMLResponseForm').submit();`},
			render: func(u, _, relay string) ([]byte, error) {
				md := *spMD
				sd := md.SPSSODescriptors[0]
				sd.KeyDescriptors = nil
				sd.AssertionConsumerServices = []saml.IndexedEndpoint{{Binding: saml.HTTPPostBinding, Location: u, Index: 1}}
				md.SPSSODescriptors = []saml.SPSSODescriptor{sd}
				idp := harness.NewIDP("idpec", harness.SPRegistry{md.EntityID: &md}, &saml.Session{ID: "s", NameID: "alice", Index: "i", CreateTime: samlgen.T0, ExpireTime: samlgen.T0.Add(time.Hour)})
				idp.Signer, idp.Key, idp.SignatureMethod = samlgen.Key("idpec").Key, nil, "http://www.w3.org/2001/04/xmldsig-more#ecdsa-sha256"
				w := httptest.NewRecorder()
				idp.ServeIDPInitiated(w, httptest.NewRequest("GET", "https://idp.example.com/x", nil), md.EntityID, relay)
				if w.Code != 200 {
					return nil, fmt.Errorf("status %d", w.Code)
				}
				return w.Body.Bytes(), nil
			}},
		// SP-initiated: the peer string arrives INSIDE the AuthnRequest (AssertionConsumerServiceURL next to a valid index, and RelayState);
		// the form must post to the registered location or the request must be refused
		{name: "idp-response-sp-initiated", tags: []string{"html", "form", "input", "input", "input", "script", "script"}, fields: []string{"RelayState"},
			script:      []string{`document.getElementById('SAMLSubmitButton').style.visibility='hidden';`, `document.getElementById('SAMLResponseForm').submit();`},
			fixedAction: "https://peer.example.com/endpoint",
			render: func(u, _, relay string) ([]byte, error) {
				md := *spMD
				sd := md.SPSSODescriptors[0]
				sd.KeyDescriptors = nil
				sd.AssertionConsumerServices = []saml.IndexedEndpoint{{Binding: saml.HTTPPostBinding, Location: "https://peer.example.com/endpoint", Index: 1}}
				md.SPSSODescriptors = []saml.SPSSODescriptor{sd}
				idp := harness.NewIDP("idpec", harness.SPRegistry{md.EntityID: &md}, &saml.Session{ID: "s", NameID: "alice", Index: "i", CreateTime: samlgen.T0, ExpireTime: samlgen.T0.Add(time.Hour)})
				idp.Signer, idp.Key, idp.SignatureMethod = samlgen.Key("idpec").Key, nil, "http://www.w3.org/2001/04/xmldsig-more#ecdsa-sha256"
				doc := authnRequestXML(samlgen.S(md.EntityID), samlgen.S(samlgen.IDPSSO), samlgen.S("2.0"), samlgen.S(samlgen.TS(samlgen.T0)), samlgen.S(u), samlgen.S("1"), "id-req-c14")
				w := httptest.NewRecorder()
				idp.ServeSSO(w, idpRequest("POST", doc, relay))
				if w.Code != 200 || !strings.Contains(w.Body.String(), "SAMLResponse") {
					return nil, fmt.Errorf("status %d", w.Code)
				}
				return w.Body.Bytes(), nil
			}},
	}
	// the same without an index: the requested URL extends a registered location (the peer string is appended to it). It is not that
	// location, so either the request is refused or the form posts to the registered location - for a registered path and a bare origin
	for _, reg := range []struct{ name, loc string }{{"path", "https://peer.example.com/endpoint"}, {"origin", "https://peer.example.com"}} {
		reg := reg
		forms = append(forms, c14Form{name: "idp-response-sp-initiated-url-extending-registered-" + reg.name, tags: []string{"html", "form", "input", "input", "input", "script", "script"}, fields: []string{"RelayState"},
			script:      []string{`document.getElementById('SAMLSubmitButton').style.visibility='hidden';`, `document.getElementById('SAMLResponseForm').submit();`},
			fixedAction: reg.loc,
			render: func(u, _, relay string) ([]byte, error) {
				md := *spMD
				sd := md.SPSSODescriptors[0]
				sd.KeyDescriptors = nil
				sd.AssertionConsumerServices = []saml.IndexedEndpoint{{Binding: saml.HTTPPostBinding, Location: reg.loc, Index: 1}}
				md.SPSSODescriptors = []saml.SPSSODescriptor{sd}
				idp := harness.NewIDP("idpec", harness.SPRegistry{md.EntityID: &md}, &saml.Session{ID: "s", NameID: "alice", Index: "i", CreateTime: samlgen.T0, ExpireTime: samlgen.T0.Add(time.Hour)})
				idp.Signer, idp.Key, idp.SignatureMethod = samlgen.Key("idpec").Key, nil, "http://www.w3.org/2001/04/xmldsig-more#ecdsa-sha256"
				asked := reg.loc + u
				if u == "https://peer.example.com/endpoint" { // (the baseline rendering: the registered location itself)
					asked = reg.loc
				}
				doc := authnRequestXML(samlgen.S(md.EntityID), samlgen.S(samlgen.IDPSSO), samlgen.S("2.0"), samlgen.S(samlgen.TS(samlgen.T0)), samlgen.S(asked), nil, "id-req-c14")
				w := httptest.NewRecorder()
				idp.ServeSSO(w, idpRequest("POST", doc, relay))
				if w.Code != 200 || !strings.Contains(w.Body.String(), "SAMLResponse") {
					return nil, fmt.Errorf("status %d", w.Code)
				}
				return w.Body.Bytes(), nil
			}})
	}

	baselines := map[string]*htmlform.Form{}
	baselineOf := func(f c14Form) *htmlform.Form {
		if b, ok := baselines[f.name]; ok {
			return b
		}
		page, err := f.render("https://peer.example.com/endpoint", "", "benign")
		var b *htmlform.Form
		if err == nil {
			b, _ = htmlform.Parse(page)
		}
		baselines[f.name] = b
		return b
	}
	c.Group("forms")
	for _, f := range forms {
		for si, s := range strs {
			for _, position := range []string{"url", "relay", "both"} {
				f, s, position, si := f, s, position, si
				key := fmt.Sprintf("form/%s/%s/str#%d=%+q", f.name, position, si, truncStr(s, 40))
				c.Case(key, func(t *core.T) {
					if s != "a" {
						t.NonTrivial()
					}
					u, relay := "https://peer.example.com/endpoint", "benign"
					switch position {
					case "url":
						u = s
					case "relay":
						relay = s
					case "both":
						u, relay = s, s
					}
					var page []byte
					var err error
					_, p := guard(func() error { page, err = f.render(u, "", relay); return nil })
					t.Impl(1)
					if p != "" {
						if strings.Contains(p, "html/template") || strings.Contains(p, "panic(err)") {
							t.Outcome("template-refused")
							return
						}
						t.Outcome("panic")
						t.Compared()
						return // a panic on a hostile string emits nothing; totality is C09's subject
					}
					if err != nil {
						t.Outcome("error")
						return
					}
					if f.fixedAction != "" {
						if hf, e := htmlform.Parse(page); e == nil && hf.Action != f.fixedAction {
							t.Fail("C14/"+f.name+"/action-is-not-the-registered-location", "the request carried AssertionConsumerServiceURL %+q next to a valid index; the emitted form posts to %q, the registered location is %q", truncStr(u, 60), hf.Action, f.fixedAction)
							t.Input("page", string(trunc(page, 4000)))
						}
						u = f.fixedAction
					}
					c14CheckPage(t, f, baselineOf(f), page, u, relay, key)
				})
			}
		}
	}

	// bundled IdP login form (RelayState comes from the request)
	c.Group("login-form")
	for si, s := range strs {
		for _, method := range []string{"GET", "POST"} {
			s, si, method := s, si, method
			key := fmt.Sprintf("form/idp-login/%s/str#%d=%+q", method, si, truncStr(s, 40))
			c.Case(key, func(t *core.T) {
				t.NonTrivial()
				kp := samlgen.Key("idp1")
				srv, err := samlidp.New(samlidp.Options{URL: harness.MustURL("https://idp.example.com"), Key: kp.Key, Certificate: kp.Cert, Store: &samlidp.MemoryStore{}, Logger: harness.NullLogger{}})
				if err != nil {
					t.Fail("C14/harness/samlidp.New", "%v", err)
					return
				}
				srv.IDP.ServiceProviderProvider = harness.SPRegistry{spMD.EntityID: spMD}
				doc := authnRequestXML(samlgen.S(spMD.EntityID), nil, samlgen.S("2.0"), samlgen.S(samlgen.TS(samlgen.T0)), nil, nil, "id-req-c14")
				r := idpRequest(method, doc, s)
				if method == "POST" {
					r = httptest.NewRequest("POST", srv.IDP.SSOURL.String(), strings.NewReader(url.Values{"SAMLRequest": {b64(doc)}, "RelayState": {s}, "user": {"nobody"}, "password": {"wrong"}}.Encode()))
					r.Header.Set("Content-Type", "application/x-www-form-urlencoded")
				} else {
					r.URL.Path = srv.IDP.SSOURL.Path
				}
				w := httptest.NewRecorder()
				_, p := guard(func() error { srv.IDP.ServeSSO(w, r); return nil })
				t.Impl(1)
				if p != "" {
					t.Outcome("panic")
					return
				}
				page := w.Body.Bytes()
				if !strings.Contains(string(page), "name=\"password\"") {
					t.Outcome("no-login-form:" + fmt.Sprint(w.Code))
					return
				}
				lf := c14Form{name: "idp-login", fields: []string{"RelayState"}}
				br := idpRequest(method, doc, "benign")
				if method == "POST" {
					br = httptest.NewRequest("POST", srv.IDP.SSOURL.String(), strings.NewReader(url.Values{"SAMLRequest": {b64(doc)}, "RelayState": {"benign"}, "user": {"nobody"}, "password": {"wrong"}}.Encode()))
					br.Header.Set("Content-Type", "application/x-www-form-urlencoded")
				} else {
					br.URL.Path = srv.IDP.SSOURL.Path
				}
				bw := httptest.NewRecorder()
				srv.IDP.ServeSSO(bw, br)
				base, _ := htmlform.Parse(bw.Body.Bytes())
				c14CheckPage(t, lf, base, page, srv.IDP.LoginURL.String(), s, key)
			})
		}
	}

	// the login form of the IdP-initiated (shortcut) flow: the request's own path suffix and query are peer-controlled; the form must be
	// the same form whatever they are (differential against the same request with benign strings)
	c.Group("login-form-shortcut-flow")
	for si, s := range strs {
		for _, where := range []string{"path-suffix", "query", "double-slash-path"} {
			s, si, where := s, si, where
			key := fmt.Sprintf("form/idp-login-shortcut/%s/str#%d=%+q", where, si, truncStr(s, 40))
			c.Case(key, func(t *core.T) {
				t.NonTrivial()
				kp := samlgen.Key("idp1")
				store := &samlidp.MemoryStore{}
				srv, err := samlidp.New(samlidp.Options{URL: harness.MustURL("https://idp.example.com"), Key: kp.Key, Certificate: kp.Cert, Store: store, Logger: harness.NullLogger{}})
				if err != nil {
					t.Fail("C14/harness/samlidp.New", "%v", err)
					return
				}
				mdb, _ := xml.Marshal(spMD)
				srv.ServeHTTP(httptest.NewRecorder(), httptest.NewRequest("PUT", "https://idp.example.com/services/sp", bytes.NewReader(mdb)))
				scb, _ := json.Marshal(map[string]interface{}{"service_provider": spMD.EntityID, "relay_state": "rs"})
				srv.ServeHTTP(httptest.NewRecorder(), httptest.NewRequest("PUT", "https://idp.example.com/shortcuts/sc", bytes.NewReader(scb)))
				render := func(str string) ([]byte, int, string) {
					r := httptest.NewRequest("GET", "https://idp.example.com/login/sc/x", nil)
					switch where {
					case "path-suffix":
						r.URL.Path, r.URL.RawPath = "/login/sc/"+str, ""
					case "query":
						r.URL.RawQuery = "next=" + url.QueryEscape(str) + "&raw=" + strings.NewReplacer(" ", "+", "\n", "", "\r", "", "#", "%23").Replace(str)
					case "double-slash-path":
						r.URL.Path, r.URL.RawPath = "/login/sc//evil.example.net/"+str, ""
					}
					r.RequestURI = r.URL.RequestURI()
					w := httptest.NewRecorder()
					_, p := guard(func() error { srv.ServeHTTP(w, r); return nil })
					return w.Body.Bytes(), w.Code, p
				}
				page, code, p := render(s)
				t.Impl(1)
				if p != "" {
					t.Outcome("panic")
					return
				}
				if !strings.Contains(string(page), "name=\"password\"") {
					t.Outcome("no-login-form:" + fmt.Sprint(code))
					return
				}
				bpage, _, _ := render("benign")
				base, _ := htmlform.Parse(bpage)
				lf := c14Form{name: "idp-login-shortcut", fields: []string{"RelayState"}}
				hf, herr := htmlform.Parse(page)
				if herr == nil && base != nil && hf.Action != base.Action {
					t.Fail("C14/idp-login-shortcut/action-depends-on-the-request", "the login form's action is %q for this request and %q for the same request with benign strings: the peer's %s reaches the action", hf.Action, base.Action, where)
					t.Input("page", string(trunc(page, 4000)))
				}
				if base != nil {
					c14CheckPage(t, lf, base, page, srv.IDP.LoginURL.String(), "rs", key)
				}
			})
		}
	}

	c14Metadata(c)
}

// sig is the structure of a page: start tags with their attribute names, script bodies, stray text.
func pageSig(f *htmlform.Form) (tags string, scripts []string, text int) {
	var sb strings.Builder
	for _, tg := range f.Tags {
		sb.WriteString("<" + tg.Name)
		for _, a := range tg.Attrs {
			sb.WriteString(" " + a[0])
		}
		sb.WriteString(">")
	}
	return sb.String(), f.Scripts, len(f.Text)
}

// c14CheckPage compares the page rendered with hostile strings against the same form rendered with benign strings
// (differential: robust to edits of the templates themselves).
func c14CheckPage(t *core.T, f c14Form, base *htmlform.Form, page []byte, u, relay, key string) {
	t.Compared()
	hf, err := htmlform.Parse(page)
	fk := func(k string) string { return "C14/" + f.name + "/" + k }
	fail := func(k, format string, a ...interface{}) {
		t.Fail(fk(k), format, a...)
		t.Input("page", string(trunc(page, 6000)))
		t.Input("url", fmt.Sprintf("%+q", u))
		t.Input("relay", fmt.Sprintf("%+q", relay))
	}
	if err != nil {
		fail("untokenisable", "%v", err)
		return
	}
	if base == nil {
		fail("no-baseline", "the form could not be rendered with benign strings")
		return
	}
	bt, bs, btxt := pageSig(base)
	gt, gs, gtxt := pageSig(hf)
	if gt != bt {
		fail("structure-changed", "start tags / attribute names are\n  %s\nbut the same form with benign strings has\n  %s", gt, bt)
		return
	}
	if gtxt != btxt {
		fail("text-injected", "text nodes outside fields: %q", hf.Text)
	}
	if hf.NForms != base.NForms {
		fail("form-count", "%d forms", hf.NForms)
	}
	if len(gs) != len(bs) {
		fail("script-count", "%d scripts, benign rendering has %d", len(gs), len(bs))
	} else {
		for i := range bs {
			if gs[i] != bs[i] {
				fail("script-body-changed", "script %d is %q", i, truncStr(gs[i], 120))
			}
		}
	}
	// every attribute other than the interpolated ones must be byte-identical to the benign rendering
	for i, tg := range hf.Tags {
		for j, a := range tg.Attrs {
			ba := base.Tags[i].Attrs[j]
			if a[0] == "value" || a[0] == "action" {
				continue
			}
			if a[1] != ba[1] {
				fail("attribute-value-changed", "<%s %s=%q> differs from the benign rendering (%q)", tg.Name, a[0], truncStr(a[1], 60), ba[1])
			}
		}
	}
	if scriptScheme(hf.Action) {
		fail("script-url-in-action", "form action %q resolves to a script-bearing scheme", hf.Action)
	}
	if hf.Action != "#ZgotmplZ" && !scriptScheme(u) && u == strings.TrimSpace(u) { // (a URL with blank ends has no agreed reading to compare with)
		// a benign URL must still be the one the browser posts to (after html/template's percent-normalisation)
		pu, e1 := url.Parse(strings.TrimSpace(hf.Action))
		wu, e2 := url.Parse(strings.TrimSpace(u))
		if e1 == nil && e2 == nil && wu.Host != "" && (pu.Scheme != wu.Scheme || pu.Host != wu.Host) {
			fail("action-target-changed", "form action %q does not target the host of %q", hf.Action, u)
		}
	}
	for _, name := range f.fields {
		v, ok := hf.Fields[name]
		if !ok {
			fail("field-missing", "hidden field %s missing", name)
		} else if tokNL(v) != tokNL(relay) {
			fail("field-altered", "hidden field %s = %+q, input %+q", name, v, relay)
		}
	}
	t.Outcome("inert")
	t.Sample(map[string]interface{}{"case": key, "action": hf.Action})
}

// ---------- metadata ----------

type c14Scheme struct{ name, loc string }

var c14Schemes = []c14Scheme{
	{"https", "https://ok.example.com/x"}, {"http", "http://ok.example.com/x"}, {"HTTP-upper", "HTTP://ok.example.com/x"}, {"javascript", "javascript:alert(1)"},
	{"JaVaScRiPt", "JaVaScRiPt:alert(1)"}, {"javascript-slashes", "javascript://ok.example.com/%0Aalert(1)"}, {"data", "data:text/html,<script>alert(1)</script>"}, {"vbscript", "vbscript:msgbox(1)"},
	{"file", "file:///etc/passwd"}, {"empty", ""}, {"relative", "/saml/acs"}, {"scheme-relative", "//evil.example.net/x"}, {"leading-space-js", " javascript:alert(1)"},
	{"leading-tab-js", "\tjavascript:alert(1)"}, {"leading-ctrl-js", "\x01javascript:alert(1)"}, {"tab-inside-js", "java\tscript:alert(1)"}, {"encoded-js", "%6aavascript:alert(1)"},
	{"malformed-ipv6", "http://[::1"}, {"colon-only", ":"}, {"ftp", "ftp://ok.example.com/x"}, {"mailto", "mailto:a@example.com"}, {"https-userinfo", "https://user:pw@ok.example.com/x"},
	// schemes that merely begin like http / https
	{"httpx", "httpx://ok.example.com/x"}, {"http-handler", "http-handler:ok.example.com/x"}, {"https+app", "https+app://ok.example.com/x"}, {"httpss", "HTTPSS://ok.example.com/x"}, {"http.evil", "http.evil:alert(1)"}, {"htt", "htt://ok.example.com/x"},
}

// ("" = Binding="" ; "\x00absent" = no Binding attribute at all: neither names a binding whose locations could be vouched for)
var c14Bindings = []string{saml.HTTPPostBinding, saml.HTTPRedirectBinding, saml.HTTPArtifactBinding, saml.SOAPBinding, saml.SOAPBindingV1, "urn:example:unknown", "urn:mace:shibboleth:1.0:profiles:AuthnRequest", "", "\x00absent",
	" " + saml.HTTPPostBinding, strings.ToUpper(saml.HTTPPostBinding)}

// c14BindingLabel names a binding value in case keys (distinct for every entry of c14Bindings).
func c14BindingLabel(b string) string {
	switch {
	case b == "":
		return "binding-empty"
	case b == "\x00absent":
		return "binding-absent"
	case strings.HasPrefix(b, " "):
		return "blank+" + b[strings.LastIndex(b, ":")+1:]
	case b == strings.ToUpper(b):
		return "upper-" + b[strings.LastIndex(b, ":")+1:]
	}
	return b[strings.LastIndex(b, ":")+1:]
}

// where an endpoint element can live: role descriptor element name + endpoint element name + indexed?
type c14Slot struct {
	role, el string
	indexed  bool
}

var c14Slots = []c14Slot{
	{"IDPSSODescriptor", "SingleSignOnService", false}, {"IDPSSODescriptor", "SingleLogoutService", false}, {"IDPSSODescriptor", "ArtifactResolutionService", true},
	{"IDPSSODescriptor", "ManageNameIDService", false}, {"IDPSSODescriptor", "NameIDMappingService", false}, {"IDPSSODescriptor", "AssertionIDRequestService", false},
	{"SPSSODescriptor", "AssertionConsumerService", true}, {"SPSSODescriptor", "SingleLogoutService", false}, {"SPSSODescriptor", "ArtifactResolutionService", true}, {"SPSSODescriptor", "ManageNameIDService", false},
	{"AuthnAuthorityDescriptor", "AuthnQueryService", false}, {"AuthnAuthorityDescriptor", "AssertionIDRequestService", false},
	{"PDPDescriptor", "AuthzService", false}, {"PDPDescriptor", "AssertionIDRequestService", false},
	{"AttributeAuthorityDescriptor", "AttributeService", false}, {"AttributeAuthorityDescriptor", "AssertionIDRequestService", false},
}

func xmlAttrEscape(s string) string {
	var sb strings.Builder
	xml.EscapeText(&sb, []byte(s))
	return sb.String()
}

// collectEndpoints walks a parsed value and returns every Endpoint / IndexedEndpoint (binding, location, responseLocation).
func collectEndpoints(v reflect.Value, out *[][3]string) {
	switch v.Kind() {
	case reflect.Ptr, reflect.Interface:
		if !v.IsNil() {
			collectEndpoints(v.Elem(), out)
		}
	case reflect.Slice:
		for i := 0; i < v.Len(); i++ {
			collectEndpoints(v.Index(i), out)
		}
	case reflect.Struct:
		switch e := v.Interface().(type) {
		case saml.Endpoint:
			*out = append(*out, [3]string{e.Binding, e.Location, e.ResponseLocation})
			return
		case saml.IndexedEndpoint:
			rl := ""
			if e.ResponseLocation != nil {
				rl = *e.ResponseLocation
			}
			*out = append(*out, [3]string{e.Binding, e.Location, rl})
			return
		}
		if v.Type().PkgPath() != "github.com/crewjam/saml" {
			return
		}
		for i := 0; i < v.NumField(); i++ {
			if v.Type().Field(i).IsExported() {
				collectEndpoints(v.Field(i), out)
			}
		}
	}
}

func c14Metadata(c *core.Ctx) {
	c.Group("metadata-schemes")
	body := c14MetadataBody(map[string]bool{saml.HTTPPostBinding: true, saml.HTTPRedirectBinding: true, saml.HTTPArtifactBinding: true, saml.SOAPBinding: true, saml.SOAPBindingV1: true})
	for _, slot := range c14Slots {
		for _, b := range c14Bindings {
			for _, sch := range c14Schemes {
				for _, attr := range []string{"Location", "ResponseLocation", "both", "Location+valid-ResponseLocation", "valid-Location+ResponseLocation",
					// the hostile value in a namespace-qualified attribute of the same local name (alone, and after a well-formed unqualified one);
					// no Location at all next to a hostile ResponseLocation
					"qualified-Location-only", "valid-Location+qualified-Location", "valid-Location+qualified-ResponseLocation", "no-Location+ResponseLocation", "empty-Location+ResponseLocation"} {
					for _, wrap := range []bool{false, true} {
						slot, b, sch, attr, wrap := slot, b, sch, attr, wrap
						key := fmt.Sprintf("md/%s/%s/%s/%s/%s/entities=%v", slot.role, slot.el, c14BindingLabel(b), sch.name, attr, wrap)
						c.Case(key, func(t *core.T) { body(t, slot, b, sch, attr, wrap, ` index="1"`) })
					}
				}
			}
		}
	}
	// the other attributes of an indexed endpoint in every form a metadata author may write (or get wrong), next to a hostile location:
	// whatever the parser does about those attributes, a location that survives is http(s)
	c.Group("metadata-schemes-x-index-forms")
	idxForms := []string{``, ` index=""`, ` index=" 1"`, ` index="+1"`, ` index="01"`, ` index="-1"`, ` index="first"`, ` index="0x1"`, ` index="1.0"`, ` index="١"`,
		` index="99999999999999999999"`, ` index="1" isDefault="true"`, ` index="1" isDefault="1"`, ` index="1" isDefault="maybe"`, ` index="1" isDefault=""`, ` index="one" isDefault="true"`}
	for _, slot := range c14Slots {
		if !slot.indexed {
			continue
		}
		for _, b := range c14Bindings {
			for _, sch := range c14Schemes {
				for _, attr := range []string{"Location", "ResponseLocation"} {
					for xi, idx := range idxForms {
						slot, b, sch, attr, idx := slot, b, sch, attr, idx
						key := fmt.Sprintf("md-index-forms/%s/%s/%s/%s/%s/form=%d", slot.role, slot.el, c14BindingLabel(b), sch.name, attr, xi)
						c.Case(key, func(t *core.T) { body(t, slot, b, sch, attr, false, idx) })
					}
				}
			}
		}
	}
}

func c14MetadataBody(known map[string]bool) func(t *core.T, slot c14Slot, b string, sch c14Scheme, attr string, wrap bool, idxAttrs string) {
	return func(t *core.T, slot c14Slot, b string, sch c14Scheme, attr string, wrap bool, idxAttrs string) {
		{
			t.NonTrivial()
			loc, rloc := "https://ok.example.com/loc", ""
			switch attr {
			case "Location":
				loc = sch.loc
			case "ResponseLocation":
				rloc = sch.loc
			case "both":
				loc, rloc = sch.loc, sch.loc
			case "Location+valid-ResponseLocation": // a well-formed ResponseLocation next to the hostile Location
				loc, rloc = sch.loc, "https://ok.example.com/return"
			case "valid-Location+ResponseLocation":
				loc, rloc = "https://ok.example.com/loc", sch.loc
			}
			ep := fmt.Sprintf(`<%s Binding="%s" Location="%s"`, slot.el, b, xmlAttrEscape(loc))
			if attr != "Location" {
				ep += fmt.Sprintf(` ResponseLocation="%s"`, xmlAttrEscape(rloc))
			}
			switch attr {
			case "qualified-Location-only":
				ep = fmt.Sprintf(`<%s xmlns:q="urn:example:q" Binding="%s" q:Location="%s"`, slot.el, b, xmlAttrEscape(sch.loc))
			case "valid-Location+qualified-Location":
				ep = fmt.Sprintf(`<%s xmlns:q="urn:example:q" Binding="%s" Location="https://ok.example.com/loc" q:Location="%s"`, slot.el, b, xmlAttrEscape(sch.loc))
			case "valid-Location+qualified-ResponseLocation":
				ep = fmt.Sprintf(`<%s xmlns:q="urn:example:q" Binding="%s" Location="https://ok.example.com/loc" q:ResponseLocation="%s"`, slot.el, b, xmlAttrEscape(sch.loc))
			case "no-Location+ResponseLocation":
				ep = fmt.Sprintf(`<%s Binding="%s" ResponseLocation="%s"`, slot.el, b, xmlAttrEscape(sch.loc))
			case "empty-Location+ResponseLocation":
				ep = fmt.Sprintf(`<%s Binding="%s" Location="" ResponseLocation="%s"`, slot.el, b, xmlAttrEscape(sch.loc))
			}
			if slot.indexed {
				ep += idxAttrs
			}
			ep += "/>"
			if b == "\x00absent" {
				ep = strings.Replace(ep, ` Binding="`+xmlAttrEscape(b)+`"`, "", 1)
				ep = strings.Replace(ep, ` Binding="`+b+`"`, "", 1)
			}
			roles := fmt.Sprintf(`<%s protocolSupportEnumeration="urn:oasis:names:tc:SAML:2.0:protocol">%s</%s>`, slot.role, ep, slot.role)
			// ParseMetadata / getSPMetadata look for IDP / SP descriptors inside EntitiesDescriptor
			extra := `<IDPSSODescriptor protocolSupportEnumeration="urn:oasis:names:tc:SAML:2.0:protocol"><SingleSignOnService Binding="urn:oasis:names:tc:SAML:2.0:bindings:HTTP-POST" Location="https://ok.example.com/sso"/></IDPSSODescriptor>` +
				`<SPSSODescriptor protocolSupportEnumeration="urn:oasis:names:tc:SAML:2.0:protocol"><AssertionConsumerService Binding="urn:oasis:names:tc:SAML:2.0:bindings:HTTP-POST" Location="https://ok.example.com/acs" index="9"/></SPSSODescriptor>`
			ed := `<EntityDescriptor xmlns="urn:oasis:names:tc:SAML:2.0:metadata" entityID="https://peer.example.com/">` + roles + extra + `</EntityDescriptor>`
			doc := ed
			if wrap {
				doc = `<EntitiesDescriptor xmlns="urn:oasis:names:tc:SAML:2.0:metadata">` + ed + `</EntitiesDescriptor>`
			}
			check := func(parser string, v interface{}, err error) {
				t.Impl(1)
				if err != nil {
					t.Outcome("parse-failed")
					return
				}
				var eps [][3]string
				collectEndpoints(reflect.ValueOf(v), &eps)
				for _, e := range eps {
					for i, l := range []string{e[1], e[2]} {
						what := []string{"Location", "ResponseLocation"}[i]
						if l == "" {
							continue
						}
						if !known[e[0]] {
							t.Fail("C14/metadata/"+parser+"/unknown-binding-location-kept", "binding %q is unknown but %s %q survived parsing", e[0], what, l)
							t.Input("metadata", doc)
							continue
						}
						if sc := schemeOf(l); sc != "http" && sc != "https" {
							t.Fail("C14/metadata/"+parser+"/non-http-location-accepted", "%s %q (scheme %q) of a %s endpoint survived parsing", what, l, sc, e[0])
							t.Input("metadata", doc)
						} else if pu, perr := url.Parse(l); perr != nil || pu.Scheme != "http" && pu.Scheme != "https" {
							t.Fail("C14/metadata/"+parser+"/non-http-location-accepted", "%s %q does not parse as an http(s) URL", what, l)
							t.Input("metadata", doc)
						}
					}
				}
				t.Outcome("parsed")
			}
			t.Compared()
			_, p := guard(func() error {
				if !wrap {
					var v saml.EntityDescriptor
					err := xml.Unmarshal([]byte(doc), &v)
					check("xml.Unmarshal", &v, err)
				} else {
					var v saml.EntitiesDescriptor
					err := xml.Unmarshal([]byte(doc), &v)
					check("xml.Unmarshal", &v, err)
				}
				v2, err := samlsp.ParseMetadata([]byte(doc))
				check("samlsp.ParseMetadata", v2, err)
				// samlidp PUT /services/x then read back what was registered
				srv, serr := samlidp.New(samlidp.Options{URL: harness.MustURL("https://idp.example.com"), Key: samlgen.Key("idp1").Key, Certificate: samlgen.Key("idp1").Cert, Store: &samlidp.MemoryStore{}, Logger: harness.NullLogger{}})
				if serr == nil {
					w := httptest.NewRecorder()
					srv.ServeHTTP(w, httptest.NewRequest("PUT", "https://idp.example.com/services/x", strings.NewReader(doc)))
					md, gerr := srv.GetServiceProvider(nil, "https://peer.example.com/")
					if w.Code < 300 && gerr == nil {
						check("samlidp.PUT", md, nil)
					} else {
						check("samlidp.PUT", nil, fmt.Errorf("status %d", w.Code))
					}
				}
				return nil
			})
			if p != "" {
				t.Fail("C14/metadata/panic@"+p[strings.LastIndex(p, "@")+1:], "metadata parser panicked: %s", p)
			}
		}
	}
}
