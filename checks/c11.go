package checks

import (
	"bytes"
	"crypto/aes"
	"crypto/cipher"
	"crypto/des"
	"crypto/rsa"
	"crypto/x509"
	"encoding/base64"
	"fmt"
	"strings"
	"time"

	"github.com/beevik/etree"
	"github.com/crewjam/saml/xmlenc"

	"verif/engine/core"
	"verif/engine/harness"
	"verif/engine/samlgen"
	"verif/engine/xenc"
)

// C11 — XML decryption is total and rejects malformed or mismatched ciphertext.

type c11Alg struct {
	name   string
	alg    string
	bs     int
	libKey int // key size the library expects for a direct key
}

func c11Algs() []c11Alg {
	return []c11Alg{
		{"aes128-cbc", xenc.AES128CBC, 16, xmlenc.AES128CBC.KeySize()},
		{"aes192-cbc", xenc.AES192CBC, 16, xmlenc.AES192CBC.KeySize()},
		{"aes256-cbc", xenc.AES256CBC, 16, xmlenc.AES256CBC.KeySize()},
		{"tripledes-cbc", xenc.TDESCBC, 8, xmlenc.TripleDES.KeySize()},
		{"aes128-gcm", xenc.AES128GCM, 16, xmlenc.AES128GCM.KeySize()},
	}
}

func detKey(n int, seed string) []byte {
	k := make([]byte, n)
	harness.NewCtr(seed).Read(k)
	return k
}

// rawCBC encrypts whole blocks without padding under the library's idea of the cipher for that key size.
func rawCBC(a c11Alg, key, iv, blocks []byte) []byte {
	var b cipher.Block
	var err error
	switch {
	case a.alg == xenc.TDESCBC && len(key) == 24:
		b, err = des.NewTripleDESCipher(key)
	case a.alg == xenc.TDESCBC:
		b, err = des.NewCipher(key)
	default:
		b, err = aes.NewCipher(key)
	}
	if err != nil {
		panic(err)
	}
	out := make([]byte, len(blocks))
	cipher.NewCBCEncrypter(b, iv[:b.BlockSize()]).CryptBlocks(out, blocks)
	return append(append([]byte{}, iv[:b.BlockSize()]...), out...)
}

// decryptTotal calls xmlenc.Decrypt on a re-parsed copy and checks totality.
func decryptTotal(t *core.T, fkPrefix string, key interface{}, el *etree.Element) ([]byte, error, bool) {
	wire, werr := rewire(el)
	if werr != nil {
		wire = el.Copy()
	}
	var pt []byte
	err, p := guard(func() error { var e error; pt, e = xmlenc.Decrypt(key, wire); return e })
	t.Impl(1)
	if p != "" {
		site := p[strings.LastIndex(p, "@")+1:]
		t.Fail(fkPrefix+"/panic@"+site, "Decrypt panicked: %s", p)
		t.Input("element", string(samlgen.Doc(el.Copy())))
		return nil, nil, true
	}
	if err != nil && pt != nil {
		t.Fail(fkPrefix+"/plaintext-and-error", "Decrypt returned both plaintext and error %v", err)
	}
	return pt, err, false
}

func mustErr(t *core.T, fk string, pt []byte, err error, panicked bool, el *etree.Element, why string) {
	if panicked {
		return
	}
	t.Modelled(core.MustReject)
	if err == nil {
		t.Fail(fk, "%s: Decrypt returned %d bytes of plaintext and no error", why, len(pt))
		t.Input("element", string(samlgen.Doc(el.Copy())))
	}
}

func init() {
	Register(&Check{
		ID:     "C11",
		Engine: "lattice",
		Rule: "exhaustive enumeration of malformed ciphertext elements: CipherValue length 0..65 per algorithm (direct and RSA-wrapped), crafted final-byte padding values, CipherValue encodings, EncryptionMethod/DigestMethod identifiers {registered, unknown, empty, absent} at both levels, " +
			"structure operators (remove/duplicate/nest EncryptedKey, KeyInfo, X509Data, X509Certificate, CipherData, X509IssuerSerial; certificate text variants), key argument of every admitted Go type, every single-bit flip and truncation of AES-GCM cipher values, " +
			"and the same elements as attacker-built EncryptedAssertion through ParseXMLResponse. Oracle: plaintext xor error, never a panic; listed classes must be errors. non-trivial = every case (each is a distinct malformed or boundary element)",
		Bounds: func(tier string) string {
			if tier == "thorough" {
				return "all single operators + all ordered pairs of structure operators; GCM bit flips for 0/1/17/33-byte plaintexts"
			}
			return "all single operators; GCM bit flips for 0/1/17-byte plaintexts"
		},
		Assumptions: []string{"element trees are produced by the harness (engine/xenc) and mutated structurally; arbitrary byte strings outside these families are not covered"},
		Run:         runC11,
		CapQuick:    5 * time.Minute,
		CapThorough: 15 * time.Minute,
	})
}

func runC11(c *core.Ctx) {
	g := harness.Pin(samlgen.T0)
	defer g.Restore()
	algs := c11Algs()
	sp := samlgen.Key("sp2048")
	priv := sp.Key.(*rsa.PrivateKey)
	other := samlgen.Key("spother")
	kt := xenc.KeyTransport{Alg: xenc.OAEPMGF1P, DigestURI: "http://www.w3.org/2000/09/xmldsig#sha1"}

	wrapped := func(a c11Alg, cek []byte, data []byte) *etree.Element {
		w, err := xenc.WrapKey(kt, &priv.PublicKey, harness.NewCtr("wrap"), cek)
		if err != nil {
			panic(err)
		}
		return xenc.EncryptedDataEl(a.alg, xenc.EncryptedKeyEl(kt, sp.CertB64, w), data)
	}
	validData := func(a c11Alg, cek []byte, ptLen int) []byte {
		pt := bytes.Repeat([]byte("A"), ptLen)
		if a.alg == xenc.AES128GCM {
			d, err := xenc.EncryptBlock(a.alg, cek, []byte("NONCE0123456"), pt, 0)
			if err != nil {
				panic(err)
			}
			return d
		}
		iv := detKey(16, "iv")
		return rawCBC(a, cek, iv, xenc.Pad(pt, a.bs, 0))
	}

	// 1. CipherValue length 0..65, direct and wrapped
	c.Group("ciphervalue-length")
	for _, a := range algs {
		for _, mode := range []string{"direct", "wrapped"} {
			for n := 0; n <= 65; n++ {
				a, mode, n := a, mode, n
				key := fmt.Sprintf("cvlen/%s/%s/%d", a.name, mode, n)
				c.Case(key, func(t *core.T) {
					t.NonTrivial()
					cek := detKey(a.libKey, "cek"+a.name)
					full := validData(a, cek, 70)
					data := full[:n]
					var el *etree.Element
					var k interface{} = cek
					if mode == "wrapped" {
						el, k = wrapped(a, cek, data), priv
					} else {
						el = xenc.EncryptedDataEl(a.alg, nil, data)
					}
					pt, err, pan := decryptTotal(t, "C11/cvlen/"+a.name, k, el)
					t.Outcome(outcomeOf(err, pan))
					minLen := 2 * a.bs
					aligned := n%a.bs == 0
					if a.alg == xenc.AES128GCM {
						minLen, aligned = 12+16, true
					}
					if n < minLen || !aligned || a.alg == xenc.AES128GCM {
						// too short, unaligned, or (GCM) any truncation of an authenticated ciphertext
						mustErr(t, "C11/cvlen/"+a.name+"/accepts-malformed-length", pt, err, pan, el, fmt.Sprintf("CipherValue of %d bytes", n))
					} else {
						t.Compared()
					}
				})
			}
		}
	}

	// 1b. length of the RSA-wrapped key's own CipherValue around the modulus size, for every key transport and two key sizes
	c.Group("wrapped-key-length")
	for _, kn := range []string{"sp1024", "sp2048", "sp2047"} {
		kp := samlgen.Key(kn)
		rk := kp.Key.(*rsa.PrivateKey)
		k := rk.Size()
		for _, tr := range []xenc.KeyTransport{{Alg: xenc.OAEPMGF1P, DigestURI: "http://www.w3.org/2000/09/xmldsig#sha1"}, {Alg: xenc.OAEP11, DigestURI: "http://www.w3.org/2001/04/xmlenc#sha256", MGFURI: "http://www.w3.org/2009/xmlenc11#mgf1sha1"}, {Alg: xenc.RSA15}} {
			for _, n := range []int{0, 1, k - 1, k, k + 1, k + 2, k + 16, 2 * k, 2*k + 1, 4 * k} {
				for _, entry := range []string{"EncryptedData", "EncryptedKey"} {
					for _, withCert := range []bool{true, false} {
						kn, rk, k, tr, n, entry, withCert := kn, rk, k, tr, n, entry, withCert
						key := fmt.Sprintf("eklen/%s/%s/len=%d(k%+d)/%s/cert=%v", kn, tr.Alg[strings.LastIndex(tr.Alg, "#")+1:], n, n-k, entry, withCert)
						c.Case(key, func(t *core.T) {
							t.NonTrivial()
							a := algs[0]
							cek := detKey(a.libKey, "cek"+a.name)
							w, err := xenc.WrapKey(tr, &rk.PublicKey, harness.NewCtr("wrap"+key), cek)
							if err != nil {
								t.Outcome("harness-cannot-wrap")
								return
							}
							cv := append([]byte{}, w...)
							for len(cv) < n {
								cv = append([]byte{0}, cv...) // leading zero bytes: the same integer, a longer octet string
							}
							if n < len(cv) {
								cv = cv[len(cv)-n:]
							}
							cert := ""
							if withCert {
								cert = samlgen.Key(kn).CertB64
							}
							ek := xenc.EncryptedKeyEl(tr, cert, cv)
							var el *etree.Element = ek
							if entry == "EncryptedData" {
								el = xenc.EncryptedDataEl(a.alg, ek, validData(a, cek, 20))
							}
							pt, derr, pan := decryptTotal(t, "C11/eklen/"+tr.Alg[strings.LastIndex(tr.Alg, "#")+1:], rk, el)
							t.Outcome(outcomeOf(derr, pan))
							if n != k {
								t.Modelled(core.DontCare) // an octet string of another length: an error, or (leading zeros) the same key
							} else if derr != nil && !pan && tr.Alg != xenc.OAEP11 {
								t.Fail("C11/eklen/rejects-valid", "%s: a correctly wrapped key of exactly the modulus size is refused: %v", key, derr)
							}
							_ = pt
							t.Compared()
						})
					}
				}
			}
		}
	}

	// a wrapped key that does not unwrap under the supplied private key (an altered octet, wrapped to somebody else's key, random octets,
	// a private key of another size): the result is an error - for every key transport, whichever cipher the key was meant for
	c.Group("undecodable-wrapped-key")
	{
		rk := samlgen.Key("sp2048").Key.(*rsa.PrivateKey)
		otherPub := &samlgen.Key("spother").Key.(*rsa.PrivateKey).PublicKey
		smallKey := samlgen.Key("sp1024").Key.(*rsa.PrivateKey)
		for _, tr := range []xenc.KeyTransport{{Alg: xenc.OAEPMGF1P, DigestURI: "http://www.w3.org/2000/09/xmldsig#sha1"}, {Alg: xenc.OAEPMGF1P, DigestURI: "http://www.w3.org/2001/04/xmlenc#sha256"}, {Alg: xenc.RSA15}} {
			for _, a := range algs {
				for _, how := range []string{"first-octet-altered", "middle-octet-altered", "last-octet-altered", "wrapped-to-another-key", "all-zero-octets", "counter-octets", "private-key-of-another-size"} {
					for _, entry := range []string{"EncryptedKey", "EncryptedData"} {
						tr, a, how, entry := tr, a, how, entry
						key := fmt.Sprintf("unwrap/%s/%s/%s/%s", tr.Alg[strings.LastIndex(tr.Alg, "#")+1:]+"+"+tr.DigestURI[strings.LastIndexAny(tr.DigestURI, "#/")+1:], a.name, how, entry)
						c.Case(key, func(t *core.T) {
							t.NonTrivial()
							cek := detKey(a.libKey, "cek"+a.name)
							pub := &rk.PublicKey
							if how == "wrapped-to-another-key" {
								pub = otherPub
							}
							w, err := xenc.WrapKey(tr, pub, harness.NewCtr("unwrap"+key), cek)
							if err != nil {
								t.Outcome("harness-cannot-wrap")
								return
							}
							switch how {
							case "first-octet-altered":
								w[0] ^= 0x01
							case "middle-octet-altered":
								w[len(w)/2] ^= 0x80
							case "last-octet-altered":
								w[len(w)-1] ^= 0xff
							case "all-zero-octets":
								w = make([]byte, len(w))
							case "counter-octets":
								for i := range w {
									w[i] = byte(i)
								}
							}
							var dk interface{} = rk
							if how == "private-key-of-another-size" {
								dk = smallKey
							}
							ek := xenc.EncryptedKeyEl(tr, "", w)
							var el *etree.Element = ek
							if entry == "EncryptedData" {
								el = xenc.EncryptedDataEl(a.alg, ek, validData(a, cek, 20))
							}
							pt, derr, pan := decryptTotal(t, "C11/unwrap/"+tr.Alg[strings.LastIndex(tr.Alg, "#")+1:], dk, el)
							t.Outcome(outcomeOf(derr, pan))
							t.Modelled(core.MustReject)
							t.Compared()
							if !pan && derr == nil {
								t.Fail("C11/unwrap/"+tr.Alg[strings.LastIndex(tr.Alg, "#")+1:]+"/no-error-for-a-key-that-does-not-unwrap", "%s: Decrypt returned %d bytes and no error although the wrapped key (%s) cannot be unwrapped with the supplied private key", key, len(pt), how)
							}
						})
					}
				}
			}
		}
	}

	// 2. crafted final padding byte
	c.Group("padding-byte")
	for _, a := range algs {
		if a.alg == xenc.AES128GCM {
			continue
		}
		for blocks := 1; blocks <= 3; blocks++ {
			for _, b := range []int{0, 1, 2, a.bs - 1, a.bs, a.bs + 1, blocks*a.bs - 1, blocks * a.bs, blocks*a.bs + 1, 0x7f, 0x80, 0xff} {
				a, blocks, b := a, blocks, b
				key := fmt.Sprintf("padbyte/%s/blocks=%d/last=%d", a.name, blocks, b)
				c.Case(key, func(t *core.T) {
					t.NonTrivial()
					cek := detKey(a.libKey, "cek"+a.name)
					buf := bytes.Repeat([]byte("B"), blocks*a.bs)
					buf[len(buf)-1] = byte(b)
					data := rawCBC(a, cek, detKey(16, "iv2"), buf)
					el := xenc.EncryptedDataEl(a.alg, nil, data)
					pt, err, pan := decryptTotal(t, "C11/padbyte/"+a.name, cek, el)
					t.Outcome(outcomeOf(err, pan))
					switch {
					case b == 0 || b > len(buf):
						mustErr(t, "C11/padbyte/"+a.name+"/accepts-invalid-padding", pt, err, pan, el, fmt.Sprintf("final byte %d in %d bytes", b, len(buf)))
					case b >= 1 && b <= a.bs:
						t.Modelled(core.MustAccept)
						if !pan && err != nil {
							t.Fail("C11/padbyte/"+a.name+"/rejects-valid-padding", "valid padding %d of %d bytes rejected: %v", b, len(buf), err)
						} else if !pan && !bytes.Equal(pt, buf[:len(buf)-b]) {
							t.Fail("C11/padbyte/"+a.name+"/wrong-plaintext", "padding %d: got %d bytes, want %d", b, len(pt), len(buf)-b)
						}
					default:
						t.Modelled(core.DontCare)
					}
				})
			}
		}
	}

	// 3. CipherValue encodings and absent parts
	c.Group("ciphervalue-encoding")
	for _, a := range algs {
		for _, mode := range []string{"direct", "wrapped"} {
			for _, enc := range []string{"not-base64", "ws-wrapped", "inner-newlines", "inner-spaces", "urlsafe", "truncated-b64", "empty", "no-ciphervalue", "no-cipherdata", "two-ciphervalues", "ek-not-base64", "ek-empty", "ek-no-ciphervalue", "ek-short"} {
				if strings.HasPrefix(enc, "ek-") && mode == "direct" {
					continue
				}
				a, mode, enc := a, mode, enc
				key := fmt.Sprintf("cvenc/%s/%s/%s", a.name, mode, enc)
				c.Case(key, func(t *core.T) {
					t.NonTrivial()
					cek := detKey(a.libKey, "cek"+a.name)
					data := validData(a, cek, 20)
					var el *etree.Element
					var k interface{} = cek
					if mode == "wrapped" {
						el, k = wrapped(a, cek, data), priv
					} else {
						el = xenc.EncryptedDataEl(a.alg, nil, data)
					}
					cd := lastChild(el, "CipherData")
					cv := cd.ChildElements()[0]
					must := true
					s := base64.StdEncoding.EncodeToString(data)
					switch enc {
					case "not-base64":
						cv.SetText("!!!! not base64 ????")
					case "ws-wrapped":
						cv.SetText("\n   " + s + "  \n\t")
						must = false
					case "inner-newlines":
						cv.SetText(s[:8] + "\n" + s[8:16] + "\r\n" + s[16:])
						must = false
					case "inner-spaces":
						cv.SetText(s[:8] + " " + s[8:])
						must = false
					case "urlsafe":
						cv.SetText(base64.URLEncoding.EncodeToString(append([]byte{0xfb, 0xff}, data...)))
						must = false
					case "truncated-b64":
						cv.SetText(s[:len(s)-3])
					case "empty":
						cv.SetText("")
					case "no-ciphervalue":
						cd.RemoveChild(cv)
					case "no-cipherdata":
						el.RemoveChild(cd)
					case "two-ciphervalues":
						cd.AddChild(cv.Copy())
						must = false
					default:
						ek := el.FindElement("./KeyInfo/EncryptedKey")
						ecd := lastChild(ek, "CipherData")
						ecv := ecd.ChildElements()[0]
						switch enc {
						case "ek-not-base64":
							ecv.SetText("@@@@")
						case "ek-empty":
							ecv.SetText("")
						case "ek-no-ciphervalue":
							ecd.RemoveChild(ecv)
						case "ek-short":
							ecv.SetText(base64.StdEncoding.EncodeToString([]byte{1, 2, 3}))
						}
					}
					pt, err, pan := decryptTotal(t, "C11/cvenc/"+a.name, k, el)
					t.Outcome(outcomeOf(err, pan))
					if must {
						mustErr(t, "C11/cvenc/"+a.name+"/accepts-"+enc, pt, err, pan, el, enc)
					} else {
						t.Compared()
					}
				})
			}
		}
	}

	// 4. algorithm and digest identifiers
	c.Group("identifiers")
	idVals := []struct{ name, val string }{{"unknown", "urn:example:unknown-alg"}, {"empty", ""}, {"absent-attr", "\x00attr"}, {"absent-el", "\x00el"},
		{"w3c-sha256", "http://www.w3.org/2001/04/xmlenc#sha256"}, {"sha1", "http://www.w3.org/2000/09/xmldsig#sha1"}, {"sha256", "http://www.w3.org/2000/09/xmldsig#sha256"},
		{"sha512", "http://www.w3.org/2000/09/xmldsig#sha512"}, {"ripemd160", "http://www.w3.org/2000/09/xmldsig#ripemd160"},
		{"rsa15", xenc.RSA15}, {"oaep", xenc.OAEPMGF1P}, {"oaep11", xenc.OAEP11}, {"aes128cbc", xenc.AES128CBC}, {"aes128gcm", xenc.AES128GCM}, {"3des", xenc.TDESCBC}}
	for _, a := range algs[:1] {
		for _, level := range []string{"data-method", "key-method", "digest"} {
			for _, iv := range idVals {
				for _, target := range []string{"EncryptedData", "EncryptedKey"} {
					a, level, iv, target := a, level, iv, target
					key := fmt.Sprintf("ident/%s/%s/%s/%s", a.name, level, iv.name, target)
					c.Case(key, func(t *core.T) {
						t.NonTrivial()
						cek := detKey(a.libKey, "cek"+a.name)
						el := wrapped(a, cek, validData(a, cek, 20))
						ek := el.FindElement("./KeyInfo/EncryptedKey")
						var m *etree.Element
						var parent *etree.Element
						switch level {
						case "data-method":
							parent = el
							m = lastChild(el, "EncryptionMethod")
						case "key-method":
							parent = ek
							m = lastChild(ek, "EncryptionMethod")
						case "digest":
							parent = lastChild(ek, "EncryptionMethod")
							m = lastChild(parent, "DigestMethod")
						}
						switch iv.val {
						case "\x00attr":
							m.RemoveAttr("Algorithm")
						case "\x00el":
							parent.RemoveChild(m)
						default:
							m.CreateAttr("Algorithm", iv.val)
						}
						var tgt *etree.Element = el
						if target == "EncryptedKey" {
							tgt = ek
						}
						pt, err, pan := decryptTotal(t, "C11/ident/"+level, priv, tgt)
						t.Outcome(outcomeOf(err, pan))
						bad := iv.name == "unknown" || iv.name == "empty" || iv.name == "absent-attr"
						if level != "digest" && iv.name == "absent-el" {
							bad = true
						}
						if target == "EncryptedKey" && level == "data-method" {
							bad = false // the data-level method is not part of the element being decrypted
						}
						if bad {
							mustErr(t, "C11/ident/"+level+"/accepts-"+iv.name, pt, err, pan, tgt, "identifier "+iv.name)
						} else {
							t.Compared()
						}
					})
				}
			}
		}
	}

	// 5. structure operators on the wrapped element
	c.Group("structure")
	ops := c11StructOps(sp, other)
	runOps := func(seq []int) {
		var names []string
		for _, i := range seq {
			names = append(names, ops[i].name)
		}
		key := "struct/" + strings.Join(names, "+")
		c.Case(key, func(t *core.T) {
			t.NonTrivial()
			a := algs[0]
			cek := detKey(a.libKey, "cek"+a.name)
			el := wrapped(a, cek, validData(a, cek, 20))
			for _, i := range seq {
				ops[i].f(el)
			}
			for _, tgtName := range []string{"EncryptedData", "EncryptedKey"} {
				tgt := el
				if tgtName == "EncryptedKey" {
					if tgt = el.FindElement("./KeyInfo/EncryptedKey"); tgt == nil {
						continue
					}
				}
				// the same element with the same key three times in a row (a re-sent message; EncryptedKey then the enclosing EncryptedData)
				for rep := 1; rep <= 3; rep++ {
					pt, err, pan := decryptTotal(t, "C11/struct", priv, tgt)
					t.Outcome(outcomeOf(err, pan))
					if firstCertMismatches(tgt, priv) {
						mustErr(t, "C11/struct/accepts-mismatching-certificate", pt, err, pan, tgt, fmt.Sprintf("embedded certificate does not match the private key (%s, presentation %d)", key, rep))
					} else {
						t.Compared()
					}
				}
			}
		})
	}
	for i := range ops {
		runOps([]int{i})
	}
	if c.Thorough() {
		for i := range ops {
			for j := range ops {
				runOps([]int{i, j})
			}
		}
	} else {
		// quick: every operator paired with each certificate-mismatch operator
		for i := range ops {
			for j := range ops {
				if ops[j].mismatch || ops[i].mismatch {
					runOps([]int{i, j})
				}
			}
		}
	}

	// 6. key argument types
	c.Group("key-types")
	type keyArg struct {
		name string
		v    interface{}
	}
	ec := samlgen.Key("spec256").Key
	keyArgs := []keyArg{{"nil", nil}, {"bytes0", []byte{}}, {"bytes8", detKey(8, "k")}, {"bytes16", detKey(16, "k")}, {"bytes24", detKey(24, "k")}, {"bytes32", detKey(32, "k")}, {"bytes33", detKey(33, "k")},
		{"rsa-matching", priv}, {"rsa-matching-without-primes", &rsa.PrivateKey{PublicKey: priv.PublicKey, D: priv.D}}, {"rsa-matching-one-prime-listed", &rsa.PrivateKey{PublicKey: priv.PublicKey, D: priv.D, Primes: priv.Primes[:1]}},
		{"rsa-zero-value", &rsa.PrivateKey{}}, {"rsa-public-part-only", &rsa.PrivateKey{PublicKey: priv.PublicKey}}, {"rsa-other", other.Key.(*rsa.PrivateKey)}, {"rsa-by-value", *priv}, {"rsa-nil-ptr", (*rsa.PrivateKey)(nil)}, {"ecdsa", ec}, {"string", "secret"}, {"int", 42}, {"cert", sp.Cert}}
	for _, a := range algs {
		for _, shape := range []string{"direct", "wrapped", "encryptedkey"} {
			for _, ka := range keyArgs {
				a, shape, ka := a, shape, ka
				key := fmt.Sprintf("keytype/%s/%s/%s", a.name, shape, ka.name)
				c.Case(key, func(t *core.T) {
					t.NonTrivial()
					cek := detKey(a.libKey, "cek"+a.name)
					pt0 := bytes.Repeat([]byte("A"), 20)
					data := validData(a, cek, 20)
					var el *etree.Element
					switch shape {
					case "direct":
						el = xenc.EncryptedDataEl(a.alg, nil, data)
					case "wrapped":
						el = wrapped(a, cek, data)
					default:
						el = wrapped(a, cek, data).FindElement("./KeyInfo/EncryptedKey")
					}
					pt, err, pan := decryptTotal(t, "C11/keytype/"+shape, ka.v, el)
					t.Outcome(outcomeOf(err, pan))
					if pan {
						return
					}
					right := (shape == "direct" && ka.name == fmt.Sprintf("bytes%d", a.libKey)) || (shape != "direct" && ka.name == "rsa-matching")
					if strings.HasPrefix(ka.name, "rsa-matching-") && shape != "direct" {
						// the right key in a form without CRT values (crypto/rsa decrypts from N, E, D alone): plaintext or an error, no panic
						t.Modelled(core.DontCare)
						if err == nil {
							want := pt0
							if shape == "encryptedkey" {
								want = cek
							}
							if !bytes.Equal(pt, want) {
								t.Fail("C11/keytype/"+shape+"/wrong-plaintext", "key %s: no error but another plaintext", ka.name)
							}
						}
						return
					}
					if !right {
						// a wrong-size/wrong-type key can never yield the plaintext
						t.Modelled(core.MustReject)
						want := pt0
						if shape == "encryptedkey" {
							want = cek
						}
						if err == nil && bytes.Equal(pt, want) {
							t.Fail("C11/keytype/"+shape+"/wrong-key-decrypts", "key %s recovered the plaintext", ka.name)
						}
						if err == nil && shape != "direct" {
							t.Fail("C11/keytype/"+shape+"/wrong-key-accepted", "key %s: no error", ka.name)
						}
					} else {
						t.Compared()
					}
				})
			}
		}
	}

	// 7. GCM: every single-bit flip must be rejected
	c.Group("gcm-bitflips")
	gl := []int{0, 1, 17}
	if c.Thorough() {
		gl = append(gl, 33)
	}
	for _, n := range gl {
		cek := detKey(16, "cekgcm")
		data, _ := xenc.EncryptBlock(xenc.AES128GCM, cek, []byte("NONCE0123456"), bytes.Repeat([]byte("G"), n), 0)
		for bit := 0; bit < len(data)*8; bit++ {
			n, bit := n, bit
			key := fmt.Sprintf("gcmflip/pt=%d/bit=%d", n, bit)
			c.Case(key, func(t *core.T) {
				t.NonTrivial()
				d := append([]byte{}, data...)
				d[bit/8] ^= 1 << (bit % 8)
				el := xenc.EncryptedDataEl(xenc.AES128GCM, nil, d)
				pt, err, pan := decryptTotal(t, "C11/gcmflip", cek, el)
				t.Outcome(outcomeOf(err, pan))
				mustErr(t, "C11/gcmflip/accepts-modified", pt, err, pan, el, fmt.Sprintf("bit %d flipped", bit))
			})
		}
	}

	// 7b. GCM: every shortening of a valid cipher value from its end (a shortened tag is not a tag), every extension by 1..16 octets
	c.Group("gcm-tail-truncations-and-extensions")
	for _, n := range []int{0, 1, 16, 17, 33} {
		cek := detKey(16, "cekgcm")
		data, _ := xenc.EncryptBlock(xenc.AES128GCM, cek, []byte("NONCE0123456"), bytes.Repeat([]byte("G"), n), 0)
		for delta := -len(data); delta <= 16; delta++ {
			if delta == 0 {
				continue
			}
			n, delta := n, delta
			key := fmt.Sprintf("gcmlen/pt=%d/octets%+d", n, delta)
			c.Case(key, func(t *core.T) {
				t.NonTrivial()
				var d []byte
				if delta < 0 {
					d = append([]byte{}, data[:len(data)+delta]...)
				} else {
					d = append(append([]byte{}, data...), bytes.Repeat([]byte{0}, delta)...)
				}
				el := xenc.EncryptedDataEl(xenc.AES128GCM, nil, d)
				pt, err, pan := decryptTotal(t, "C11/gcmlen", cek, el)
				t.Outcome(outcomeOf(err, pan))
				mustErr(t, "C11/gcmlen/accepts-modified", pt, err, pan, el, fmt.Sprintf("cipher value changed by %+d octets at its end", delta))
			})
		}
	}

	// 8. the same malformed elements presented through the SP as an attacker-built EncryptedAssertion
	c.Group("via-sp")
	spUnder := harness.NewSP(harness.SPOpt{})
	for _, a := range algs {
		for _, place := range []string{"inside", "sibling", "sibling+retrievalmethod-quote", "sibling+retrievalmethod-bracket", "sibling+retrievalmethod-plain"} {
			for n := 0; n <= 65; n++ {
				if strings.HasPrefix(place, "sibling+") && n%16 != 0 {
					continue
				}
				a, place, n := a, place, n
				key := fmt.Sprintf("viasp/%s/%s/%d", a.name, place, n)
				c.Case(key, func(t *core.T) {
					t.NonTrivial()
					cek := detKey(a.libKey, "cek"+a.name)
					full := validData(a, cek, 70)
					ed := wrapped(a, cek, full[:n])
					ea := etree.NewElement("saml:EncryptedAssertion")
					ea.AddChild(ed)
					if strings.HasPrefix(place, "sibling") {
						ek := ed.FindElement("./KeyInfo/EncryptedKey")
						ki := ek.Parent()
						ki.RemoveChild(ek)
						ea.AddChild(ek)
						if uri, ok := map[string]string{"sibling+retrievalmethod-quote": "#it's", "sibling+retrievalmethod-bracket": "#key[1", "sibling+retrievalmethod-plain": "#ek"}[place]; ok {
							ek.CreateAttr("Id", strings.TrimPrefix(uri, "#"))
							r := ki.CreateElement("ds:RetrievalMethod")
							r.CreateAttr("Type", "http://www.w3.org/2001/04/xmlenc#EncryptedKey")
							r.CreateAttr("URI", uri)
						}
					}
					rel := samlgen.DefaultResponse().Element()
					rel.AddChild(ea)
					doc := samlgen.Doc(rel)
					var err error
					_, p := guard(func() error { _, err = parseXML(spUnder, doc, []string{samlgen.ReqID}); return nil })
					t.Impl(1)
					if p != "" {
						site := p[strings.LastIndex(p, "@")+1:]
						t.Fail("C11/viasp/"+a.name+"/panic@"+site, "ParseXMLResponse panicked on attacker-built EncryptedAssertion: %s", p)
						t.Input("response_xml", string(doc))
						return
					}
					t.Modelled(core.MustReject)
					t.Outcome(harness.ErrClass(err))
					if err == nil {
						t.Fail("C11/viasp/"+a.name+"/accepted", "unsigned encrypted garbage accepted")
					}
				})
			}
		}
	}
}

func outcomeOf(err error, pan bool) string {
	switch {
	case pan:
		return "panic"
	case err != nil:
		m := err.Error()
		if len(m) > 30 {
			m = m[:30]
		}
		return "error:" + m
	}
	return "plaintext"
}

func lastChild(el *etree.Element, tag string) *etree.Element {
	var r *etree.Element
	for _, c := range el.ChildElements() {
		if c.Tag == tag {
			r = c
		}
	}
	return r
}

// firstCertMismatches reports whether the element being decrypted embeds, as its first
// X509Certificate under EncryptedKey/KeyInfo/X509Data, a well-formed certificate whose
// public key is not the supplied private key's (judged on the final, mutated tree).
func firstCertMismatches(tgt *etree.Element, priv *rsa.PrivateKey) bool {
	ek := tgt
	if tgt.Tag != "EncryptedKey" {
		ek = tgt.FindElement("./KeyInfo/EncryptedKey")
	}
	if ek == nil {
		return false
	}
	ce := ek.FindElement("./KeyInfo/X509Data/X509Certificate")
	if ce == nil {
		return false
	}
	der, err := base64.StdEncoding.DecodeString(strings.Join(strings.Fields(ce.Text()), ""))
	if err != nil {
		return false
	}
	cert, err := x509.ParseCertificate(der)
	if err != nil {
		// a certificate-sized blob that a strict parser refuses (damaged, trailing data, a field out of range) and that does not even hold the
		// supplied key's modulus is not this key's certificate; anything smaller, or a damaged copy of the right certificate, is left open
		return len(der) > 256 && !bytes.Contains(der, priv.N.Bytes())
	}
	pub, ok := cert.PublicKey.(*rsa.PublicKey)
	return !ok || pub.N.Cmp(priv.N) != 0 || pub.E != priv.E
}

type c11Op struct {
	name     string
	mismatch bool
	f        func(ed *etree.Element) bool // returns true if it made the embedded certificate mismatch the key
}

func c11StructOps(sp, other *samlgen.KeyPair) []c11Op {
	ek := func(ed *etree.Element) *etree.Element { return ed.FindElement("./KeyInfo/EncryptedKey") }
	x509data := func(ed *etree.Element) *etree.Element {
		if e := ek(ed); e != nil {
			return e.FindElement("./KeyInfo/X509Data")
		}
		return nil
	}
	setCert := func(txt string, mm bool) func(*etree.Element) bool {
		return func(ed *etree.Element) bool {
			if xd := x509data(ed); xd != nil {
				if c := xd.FindElement("./X509Certificate"); c != nil {
					c.SetText(txt)
					return mm
				}
			}
			return false
		}
	}
	issuerSerial := func() *etree.Element {
		is := etree.NewElement("ds:X509IssuerSerial")
		is.CreateElement("ds:X509IssuerName").SetText("CN=whoever")
		is.CreateElement("ds:X509SerialNumber").SetText("12345")
		return is
	}
	rm := func(path string) func(*etree.Element) bool {
		return func(ed *etree.Element) bool {
			if e := ed.FindElement(path); e != nil {
				e.Parent().RemoveChild(e)
			}
			return false
		}
	}
	dup := func(path string) func(*etree.Element) bool {
		return func(ed *etree.Element) bool {
			if e := ed.FindElement(path); e != nil {
				e.Parent().AddChild(e.Copy())
			}
			return false
		}
	}
	ecCert := samlgen.Key("spec256").CertB64
	return []c11Op{
		{"noop", false, func(*etree.Element) bool { return false }},
		{"cert-other-rsa", true, setCert(other.CertB64, true)},
		{"cert-ec", true, setCert(ecCert, true)},
		// certificates that share something with the right key without being its certificate: same modulus with another public exponent
		{"cert-same-modulus-other-exponent", true, setCert(samlgen.Key("sp2048e3").CertB64, true)},
		// another key's certificate that is damaged or that a strict X.509 parser refuses: it is still not the certificate of the supplied key
		{"cert-other-rsa-truncated", true, setCert(base64.StdEncoding.EncodeToString(other.Cert.Raw[:len(other.Cert.Raw)-10]), true)},
		{"cert-other-rsa-trailing-data", true, setCert(base64.StdEncoding.EncodeToString(append(append([]byte{}, other.Cert.Raw...), 0x05, 0x00)), true)},
		{"cert-other-rsa-signature-bit-flipped", true, setCert(base64.StdEncoding.EncodeToString(flipLast(other.Cert.Raw)), true)},
		{"cert-other-rsa-version-out-of-range", true, setCert(base64.StdEncoding.EncodeToString(badVersion(other.Cert.Raw)), true)},
		{"cert-garbage", false, setCert("bm90IGEgY2VydA==", false)},
		{"cert-empty", false, setCert("", false)},
		{"cert-not-base64", false, setCert("***", false)},
		{"cert-ws-wrapped", false, setCert("\n  "+sp.CertB64[:40]+"\n"+sp.CertB64[40:]+"\n", false)},
		{"issuerserial-after", false, func(ed *etree.Element) bool {
			if xd := x509data(ed); xd != nil {
				xd.AddChild(issuerSerial())
			}
			return false
		}},
		{"issuerserial-before", false, func(ed *etree.Element) bool {
			if xd := x509data(ed); xd != nil {
				xd.InsertChildAt(0, issuerSerial())
			}
			return false
		}},
		{"second-cert-other-first", true, func(ed *etree.Element) bool {
			if xd := x509data(ed); xd != nil {
				c := etree.NewElement("ds:X509Certificate")
				c.SetText(other.CertB64)
				xd.InsertChildAt(0, c)
				return true
			}
			return false
		}},
		// the mismatching certificate is not in the first place one might look: behind an X509Data that only names the subject, behind a
		// KeyInfo that only carries a KeyName, behind an X509SKI
		{"mismatching-cert-in-second-x509data", true, func(ed *etree.Element) bool {
			xd := x509data(ed)
			if xd == nil || xd.FindElement("./X509Certificate") == nil {
				return false
			}
			xd.FindElement("./X509Certificate").SetText(other.CertB64)
			first := etree.NewElement("ds:X509Data")
			first.CreateElement("ds:X509SubjectName").SetText("CN=whoever")
			xd.Parent().InsertChildAt(xd.Index(), first)
			return true
		}},
		{"mismatching-cert-in-second-keyinfo", true, func(ed *etree.Element) bool {
			xd := x509data(ed)
			if xd == nil || xd.FindElement("./X509Certificate") == nil {
				return false
			}
			xd.FindElement("./X509Certificate").SetText(other.CertB64)
			ki := xd.Parent()
			first := etree.NewElement("ds:KeyInfo")
			first.CreateElement("ds:KeyName").SetText("the-sp-key")
			ki.Parent().InsertChildAt(ki.Index(), first)
			return true
		}},
		{"mismatching-cert-after-ski", true, func(ed *etree.Element) bool {
			xd := x509data(ed)
			if xd == nil || xd.FindElement("./X509Certificate") == nil {
				return false
			}
			xd.FindElement("./X509Certificate").SetText(other.CertB64)
			ski := etree.NewElement("ds:X509SKI")
			ski.SetText("AAECAwQFBgcICQoLDA0ODxAREhM=")
			xd.InsertChildAt(0, ski)
			return true
		}},
		// the mismatching certificate in a document that binds the XML-DSig / XML-Enc namespaces to other prefixes, or to none
		{"cert-other-rsa+other-prefixes", true, func(ed *etree.Element) bool {
			r := setCert(other.CertB64, true)(ed)
			reprefix(ed, "other-prefixes")
			return r
		}},
		{"cert-other-rsa+default-namespace-on-KeyInfo", true, func(ed *etree.Element) bool {
			r := setCert(other.CertB64, true)(ed)
			reprefix(ed, "default-namespace-on-KeyInfo")
			return r
		}},
		{"cert-other-rsa+all-default-namespaces", true, func(ed *etree.Element) bool {
			r := setCert(other.CertB64, true)(ed)
			reprefix(ed, "all-default-namespaces")
			return r
		}},
		{"cert-ec+other-prefixes", true, func(ed *etree.Element) bool { r := setCert(ecCert, true)(ed); reprefix(ed, "other-prefixes"); return r }},
		{"matching-cert+other-prefixes", false, func(ed *etree.Element) bool { reprefix(ed, "other-prefixes"); return false }},
		{"matching-cert+all-default-namespaces", false, func(ed *etree.Element) bool { reprefix(ed, "all-default-namespaces"); return false }},
		{"rm-x509cert", false, rm("./KeyInfo/EncryptedKey/KeyInfo/X509Data/X509Certificate")},
		{"rm-x509data", false, rm("./KeyInfo/EncryptedKey/KeyInfo/X509Data")},
		{"rm-inner-keyinfo", false, rm("./KeyInfo/EncryptedKey/KeyInfo")},
		{"rm-encryptedkey", false, rm("./KeyInfo/EncryptedKey")},
		{"rm-keyinfo", false, rm("./KeyInfo")},
		{"rm-ek-cipherdata", false, rm("./KeyInfo/EncryptedKey/CipherData")},
		{"rm-ek-method", false, rm("./KeyInfo/EncryptedKey/EncryptionMethod")},
		{"dup-encryptedkey", false, dup("./KeyInfo/EncryptedKey")},
		{"dup-keyinfo", false, dup("./KeyInfo")},
		{"dup-x509data", false, dup("./KeyInfo/EncryptedKey/KeyInfo/X509Data")},
		{"dup-cipherdata", false, dup("./CipherData")},
		{"nest-ek-in-own-keyinfo", false, func(ed *etree.Element) bool {
			if e := ek(ed); e != nil {
				if ki := e.FindElement("./KeyInfo"); ki != nil {
					cp := e.Copy()
					inner := cp.FindElement("./KeyInfo")
					if inner != nil {
						inner.AddChild(e.Copy())
					}
					ki.AddChild(cp)
				}
			}
			return false
		}},
		{"nest-ed-in-keyinfo", false, func(ed *etree.Element) bool {
			if ki := ed.FindElement("./KeyInfo"); ki != nil {
				ki.InsertChildAt(0, ed.Copy())
			}
			return false
		}},
		{"ek-wrapped-to-other", false, func(ed *etree.Element) bool {
			if e := ek(ed); e != nil {
				w, _ := xenc.WrapKey(xenc.KeyTransport{Alg: xenc.OAEPMGF1P, DigestURI: "http://www.w3.org/2000/09/xmldsig#sha1"},
					&other.Key.(*rsa.PrivateKey).PublicKey, harness.NewCtr("w2"), detKey(16, "cekaes128-cbc"))
				if cd := lastChild(e, "CipherData"); cd != nil && len(cd.ChildElements()) > 0 { // an earlier operator may have removed it
					cd.ChildElements()[0].SetText(base64.StdEncoding.EncodeToString(w))
				}
			}
			return false
		}},
	}
}

// flipLast returns a copy of der with its last octet (inside the signature BIT STRING) changed.
func flipLast(der []byte) []byte {
	out := append([]byte{}, der...)
	out[len(out)-1] ^= 0x01
	return out
}

// badVersion returns a copy of the certificate DER whose version INTEGER (the first "02 01 02" of the TBSCertificate) reads 9: well-formed
// DER that a conforming parser refuses.
func badVersion(der []byte) []byte {
	out := append([]byte{}, der...)
	if i := bytes.Index(out, []byte{0xa0, 0x03, 0x02, 0x01, 0x02}); i >= 0 {
		out[i+4] = 0x09
	}
	return out
}
