package checks

import (
	"encoding/base64"
	"fmt"
	"io"
	"net/http"
	"net/http/httptest"
	"net/url"
	"sort"
	"strings"
	"time"

	"github.com/crewjam/saml"
	"github.com/crewjam/saml/samlsp"
	"github.com/golang-jwt/jwt/v4"

	"verif/engine/core"
	"verif/engine/harness"
	"verif/engine/htmlform"
	"verif/engine/samlgen"
)

// C17 — a middleware login completes only in the browser that started it, at its URL.
//
// Explicit-state breadth-first search over browser/IdP/attacker histories. The
// middleware itself is stateless; the state is the browser's cookie jar, the
// flows in flight and the clock, all held by the harness and cloned per transition.

type c17Cookie struct {
	value    string
	path     string
	expires  time.Time // zero = session cookie
	httpOnly bool
	secure   bool
	maxAge   int
}

type c17Flow struct {
	status     int // 0 unstarted, 1 started, 2 answered
	reqID      string
	index      string // relay state / cookie suffix
	url        string
	cookieVal  string // the authentic tracking token
	startedAt  int    // clock notch
	answeredAt int
	user       string
	response   []byte
}

type c17State struct {
	jar   map[string]c17Cookie
	flows []c17Flow
	notch int
	owner string            // user of the session cookie in the jar ("" none)
	ever  map[string]string // every tracking cookie ever set: name -> value
	depth int
	path  []string
}

func (s *c17State) clone() *c17State {
	n := &c17State{jar: map[string]c17Cookie{}, notch: s.notch, owner: s.owner, ever: map[string]string{}, depth: s.depth}
	for k, v := range s.jar {
		n.jar[k] = v
	}
	for k, v := range s.ever {
		n.ever[k] = v
	}
	n.flows = append([]c17Flow{}, s.flows...)
	n.path = append([]string{}, s.path...)
	return n
}

func (s *c17State) key() string {
	var sb strings.Builder
	fmt.Fprintf(&sb, "n%d/o%s", s.notch, s.owner)
	for i, f := range s.flows {
		_, live := s.jar["saml_"+f.index]
		fmt.Fprintf(&sb, "|f%d:%d/%d/%d/%v", i, f.status, f.startedAt, f.answeredAt, live && f.status > 0)
	}
	return sb.String()
}

type c17Cfg struct {
	binding string // redirect / post
	scheme  string
	key     string
	rsf     string // nil / fixed / empty
}

func (c c17Cfg) String() string {
	return fmt.Sprintf("binding=%s/%s/key=%s/relaystatefunc=%s", c.binding, c.scheme, c.key, c.rsf)
}

type c17World struct {
	cfg         c17Cfg
	root        string
	m           *samlsp.Middleware
	t0          time.Time
	notchT      []time.Time
	delay       time.Duration
	memo        map[string]*c17Reply
	users       []string
	urls        []string
	impl        int
	artifactGET bool              // artifacts reach the ACS in the query string of a GET
	artifacts   map[string][]byte // artifact value -> the Response the stub resolver hands out (configurations "...+artifact")
	dflt        string            // where a login without RelayState lands: the library default "/" or a configured DefaultRedirectURI
}

type c17Reply struct {
	code     int
	location string
	cookies  []*http.Cookie
	body     []byte
	seenUser string // what the protected handler saw
	ran      bool
	panic    string
}

func newC17World(cf c17Cfg) *c17World {
	w := &c17World{cfg: cf, root: cf.scheme + "://sp.example.com", t0: samlgen.T0, delay: saml.MaxIssueDelay, memo: map[string]*c17Reply{}}
	w.notchT = []time.Time{w.t0, w.t0.Add(w.delay - time.Second), w.t0.Add(w.delay + time.Second), w.t0.Add(2*w.delay + 2*time.Second)}
	w.users = []string{"alice", "bob", "carol"}
	w.urls = []string{"/app/one?x=1", "/%2Fother.example/a%2Fb%3Fc", "/app/three?y=2&z=%20q"} // the second one has reserved characters percent-encoded in its path: it must come back verbatim
	kp := samlgen.Key(cf.key)
	opts := samlsp.Options{URL: harness.MustURL(w.root), Key: kp.Key, Certificate: kp.Cert, IDPMetadata: harness.IDPMetadata("meta1", "", "")}
	w.dflt = "/"
	if cf.key != "sp2048" { // half of the configurations set their own landing page
		w.dflt = "/landing?from=sso&x=%2F"
		opts.DefaultRedirectURI = w.dflt
	}
	switch cf.rsf {
	case "fixed":
		opts.RelayStateFunc = func(_ http.ResponseWriter, r *http.Request) string {
			return "fixed-" + base64.RawURLEncoding.EncodeToString([]byte(r.URL.Path))
		}
	case "empty":
		opts.RelayStateFunc = func(http.ResponseWriter, *http.Request) string { return "" }
	}
	artifact := strings.HasSuffix(cf.binding, "+artifact")
	opts.UseArtifactResponse = artifact
	m, err := samlsp.New(opts)
	if err != nil {
		panic(err)
	}
	if strings.HasPrefix(cf.binding, "post") {
		m.Binding = saml.HTTPPostBinding
	}
	if artifact {
		// responses travel by reference: the browser carries SAMLart, the middleware resolves it through this stub IdP back channel
		w.artifacts = map[string][]byte{}
		w.artifactGET = cf.binding == "redirect+artifact"
		m.ServiceProvider.HTTPClient = &http.Client{Transport: rtFunc(func(r *http.Request) (*http.Response, error) {
			body, _ := io.ReadAll(r.Body)
			id := ""
			if mm := artIDRe.FindSubmatch(body); mm != nil {
				id = string(mm[1])
			}
			art := ""
			if i := strings.Index(string(body), "Artifact>"); i >= 0 {
				rest := string(body)[i+len("Artifact>"):]
				if j := strings.Index(rest, "<"); j >= 0 {
					art = rest[:j]
				}
			}
			doc, ok := w.artifacts[art]
			if !ok {
				return &http.Response{StatusCode: 404, Status: "404 Not Found", Body: io.NopCloser(strings.NewReader("unknown artifact")), Header: http.Header{}}, nil
			}
			ar := harness.ArtifactResponseEl("id-artresp-"+art, id, samlgen.TS(saml.TimeNow()), samlgen.S(samlgen.IDPEntity), samlgen.StatusOK, samlgen.Parse(doc))
			return httpOK(samlgen.Doc(harness.SoapEnvelope(ar)))
		})}
	}
	w.m = m
	return w
}

func (w *c17World) setClock(notch int) {
	now := w.notchT[notch]
	harness.SetNow(now)
	jwt.TimeFunc = func() time.Time { return now }
}

// do sends one request through the real middleware (memoised: the middleware is stateless given clock and random source).
func (w *c17World) do(notch int, method, target string, cookies map[string]string, form url.Values, seed string) *c17Reply {
	var names []string
	for n := range cookies {
		names = append(names, n)
	}
	sort.Strings(names)
	var ck strings.Builder
	for _, n := range names {
		ck.WriteString(n + "=" + cookies[n] + ";")
	}
	mk := fmt.Sprintf("%d|%s|%s|%s|%s|%s", notch, method, target, ck.String(), form.Encode(), seed)
	if r, ok := w.memo[mk]; ok {
		return r
	}
	w.setClock(notch)
	saml.RandReader = harness.NewCtr("c17" + seed)
	var req *http.Request
	if method == "POST" {
		req = httptest.NewRequest("POST", target, strings.NewReader(form.Encode())) // as a server sees it: request-target is a path
		req.Header.Set("Content-Type", "application/x-www-form-urlencoded")
	} else {
		req = httptest.NewRequest("GET", target, nil)
	}
	req.Host = "sp.example.com"
	for _, n := range names {
		req.AddCookie(&http.Cookie{Name: n, Value: cookies[n]})
	}
	rep := &c17Reply{}
	protected := w.m.RequireAccount(http.HandlerFunc(func(rw http.ResponseWriter, r *http.Request) {
		rep.ran = true
		if s, ok := samlsp.SessionFromContext(r.Context()).(samlsp.JWTSessionClaims); ok {
			rep.seenUser = s.Subject
		}
		rw.WriteHeader(200)
	}))
	rec := httptest.NewRecorder()
	_, p := guard(func() error {
		if strings.HasPrefix(target, "/saml/") {
			w.m.ServeHTTP(rec, req)
		} else {
			protected.ServeHTTP(rec, req)
		}
		return nil
	})
	w.impl++
	rep.panic = p
	rep.code = rec.Code
	rep.location = rec.Header().Get("Location")
	rep.cookies = rec.Result().Cookies()
	rep.body = rec.Body.Bytes()
	w.memo[mk] = rep
	return rep
}

// acs brings a response to the assertion consumer service the way the configured binding does: a form POST, or - for the artifact binding
// of configuration "redirect+artifact" - the GET redirect an IdP answers with (SAMLart and RelayState in the query string).
func (w *c17World) acs(notch int, cookies map[string]string, form url.Values, seed string) *c17Reply {
	if w.artifactGET {
		return w.do(notch, "GET", "/saml/acs?"+form.Encode(), cookies, nil, seed)
	}
	return w.do(notch, "POST", "/saml/acs", cookies, form, seed)
}

// applyCookies updates the browser jar from a reply.
func (w *c17World) applyCookies(s *c17State, rep *c17Reply) {
	now := w.notchT[s.notch]
	for _, c := range rep.cookies {
		expired := c.MaxAge < 0 || (!c.Expires.IsZero() && c.Expires.Before(now))
		if expired {
			delete(s.jar, c.Name)
			continue
		}
		ck := c17Cookie{value: c.Value, path: c.Path, httpOnly: c.HttpOnly, secure: c.Secure, maxAge: c.MaxAge}
		if c.MaxAge > 0 {
			ck.expires = now.Add(time.Duration(c.MaxAge) * time.Second)
		} else if !c.Expires.IsZero() {
			ck.expires = c.Expires
		}
		s.jar[c.Name] = ck
		if strings.HasPrefix(c.Name, "saml_") {
			s.ever[c.Name] = c.Value
		}
	}
}

// view returns the cookies a browser would send to path (expired ones dropped).
func (w *c17World) view(s *c17State, path string) map[string]string {
	now := w.notchT[s.notch]
	out := map[string]string{}
	for n, c := range s.jar {
		if !c.expires.IsZero() && !now.Before(c.expires) {
			continue
		}
		p := c.path
		if p == "" {
			p = "/"
		}
		if !strings.HasPrefix(path, p) {
			continue
		}
		if c.secure && w.cfg.scheme != "https" {
			continue
		}
		out[n] = c.value
	}
	return out
}

func init() {
	Register(&Check{
		ID:     "C17",
		Engine: "bfs",
		Rule: "explicit-state breadth-first search over histories of {start flow k at URL u_k; IdP answers flow k; deliver response k with RelayState in {own index, another flow's, empty, attacker URL} and a cookie view in {browser jar, empty, only another flow's cookie, own value under another flow's name, one byte flipped, the session token under a saml_ name, every cookie ever issued incl. expired/cleared}; replay; advance the clock across the tracking lifetime; request a protected page}, " +
			"every transition one call into the real samlsp middleware (memoised per distinct request), states canonicalised on (flow statuses and times, which authentic cookies are in the jar, session owner, clock notch); reference model stepped in lock-step decides for each delivery whether a session may be established, where the browser is sent, which cookie is cleared and which attributes the cookies carry. non-trivial = every transition beyond the first start",
		Bounds: func(tier string) string {
			if tier == "thorough" {
				return "3 flows, depth <= 7, 24 configurations (binding x scheme x key family x RelayStateFunc)"
			}
			return "2 flows, depth <= 6, 6 configurations; 3 flows depth <= 5 on 1 configuration"
		},
		Assumptions: []string{"AllowIDPInitiated = false", "browser model: RFC 6265 name/path/expiry/Secure handling; views beyond it are explicit attacker views", "clock notches keep 1 s away from the tracking-lifetime boundary"},
		Run:         runC17,
		CapQuick:    8 * time.Minute,
		CapThorough: 25 * time.Minute,
		Post: func(res *core.Result, cov map[string]interface{}) {
			if v, ok := res.Notes["bfs_states"].(float64); ok {
				cov["states"] = int(v)
			}
			if v, ok := res.Notes["bfs_transitions"].(float64); ok {
				cov["transitions"] = int(v)
			}
		},
	})
}

func runC17(c *core.Ctx) {
	g := harness.Pin(samlgen.T0)
	defer g.Restore()
	oldTF := jwt.TimeFunc
	defer func() { jwt.TimeFunc = oldTF }()
	type job struct {
		cf     c17Cfg
		nflows int
		depth  int
	}
	var jobs []job
	if c.Thorough() {
		for _, b := range []string{"redirect", "post", "redirect+artifact", "post+artifact"} {
			for _, sc := range []string{"https", "http"} {
				for _, k := range []string{"sp2048", "spec256"} {
					for _, r := range []string{"nil", "fixed", "empty"} {
						jobs = append(jobs, job{c17Cfg{b, sc, k, r}, 3, 7})
					}
				}
			}
		}
	} else {
		jobs = []job{
			{c17Cfg{"redirect", "https", "sp2048", "nil"}, 2, 6}, {c17Cfg{"post", "http", "spec256", "fixed"}, 2, 6}, {c17Cfg{"redirect", "http", "spec256", "empty"}, 2, 6},
			{c17Cfg{"post", "https", "sp2048", "nil"}, 2, 6}, {c17Cfg{"redirect", "https", "spec256", "fixed"}, 2, 6}, {c17Cfg{"post", "http", "sp2048", "empty"}, 2, 6},
			{c17Cfg{"redirect", "https", "sp2048", "nil"}, 3, 5},
			{c17Cfg{"redirect+artifact", "https", "sp2048", "nil"}, 2, 6}, {c17Cfg{"post+artifact", "http", "spec256", "fixed"}, 2, 5},
		}
	}
	totalStates, totalTrans := 0, 0
	for ji, jb := range jobs {
		jb := jb
		c.Affinity(ji)
		c.Case(fmt.Sprintf("bfs/%s/flows=%d/depth=%d", jb.cf, jb.nflows, jb.depth), func(t *core.T) {
			t.NonTrivial()
			st, tr := c17BFS(t, jb.cf, jb.nflows, jb.depth, c)
			totalStates += st
			totalTrans += tr
			t.Evals(tr)
			t.Compared()
		})
	}
	c.Affinity(-1)

	// the tracking index (RelayState, also the cookie-name suffix) over its whole first-character alphabet and a few words: whatever an
	// application's RelayStateFunc (or the random default) produces, the flow completes at its own URL
	c.Group("index-alphabet")
	var idxs []string
	for _, ch := range "ABCDEFGHIJKLMNOPQRSTUVWXYZabcdefghijklmnopqrstuvwxyz0123456789-_" {
		idxs = append(idxs, string(ch)+"Qz7", string(ch))
	}
	idxs = append(idxs, "saml_", "saml_saml_x", "sso", "login-1", "app1", "my-state", "mass", "salsa_lama", "__", "s", "state.with.dots", "UPPER", "a~b", "tilde~", "x!y", "p*q")
	for _, ix := range idxs {
		for _, binding := range []string{"redirect", "post"} {
			ix, binding := ix, binding
			key := fmt.Sprintf("index/%s/%+q", binding, ix)
			c.Case(key, func(t *core.T) {
				t.NonTrivial()
				w := newC17World(c17Cfg{binding, "https", "sp2048", "nil"})
				tr, ok := w.m.RequestTracker.(samlsp.CookieRequestTracker)
				if !ok {
					t.Outcome("other-tracker")
					return
				}
				tr.RelayStateFunc = func(http.ResponseWriter, *http.Request) string { return ix }
				w.m.RequestTracker = tr
				st := &c17State{jar: map[string]c17Cookie{}, ever: map[string]string{}, flows: []c17Flow{{url: w.urls[0], user: w.users[0]}}}
				var bad []string
				bad = append(bad, c17Start(w, st, 0)...)
				if len(bad) == 0 && st.flows[0].status == 1 {
					bad = append(bad, c17Answer(w, st, 0)...)
					bad = append(bad, c17Deliver(w, st, 0, st.flows[0].index, "own", w.view(st, "/saml/acs"), "jar")...)
				}
				t.Impl(w.impl)
				t.Compared()
				t.Outcome(fmt.Sprintf("status=%d owner=%q", st.flows[0].status, st.owner))
				for _, b := range bad {
					f, d, _ := strings.Cut(b, "|")
					t.Fail("C17/index-alphabet/"+f, "tracking index %+q: %s", ix, d)
				}
			})
		}
	}

	// one flow per shape of the URL the browser asked for: the login ends at exactly that URL (path and query verbatim), and long indices
	// chosen by the application's relay-state function keep working (alone, and next to a second flow that shares a long prefix)
	c.Group("started-url-shapes-and-long-indices")
	// (paths with empty or dot segments are left out: net/http's Redirect cleans those itself, as its ServeMux does before any handler runs)
	shapes := []string{"/docs/", "/docs/sub/", "/?q=1", "/x?next=https://other.example/x", "/x?a=/../b&c=//d", "/x;param=1", "/x%20y/", "/x?%2F=%2f", "/x/?", "/x?", "/%2e%2e/y", "/x?a=b#not-sent", "/x?a=./b&c=../d/"}
	// long URLs (a search with a long query, a deep path): what the token records is the whole of it at every length
	for _, n := range []int{500, 1000, 2000, 2400, 2500, 2600, 2700, 3000, 3500, 3900, 4096, 6000} {
		shapes = append(shapes, "/search?q="+strings.Repeat("x", n)+"&page=2")
	}
	shapes = append(shapes, "/"+strings.Repeat("deep/", 600)+"leaf?k=v", "/x?"+strings.Repeat("a=1&", 700)+"z=26")
	longPfx := strings.Repeat("t", 70)
	longIdx := []string{"", longPfx + "-0123456789", longPfx + "-0123456789-and-more-than-that-0123456789", strings.Repeat("u", 200)}
	for si, u := range shapes {
		for xi, ix := range longIdx {
			if xi > 0 && si > 1 {
				continue
			}
			for _, binding := range []string{"redirect", "post"} {
				u, ix, binding := u, ix, binding
				key := fmt.Sprintf("url-shape/%s/url=%d/index=%d", binding, si, xi)
				c.Case(key, func(t *core.T) {
					t.NonTrivial()
					w := newC17World(c17Cfg{binding, "https", "sp2048", "nil"})
					if ix != "" {
						tr, ok := w.m.RequestTracker.(samlsp.CookieRequestTracker)
						if !ok {
							t.Outcome("other-tracker")
							return
						}
						// the application derives the index from the request: a long common prefix, then the path
						tr.RelayStateFunc = func(_ http.ResponseWriter, r *http.Request) string {
							return ix + "." + strings.ReplaceAll(r.URL.Path, "/", ".")
						}
						w.m.RequestTracker = tr
					}
					if strings.Contains(u, "#") {
						u = u[:strings.Index(u, "#")]
					}
					st := &c17State{jar: map[string]c17Cookie{}, ever: map[string]string{}, flows: []c17Flow{{url: u, user: w.users[0]}, {url: w.urls[0], user: w.users[1]}}}
					var bad []string
					bad = append(bad, c17Start(w, st, 0)...)
					if ix != "" {
						bad = append(bad, c17Start(w, st, 1)...) // a second pending flow whose index shares the long prefix
					}
					if len(bad) == 0 && st.flows[0].status == 1 {
						k := 0
						if ix != "" {
							k = 1 // answer the second one: it must end at its own URL, and leave the first one pending
						}
						bad = append(bad, c17Answer(w, st, k)...)
						bad = append(bad, c17Deliver(w, st, k, st.flows[k].index, "own", w.view(st, "/saml/acs"), "jar")...)
					}
					t.Impl(w.impl)
					t.Compared()
					t.Outcome(fmt.Sprintf("status=%d owner=%q", st.flows[0].status, st.owner))
					for _, b := range bad {
						f, d, _ := strings.Cut(b, "|")
						t.Fail("C17/url-shapes/"+f, "url %+q index %+q: %s", u, truncStr(ix, 30), d)
					}
				})
			}
		}
	}

	c.Note("bfs_states", float64(totalStates))
	c.Note("bfs_transitions", float64(totalTrans))
}

type c17Action struct {
	name string
	do   func(w *c17World, s *c17State) []string // returns violations "finding|detail"
	ok   func(s *c17State) bool
}

func c17BFS(t *core.T, cf c17Cfg, nflows, maxDepth int, c *core.Ctx) (int, int) {
	w := newC17World(cf)
	init := &c17State{jar: map[string]c17Cookie{}, ever: map[string]string{}, flows: make([]c17Flow, nflows)}
	for i := range init.flows {
		init.flows[i].url = w.urls[i]
		init.flows[i].user = w.users[i]
	}
	seen := map[string]bool{init.key(): true}
	frontier := []*c17State{init}
	transitions := 0
	reported := map[string]bool{}
	for depth := 0; depth < maxDepth && len(frontier) > 0; depth++ {
		var next []*c17State
		for si, s := range frontier {
			if si%64 == 0 && c.TimeUp() {
				t.Outcome("bfs-capped-by-time")
				return len(seen), transitions
			}
			for _, a := range c17Actions(w, s) {
				ns := s.clone()
				ns.depth++
				ns.path = append(ns.path, a.name)
				viols := a.do(w, ns)
				transitions++
				for _, v := range viols {
					parts := strings.SplitN(v, "|", 2)
					if !reported[parts[0]] {
						reported[parts[0]] = true
						t.Fail("C17/"+parts[0], "[%s] history: %s\n%s", cf, strings.Join(ns.path, " ; "), parts[1])
					}
				}
				k := ns.key()
				if !seen[k] {
					seen[k] = true
					next = append(next, ns)
				}
			}
		}
		frontier = next
	}
	t.Impl(w.impl)
	t.Outcome(fmt.Sprintf("states=%d", len(seen)))
	t.Sample(map[string]interface{}{"config": cf.String(), "states": len(seen), "transitions": transitions, "distinct_requests_to_the_middleware": w.impl})
	return len(seen), transitions
}

// model helpers
func (w *c17World) tokenLive(f *c17Flow, notch int) bool {
	return w.notchT[notch].Before(w.notchT[f.startedAt].Add(w.delay))
}

func (w *c17World) responseFresh(f *c17Flow, notch int) bool {
	return !w.notchT[f.answeredAt].Add(w.delay).Before(w.notchT[notch])
}

func c17Actions(w *c17World, s *c17State) []c17Action {
	var acts []c17Action
	acs := "/saml/acs"
	for k := range s.flows {
		k := k
		f := &s.flows[k]
		if f.status == 0 {
			acts = append(acts, c17Action{name: fmt.Sprintf("start(%d)", k), do: func(w *c17World, ns *c17State) []string { return c17Start(w, ns, k) }})
		}
		if f.status == 1 {
			acts = append(acts, c17Action{name: fmt.Sprintf("answer(%d)", k), do: func(w *c17World, ns *c17State) []string { return c17Answer(w, ns, k) }})
		}
		if f.status == 2 {
			// relay states
			// ("empty-present": the form carries a RelayState field whose value is empty - what an IdP with nothing to echo posts)
			rss := []struct{ n, v string }{{"own", f.index}, {"empty", ""}, {"empty-present", ""}, {"evil-url", "https://evil.example.net/phish"}}
			for j := range s.flows {
				if j != k && s.flows[j].status > 0 {
					rss = append(rss, struct{ n, v string }{fmt.Sprintf("flow%d", j), s.flows[j].index})
				}
			}
			jar := w.view(s, acs)
			type vw struct {
				n string
				c map[string]string
			}
			views := []vw{{"jar", jar}, {"no-cookies", map[string]string{}}}
			flip := map[string]string{}
			for n, v := range jar {
				flip[n] = v
			}
			if v, ok := flip["saml_"+f.index]; ok && len(v) > 20 {
				b := []byte(v)
				b[len(b)-10] ^= 1
				flip["saml_"+f.index] = string(b)
				views = append(views, vw{"own-cookie-one-byte-flipped", flip})
			}
			allEver := map[string]string{}
			for n, v := range s.ever {
				allEver[n] = v
			}
			for n, v := range jar {
				allEver[n] = v
			}
			views = append(views, vw{"every-cookie-ever-issued", allEver})
			for j := range s.flows {
				if j != k && s.flows[j].status > 0 {
					views = append(views, vw{fmt.Sprintf("only-flow%d-cookie", j), map[string]string{"saml_" + s.flows[j].index: s.flows[j].cookieVal}})
					views = append(views, vw{fmt.Sprintf("own-value-under-flow%d-name", j), map[string]string{"saml_" + s.flows[j].index: f.cookieVal}})
				}
			}
			if tok, ok := w.view(s, "/")["token"]; ok {
				views = append(views, vw{"session-token-under-saml-name", map[string]string{"saml_" + f.index: tok, "token": tok}})
				views = append(views, vw{"session-token-under-arbitrary-saml-name", map[string]string{"saml_x": tok}})
			}
			for _, rs := range rss {
				for _, v := range views {
					rs, v := rs, v
					acts = append(acts, c17Action{name: fmt.Sprintf("deliver(%d,rs=%s,cookies=%s)", k, rs.n, v.n), do: func(w *c17World, ns *c17State) []string {
						return c17Deliver(w, ns, k, rs.v, rs.n, v.c, v.n)
					}})
				}
			}
		}
	}
	// responses nobody here asked for: the attacker holds a genuine IdP account and can obtain validly signed responses
	started := -1
	for k := range s.flows {
		if s.flows[k].status > 0 {
			started = k
		}
	}
	for _, variant := range []string{"no-inresponseto", "foreign-request-id", "response-level-only", "confirmation-level-only",
		// the IdP's signed answer to ANOTHER browser's request, re-wrapped by its deliverer in an unsigned Response that names this browser's
		// pending request; the assertion's only confirmation has the given method
		"another-browsers-answer-rewrapped/bearer", "another-browsers-answer-rewrapped/holder-of-key", "another-browsers-answer-rewrapped/sender-vouches"} {
		if (variant == "response-level-only" || variant == "confirmation-level-only" || strings.HasPrefix(variant, "another-browsers-answer-rewrapped/")) && started < 0 {
			continue
		}
		jar := w.view(s, acs)
		rss := []struct{ n, v string }{{"empty", ""}, {"evil-url", "https://evil.example.net/phish"}}
		if started >= 0 {
			rss = append(rss, struct{ n, v string }{"pending-flow", s.flows[started].index})
		}
		type uv struct {
			n string
			c map[string]string
		}
		uviews := []uv{{"jar", jar}}
		if tok, ok := w.view(s, "/")["token"]; ok && s.owner != "" {
			// a session token presented as if it were the tracking cookie its own subject names
			uviews = append(uviews, uv{"session-token-under-saml-name-of-its-subject", map[string]string{"saml_" + s.owner: tok, "token": tok}})
		}
		for _, rs := range rss {
			for _, v := range uviews {
				variant, rs, v := variant, rs, v
				acts = append(acts, c17Action{name: fmt.Sprintf("deliver-unsolicited(%s,rs=%s,cookies=%s)", variant, rs.n, v.n), do: func(w *c17World, ns *c17State) []string {
					return c17Unsolicited(w, ns, variant, started, rs.v, rs.n, v.c)
				}})
			}
		}
	}
	if s.notch < len(w.notchT)-1 {
		acts = append(acts, c17Action{name: "tick", do: func(w *c17World, ns *c17State) []string { ns.notch++; return nil }})
	}
	acts = append(acts, c17Action{name: "page", do: func(w *c17World, ns *c17State) []string { return c17Page(w, ns) }})
	return acts
}

func c17Start(w *c17World, s *c17State, k int) []string {
	f := &s.flows[k]
	var out []string
	rep := w.do(s.notch, "GET", f.url, w.view(s, f.url), nil, fmt.Sprintf("start%d", k))
	if rep.panic != "" {
		return []string{"start/panic|" + rep.panic}
	}
	if s.owner != "" {
		// already signed in: the handler runs, no flow starts
		if !rep.ran {
			out = append(out, fmt.Sprintf("start/session-not-honoured|signed in as %s but the protected handler did not run (status %d)", s.owner, rep.code))
		}
		return out
	}
	if rep.ran {
		return []string{"start/handler-ran-without-session|the protected handler ran although the browser holds no session"}
	}
	// decode the request the middleware emitted
	var payload, relay string
	if strings.HasPrefix(w.cfg.binding, "redirect") {
		if rep.code != 302 {
			return []string{fmt.Sprintf("start/no-redirect|status %d", rep.code)}
		}
		u, err := url.Parse(rep.location)
		if err != nil {
			return []string{"start/bad-location|" + rep.location}
		}
		keys, vals, _ := splitQuery(u.RawQuery)
		for i, kk := range keys {
			if kk == "SAMLRequest" {
				if raw, e := base64.StdEncoding.DecodeString(vals[i]); e == nil {
					if x, e2 := inflate(raw); e2 == nil {
						payload = string(x)
					}
				}
			}
			if kk == "RelayState" {
				relay = vals[i]
			}
		}
	} else {
		hf, err := htmlform.Parse(rep.body)
		if err != nil || hf.NForms != 1 {
			return []string{fmt.Sprintf("start/no-post-form|status %d", rep.code)}
		}
		if raw, e := base64.StdEncoding.DecodeString(hf.Fields["SAMLRequest"]); e == nil {
			payload = string(raw)
		}
		relay = hf.Fields["RelayState"]
	}
	if payload == "" {
		return []string{"start/no-request|the middleware emitted no decodable AuthnRequest"}
	}
	f.reqID = samlgen.Parse([]byte(payload)).SelectAttrValue("ID", "")
	f.index = relay
	f.status, f.startedAt = 1, s.notch
	// the tracking cookie
	var tc *http.Cookie
	n := 0
	for _, ck := range rep.cookies {
		if strings.HasPrefix(ck.Name, "saml_") {
			tc = ck
			n++
		}
	}
	if n != 1 || tc == nil {
		return []string{fmt.Sprintf("start/tracking-cookie-count|%d tracking cookies set", n)}
	}
	if tc.Name != "saml_"+relay {
		out = append(out, fmt.Sprintf("start/relaystate-does-not-name-cookie|RelayState %q, cookie %q", relay, tc.Name))
	}
	// a flow whose index is empty travels without a RelayState and can only end at the default URL, not at its own; and two pending
	// flows under one index (unless the application's own function chose it) overwrite each other's cookie
	if relay == "" {
		out = append(out, "start/empty-tracking-index|the flow was started with an empty index: no RelayState names its tracking cookie (relay-state function setting: "+w.cfg.rsf+")")
	}
	if w.cfg.rsf != "fixed" {
		for j := range s.flows {
			if j != k && s.flows[j].status > 0 && s.flows[j].index == relay {
				out = append(out, fmt.Sprintf("start/index-shared-with-another-pending-flow|flows %d and %d both run under index %q", j, k, relay))
			}
		}
	}
	// (Path, Max-Age, HttpOnly and Secure of the *tracking* cookie are implementation detail; the statement constrains behaviour -
	// refusal after the tracking lifetime - and the attributes of the session cookie only.)
	f.cookieVal = tc.Value
	w.applyCookies(s, rep)
	if w.cfg.rsf == "fixed" && !strings.HasPrefix(relay, "fixed-") {
		out = append(out, fmt.Sprintf("start/relaystatefunc-ignored|RelayState %q", relay))
	}
	return out
}

// responseForm: the parameters the browser brings to the ACS for a Response document (by value, or by reference through an artifact).
func (w *c17World) responseForm(doc []byte) url.Values {
	if w.artifacts != nil {
		art := "art-" + core.Hash12(string(doc))
		w.artifacts[art] = doc
		return url.Values{"SAMLart": {art}}
	}
	return url.Values{"SAMLResponse": {base64.StdEncoding.EncodeToString(doc)}}
}

func c17Answer(w *c17World, s *c17State, k int) []string {
	f := &s.flows[k]
	now := w.notchT[s.notch]
	resp := samlgen.DefaultResponse()
	resp.ID = fmt.Sprintf("id-resp-%d-%d", k, s.notch)
	resp.InResponseTo = samlgen.S(f.reqID)
	resp.IssueInstant = samlgen.S(samlgen.TS(now))
	resp.Destination = samlgen.S(w.root + "/saml/acs")
	a := samlgen.DefaultAssertion()
	a.ID = fmt.Sprintf("id-assertion-%d-%d", k, s.notch)
	a.IssueInstant = samlgen.S(samlgen.TS(now))
	a.NameID = samlgen.S(f.user)
	a.Attrs[0].Values = []string{f.user}
	a.Confirmations[0].InResponseTo = samlgen.S(f.reqID)
	a.Confirmations[0].Recipient = samlgen.S(w.root + "/saml/acs")
	a.Confirmations[0].NotOnOrAfter = samlgen.S(samlgen.TS(now.Add(10 * time.Minute)))
	a.NotBefore = samlgen.S(samlgen.TS(now.Add(-time.Minute)))
	a.NotOnOrAfter = samlgen.S(samlgen.TS(now.Add(10 * time.Minute)))
	a.Audiences = [][]string{{w.root + "/saml/metadata"}}
	f.response = samlgen.Doc(harness.BuildResponse(resp, []*samlgen.Assertion{a}, harness.Layout{SignResponse: true}, idp1(), nil))
	f.status, f.answeredAt = 2, s.notch
	return nil
}

func c17Deliver(w *c17World, s *c17State, k int, rs, rsName string, cookies map[string]string, viewName string) []string {
	f := &s.flows[k]
	form := w.responseForm(f.response)
	if rs != "" || rsName == "empty-present" {
		form.Set("RelayState", rs)
	}
	rep := w.acs(s.notch, cookies, form, "deliver")
	if rep.panic != "" {
		return []string{"deliver/panic|" + rep.panic}
	}
	// ---- reference model ----
	authentic := func(fl *c17Flow) bool { // the presented cookies contain fl's authentic, unexpired cookie under its own name
		return fl.status > 0 && cookies["saml_"+fl.index] == fl.cookieVal && fl.cookieVal != "" && w.tokenLive(fl, s.notch)
	}
	mayLogin := authentic(f) && w.responseFresh(f, s.notch)
	wantLoc := ""
	var clear string
	if mayLogin {
		if rs == "" {
			wantLoc = w.dflt
		} else {
			found := false
			for j := range s.flows {
				if s.flows[j].status > 0 && s.flows[j].index == rs && authentic(&s.flows[j]) {
					wantLoc, clear, found = s.flows[j].url, "saml_"+rs, true
				}
			}
			if !found {
				mayLogin = false
			}
		}
	}
	// ---- observed ----
	var sessionCookie *http.Cookie
	cleared := map[string]bool{}
	for _, ck := range rep.cookies {
		if ck.Name == "token" && ck.Value != "" {
			sessionCookie = ck
		}
		if strings.HasPrefix(ck.Name, "saml_") && (ck.MaxAge < 0 || (!ck.Expires.IsZero() && ck.Expires.Before(w.notchT[0]))) {
			cleared[ck.Name] = true
		}
	}
	ctx := fmt.Sprintf("deliver flow %d, RelayState=%s, cookies=%s, clock notch %d: status %d, Location %q, session cookie set=%v", k, rsName, viewName, s.notch, rep.code, rep.location, sessionCookie != nil)
	var out []string
	if !mayLogin {
		if sessionCookie != nil {
			cls := "no-authentic-tracking-cookie"
			switch {
			case authentic(f) && !w.responseFresh(f, s.notch):
				cls = "stale-response"
			case authentic(f):
				cls = "relaystate-names-no-authentic-cookie"
			case f.cookieVal != "" && cookies["saml_"+f.index] == f.cookieVal:
				cls = "expired-tracking-cookie"
			}
			out = append(out, "deliver/session-established-without-right/"+cls+"/view="+viewClass(viewName)+"|"+ctx)
		}
		if rep.code == 302 && rep.location != "" && sessionCookie != nil {
			out = append(out, "deliver/redirect-on-refusal|"+ctx)
		}
		return out
	}
	if sessionCookie == nil || rep.code != 302 {
		return []string{"deliver/legitimate-login-refused/view=" + viewClass(viewName) + "/rs=" + rsClass(rsName, k) + "|" + ctx}
	}
	if rep.location != wantLoc {
		f := "deliver/redirected-elsewhere"
		if rep.location == rs && rs != "" {
			f = "deliver/redirected-to-raw-relaystate"
		}
		out = append(out, f+"|"+ctx+fmt.Sprintf("; the tracked request's URL is %q", wantLoc))
	}
	if clear != "" && !cleared[clear] {
		out = append(out, "deliver/tracking-cookie-not-cleared|"+ctx)
	}
	for n := range cleared {
		if n != clear {
			out = append(out, "deliver/other-tracking-cookie-cleared|"+ctx+"; cleared "+n)
		}
	}
	if !sessionCookie.HttpOnly {
		out = append(out, "deliver/session-cookie-not-httponly|"+ctx)
	}
	if sessionCookie.Secure != (w.cfg.scheme == "https") {
		out = append(out, fmt.Sprintf("deliver/session-cookie-secure-flag|Secure=%v on %s; %s", sessionCookie.Secure, w.cfg.scheme, ctx))
	}
	// only a delivery made with the browser's own jar changes the browser
	if viewName == "jar" {
		w.applyCookies(s, rep)
		s.owner = f.user
	}
	return out
}

// c17Unsolicited delivers a validly signed response that does not (fully) answer any request of this browser.
func c17Unsolicited(w *c17World, s *c17State, variant string, started int, rs, rsName string, cookies map[string]string) []string {
	now := w.notchT[s.notch]
	resp := samlgen.DefaultResponse()
	resp.ID = "id-resp-unsolicited-" + variant
	resp.IssueInstant = samlgen.S(samlgen.TS(now))
	resp.Destination = samlgen.S(w.root + "/saml/acs")
	a := samlgen.DefaultAssertion()
	a.ID = "id-assertion-unsolicited-" + variant
	a.IssueInstant = samlgen.S(samlgen.TS(now))
	a.NameID = samlgen.S("mallory")
	a.Confirmations[0].Recipient = samlgen.S(w.root + "/saml/acs")
	a.Confirmations[0].NotOnOrAfter = samlgen.S(samlgen.TS(now.Add(10 * time.Minute)))
	a.NotBefore = samlgen.S(samlgen.TS(now.Add(-time.Minute)))
	a.NotOnOrAfter = samlgen.S(samlgen.TS(now.Add(10 * time.Minute)))
	a.Audiences = [][]string{{w.root + "/saml/metadata"}}
	var pend *string
	if started >= 0 {
		pend = samlgen.S(s.flows[started].reqID)
	}
	switch variant {
	case "no-inresponseto":
		resp.InResponseTo, a.Confirmations[0].InResponseTo = nil, nil
	case "foreign-request-id":
		resp.InResponseTo, a.Confirmations[0].InResponseTo = samlgen.S("id-never-issued-here"), samlgen.S("id-never-issued-here")
	case "response-level-only":
		resp.InResponseTo, a.Confirmations[0].InResponseTo = pend, nil
	case "confirmation-level-only":
		resp.InResponseTo, a.Confirmations[0].InResponseTo = nil, pend
	}
	lay := harness.Layout{SignResponse: true}
	if m, ok := strings.CutPrefix(variant, "another-browsers-answer-rewrapped/"); ok {
		resp.InResponseTo, a.Confirmations[0].InResponseTo = pend, samlgen.S("id-request-of-another-browser")
		a.Confirmations[0].Method = "urn:oasis:names:tc:SAML:2.0:cm:" + m
		lay = harness.Layout{SignAssertion: true}
	}
	doc := samlgen.Doc(harness.BuildResponse(resp, []*samlgen.Assertion{a}, lay, idp1(), nil))
	form := w.responseForm(doc)
	if rs != "" {
		form.Set("RelayState", rs)
	}
	rep := w.acs(s.notch, cookies, form, "unsolicited")
	if rep.panic != "" {
		return []string{"unsolicited/panic|" + rep.panic}
	}
	for _, ck := range rep.cookies {
		if ck.Name == "token" && ck.Value != "" {
			return []string{fmt.Sprintf("deliver/session-established-without-right/unsolicited-%s|an IdP-signed response that answers no request of this browser (%s) established a session: RelayState=%s, status %d, Location %q, pending flows=%v", variant, variant, rsName, rep.code, rep.location, started >= 0)}
		}
	}
	return nil
}

func viewClass(v string) string {
	if strings.HasPrefix(v, "only-flow") {
		return "only-other-flow-cookie"
	}
	if strings.HasPrefix(v, "own-value-under-flow") {
		return "own-value-under-other-name"
	}
	return v
}

func rsClass(n string, k int) string {
	if strings.HasPrefix(n, "flow") {
		return "other-flow"
	}
	return n
}

func c17Page(w *c17World, s *c17State) []string {
	rep := w.do(s.notch, "GET", "/app/profile", w.view(s, "/app/profile"), nil, "page")
	if rep.panic != "" {
		return []string{"page/panic|" + rep.panic}
	}
	if s.owner == "" {
		if rep.ran {
			return []string{"page/handler-ran-without-session|protected page served without a session"}
		}
		// starting a flow from here would add a cookie; do not track it (page is an observation only)
		return nil
	}
	if !rep.ran {
		return []string{fmt.Sprintf("page/session-not-honoured|signed in as %s, status %d", s.owner, rep.code)}
	}
	if rep.seenUser != s.owner {
		return []string{fmt.Sprintf("page/wrong-user|the application sees %q, the delivered response was for %q", rep.seenUser, s.owner)}
	}
	return nil
}
