package checks

import (
	"encoding/xml"
	"fmt"
	"math"
	"reflect"
	"strings"
	"time"

	"github.com/crewjam/saml"
	dsig "github.com/russellhaering/goxmldsig"

	"verif/engine/core"
	"verif/engine/harness"
	"verif/engine/samlgen"
)

// C15 — durations, instants and metadata round-trip through their XML text forms.

func durRT(d time.Duration) (time.Duration, string, error) {
	b, err := saml.Duration(d).MarshalText()
	if err != nil {
		return 0, "", err
	}
	var out saml.Duration
	if err := out.UnmarshalText(b); err != nil {
		return 0, string(b), err
	}
	return time.Duration(out), string(b), nil
}

var durCarries = []time.Duration{0, 59 * time.Second, 60 * time.Second, 3599 * time.Second, 3600 * time.Second, 24 * time.Hour, 1 << 62}

// checkDur round-trips d, -d and d plus each carry; returns the first failure.
func checkDur(base time.Duration) (fail string, n int) {
	for _, c := range durCarries {
		for _, sign := range []time.Duration{1, -1} {
			d := sign * (base + c)
			if base+c < 0 { // overflow
				continue
			}
			n++
			got, text, err := durRT(d)
			if err != nil {
				return fmt.Sprintf("duration %d ns marshals to %q which fails to unmarshal: %v", int64(d), text, err), n
			}
			if got != d {
				return fmt.Sprintf("duration %d ns marshals to %q and unmarshals to %d ns (off by %d)", int64(d), text, int64(got), int64(got-d)), n
			}
		}
	}
	return "", n
}

// refDuration is a hand-written xsd:duration recogniser (365 d years, 30 d months).
// ok=false: not in the grammar. amb=true: in a grey zone the statement does not decide.
func refDuration(s string) (d time.Duration, ok bool, amb bool) {
	neg := false
	i := 0
	if strings.HasPrefix(s, "-") {
		neg = true
		i = 1
	}
	if i >= len(s) || s[i] != 'P' {
		return 0, false, false
	}
	i++
	num := func() (string, bool) {
		st := i
		for i < len(s) && (s[i] >= '0' && s[i] <= '9' || s[i] == '.') {
			i++
		}
		return s[st:i], i > st
	}
	var total float64
	comps := 0
	order := 0
	inTime := false
	timeComps := 0
	for i < len(s) {
		if s[i] == 'T' {
			if inTime {
				return 0, false, false
			}
			inTime = true
			order = 3
			i++
			continue
		}
		n, has := num()
		if !has || i >= len(s) {
			return 0, false, false
		}
		unit := s[i]
		i++
		frac := strings.Contains(n, ".")
		if strings.Count(n, ".") > 1 || strings.HasPrefix(n, ".") || strings.HasSuffix(n, ".") {
			return 0, false, false
		}
		var v float64
		fmt.Sscanf(n, "%g", &v)
		var rank int
		var mult time.Duration
		switch {
		case !inTime && unit == 'Y':
			rank, mult = 0, 365*24*time.Hour
		case !inTime && unit == 'M':
			rank, mult = 1, 30*24*time.Hour
		case !inTime && unit == 'D':
			rank, mult = 2, 24*time.Hour
		case inTime && unit == 'H':
			rank, mult = 3, time.Hour
		case inTime && unit == 'M':
			rank, mult = 4, time.Minute
		case inTime && unit == 'S':
			rank, mult = 5, time.Second
		default:
			return 0, false, false
		}
		if rank < order {
			return 0, false, false
		}
		order = rank + 1
		if frac && unit != 'S' {
			return 0, false, false
		}
		if len(n) > 15 {
			amb = true
		}
		total += v * float64(mult)
		comps++
		if inTime {
			timeComps++
		}
	}
	if comps == 0 || (inTime && timeComps == 0) {
		return 0, false, false
	}
	if total > float64(math.MaxInt64)/2 {
		amb = true
	}
	d = time.Duration(math.Round(total))
	if neg {
		d = -d
	}
	return d, true, amb
}

func init() {
	Register(&Check{
		ID:     "C15",
		Engine: "lattice",
		Rule: "exhaustive sub-ranges: every nanosecond duration in [0,2e6) plus every sub-second value with <=3 non-zero decimal digits, every whole second in [0,90000], every whole minute up to 100 days and powers of ten, each negated and added to carries {0,59s,60s,3599s,3600s,1d,2^62}; every duration string of <=5 tokens over {-,P,T,1,0.5,Y,M,D,H,S} against a hand-written xsd:duration recogniser; " +
			"instants on the lattice years x dates x times x (k*100us +-1ns, k<10000) x zone offsets -14:00..+14:00 in 15-minute steps with lexical forms; SP/IdP metadata over configuration axes and generated EntityDescriptor/EntitiesDescriptor values with each of 14 optional parts present or absent (2^14), re-parsed and compared, fixed point after one generation. non-trivial = every evaluated value except 0",
		Bounds: func(tier string) string {
			if tier == "thorough" {
				return "ALL 1e9 sub-second nanosecond values; full instant product (all zones x all rounding edges); 2^14 metadata shapes"
			}
			return "sub-second: [0,2e6) + <=3 non-zero digits (about 2.07e6 values x 14 carries/signs); instants: all rounding edges at UTC + all zones on 12 edges; 2^14 metadata shapes"
		},
		Assumptions: []string{"instants whose millisecond-rounded UTC form leaves years 1..9999 are outside the statement", "durations beyond +-2^62+1d ns are not enumerated"},
		Run:         runC15,
		CapQuick:    6 * time.Minute,
		CapThorough: 25 * time.Minute,
	})
}

func runC15(c *core.Ctx) {
	g := harness.Pin(samlgen.T0)
	defer g.Restore()

	// --- durations: dense blocks ---
	c.Group("duration-dense")
	block := 100000
	limit := 2000000
	if c.Thorough() {
		limit = 1000000000
		block = 1000000
	}
	for lo := 0; lo < limit; lo += block {
		lo := lo
		c.Case(fmt.Sprintf("dur/dense/%d-%d", lo, lo+block), func(t *core.T) {
			t.NonTrivial()
			t.Compared()
			cnt := 0
			for v := lo; v < lo+block; v++ {
				var fail string
				var n int
				if c.Thorough() && v >= 2000000 {
					// beyond the quick range only the plain value and its negation (carries are covered on the quick range)
					for _, d := range []time.Duration{time.Duration(v), -time.Duration(v)} {
						n++
						if got, text, err := durRT(d); err != nil || got != d {
							fail = fmt.Sprintf("duration %d ns marshals to %q and unmarshals to %d ns (err %v)", int64(d), text, int64(got), err)
							break
						}
					}
				} else {
					fail, n = checkDur(time.Duration(v))
				}
				cnt += n
				if fail != "" {
					t.Fail("C15/duration/roundtrip", "%s", fail)
					break
				}
			}
			t.Evals(cnt)
			t.Impl(2 * cnt)
			t.Outcome("dense-block")
		})
	}

	// values with <= 3 non-zero digits among the 9 sub-second digits
	c.Group("duration-sparse-digits")
	pow := []int{1, 10, 100, 1000, 10000, 100000, 1000000, 10000000, 100000000}
	for a := 0; a < 9; a++ {
		a := a
		c.Case(fmt.Sprintf("dur/sparse/first-digit-pos=%d", a), func(t *core.T) {
			t.NonTrivial()
			t.Compared()
			cnt := 0
			try := func(v int) bool {
				fail, n := checkDur(time.Duration(v))
				cnt += n
				if fail != "" {
					t.Fail("C15/duration/roundtrip", "%s", fail)
					return false
				}
				return true
			}
		outer:
			for da := 1; da <= 9; da++ {
				if !try(da * pow[a]) {
					break
				}
				for b := a + 1; b < 9; b++ {
					for db := 1; db <= 9; db++ {
						if !try(da*pow[a] + db*pow[b]) {
							break outer
						}
						for cc := b + 1; cc < 9; cc++ {
							for dc := 1; dc <= 9; dc++ {
								if !try(da*pow[a] + db*pow[b] + dc*pow[cc]) {
									break outer
								}
							}
						}
					}
				}
			}
			t.Evals(cnt)
			t.Impl(2 * cnt)
			t.Outcome("sparse-block")
		})
	}

	c.Group("duration-whole")
	c.Case("dur/whole-seconds-0..90000", func(t *core.T) {
		t.NonTrivial()
		t.Compared()
		cnt := 0
		for s := 0; s <= 90000; s++ {
			for _, extra := range []time.Duration{0, 1, 500 * time.Millisecond, 999999999} {
				for _, sg := range []time.Duration{1, -1} {
					d := sg * (time.Duration(s)*time.Second + extra)
					cnt++
					got, text, err := durRT(d)
					if err != nil || got != d {
						t.Fail("C15/duration/roundtrip", "duration %v (%d ns) marshals to %q and comes back as %d ns (err %v)", d, int64(d), text, int64(got), err)
						t.Evals(cnt)
						return
					}
				}
			}
		}
		t.Evals(cnt)
		t.Impl(2 * cnt)
	})
	c.Case("dur/whole-minutes-to-100d+extremes", func(t *core.T) {
		t.NonTrivial()
		t.Compared()
		cnt := 0
		var vals []time.Duration
		for m := 0; m <= 100*24*60; m++ {
			vals = append(vals, time.Duration(m)*time.Minute)
		}
		for p := time.Duration(1); p > 0 && p < 1<<62; p *= 10 {
			for k := time.Duration(1); k <= 9; k++ {
				if p*k > 0 {
					vals = append(vals, p*k)
				}
			}
		}
		vals = append(vals, 1, math.MaxInt64, math.MinInt64+1, math.MaxInt64-1, 1<<62, 1<<53, 1<<53+1)
		for _, v := range vals {
			for _, d := range []time.Duration{v, -v} {
				cnt++
				got, text, err := durRT(d)
				if err != nil || got != d {
					t.Fail("C15/duration/roundtrip", "duration %d ns marshals to %q and comes back as %d ns (err %v)", int64(d), text, int64(got), err)
					t.Evals(cnt)
					return
				}
			}
		}
		t.Evals(cnt)
		t.Impl(2 * cnt)
	})

	// every combination of an hour count (dense small, every power of two and its neighbours up to the int64 limit, round calendar
	// figures) with minute, second and fraction components at and next to their carries, both signs
	c.Group("duration-component-product")
	{
		var hours []int64
		for h := int64(0); h <= 26; h++ {
			hours = append(hours, h)
		}
		for k := uint(5); k <= 21; k++ {
			hours = append(hours, 1<<k-1, 1<<k, 1<<k+1)
		}
		hours = append(hours, 100, 1000, 4380, 8760, 8761, 87600, 876000, 1000000, 2562046, 2562047)
		comps := []int64{0, 1, 29, 30, 58, 59}
		fracs := []int64{0, 1, 2, 1000, 499999999, 500000000, 999999000, 999999998, 999999999}
		for _, h := range hours {
			h := h
			c.Case(fmt.Sprintf("dur/components/hours=%d", h), func(t *core.T) {
				t.NonTrivial()
				t.Compared()
				cnt := 0
				for _, m := range comps {
					for _, sec := range comps {
						for _, f := range fracs {
							rest := m*int64(time.Minute) + sec*int64(time.Second) + f
							if h > (math.MaxInt64-rest)/int64(time.Hour) {
								continue // not representable
							}
							v := time.Duration(h*int64(time.Hour) + rest)
							for _, d := range []time.Duration{v, -v} {
								cnt++
								got, text, err := durRT(d)
								if err != nil || got != d {
									t.Fail("C15/duration/roundtrip", "duration %v (%d ns) marshals to %q and comes back as %d ns (err %v)", d, int64(d), text, int64(got), err)
									t.Evals(cnt)
									return
								}
							}
						}
					}
				}
				t.Evals(cnt)
				t.Impl(2 * cnt)
				t.Outcome("component-block")
			})
		}
	}

	// --- duration strings ---
	c.Group("duration-strings")
	toks := []string{"-", "P", "T", "1", "0.5", "Y", "M", "D", "H", "S"}
	for first := range toks {
		first := first
		c.Case("durstr/first="+toks[first], func(t *core.T) {
			t.NonTrivial()
			cnt := 0
			var rec func(s string, depth int) bool
			rec = func(s string, depth int) bool {
				cnt++
				want, ok, amb := refDuration(s)
				var got saml.Duration
				err, p := guard(func() error { return got.UnmarshalText([]byte(s)) })
				switch {
				case p != "":
					t.Fail("C15/duration-string/panic", "UnmarshalText(%q) panicked: %s", s, p)
					return false
				case amb:
				case ok && err != nil:
					t.Fail("C15/duration-string/rejects-valid", "valid xsd:duration %q rejected: %v", s, err)
					return false
				case ok && time.Duration(got) != want:
					t.Fail("C15/duration-string/wrong-value", "xsd:duration %q parsed as %d ns, reference says %d ns", s, int64(got), int64(want))
					return false
				case !ok && err == nil:
					t.Fail("C15/duration-string/accepts-invalid", "string %q is not an xsd:duration but parsed as %d ns", s, int64(got))
					return false
				}
				if depth == 5 {
					return true
				}
				for _, tk := range toks {
					if !rec(s+tk, depth+1) {
						return false
					}
				}
				return true
			}
			rec(toks[first], 1)
			t.Compared()
			t.Evals(cnt)
			t.Impl(cnt)
		})
	}

	// the lexical forms of one number in each component position: xsd:duration numbers are decimal whatever zeros lead them
	c.Group("duration-number-forms")
	{
		nums := []string{"0", "00", "01", "07", "08", "09", "010", "0010", "011", "017", "018", "019", "0100", "000000000000000000001", "10", "100", "0x10", "0b1", "0o7", "1e1", "+1", "1_0", " 1", "１"}
		tmpl := []string{"P%sY", "P%sM", "P%sD", "PT%sH", "PT%sM", "PT%sS", "PT%s.5S", "PT0.%sS", "-P%sD", "P%sDT%sH", "PT%sH%sM%sS"}
		for _, tp := range tmpl {
			tp := tp
			c.Case("durnum/"+tp, func(t *core.T) {
				t.NonTrivial()
				cnt := 0
				for _, n := range nums {
					args := make([]interface{}, strings.Count(tp, "%s"))
					for i := range args {
						args[i] = n
					}
					str := fmt.Sprintf(tp, args...)
					cnt++
					want, ok, amb := refDuration(str)
					var got saml.Duration
					err, p := guard(func() error { return got.UnmarshalText([]byte(str)) })
					switch {
					case p != "":
						t.Fail("C15/duration-string/panic", "UnmarshalText(%q) panicked: %s", str, p)
					case amb:
					case ok && err != nil:
						t.Fail("C15/duration-string/rejects-valid", "valid xsd:duration %q rejected: %v", str, err)
					case ok && time.Duration(got) != want:
						t.Fail("C15/duration-string/wrong-value", "xsd:duration %q parsed as %d ns, reference says %d ns", str, int64(got), int64(want))
					case !ok && err == nil:
						t.Fail("C15/duration-string/accepts-invalid", "string %q is not an xsd:duration but parsed as %d ns", str, int64(got))
					}
				}
				t.Compared()
				t.Evals(cnt)
				t.Impl(cnt)
			})
		}
	}

	// --- instants ---
	c.Group("instants")
	years := []int{1, 1969, 1970, 2000, 2038, 9999}
	type md struct{ m, d int }
	dates := []md{{1, 1}, {2, 28}, {2, 29}, {12, 31}}
	tods := [][3]int{{0, 0, 0}, {23, 59, 59}, {12, 30, 15}}
	var zones []int
	for off := -14 * 60; off <= 14*60; off += 15 {
		zones = append(zones, off)
	}
	keyEdges := []int{0, 1, 499999, 500000, 500001, 999999, 1000000, 1499999, 1500000, 1500001, 999499999, 999500000, 999999999}
	instRT := func(tm time.Time) string {
		want := tm.Round(time.Millisecond).UTC()
		if want.Year() < 1 || want.Year() > 9999 {
			return ""
		}
		b, err := saml.RelaxedTime(tm).MarshalText()
		if err != nil {
			return fmt.Sprintf("MarshalText(%s): %v", tm.Format(time.RFC3339Nano), err)
		}
		if !strings.HasSuffix(string(b), "Z") {
			return fmt.Sprintf("instant %s marshals to %q which is not in UTC (Z)", tm.Format(time.RFC3339Nano), b)
		}
		var back saml.RelaxedTime
		if err := back.UnmarshalText(b); err != nil {
			return fmt.Sprintf("instant %s marshals to %q which fails to unmarshal: %v", tm.Format(time.RFC3339Nano), b, err)
		}
		if !time.Time(back).Equal(want) {
			return fmt.Sprintf("instant %s marshals to %q and comes back as %s, want %s", tm.Format(time.RFC3339Nano), b, time.Time(back).Format(time.RFC3339Nano), want.Format(time.RFC3339Nano))
		}
		// the text form of the original in its own zone must parse to the same rounded instant
		var b2 saml.RelaxedTime
		src := tm.Format(time.RFC3339Nano)
		if err := b2.UnmarshalText([]byte(src)); err != nil {
			return fmt.Sprintf("RFC 3339 text %q rejected: %v", src, err)
		}
		if !time.Time(b2).Equal(want) {
			return fmt.Sprintf("RFC 3339 text %q parsed as %s, want %s", src, time.Time(b2).Format(time.RFC3339Nano), want.Format(time.RFC3339Nano))
		}
		return ""
	}
	for _, y := range years {
		for _, dt := range dates {
			if dt.d == 29 && !(y%4 == 0 && (y%100 != 0 || y%400 == 0)) {
				continue
			}
			for _, tod := range tods {
				y, dt, tod := y, dt, tod
				c.Case(fmt.Sprintf("instant/%04d-%02d-%02dT%02d:%02d:%02d", y, dt.m, dt.d, tod[0], tod[1], tod[2]), func(t *core.T) {
					t.NonTrivial()
					t.Compared()
					cnt := 0
					for _, off := range zones {
						loc := time.FixedZone("", off*60)
						full := c.Thorough() || off == 0
						if full {
							for k := 0; k < 10000; k++ {
								for _, dd := range []int{-1, 0, 1} {
									ns := k*100000 + dd
									if ns < 0 {
										continue
									}
									cnt++
									if f := instRT(time.Date(y, time.Month(dt.m), dt.d, tod[0], tod[1], tod[2], ns, loc)); f != "" {
										t.Fail("C15/instant/roundtrip", "%s", f)
										t.Evals(cnt)
										return
									}
								}
							}
						} else {
							for _, ns := range keyEdges {
								cnt++
								if f := instRT(time.Date(y, time.Month(dt.m), dt.d, tod[0], tod[1], tod[2], ns, loc)); f != "" {
									t.Fail("C15/instant/roundtrip", "%s", f)
									t.Evals(cnt)
									return
								}
							}
						}
					}
					t.Evals(cnt)
					t.Impl(3 * cnt)
				})
			}
		}
	}

	c.Group("instant-forms")
	base := "2024-02-29T23:59:59"
	wantBase := time.Date(2024, 2, 29, 23, 59, 59, 0, time.UTC)
	type form struct {
		name, text string
		v          core.Verdict
		want       time.Time
	}
	var forms []form
	for _, digits := range []int{0, 1, 2, 3, 4, 5, 6, 7, 8, 9, 10, 12, 19, 40} { // (RFC 3339 and xsd:dateTime put no upper bound on the fraction)
		frac, ns := "", 0
		if digits > 0 {
			frac = "." + strings.Repeat("1", digits)
			fmt.Sscanf((strings.Repeat("1", digits) + "000000000")[:9], "%d", &ns)
		}
		w := wantBase.Add(time.Duration(ns)).Round(time.Millisecond)
		forms = append(forms,
			form{fmt.Sprintf("Z/frac%d", digits), base + frac + "Z", core.MustAccept, w},
			form{fmt.Sprintf("+00:00/frac%d", digits), base + frac + "+00:00", core.MustAccept, w},
			form{fmt.Sprintf("+05:30/frac%d", digits), base + frac + "+05:30", core.MustAccept, w.Add(-5*time.Hour - 30*time.Minute)},
			form{fmt.Sprintf("-08:00/frac%d", digits), base + frac + "-08:00", core.MustAccept, w.Add(8 * time.Hour)},
			form{fmt.Sprintf("zoneless/frac%d", digits), base + frac, core.MustAccept, w},
		)
	}
	forms = append(forms,
		form{"date-only", "2024-02-29", core.MustReject, time.Time{}},
		form{"no-seconds", "2024-02-29T23:59Z", core.MustReject, time.Time{}},
		form{"space-separator", "2024-02-29 23:59:59Z", core.MustReject, time.Time{}},
		form{"trailing-junk", base + "Zjunk", core.MustReject, time.Time{}},
		form{"leading-space", " " + base + "Z", core.MustReject, time.Time{}},
		form{"non-numeric", "yesterday", core.MustReject, time.Time{}},
		form{"month-13", "2024-13-01T00:00:00Z", core.MustReject, time.Time{}},
		form{"feb-30", "2024-02-30T00:00:00Z", core.MustReject, time.Time{}},
		form{"hour-25", "2024-02-29T25:00:00Z", core.MustReject, time.Time{}},
		form{"unix-seconds", "1709251199", core.MustReject, time.Time{}},
		form{"rfc1123", "Thu, 29 Feb 2024 23:59:59 GMT", core.MustReject, time.Time{}},
		form{"lower-t", "2024-02-29t23:59:59Z", core.DontCare, time.Time{}},
		form{"lower-z", base + "z", core.DontCare, time.Time{}},
		form{"comma-fraction", base + ",5Z", core.DontCare, time.Time{}},
		form{"second-60", "2024-02-29T23:59:60Z", core.DontCare, time.Time{}},
		form{"24:00:00", "2024-02-29T24:00:00Z", core.DontCare, time.Time{}},
		form{"empty", "", core.DontCare, time.Time{}},
		form{"offset-no-colon", base + "+0530", core.DontCare, time.Time{}},
		form{"offset-hours-only", base + "+05", core.DontCare, time.Time{}},
	)
	for _, f := range forms {
		f := f
		c.Case("instant-form/"+f.name, func(t *core.T) {
			t.NonTrivial()
			var got saml.RelaxedTime
			err, p := guard(func() error { return got.UnmarshalText([]byte(f.text)) })
			t.Impl(1)
			if p != "" {
				t.Fail("C15/instant-form/panic", "UnmarshalText(%q) panicked: %s", f.text, p)
				return
			}
			t.Modelled(f.v)
			switch {
			case f.v == core.MustAccept && err != nil:
				t.Fail("C15/instant-form/rejects-documented-form", "documented form %q rejected: %v", f.text, err)
			case f.v == core.MustAccept && !time.Time(got).Equal(f.want):
				t.Fail("C15/instant-form/wrong-instant", "form %q parsed as %s, want %s", f.text, time.Time(got).UTC().Format(time.RFC3339Nano), f.want.Format(time.RFC3339Nano))
			case f.v == core.MustReject && err == nil:
				t.Fail("C15/instant-form/accepts-undocumented-form", "form %q accepted as %s", f.text, time.Time(got).UTC().Format(time.RFC3339Nano))
			}
			t.Outcome(outcomeOf(err, false))
		})
	}

	// --- metadata ---
	c.Group("metadata-generated-by-library")
	c15Metadata(c)
	c.Group("metadata-shapes")
	c15Shapes(c)
	c.Group("metadata-endpoint-location-forms")
	c15LocationForms(c)
	// entity IDs up to the longest the specification allows (1024 characters) survive a generation like any other
	c.Group("metadata-entity-id-lengths")
	for _, n := range []int{1, 2, 255, 256, 1000, 1022, 1023, 1024} {
		for _, kind := range []string{"url", "urn", "non-ascii"} {
			n, kind := n, kind
			c.Case(fmt.Sprintf("entity-id-length/%s/%d", kind, n), func(t *core.T) {
				t.NonTrivial()
				id := "https://e.example/"
				switch kind {
				case "urn":
					id = "urn:x:"
				case "non-ascii":
					id = "https://é.example/"
				}
				if len(id) > n {
					id = id[:n]
				}
				id += strings.Repeat("a", n-len(id))
				role := saml.RoleDescriptor{ProtocolSupportEnumeration: "urn:oasis:names:tc:SAML:2.0:protocol"}
				ed := &saml.EntityDescriptor{EntityID: id, SPSSODescriptors: []saml.SPSSODescriptor{{SSODescriptor: saml.SSODescriptor{RoleDescriptor: role},
					AssertionConsumerServices: []saml.IndexedEndpoint{{Binding: saml.HTTPPostBinding, Location: "https://ok.example.com/acs", Index: 1}}}}}
				checkED(t, ed, false)
			})
		}
	}

	c.Group("metadata-validity-instants")
	c15ValidityInstants(c)
}

// c15ValidityInstants: validUntil / cacheDuration values over the whole range the types can hold, on EntityDescriptor and on an EntityDescriptor inside an EntitiesDescriptor: one generation must preserve them (instants to the millisecond).
func c15ValidityInstants(c *core.Ctx) {
	utc := time.UTC
	instants := []time.Time{
		{}, time.Date(1, 1, 1, 0, 0, 1, 0, utc), time.Date(1000, 6, 15, 12, 0, 0, 0, utc), time.Date(1600, 2, 29, 23, 59, 59, 999000000, utc),
		time.Date(1901, 12, 13, 20, 45, 51, 0, utc), time.Date(1969, 12, 31, 23, 59, 59, 0, utc), time.Date(1969, 12, 31, 23, 59, 59, 999000000, utc),
		time.Unix(0, 0).UTC(), time.Unix(0, 1000000).UTC(), time.Unix(0, 500000000).UTC(), time.Unix(0, 999000000).UTC(), time.Unix(1, 0).UTC(), time.Unix(-1, 0).UTC(),
		time.Date(1970, 1, 1, 5, 30, 0, 0, time.FixedZone("", 5*3600+1800)), time.Date(1970, 1, 1, 0, 0, 0, 0, time.FixedZone("", -8*3600)),
		time.Date(2001, 9, 9, 1, 46, 40, 0, utc), time.Date(2038, 1, 19, 3, 14, 7, 0, utc), time.Date(2038, 1, 19, 3, 14, 8, 0, utc), time.Date(2106, 2, 7, 6, 28, 16, 0, utc),
		time.Date(2262, 4, 11, 23, 47, 16, 854000000, utc), time.Date(2262, 4, 12, 0, 0, 0, 0, utc), time.Date(9999, 12, 31, 23, 59, 59, 999000000, utc),
	}
	caches := []time.Duration{0, time.Second, 90 * time.Minute, 1<<63 - 1}
	role := saml.RoleDescriptor{ProtocolSupportEnumeration: "urn:oasis:names:tc:SAML:2.0:protocol"}
	for ii, in := range instants {
		for ci, cd := range caches {
			for _, where := range []string{"entity", "entity-in-entities"} {
				ii, in, ci, cd, where := ii, in, ci, cd, where
				c.Case(fmt.Sprintf("validity/%s/instant#%d=%s/cache#%d", where, ii, in.Format(time.RFC3339Nano), ci), func(t *core.T) {
					t.NonTrivial()
					ed := &saml.EntityDescriptor{EntityID: "https://validity.example.com/", SPSSODescriptors: []saml.SPSSODescriptor{{SSODescriptor: saml.SSODescriptor{RoleDescriptor: role},
						AssertionConsumerServices: []saml.IndexedEndpoint{{Binding: saml.HTTPPostBinding, Location: "https://validity.example.com/acs", Index: 1}}}}}
					switch where {
					case "entity":
						ed.ValidUntil, ed.CacheDuration = in, cd
						checkED(t, ed, false)
					case "entity-in-entities":
						ed.ValidUntil, ed.CacheDuration = in, cd
						es := saml.EntitiesDescriptor{EntityDescriptors: []saml.EntityDescriptor{*ed}}
						b, err := xml.Marshal(es)
						t.Impl(1)
						var out saml.EntitiesDescriptor
						if err == nil {
							err = xml.Unmarshal(b, &out)
							t.Impl(1)
						}
						t.Compared()
						if err != nil || len(out.EntityDescriptors) != 1 {
							t.Fail("C15/metadata/entities-generation", "EntitiesDescriptor generation failed: %v", err)
							return
						}
						got := out.EntityDescriptors[0]
						if !got.ValidUntil.Round(time.Millisecond).Equal(in.Round(time.Millisecond)) || got.CacheDuration != cd {
							t.Fail("C15/metadata/lossy", "inside an EntitiesDescriptor validUntil %s / cacheDuration %s came back as %s / %s", in.Format(time.RFC3339Nano), cd, got.ValidUntil.Format(time.RFC3339Nano), got.CacheDuration)
							t.Input("doc1", string(b))
						}
					}
				})
			}
		}
	}
}

// c15LocationForms: lexical forms of valid http(s) URLs (everything the scheme check admits) in every endpoint position: one
// marshal/unmarshal generation must preserve each of them verbatim.
func c15LocationForms(c *core.Ctx) {
	forms := []string{
		"https://h.example.com/acs", "HTTPS://h.example.com/acs", "Http://h.example.com/acs", "https://H.EXAMPLE.com/Path", "https://h.example.com",
		"https://h.example.com/Z\u00fcrich/", "https://h.example.com/a b", "https://h.example.com/a{b}^|c", "https://h.example.com/acs#", "https://h.example.com/acs?",
		"https://h.example.com/acs#frag", "https://h.example.com/%7euser/%2f/x", "https://h.example.com/%7Euser/%2F/x", "https://user:pw@h.example.com:8443/x", "https://[::1]:8443/x",
		"https://h.example.com/a?b=c d&e=\u00e9", "https://h.example.com//double//slash/../dot/./x", "https://h.example.com/a;p=1?q=%zz", "https://h.example.com:443/", "http://h.example.com:80",
		"https://h.example.com/\u65e5\u672c", "https://h.example.com/a+b%20c", "https://xn--mnchen-3ya.example/", "https://m\u00fcnchen.example/", "https://h.example.com/a'b\"c<d>&e",
	}
	role := saml.RoleDescriptor{ProtocolSupportEnumeration: "urn:oasis:names:tc:SAML:2.0:protocol"}
	positions := []string{"acs-location", "acs-response-location", "sp-slo-location", "sp-slo-response-location", "idp-sso-location", "idp-slo-response-location", "artifact-resolution", "attribute-service"}
	for fi, f := range forms {
		for _, pos := range positions {
			for _, binding := range []string{saml.HTTPPostBinding, saml.HTTPRedirectBinding, saml.HTTPArtifactBinding, saml.SOAPBinding, saml.SOAPBindingV1} {
				f, pos, binding, fi := f, pos, binding, fi
				c.Case(fmt.Sprintf("locform/%s/%s/form#%d=%+q", pos, binding[strings.LastIndex(binding, ":")+1:], fi, f), func(t *core.T) {
					t.NonTrivial()
					ok := "https://ok.example.com/x"
					ed := &saml.EntityDescriptor{EntityID: "https://loc.example.com/"}
					sp := saml.SPSSODescriptor{SSODescriptor: saml.SSODescriptor{RoleDescriptor: role}, AssertionConsumerServices: []saml.IndexedEndpoint{{Binding: saml.HTTPPostBinding, Location: ok, Index: 1}}}
					idp := saml.IDPSSODescriptor{SSODescriptor: saml.SSODescriptor{RoleDescriptor: role}, SingleSignOnServices: []saml.Endpoint{{Binding: saml.HTTPRedirectBinding, Location: ok}}}
					switch pos {
					case "acs-location":
						sp.AssertionConsumerServices = append(sp.AssertionConsumerServices, saml.IndexedEndpoint{Binding: binding, Location: f, Index: 2})
					case "acs-response-location":
						sp.AssertionConsumerServices = append(sp.AssertionConsumerServices, saml.IndexedEndpoint{Binding: binding, Location: ok, ResponseLocation: samlgen.S(f), Index: 2})
					case "sp-slo-location":
						sp.SingleLogoutServices = []saml.Endpoint{{Binding: binding, Location: f}}
					case "sp-slo-response-location":
						sp.SingleLogoutServices = []saml.Endpoint{{Binding: binding, Location: ok, ResponseLocation: f}}
					case "idp-sso-location":
						idp.SingleSignOnServices = append(idp.SingleSignOnServices, saml.Endpoint{Binding: binding, Location: f})
					case "idp-slo-response-location":
						idp.SingleLogoutServices = []saml.Endpoint{{Binding: binding, Location: ok, ResponseLocation: f}}
					case "artifact-resolution":
						sp.ArtifactResolutionServices = []saml.IndexedEndpoint{{Binding: binding, Location: f, Index: 1}}
					case "attribute-service":
						ed.AttributeAuthorityDescriptors = []saml.AttributeAuthorityDescriptor{{RoleDescriptor: role, AttributeServices: []saml.Endpoint{{Binding: binding, Location: f}}}}
					}
					ed.SPSSODescriptors = []saml.SPSSODescriptor{sp}
					ed.IDPSSODescriptors = []saml.IDPSSODescriptor{idp}
					checkED(t, ed, false)
				})
			}
		}
	}
}

// reparse = one marshal/unmarshal generation.
func reparseED(ed *saml.EntityDescriptor) (*saml.EntityDescriptor, []byte, error) {
	b, err := xml.Marshal(ed)
	if err != nil {
		return nil, nil, fmt.Errorf("marshal: %w", err)
	}
	var out saml.EntityDescriptor
	if err := xml.Unmarshal(b, &out); err != nil {
		return nil, b, fmt.Errorf("unmarshal of generated document: %w", err)
	}
	return &out, b, nil
}

// edSummary extracts the parts the statement names.
func edSummary(ed *saml.EntityDescriptor) string {
	var sb strings.Builder
	fmt.Fprintf(&sb, "entityID=%q validUntil=%s cache=%d\n", ed.EntityID, ed.ValidUntil.Round(time.Millisecond).UTC().Format(time.RFC3339Nano), ed.CacheDuration)
	kd := func(ks []saml.KeyDescriptor) {
		for _, k := range ks {
			fmt.Fprintf(&sb, " key use=%q", k.Use)
			for _, c := range k.KeyInfo.X509Data.X509Certificates {
				fmt.Fprintf(&sb, " cert=%s", core.Hash12(strings.Join(strings.Fields(c.Data), "")))
			}
			for _, m := range k.EncryptionMethods {
				fmt.Fprintf(&sb, " enc=%s", m.Algorithm)
			}
			sb.WriteString("\n")
		}
	}
	ep := func(name string, es []saml.Endpoint) {
		for _, e := range es {
			fmt.Fprintf(&sb, " %s %s %s resp=%s\n", name, e.Binding, e.Location, e.ResponseLocation)
		}
	}
	iep := func(name string, es []saml.IndexedEndpoint) {
		for _, e := range es {
			def := "nil"
			if e.IsDefault != nil {
				def = fmt.Sprint(*e.IsDefault)
			}
			rl := ""
			if e.ResponseLocation != nil {
				rl = *e.ResponseLocation
			}
			fmt.Fprintf(&sb, " %s %s %s idx=%d def=%s resp=%s\n", name, e.Binding, e.Location, e.Index, def, rl)
		}
	}
	role := func(r saml.RoleDescriptor) {
		vu := "nil"
		if r.ValidUntil != nil {
			vu = r.ValidUntil.Round(time.Millisecond).UTC().Format(time.RFC3339Nano)
		}
		fmt.Fprintf(&sb, " role id=%q validUntil=%s cache=%d proto=%q err=%q\n", r.ID, vu, r.CacheDuration, r.ProtocolSupportEnumeration, r.ErrorURL)
		kd(r.KeyDescriptors)
	}
	for _, d := range ed.IDPSSODescriptors {
		sb.WriteString("IDPSSO\n")
		role(d.RoleDescriptor)
		ep("sso", d.SingleSignOnServices)
		ep("slo", d.SingleLogoutServices)
		ep("nim", d.NameIDMappingServices)
		ep("aidr", d.AssertionIDRequestServices)
		ep("mni", d.ManageNameIDServices)
		iep("ars", d.SSODescriptor.ArtifactResolutionServices)
		fmt.Fprintf(&sb, " nameid=%v want=%v\n", d.NameIDFormats, boolp(d.WantAuthnRequestsSigned))
	}
	for _, d := range ed.SPSSODescriptors {
		sb.WriteString("SPSSO\n")
		role(d.RoleDescriptor)
		ep("slo", d.SingleLogoutServices)
		ep("mni", d.ManageNameIDServices)
		iep("acs", d.AssertionConsumerServices)
		iep("ars", d.ArtifactResolutionServices)
		fmt.Fprintf(&sb, " nameid=%v signed=%v wantsigned=%v\n", d.NameIDFormats, boolp(d.AuthnRequestsSigned), boolp(d.WantAssertionsSigned))
		for _, a := range d.AttributeConsumingServices {
			fmt.Fprintf(&sb, " attrsvc idx=%d def=%v names=%v req=%d\n", a.Index, boolp(a.IsDefault), a.ServiceNames, len(a.RequestedAttributes))
			for _, ra := range a.RequestedAttributes {
				fmt.Fprintf(&sb, "  req %q %q %q required=%v\n", ra.Name, ra.FriendlyName, ra.NameFormat, boolp(ra.IsRequired))
			}
		}
	}
	for _, d := range ed.AuthnAuthorityDescriptors {
		sb.WriteString("AuthnAuthority\n")
		role(d.RoleDescriptor)
		ep("aq", d.AuthnQueryServices)
	}
	for _, d := range ed.AttributeAuthorityDescriptors {
		sb.WriteString("AttributeAuthority\n")
		role(d.RoleDescriptor)
		ep("as", d.AttributeServices)
	}
	for _, d := range ed.PDPDescriptors {
		sb.WriteString("PDP\n")
		role(d.RoleDescriptor)
		ep("authz", d.AuthzServices)
	}
	if ed.Organization != nil {
		fmt.Fprintf(&sb, "org %v %v %v\n", ed.Organization.OrganizationNames, ed.Organization.OrganizationDisplayNames, ed.Organization.OrganizationURLs)
	}
	if ed.ContactPerson != nil {
		fmt.Fprintf(&sb, "contact %+v\n", *ed.ContactPerson)
	}
	if ed.AffiliationDescriptor != nil {
		a := ed.AffiliationDescriptor
		fmt.Fprintf(&sb, "affiliation owner=%q id=%q vu=%s cache=%d members=%v\n", a.AffiliationOwnerID, a.ID, a.ValidUntil.Round(time.Millisecond).UTC().Format(time.RFC3339Nano), a.CacheDuration, a.AffiliateMembers)
	}
	fmt.Fprintf(&sb, "addl=%v id=%q\n", ed.AdditionalMetadataLocations, ed.ID)
	return sb.String()
}

func boolp(b *bool) string {
	if b == nil {
		return "nil"
	}
	return fmt.Sprint(*b)
}

// checkED runs the metadata oracle on one value.
func checkED(t *core.T, ed *saml.EntityDescriptor, generatedByLibrary bool) {
	g1, doc1, err := reparseED(ed)
	t.Impl(2)
	if err != nil {
		t.Fail("C15/metadata/generation-1", "%v\n%s", err, trunc(doc1, 600))
		return
	}
	g2, doc2, err := reparseED(g1)
	t.Impl(2)
	if err != nil {
		t.Fail("C15/metadata/generation-2", "%v\n%s", err, trunc(doc2, 600))
		return
	}
	s0, s1, s2 := edSummary(ed), edSummary(g1), edSummary(g2)
	if s1 != s2 {
		t.Fail("C15/metadata/no-fixed-point", "second generation differs from the first:\n--- g1\n%s--- g2\n%s", s1, s2)
		t.Input("doc1", string(doc1))
		return
	}
	if !reflect.DeepEqual(normED(g1), normED(g2)) {
		t.Fail("C15/metadata/no-fixed-point-deep", "g(g(x)) != g(x) structurally although summaries agree")
		t.Input("doc1", string(doc1))
		t.Input("doc2", string(doc2))
		return
	}
	if s0 != s1 {
		t.Fail("C15/metadata/lossy", "re-parsed value differs from the original in entity ID / endpoints / key descriptors / validity / cache duration:\n--- original\n%s--- re-parsed\n%s", s0, s1)
		t.Input("doc1", string(doc1))
	}
	t.Compared()
}

// normED clears fields that legitimately differ in representation only.
func normED(ed *saml.EntityDescriptor) *saml.EntityDescriptor {
	c := *ed
	c.ValidUntil = c.ValidUntil.Round(time.Millisecond).UTC()
	return &c
}

func c15Metadata(c *core.Ctx) {
	durs := []time.Duration{0, 10 * time.Second, time.Minute + 20*time.Second, 90 * time.Minute, time.Hour + 30*time.Minute + 30*time.Second, 48 * time.Hour, 36*time.Hour + 1500*time.Millisecond}
	nows := []time.Time{samlgen.T0, time.Date(2031, 12, 31, 23, 59, 59, 999600000, time.UTC), time.Date(2024, 2, 29, 1, 2, 3, 456789000, time.FixedZone("", 3600*5+1800))}
	for _, spk := range []string{"sp2048", "spec256"} {
		for _, entity := range []bool{true, false} {
			for _, sm := range []string{"", dsig.RSASHA256SignatureMethod} {
				for _, lb := range [][]string{nil, {saml.HTTPPostBinding}, {saml.HTTPPostBinding, saml.HTTPRedirectBinding}} {
					for _, vd := range durs {
						for ni, now := range nows {
							for _, nid := range []saml.NameIDFormat{"", saml.EmailAddressNameIDFormat} {
								spk, entity, sm, lb, vd, now, nid := spk, entity, sm, lb, vd, now, nid
								if sm != "" && spk == "spec256" {
									sm = dsig.ECDSASHA256SignatureMethod
								}
								c.Case(fmt.Sprintf("spmeta/key=%s/entity=%v/sign=%v/slo=%d/valid=%s/now=%d/nid=%s", spk, entity, sm != "", len(lb), vd, ni, nid), func(t *core.T) {
									t.NonTrivial()
									harness.SetNow(now)
									defer harness.SetNow(samlgen.T0)
									sp := harness.NewSP(harness.SPOpt{SPKey: spk, NoEntityID: !entity, SignMethod: sm, LogoutBinding: lb})
									sp.MetadataValidDuration = vd
									sp.AuthnNameIDFormat = nid
									ed := sp.Metadata()
									t.Impl(1)
									checkED(t, ed, true)
								})
							}
						}
					}
				}
			}
		}
	}
	for _, vd := range append([]time.Duration{-1}, durs...) {
		for ni, now := range nows {
			for _, slo := range []bool{false, true} {
				vd, now, slo := vd, now, slo
				c.Case(fmt.Sprintf("idpmeta/valid=%s/now=%d/slo=%v", vd, ni, slo), func(t *core.T) {
					t.NonTrivial()
					harness.SetNow(now)
					defer harness.SetNow(samlgen.T0)
					kp := samlgen.Key("idp1")
					idp := &saml.IdentityProvider{Key: kp.Key, Certificate: kp.Cert, MetadataURL: harness.MustURL(samlgen.IDPEntity), SSOURL: harness.MustURL(samlgen.IDPSSO)}
					if vd >= 0 {
						v := vd
						idp.ValidDuration = &v
					}
					if slo {
						idp.LogoutURL = harness.MustURL(samlgen.IDPSLO)
					}
					ed := idp.Metadata()
					t.Impl(1)
					checkED(t, ed, true)
				})
			}
		}
	}
}

func c15Shapes(c *core.Ctx) {
	tr, fa := true, false
	vu := time.Date(2033, 3, 4, 5, 6, 7, 891000000, time.UTC)
	cert := samlgen.Key("sp2048").CertB64
	role := func(id string) saml.RoleDescriptor {
		return saml.RoleDescriptor{ID: id, ProtocolSupportEnumeration: "urn:oasis:names:tc:SAML:2.0:protocol"}
	}
	for mask := 0; mask < 1<<14; mask++ {
		mask := mask
		c.Case(fmt.Sprintf("edshape/%05d", mask), func(t *core.T) {
			t.NonTrivial()
			on := func(b int) bool { return mask&(1<<b) != 0 }
			ed := &saml.EntityDescriptor{EntityID: "https://shape.example.com/" + fmt.Sprint(mask)}
			if on(0) {
				ed.ID = "_id-1"
			}
			if on(1) {
				ed.ValidUntil = vu
			}
			if on(2) {
				ed.CacheDuration = time.Hour + 30*time.Minute + 30*time.Second
			}
			sp := saml.SPSSODescriptor{SSODescriptor: saml.SSODescriptor{RoleDescriptor: role("")},
				AssertionConsumerServices: []saml.IndexedEndpoint{{Binding: saml.HTTPPostBinding, Location: "https://shape.example.com/acs", Index: 1}}}
			if on(3) {
				sp.KeyDescriptors = []saml.KeyDescriptor{{Use: "encryption", KeyInfo: saml.KeyInfo{X509Data: saml.X509Data{X509Certificates: []saml.X509Certificate{{Data: cert}}}},
					EncryptionMethods: []saml.EncryptionMethod{{Algorithm: "http://www.w3.org/2001/04/xmlenc#aes128-cbc"}}}, {Use: "signing", KeyInfo: saml.KeyInfo{X509Data: saml.X509Data{X509Certificates: []saml.X509Certificate{{Data: cert}}}}}}
			}
			if on(4) {
				sp.AssertionConsumerServices = append(sp.AssertionConsumerServices, saml.IndexedEndpoint{Binding: saml.HTTPArtifactBinding, Location: "http://shape.example.com/acs2", Index: 2, IsDefault: &tr, ResponseLocation: samlgen.S("https://shape.example.com/resp")},
					saml.IndexedEndpoint{Binding: saml.HTTPPostBinding, Location: "https://shape.example.com/acs3?x=1&y=2", Index: 0, IsDefault: &fa})
			}
			if on(5) {
				sp.AttributeConsumingServices = []saml.AttributeConsumingService{{Index: 1, IsDefault: &tr, ServiceNames: []saml.LocalizedName{{Lang: "en", Value: "Svc <&> \"q\""}},
					RequestedAttributes: []saml.RequestedAttribute{{Attribute: saml.Attribute{Name: "urn:oid:2.5.4.3", FriendlyName: "cn", NameFormat: "urn:oasis:names:tc:SAML:2.0:attrname-format:uri"}, IsRequired: &tr},
						{Attribute: saml.Attribute{Name: "mail", NameFormat: "urn:oasis:names:tc:SAML:2.0:attrname-format:basic"}}}}}
			}
			if on(6) {
				sp.SingleLogoutServices = []saml.Endpoint{{Binding: saml.HTTPRedirectBinding, Location: "https://shape.example.com/slo", ResponseLocation: "https://shape.example.com/slo-resp"}}
				sp.AuthnRequestsSigned, sp.WantAssertionsSigned = &tr, &fa
				sp.NameIDFormats = []saml.NameIDFormat{saml.PersistentNameIDFormat, saml.TransientNameIDFormat}
			}
			if on(7) {
				v := vu.Add(time.Hour)
				sp.ValidUntil = &v
				sp.CacheDuration = 90 * time.Second
				sp.ErrorURL = "https://shape.example.com/err"
			}
			ed.SPSSODescriptors = []saml.SPSSODescriptor{sp}
			if on(8) {
				ed.IDPSSODescriptors = []saml.IDPSSODescriptor{{SSODescriptor: saml.SSODescriptor{RoleDescriptor: role("_idp"), NameIDFormats: []saml.NameIDFormat{saml.TransientNameIDFormat},
					SingleLogoutServices: []saml.Endpoint{{Binding: saml.HTTPPostBinding, Location: "https://shape.example.com/idp/slo"}}},
					WantAuthnRequestsSigned: &fa,
					SingleSignOnServices:    []saml.Endpoint{{Binding: saml.HTTPRedirectBinding, Location: "https://shape.example.com/idp/sso"}, {Binding: saml.HTTPPostBinding, Location: "https://shape.example.com/idp/sso"}}}}
			}
			if on(9) {
				ed.Organization = &saml.Organization{OrganizationNames: []saml.LocalizedName{{Lang: "en", Value: "Org"}}, OrganizationDisplayNames: []saml.LocalizedName{{Lang: "de", Value: "Örg"}},
					OrganizationURLs: []saml.LocalizedURI{{Lang: "en", Value: "https://org.example.com/"}}}
			}
			if on(10) {
				ed.ContactPerson = &saml.ContactPerson{ContactType: "technical", Company: "ACME", GivenName: "A", SurName: "B", EmailAddresses: []string{"mailto:a@example.com"}, TelephoneNumbers: []string{"+1 555"}}
			}
			if on(11) {
				ed.AuthnAuthorityDescriptors = []saml.AuthnAuthorityDescriptor{{RoleDescriptor: role("_aa"), AuthnQueryServices: []saml.Endpoint{{Binding: saml.SOAPBinding, Location: "https://shape.example.com/aq"}}}}
				ed.PDPDescriptors = []saml.PDPDescriptor{{RoleDescriptor: role("_pdp"), AuthzServices: []saml.Endpoint{{Binding: saml.SOAPBinding, Location: "https://shape.example.com/authz"}}}}
			}
			if on(12) {
				ed.AttributeAuthorityDescriptors = []saml.AttributeAuthorityDescriptor{{RoleDescriptor: role("_attr"), AttributeServices: []saml.Endpoint{{Binding: saml.SOAPBinding, Location: "https://shape.example.com/attr"}}}}
				ed.AdditionalMetadataLocations = []string{"https://shape.example.com/more"}
			}
			if on(13) {
				ed.AffiliationDescriptor = &saml.AffiliationDescriptor{AffiliationOwnerID: "https://owner.example.com", ID: "_aff", AffiliateMembers: []string{"https://m1.example.com"}}
			}
			checkED(t, ed, false)
			t.Sample(map[string]interface{}{"case": fmt.Sprintf("edshape/%05d", mask), "optional_parts_mask": mask})
		})
	}

	// EntitiesDescriptor: by value and by pointer, optional attributes, one level of nesting
	for mask := 0; mask < 16; mask++ {
		for _, byValue := range []bool{false, true} {
			mask, byValue := mask, byValue
			c.Case(fmt.Sprintf("entities/%02d/byValue=%v", mask, byValue), func(t *core.T) {
				t.NonTrivial()
				cd := 6*time.Hour + 10*time.Second
				v := vu
				inner := saml.EntityDescriptor{EntityID: "https://inner.example.com/", ValidUntil: vu, CacheDuration: 20 * time.Second,
					SPSSODescriptors: []saml.SPSSODescriptor{{SSODescriptor: saml.SSODescriptor{RoleDescriptor: role("")}, AssertionConsumerServices: []saml.IndexedEndpoint{{Binding: saml.HTTPPostBinding, Location: "https://inner.example.com/acs", Index: 1}}}}}
				es := saml.EntitiesDescriptor{EntityDescriptors: []saml.EntityDescriptor{inner}}
				if mask&1 != 0 {
					es.CacheDuration = &cd
				}
				if mask&2 != 0 {
					es.ValidUntil = &v
				}
				if mask&4 != 0 {
					es.Name = samlgen.S("federation")
					es.ID = samlgen.S("_fed")
				}
				if mask&8 != 0 {
					es.EntitiesDescriptors = []saml.EntitiesDescriptor{{CacheDuration: &cd, ValidUntil: &v, EntityDescriptors: []saml.EntityDescriptor{inner}}}
				}
				var b []byte
				var err error
				if byValue {
					b, err = xml.Marshal(es)
				} else {
					b, err = xml.Marshal(&es)
				}
				t.Impl(1)
				if err != nil {
					t.Fail("C15/entities/marshal", "%v", err)
					return
				}
				var back saml.EntitiesDescriptor
				if err := xml.Unmarshal(b, &back); err != nil {
					t.Fail("C15/entities/reparse", "generated EntitiesDescriptor does not re-parse: %v\n%s", err, trunc(b, 500))
					return
				}
				sum := func(e *saml.EntitiesDescriptor) string {
					var sb strings.Builder
					var rec func(e *saml.EntitiesDescriptor, ind string)
					rec = func(e *saml.EntitiesDescriptor, ind string) {
						cdv, vuv := "nil", "nil"
						if e.CacheDuration != nil {
							cdv = fmt.Sprint(int64(*e.CacheDuration))
						}
						if e.ValidUntil != nil {
							vuv = e.ValidUntil.Round(time.Millisecond).UTC().Format(time.RFC3339Nano)
						}
						fmt.Fprintf(&sb, "%sentities cache=%s vu=%s name=%s id=%s\n", ind, cdv, vuv, optStr(e.Name), optStr(e.ID))
						for i := range e.EntityDescriptors {
							sb.WriteString(ind + edSummary(&e.EntityDescriptors[i]))
						}
						for i := range e.EntitiesDescriptors {
							rec(&e.EntitiesDescriptors[i], ind+"  ")
						}
					}
					rec(e, "")
					return sb.String()
				}
				if s0, s1 := sum(&es), sum(&back); s0 != s1 {
					t.Fail("C15/entities/lossy", "re-parsed EntitiesDescriptor differs:\n--- original\n%s--- re-parsed\n%s", s0, s1)
				}
				t.Compared()
			})
		}
	}
}
