package checks

import (
	"encoding/xml"
	"fmt"
	"net/http"
	"net/http/httptest"
	"net/url"
	"strconv"
	"strings"
	"time"

	"github.com/beevik/etree"
	"github.com/crewjam/saml"
	dsig "github.com/russellhaering/goxmldsig"

	"verif/engine/core"
	"verif/engine/harness"
	"verif/engine/htmlform"
	"verif/engine/samlgen"
)

// C05 — the IdP answers only valid requests and routes only to registered ACS endpoints.

const (
	locL1 = "https://sp.example.com/acs/one"
	locL2 = "https://sp.example.com/acs/two"
	locL3 = "https://evil.example.net/collect" // appears only in requests
)

type c05EP struct {
	binding string
	index   int
	isDef   int // 0 absent, 1 true, 2 false
	loc     string
}

var c05Bindings = []string{saml.HTTPPostBinding, saml.HTTPRedirectBinding, saml.HTTPArtifactBinding, "urn:example:unknown-binding"}

func c05EPVariants() []c05EP {
	var out []c05EP
	for _, b := range c05Bindings {
		for idx := 0; idx < 2; idx++ {
			for d := 0; d < 3; d++ {
				for _, l := range []string{locL1, locL2} {
					out = append(out, c05EP{b, idx, d, l})
				}
			}
		}
	}
	return out
}

func (e c05EP) String() string {
	b := e.binding[strings.LastIndex(e.binding, ":")+1:]
	return fmt.Sprintf("%s#%d/def%d/%s", b, e.index, e.isDef, e.loc[len(e.loc)-3:])
}

// buildShape makes SP metadata with endpoints split over descriptors as given, then passes it through XML as a registration would.
func buildShape(descs [][]c05EP, encKey bool) (*saml.EntityDescriptor, error) {
	tr, fa := true, false
	ed := &saml.EntityDescriptor{EntityID: samlgen.SPEntity}
	for _, d := range descs {
		sd := saml.SPSSODescriptor{SSODescriptor: saml.SSODescriptor{RoleDescriptor: saml.RoleDescriptor{ProtocolSupportEnumeration: "urn:oasis:names:tc:SAML:2.0:protocol"}}}
		if encKey {
			sd.KeyDescriptors = []saml.KeyDescriptor{{Use: "encryption", KeyInfo: saml.KeyInfo{X509Data: saml.X509Data{X509Certificates: []saml.X509Certificate{{Data: spKey().CertB64}}}}}}
		}
		for _, e := range d {
			ie := saml.IndexedEndpoint{Binding: e.binding, Location: e.loc, Index: e.index}
			switch e.isDef {
			case 1:
				ie.IsDefault = &tr
			case 2:
				ie.IsDefault = &fa
			}
			sd.AssertionConsumerServices = append(sd.AssertionConsumerServices, ie)
		}
		ed.SPSSODescriptors = append(ed.SPSSODescriptors, sd)
	}
	b, err := xml.Marshal(ed)
	if err != nil {
		return nil, err
	}
	var out saml.EntityDescriptor
	if err := xml.Unmarshal(b, &out); err != nil {
		return nil, err
	}
	return &out, nil
}

// flat lists registered endpoints in document order.
func flatEPs(md *saml.EntityDescriptor) []saml.IndexedEndpoint {
	var out []saml.IndexedEndpoint
	for _, d := range md.SPSSODescriptors {
		out = append(out, d.AssertionConsumerServices...)
	}
	return out
}

func browserBinding(b string) bool { return b == saml.HTTPPostBinding || b == saml.HTTPRedirectBinding }

// c05Select is the reference selection. ok=false: must be an error; dontCare: requested but unmatched.
func c05Select(eps []saml.IndexedEndpoint, reqURL, reqIdx string) (sel *saml.IndexedEndpoint, dontCare bool) {
	if reqIdx != "" {
		for i := range eps {
			if strconv.Itoa(eps[i].Index) == reqIdx {
				return &eps[i], false
			}
		}
	}
	if reqURL != "" {
		for i := range eps {
			if eps[i].Location == reqURL {
				return &eps[i], false
			}
		}
	}
	if reqIdx != "" || reqURL != "" {
		return nil, true
	}
	for i := range eps {
		if eps[i].IsDefault != nil && *eps[i].IsDefault && browserBinding(eps[i].Binding) {
			return &eps[i], false
		}
	}
	for i := range eps {
		if browserBinding(eps[i].Binding) {
			return &eps[i], false
		}
	}
	return nil, false
}

func sameEP(a, b *saml.IndexedEndpoint) bool {
	if a == nil || b == nil {
		return a == b
	}
	da, db := "nil", "nil"
	if a.IsDefault != nil {
		da = fmt.Sprint(*a.IsDefault)
	}
	if b.IsDefault != nil {
		db = fmt.Sprint(*b.IsDefault)
	}
	return a.Binding == b.Binding && a.Location == b.Location && a.Index == b.Index && da == db
}

// authnRequestXML builds an AuthnRequest by hand (harness-side, not through the SP code).
// authnProtocolBinding, when set, adds a ProtocolBinding attribute to the requests authnRequestXML builds.
var authnProtocolBinding *string

func authnRequestXML(issuer, dest, version, issueInstant, acsURL, acsIdx *string, id string) []byte {
	el := etree.NewElement("samlp:AuthnRequest")
	if authnProtocolBinding != nil {
		el.CreateAttr("ProtocolBinding", *authnProtocolBinding)
	}
	el.CreateAttr("xmlns:samlp", samlgen.NSProtocol)
	el.CreateAttr("xmlns:saml", samlgen.NSAssertion)
	el.CreateAttr("ID", id)
	for k, v := range map[string]*string{"Destination": dest, "Version": version, "IssueInstant": issueInstant, "AssertionConsumerServiceURL": acsURL, "AssertionConsumerServiceIndex": acsIdx} {
		if v != nil {
			el.CreateAttr(k, *v)
		}
	}
	el.SortAttrs()
	if issuer != nil {
		el.CreateElement("saml:Issuer").SetText(*issuer)
	}
	if authnExtraChildren != "" {
		frag := etree.NewDocument()
		if err := frag.ReadFromString(`<x xmlns:samlp="` + samlgen.NSProtocol + `" xmlns:saml="` + samlgen.NSAssertion + `">` + authnExtraChildren + `</x>`); err == nil {
			for _, ch := range frag.Root().ChildElements() {
				el.AddChild(ch.Copy())
			}
		}
	}
	return samlgen.Doc(el)
}

// authnExtraChildren, when set, is XML for further (optional) children of the requests authnRequestXML builds, after the Issuer.
var authnExtraChildren string

// c05RequestExtras: optional children an AuthnRequest may carry. None of them changes whether the request is fresh, whom it is from or
// where the answer goes.
var c05RequestExtras = []struct{ name, xml string }{
	{"none", ""},
	{"conditions-notonorafter-future", `<saml:Conditions NotOnOrAfter="2031-01-01T00:00:00Z"/>`},
	{"conditions-notbefore-past+notonorafter-far-future", `<saml:Conditions NotBefore="2000-01-01T00:00:00Z" NotOnOrAfter="2999-01-01T00:00:00Z"/>`},
	{"conditions-audience-other", `<saml:Conditions><saml:AudienceRestriction><saml:Audience>https://other-sp.example.org/metadata</saml:Audience></saml:AudienceRestriction></saml:Conditions>`},
	{"conditions-onetimeuse", `<saml:Conditions><saml:OneTimeUse/></saml:Conditions>`},
	{"subject-other-principal", `<saml:Subject><saml:NameID>mallory@example.com</saml:NameID><saml:SubjectConfirmation Method="urn:oasis:names:tc:SAML:2.0:cm:bearer"><saml:SubjectConfirmationData NotOnOrAfter="2999-01-01T00:00:00Z" Recipient="https://evil.example.net/acs"/></saml:SubjectConfirmation></saml:Subject>`},
	{"scoping-proxycount+idplist", `<samlp:Scoping ProxyCount="0"><samlp:IDPList><samlp:IDPEntry ProviderID="https://other-idp.example.net/"/></samlp:IDPList><samlp:RequesterID>https://evil.example.net/</samlp:RequesterID></samlp:Scoping>`},
	{"extensions", `<samlp:Extensions><x:Y xmlns:x="urn:example:ext" IssueInstant="2999-01-01T00:00:00Z" Destination="https://evil.example.net/"/></samlp:Extensions>`},
}

func init() {
	Register(&Check{
		ID:     "C05",
		Engine: "lattice",
		Rule: "registry shapes: every sequence of <=2 (thorough <=3) ACS endpoints over {4 bindings x 2 indices x isDefault absent/true/false x 2 locations}, every split over 1-2 SPSSODescriptors (plus an empty leading descriptor), passed through XML as a registration would be, crossed with the full routing product {ACS URL absent/L1/L2/request-only L3} x {index absent/0/1/7/x}; " +
			"gate product Issuer x Destination x Version x IssueInstant (around the freshness boundary) x encoding x tolerance settings on 6 shapes; IdP-initiated launch on every shape. Each case runs the real Validate (and ServeSSO / ServeIDPInitiated with the emitted form decoded by an HTML tokenizer). non-trivial = all but the single-endpoint default request",
		Bounds: func(tier string) string {
			if tier == "thorough" {
				return "shapes with <= 3 endpoints (Validate on all, ServeSSO on shapes with <= 2 endpoints); 5 tolerance settings"
			}
			return "shapes with <= 2 endpoints, full routing product, ServeSSO form decoded for every accepted case; gate product with 3 tolerance settings"
		},
		Assumptions: []string{"requested-but-unmatched index/URL: error or a registered default are both allowed by the statement (DONT_CARE); a selected endpoint must always be a registered one", "signed AuthnRequests are out of scope (the library refuses them by design)"},
		Run:         runC05,
		CapQuick:    6 * time.Minute,
		CapThorough: 20 * time.Minute,
	})
}

func runC05(c *core.Ctx) {
	g := harness.Pin(samlgen.T0)
	defer g.Restore()
	variants := c05EPVariants()
	sess := &saml.Session{ID: "s1", NameID: "alice", UserName: "alice", CreateTime: samlgen.T0, ExpireTime: samlgen.T0.Add(time.Hour), Index: "i1"}
	mkIDP := func(md *saml.EntityDescriptor) *saml.IdentityProvider {
		idp := harness.ReuseIDP("idpec", harness.SPRegistry{md.EntityID: md}, sess) // one IdentityProvider value for the whole worker
		idp.Signer = samlgen.Key("idpec").Key
		idp.Key = nil
		idp.SignatureMethod = dsig.ECDSASHA256SignatureMethod
		return idp
	}
	urls := []struct {
		n string
		v *string
	}{{"absent", nil}, {"L1", samlgen.S(locL1)}, {"L2", samlgen.S(locL2)}, {"L3evil", samlgen.S(locL3)},
		// near misses of a registered location: extensions, truncation, case, userinfo / host-suffix tricks
		{"L1+query", samlgen.S(locL1 + "?next=%2Fhome")}, {"L1+suffix", samlgen.S(locL1 + "2")}, {"L1+dotdot", samlgen.S(locL1 + "/../../x")}, {"L1+slash", samlgen.S(locL1 + "/")},
		{"L1-truncated", samlgen.S(locL1[:len(locL1)-1])}, {"L1-uppercase", samlgen.S(strings.ToUpper(locL1))}, {"L1+fragment", samlgen.S(locL1 + "#x")},
		{"L1-as-userinfo", samlgen.S(strings.Replace(locL1, "https://", "https://evil.example.net@", 1))}, {"L1+space", samlgen.S(locL1 + " ")}}
	idxs := []struct {
		n string
		v *string
	}{{"absent", nil}, {"0", samlgen.S("0")}, {"1", samlgen.S("1")}, {"7", samlgen.S("7")}, {"x", samlgen.S("x")}}

	// enumerate shapes
	type shape struct {
		name  string
		descs [][]c05EP
	}
	var shapes []shape
	addSeq := func(seq []c05EP) {
		var ns []string
		for _, e := range seq {
			ns = append(ns, e.String())
		}
		base := strings.Join(ns, "+")
		switch len(seq) {
		case 0:
			shapes = append(shapes, shape{"none/nodesc", nil}, shape{"none/emptydesc", [][]c05EP{{}}})
		case 1:
			shapes = append(shapes, shape{base + "/1desc", [][]c05EP{seq}}, shape{base + "/emptyfirst", [][]c05EP{{}, seq}})
		case 2:
			shapes = append(shapes, shape{base + "/1desc", [][]c05EP{seq}}, shape{base + "/2desc", [][]c05EP{seq[:1], seq[1:]}})
		case 3:
			shapes = append(shapes, shape{base + "/1desc", [][]c05EP{seq}}, shape{base + "/1+2", [][]c05EP{seq[:1], seq[1:]}}, shape{base + "/2+1", [][]c05EP{seq[:2], seq[2:]}})
		}
	}
	addSeq(nil)
	for _, a := range variants {
		addSeq([]c05EP{a})
	}
	for _, a := range variants {
		for _, b := range variants {
			addSeq([]c05EP{a, b})
		}
	}
	nQuick := len(shapes)
	if c.Thorough() {
		for _, a := range variants {
			for _, b := range variants {
				for _, d := range variants {
					addSeq([]c05EP{a, b, d})
				}
			}
		}
	}

	c.Group("routing")
	for si, sh := range shapes {
		si, sh := si, sh
		c.Affinity(si)
		var md *saml.EntityDescriptor
		var idp *saml.IdentityProvider
		var eps []saml.IndexedEndpoint
		prep := func() bool {
			if md == nil {
				m, err := buildShape(sh.descs, false)
				if err != nil {
					return false
				}
				md = m
				idp = mkIDP(md)
				eps = flatEPs(md)
			}
			return true
		}
		for _, u := range urls {
			for _, ix := range idxs {
				for _, pb := range []string{"", saml.HTTPPostBinding, saml.HTTPArtifactBinding} {
					if pb != "" && (ix.v != nil || len(u.n) > 6) {
						continue // the request's ProtocolBinding (which the statement gives no say in the routing) with the plain URL choices
					}
					u, ix, pb := u, ix, pb
					key := fmt.Sprintf("route/%s|url=%s/idx=%s", sh.name, u.n, ix.n)
					if pb != "" {
						key += "/ProtocolBinding=" + pb[strings.LastIndex(pb, ":")+1:]
					}
					c.Case(key, func(t *core.T) {
						if !prep() {
							t.Outcome("shape-not-registrable")
							return
						}
						if pb != "" {
							authnProtocolBinding = &pb
							defer func() { authnProtocolBinding = nil }()
						}
						if !(len(eps) == 1 && u.v == nil && ix.v == nil) {
							t.NonTrivial()
						}
						doc := authnRequestXML(samlgen.S(samlgen.SPEntity), samlgen.S(samlgen.IDPSSO), samlgen.S("2.0"), samlgen.S(samlgen.TS(samlgen.T0)), u.v, ix.v, "id-req-1")
						var req *saml.IdpAuthnRequest
						var err error
						_, p := guard(func() error {
							req, err = saml.NewIdpAuthnRequest(idp, idpRequest("POST", doc, "rs"))
							if err == nil {
								err = req.Validate()
							}
							return nil
						})
						t.Impl(1)
						if p != "" {
							t.Fail("C05/route/panic@"+p[strings.LastIndex(p, "@")+1:], "Validate panicked: %s", p)
							return
						}
						ru, ri := "", ""
						if u.v != nil {
							ru = *u.v
						}
						if ix.v != nil {
							ri = *ix.v
						}
						want, dc := c05Select(eps, ru, ri)
						t.Compared()
						if err == nil {
							got := req.ACSEndpoint
							if got == nil {
								t.Fail("C05/route/accepted-without-endpoint", "Validate succeeded but selected no endpoint")
								return
							}
							registered := false
							for i := range eps {
								if sameEP(got, &eps[i]) {
									registered = true
								}
							}
							if !registered || got.Location == locL3 {
								t.Fail("C05/route/selected-unregistered-endpoint", "selected endpoint %+v is not one of the registered endpoints %v", *got, eps)
							}
							if !dc {
								t.Modelled(core.MustAccept)
								if want == nil {
									t.Fail("C05/route/accepted-without-usable-endpoint", "no endpoint is selectable for this request, yet %+v was selected", *got)
								} else if !sameEP(got, want) {
									t.Fail("C05/route/wrong-endpoint-selected", "selected %s#%d (%s), the statement's order (index, else URL, else default/first browser binding) gives %s#%d (%s)", got.Location, got.Index, got.Binding, want.Location, want.Index, want.Binding)
								}
							} else {
								t.Modelled(core.DontCare)
							}
							t.Outcome("accept")
						} else {
							if !dc && want != nil {
								t.Modelled(core.MustAccept)
								t.Fail("C05/route/rejects-routable-request", "request is valid and endpoint %s#%d is selectable, but Validate failed: %v", want.Location, want.Index, err)
							} else {
								t.Modelled(core.DontCare)
							}
							t.Outcome("reject")
						}
						// the response actually written
						if si >= nQuick {
							return
						}
						w := httptest.NewRecorder()
						_, p = guard(func() error { idp.ServeSSO(w, idpRequest("POST", doc, "rs")); return nil })
						t.Impl(1)
						if p != "" {
							t.Fail("C05/serve/panic@"+p[strings.LastIndex(p, "@")+1:], "ServeSSO panicked: %s", p)
							return
						}
						body := w.Body.Bytes()
						hasForm := strings.Contains(string(body), "SAMLResponse")
						if err != nil && hasForm {
							t.Fail("C05/serve/response-for-invalid-request", "Validate fails (%v) but ServeSSO wrote a response form", err)
						}
						if hasForm {
							f, ferr := htmlform.Parse(body)
							if ferr != nil {
								t.Fail("C05/serve/unparseable-form", "%v", ferr)
								return
							}
							registered := false
							for i := range eps {
								if eps[i].Location == f.Action {
									registered = true
								}
							}
							if !registered || f.Action == locL3 {
								t.Fail("C05/serve/form-posted-to-unregistered-location", "response form action %q is not a registered ACS location (%v)", f.Action, eps)
							} else if err == nil && req.ACSEndpoint != nil && f.Action != req.ACSEndpoint.Location {
								t.Fail("C05/serve/form-action-differs-from-selected-endpoint", "form action %q, selected endpoint %q", f.Action, req.ACSEndpoint.Location)
							}
							if err == nil && req.ACSEndpoint != nil && req.ACSEndpoint.Binding != saml.HTTPPostBinding {
								t.Fail("C05/serve/form-for-non-post-endpoint", "selected endpoint has binding %s but a POST form was written", req.ACSEndpoint.Binding)
							}
						}
					})
				}
			}
		}
		// IdP-initiated launch on this shape
		if si < nQuick {
			key := "idpinit/" + sh.name
			c.Case(key, func(t *core.T) {
				if !prep() {
					return
				}
				t.NonTrivial()
				w := httptest.NewRecorder()
				_, p := guard(func() error {
					idp.ServeIDPInitiated(w, httptest.NewRequest("GET", "https://idp.example.com/login/x", nil), samlgen.SPEntity, "relay")
					return nil
				})
				t.Impl(1)
				if p != "" {
					t.Fail("C05/idpinit/panic@"+p[strings.LastIndex(p, "@")+1:], "ServeIDPInitiated panicked: %s", p)
					return
				}
				var firstPost *saml.IndexedEndpoint
				for i := range eps {
					if eps[i].Binding == saml.HTTPPostBinding {
						firstPost = &eps[i]
						break
					}
				}
				body := w.Body.Bytes()
				hasForm := strings.Contains(string(body), "SAMLResponse")
				t.Compared()
				if firstPost == nil {
					if hasForm {
						t.Fail("C05/idpinit/form-without-post-endpoint", "no HTTP-POST ACS is registered but a response form was written")
					}
					t.Outcome("idpinit-error")
					return
				}
				if !hasForm {
					t.Fail("C05/idpinit/no-response", "a POST ACS endpoint %s is registered but no response form was written (status %d)", firstPost.Location, w.Code)
					return
				}
				f, _ := htmlform.Parse(body)
				if f.Action != firstPost.Location {
					t.Fail("C05/idpinit/wrong-endpoint", "form action %q, first registered HTTP-POST endpoint is %q", f.Action, firstPost.Location)
				}
				t.Outcome("idpinit-form")
			})
		}
	}
	c.Affinity(-1)

	// gate product
	c.Group("gate")
	gateShapes := [][][]c05EP{
		{{{saml.HTTPPostBinding, 1, 0, locL1}}},
		{{{saml.HTTPPostBinding, 1, 1, locL1}, {saml.HTTPPostBinding, 2, 0, locL2}}},
		{{{saml.HTTPArtifactBinding, 0, 1, locL2}, {saml.HTTPPostBinding, 1, 0, locL1}}},
		{{{saml.HTTPRedirectBinding, 0, 0, locL1}}},
		{{}, {{saml.HTTPPostBinding, 0, 2, locL1}}},
		{{{"urn:example:unknown-binding", 0, 1, locL1}, {saml.HTTPPostBinding, 1, 2, locL2}}},
	}
	tols := c02Tols[:3]
	if c.Thorough() {
		tols = c02Tols[:5]
	}
	type sv struct {
		n string
		v *string
	}
	issuers := []sv{{"registered", samlgen.S(samlgen.SPEntity)}, {"unknown", samlgen.S("https://unknown-sp.example.org/")}, {"empty", samlgen.S("")}, {"absent", nil}, {"registered-upper", samlgen.S(strings.ToUpper(samlgen.SPEntity))}, {"registered-slash", samlgen.S(samlgen.SPEntity + "/")}}
	dests := []sv{{"absent", nil}, {"sso", samlgen.S(samlgen.IDPSSO)}, {"other", samlgen.S("https://other-idp.example.net/sso")}, {"sso-slash", samlgen.S(samlgen.IDPSSO + "/")}, {"sso-upper", samlgen.S(strings.ToUpper(samlgen.IDPSSO))}, {"sso-query", samlgen.S(samlgen.IDPSSO + "?a=b")}}
	versions := []sv{{"2.0", samlgen.S("2.0")}, {"1.1", samlgen.S("1.1")}, {"absent", nil}, {"2.00", samlgen.S("2.00")}, {"empty", samlgen.S("")}}
	encs := []string{"GET", "POST", "GET-raw", "PUT", "POST-deflated"}
	for gi, gs := range gateShapes {
		md, err := buildShape(gs, false)
		if err != nil {
			continue
		}
		idp := mkIDP(md)
		for _, tl := range tols {
			for _, is := range issuers {
				for _, de := range dests {
					for _, ve := range versions {
						for ii := 0; ii < 12; ii++ {
							for _, enc := range encs {
								if ii >= 7 && (enc != "POST" || tl.name != "default") {
									continue // the unusual lexical values with one encoding and the default tolerances
								}
								gi, tl, is, de, ve, ii, enc := gi, tl, is, de, ve, ii, enc
								iiNames := []string{"now", "in-1s", "out-1s", "far-out", "future-1h", "absent", "in-1ms", "year-1677", "year-1500", "year-1066", "year-0001", "now-written-with-offset-minus-0500"}
								key := fmt.Sprintf("gate/shape=%d/tol=%s/issuer=%s/dest=%s/ver=%s/ii=%s/enc=%s", gi, tl.name, is.n, de.n, ve.n, iiNames[ii], enc)
								c.Case(key, func(t *core.T) {
									t.NonTrivial()
									saml.MaxIssueDelay, saml.MaxClockSkew = tl.delay, tl.skew
									now := samlgen.T0
									var iiv *string
									fresh, future := true, false
									switch ii {
									case 0:
										iiv = samlgen.S(samlgen.TS(now))
									case 1:
										iiv = samlgen.S(samlgen.TS(now.Add(-tl.delay + time.Second)))
										if tl.delay < time.Second {
											future = true
										}
									case 2:
										iiv, fresh = samlgen.S(samlgen.TS(now.Add(-tl.delay-time.Second))), false
									case 3:
										iiv, fresh = samlgen.S(samlgen.TS(now.Add(-10*tl.delay-time.Hour))), false
									case 4:
										iiv, future = samlgen.S(samlgen.TS(now.Add(time.Hour))), true
									case 5:
										fresh = false
									case 6:
										iiv = samlgen.S(samlgen.TS(now.Add(-tl.delay + time.Millisecond)))
									case 7:
										iiv, fresh = samlgen.S("1677-09-21T00:12:43Z"), false
									case 8:
										iiv, fresh = samlgen.S("1500-01-01T00:00:00Z"), false
									case 9:
										iiv, fresh = samlgen.S("1066-10-14T09:00:00Z"), false
									case 10:
										iiv, fresh = samlgen.S("0001-01-01T00:00:01Z"), false
									case 11:
										iiv = samlgen.S(now.In(time.FixedZone("", -5*3600)).Format("2006-01-02T15:04:05.000-07:00"))
									}
									doc := authnRequestXML(is.v, de.v, ve.v, iiv, nil, nil, "id-req-1")
									var r *http.Request
									switch enc {
									case "GET", "POST":
										r = idpRequest(enc, doc, "rs")
									case "GET-raw":
										r = httptest.NewRequest("GET", samlgen.IDPSSO+"?"+url.Values{"SAMLRequest": {b64(doc)}}.Encode(), nil)
									case "PUT":
										r = idpRequest("POST", doc, "rs")
										r.Method = "PUT"
									case "POST-deflated":
										r = httptest.NewRequest("POST", samlgen.IDPSSO, strings.NewReader(url.Values{"SAMLRequest": {b64(deflate(doc))}}.Encode()))
										r.Header.Set("Content-Type", "application/x-www-form-urlencoded")
									}
									var err error
									_, p := guard(func() error {
										var req *saml.IdpAuthnRequest
										req, err = saml.NewIdpAuthnRequest(idp, r)
										if err == nil {
											err = req.Validate()
										}
										return nil
									})
									t.Impl(1)
									if p != "" {
										t.Fail("C05/gate/panic@"+p[strings.LastIndex(p, "@")+1:], "panicked: %s", p)
										t.Input("request_xml", string(doc))
										return
									}
									bad := !fresh || is.n != "registered" || (de.n != "absent" && de.n != "sso") || ve.n != "2.0" || (enc != "GET" && enc != "POST")
									v := core.MustAccept
									if bad {
										v = core.MustReject
									} else if future {
										v = core.DontCare
									}
									t.Modelled(v)
									t.Outcome(fmt.Sprint(err == nil))
									if v == core.MustReject && err == nil {
										t.Fail("C05/gate/accepts-invalid-request", "request must be refused (%s) but validated", key)
										t.Input("request_xml", string(doc))
									}
									if v == core.MustAccept && err != nil {
										t.Fail("C05/gate/rejects-valid-request", "valid request refused (%s): %v", key, err)
										t.Input("request_xml", string(doc))
									}
								})
							}
						}
					}
				}
			}
		}
	}

	// optional children of the request x freshness: a stale request is stale whatever it says about its own validity
	c.Group("gate-freshness-x-optional-request-children")
	if md, err := buildShape(gateShapes[0], false); err == nil {
		idp := mkIDP(md)
		for _, ex := range c05RequestExtras {
			for iiN, iiOff := range map[string]time.Duration{"now": 0, "in-1s": -tols[0].delay + time.Second, "out-1s": -tols[0].delay - time.Second, "10-minutes-ago": -10 * time.Minute, "a-year-ago": -365 * 24 * time.Hour} {
				for _, enc := range []string{"GET", "POST"} {
					ex, iiN, iiOff, enc := ex, iiN, iiOff, enc
					key := fmt.Sprintf("gate-extras/%s/ii=%s/enc=%s", ex.name, iiN, enc)
					c.Case(key, func(t *core.T) {
						t.NonTrivial()
						saml.MaxIssueDelay, saml.MaxClockSkew = tols[0].delay, tols[0].skew
						authnExtraChildren = ex.xml
						doc := authnRequestXML(samlgen.S(samlgen.SPEntity), samlgen.S(samlgen.IDPSSO), samlgen.S("2.0"), samlgen.S(samlgen.TS(samlgen.T0.Add(iiOff))), nil, nil, "id-req-1")
						authnExtraChildren = ""
						var err error
						_, p := guard(func() error {
							var req *saml.IdpAuthnRequest
							req, err = saml.NewIdpAuthnRequest(idp, idpRequest(enc, doc, "rs"))
							if err == nil {
								err = req.Validate()
							}
							return nil
						})
						t.Impl(1)
						if p != "" {
							t.Fail("C05/gate/panic@"+p[strings.LastIndex(p, "@")+1:], "panicked: %s", p)
							return
						}
						fresh := iiOff >= -tols[0].delay
						v := core.MustReject
						if fresh {
							v = core.MustAccept
						}
						t.Modelled(v)
						t.Compared()
						t.Outcome(fmt.Sprint(err == nil))
						if !fresh && err == nil {
							t.Fail("C05/gate/accepts-stale-request-with-optional-children", "request issued %s ago (limit %s) carrying %s was accepted", -iiOff, tols[0].delay, ex.name)
							t.Input("request_xml", string(doc))
						}
						if fresh && err != nil {
							t.Fail("C05/gate/rejects-valid-request", "fresh request carrying %s refused: %v", ex.name, err)
							t.Input("request_xml", string(doc))
						}
					})
				}
			}
		}
	}

	// what the HTTP request says about itself - its Host header, the authority of its request-target, forwarding headers - is chosen by
	// whoever sends it: the Destination has to be the IdP's configured SSO URL whatever those say
	c.Group("gate-destination-x-what-the-request-says-about-itself")
	if md, err := buildShape(gateShapes[0], false); err == nil {
		idp := mkIDP(md)
		idp.LogoutURL = harness.MustURL(samlgen.IDPSLO) // the IdP has a logout endpoint too: it is not where AuthnRequests are addressed
		gdests := []sv{{"the-idps-own-logout-url", samlgen.S(samlgen.IDPSLO)}, {"the-idps-metadata-url", samlgen.S(samlgen.IDPEntity)}, {"absent", nil}, {"sso", samlgen.S(samlgen.IDPSSO)}, {"other-host-same-path", samlgen.S("https://idp.other.example/saml/sso")}, {"other-host-with-port", samlgen.S("https://idp.other.example:8443/saml/sso")},
			{"http-scheme", samlgen.S("http://idp.example.com/saml/sso")}, {"other", samlgen.S("https://other-idp.example.net/sso")}}
		hosts := []string{"", "idp.other.example", "idp.other.example:8443", "other-idp.example.net", "IDP.EXAMPLE.COM", "idp.example.com:443"}
		targets := []string{samlgen.IDPSSO, "https://idp.other.example/saml/sso", "/saml/sso", "http://idp.example.com/saml/sso"}
		fwds := []map[string]string{nil, {"X-Forwarded-Host": "idp.other.example", "X-Forwarded-Proto": "https"}, {"Forwarded": "host=idp.other.example;proto=https"}, {"X-Forwarded-Proto": "http"}}
		for _, de := range gdests {
			for hi, host := range hosts {
				for ti, target := range targets {
					for fi, fwd := range fwds {
						for _, enc := range []string{"GET", "POST"} {
							de, host, target, fwd, enc := de, host, target, fwd, enc
							key := fmt.Sprintf("gate-http/dest=%s/host=%d/target=%d/forwarded=%d/enc=%s", de.n, hi, ti, fi, enc)
							c.Case(key, func(t *core.T) {
								t.NonTrivial()
								saml.MaxIssueDelay, saml.MaxClockSkew = tols[0].delay, tols[0].skew
								doc := authnRequestXML(samlgen.S(samlgen.SPEntity), de.v, samlgen.S("2.0"), samlgen.S(samlgen.TS(samlgen.T0)), nil, nil, "id-req-1")
								var r *http.Request
								if enc == "GET" {
									r = httptest.NewRequest("GET", target+"?"+url.Values{"SAMLRequest": {b64(deflate(doc))}, "RelayState": {"rs"}}.Encode(), nil)
								} else {
									r = httptest.NewRequest("POST", target, strings.NewReader(url.Values{"SAMLRequest": {b64(doc)}, "RelayState": {"rs"}}.Encode()))
									r.Header.Set("Content-Type", "application/x-www-form-urlencoded")
								}
								if host != "" {
									r.Host = host
								}
								for k, v := range fwd {
									r.Header.Set(k, v)
								}
								var err error
								_, p := guard(func() error {
									var req *saml.IdpAuthnRequest
									req, err = saml.NewIdpAuthnRequest(idp, r)
									if err == nil {
										err = req.Validate()
									}
									return nil
								})
								t.Impl(1)
								if p != "" {
									t.Fail("C05/gate/panic@"+p[strings.LastIndex(p, "@")+1:], "panicked: %s", p)
									return
								}
								v := core.MustReject
								if de.n == "absent" || de.n == "sso" {
									v = core.MustAccept
								}
								t.Modelled(v)
								t.Compared()
								t.Outcome(fmt.Sprint(err == nil))
								if v == core.MustReject && err == nil {
									t.Fail("C05/gate/accepts-request-made-out-to-another-destination", "Destination %q accepted by the IdP at %s (Host %q, request-target %q, headers %v)", *de.v, samlgen.IDPSSO, host, target, fwd)
									t.Input("request_xml", string(doc))
								}
								if v == core.MustAccept && err != nil {
									t.Fail("C05/gate/rejects-valid-request", "valid request refused (%s): %v", key, err)
								}
							})
						}
					}
				}
			}
		}
	}
}
