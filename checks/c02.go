package checks

import (
	"fmt"
	"net/http"
	"time"

	"github.com/crewjam/saml"

	"verif/engine/core"
	"verif/engine/harness"
	"verif/engine/samlgen"
)

// C02 — validity windows at the documented tolerances.

type tol struct {
	name        string
	delay, skew time.Duration
}

var c02Tols = []tol{
	{"default", 90 * time.Second, 180 * time.Second},
	{"d7ms-s13ms", 7 * time.Millisecond, 13 * time.Millisecond},
	{"zero", 0, 0},
	{"d1s-s1h", time.Second, time.Hour},
	{"d1h-s1s", time.Hour, time.Second},
	// thorough only
	{"d1ms-s1ms", time.Millisecond, time.Millisecond},
	{"d24h-s24h", 24 * time.Hour, 24 * time.Hour},
	{"d0-s90s", 0, 90 * time.Second},
	{"d180s-s0", 180 * time.Second, 0},
}

// lattice positions
const (
	posFarIn = iota
	posIn
	posOut
	posFarOut
)

var posNames = []string{"farin", "in1ms", "out1ms", "farout"}

// instant kinds
const (
	kRespII = iota
	kAssII
	kNB
	kNOOA
	kSCD
)

var kindNames = []string{"respII", "assII", "notBefore", "condNOOA", "scdNOOA"}

// instantAt returns the instant for kind at lattice position, computed by the
// harness from the public tolerance settings only.
func instantAt(kind, pos int, now time.Time, t tol) time.Time {
	ms := time.Millisecond
	switch kind {
	case kRespII, kAssII: // accepted iff II >= now - delay
		b := now.Add(-t.delay)
		return []time.Time{now, b.Add(ms), b.Add(-ms), b.Add(-time.Hour)}[pos]
	case kNB: // accepted iff NB <= now + skew
		b := now.Add(t.skew)
		return []time.Time{now.Add(-time.Minute), b.Add(-ms), b.Add(ms), b.Add(time.Hour)}[pos]
	default: // NotOnOrAfter: accepted iff NOOA >= now - skew
		b := now.Add(-t.skew)
		return []time.Time{now.Add(5 * time.Minute), b.Add(ms), b.Add(-ms), b.Add(-time.Hour)}[pos]
	}
}

type timeForm struct {
	name string
	f    func(t time.Time) string
}

var c02Forms = []timeForm{
	{"Z-ms", func(t time.Time) string { return t.UTC().Format("2006-01-02T15:04:05.000Z") }},
	{"plus0000", func(t time.Time) string { return t.UTC().Format("2006-01-02T15:04:05.000") + "+00:00" }},
	{"plus0530", func(t time.Time) string {
		return t.In(time.FixedZone("", 5*3600+1800)).Format("2006-01-02T15:04:05.000Z07:00")
	}},
	{"minus0800", func(t time.Time) string {
		return t.In(time.FixedZone("", -8*3600)).Format("2006-01-02T15:04:05.000Z07:00")
	}},
	{"plus1400", func(t time.Time) string {
		return t.In(time.FixedZone("", 14*3600)).Format("2006-01-02T15:04:05.000Z07:00")
	}},
	{"nanos9", func(t time.Time) string { return t.UTC().Format("2006-01-02T15:04:05.000000000Z") }},
	{"zoneless", func(t time.Time) string { return t.UTC().Format("2006-01-02T15:04:05.000") }},
	{"trimmed-fraction", func(t time.Time) string { return t.UTC().Format("2006-01-02T15:04:05.999Z07:00") }},
}

func init() {
	Register(&Check{
		ID:     "C02",
		Engine: "lattice",
		Rule: "full product 4^5 of lattice positions {far inside, boundary+-1ms inside/outside, far outside} for the five instants (Response/Assertion IssueInstant, Conditions NotBefore/NotOnOrAfter, confirmation NotOnOrAfter) x {1, 2 (first varied), 2 (second varied)} confirmations x {only assertion, second after an expired first} x tolerance settings x signing layout, boundaries computed from the public MaxIssueDelay/MaxClockSkew; " +
			"lexical forms (zones, fraction digits, zoneless) crossed one instant at a time; artifact path 4^3. Each case is a harness-signed response through ParseXMLResponse with the clock pinned; reference model = the statement's inequalities. non-trivial = model verdict decided and not the all-far-inside point",
		Bounds: func(tier string) string {
			if tier == "thorough" {
				return "9 tolerance settings, all forms, artifact path"
			}
			return "5 tolerance settings (default, 7ms/13ms, 0/0, 1s/1h, 1h/1s), all forms, artifact path"
		},
		Assumptions: []string{"+-1 ms is the smallest step probed (RelaxedTime rounds to ms); the exact boundary instant is not probed", "clock pinned through saml.TimeNow / saml.Clock", "harness-signed messages"},
		Run:         runC02,
		CapQuick:    5 * time.Minute,
		CapThorough: 15 * time.Minute,
	})
}

func runC02(c *core.Ctx) {
	g := harness.Pin(samlgen.T0)
	defer g.Restore()
	now := samlgen.T0
	sp := harness.NewSP(harness.SPOpt{})
	spIDPInit := harness.NewSP(harness.SPOpt{AllowIDPInit: true})
	spHooks := harness.NewSP(harness.SPOpt{})
	spHooks.ValidateAudienceRestriction = func(*saml.Assertion) error { return nil }
	spHooks.ValidateRequestID = func(saml.Response, []string) error { return nil }
	tols := c02Tols[:5]
	if c.Thorough() {
		tols = c02Tols
	}
	std := c02Forms[0].f

	// build one response for given positions
	type spec struct {
		pos      [5]int
		confs    int // 1, 2 (first varied) = 2, 2 (second varied) = 3
		second   bool
		lay      harness.Layout
		formKind int
		form     func(time.Time) string
		idpInit  bool   // SP configured with AllowIDPInitiated (the windows must hold regardless)
		noDest   bool   // Response without Destination (allowed when the Response itself is unsigned)
		method   string // SubjectConfirmation Method of the varied confirmation ("" = bearer): the window holds for every confirmation
		scdMore  string // further optional attributes on the varied confirmation's data: "notbefore" (an hour ago: satisfied), "address", "both"
		hooks    bool   // SP with the application hooks installed (ValidateAudienceRestriction, ValidateRequestID: both accept): they replace the audience / request-ID decisions, not the time windows
	}
	build := func(s spec, t tol) ([]byte, string) {
		fm := func(kind int, tm time.Time) string {
			if s.form != nil && kind == s.formKind {
				return s.form(tm)
			}
			return std(tm)
		}
		resp := samlgen.DefaultResponse()
		resp.IssueInstant = samlgen.S(fm(kRespII, instantAt(kRespII, s.pos[kRespII], now, t)))
		if s.noDest {
			resp.Destination = nil
		}
		a := samlgen.DefaultAssertion()
		a.ID = "id-assertion-varied"
		a.IssueInstant = samlgen.S(fm(kAssII, instantAt(kAssII, s.pos[kAssII], now, t)))
		a.NotBefore = samlgen.S(fm(kNB, instantAt(kNB, s.pos[kNB], now, t)))
		a.NotOnOrAfter = samlgen.S(fm(kNOOA, instantAt(kNOOA, s.pos[kNOOA], now, t)))
		varied := a.Confirmations[0]
		varied.NotOnOrAfter = samlgen.S(fm(kSCD, instantAt(kSCD, s.pos[kSCD], now, t)))
		if s.method != "" {
			varied.Method = s.method
		}
		good := a.Confirmations[0]
		if s.scdMore == "notbefore" || s.scdMore == "both" {
			varied.NotBefore = samlgen.S(std(now.Add(-time.Hour)))
		}
		if s.scdMore == "address" || s.scdMore == "both" {
			varied.Address = samlgen.S("192.0.2.7")
		}
		switch s.scdMore { // a confirmation that states no upper bound at all has none that could hold
		case "nooa-absent":
			varied.NotOnOrAfter = nil
		case "nooa-empty":
			varied.NotOnOrAfter = samlgen.S("")
		}
		good = a.Confirmations[0]
		good.NotOnOrAfter = samlgen.S(std(instantAt(kSCD, posFarIn, now, t)))
		switch s.confs {
		case 0: // a Subject without any SubjectConfirmation: the other four windows are all there is
			a.Confirmations = nil
		case 1:
			a.Confirmations = []samlgen.Confirmation{varied}
		case 2:
			a.Confirmations = []samlgen.Confirmation{varied, good}
		case 3:
			a.Confirmations = []samlgen.Confirmation{good, varied}
		}
		as := []*samlgen.Assertion{a}
		if s.second {
			first := samlgen.DefaultAssertion()
			first.ID = "id-assertion-expired-first"
			first.NameID = samlgen.S("mallory@example.com")
			first.NotOnOrAfter = samlgen.S(std(instantAt(kNOOA, posFarOut, now, t)))
			first.Confirmations[0].NotOnOrAfter = first.NotOnOrAfter
			as = []*samlgen.Assertion{first, a}
		}
		return samlgen.Doc(harness.BuildResponse(resp, as, s.lay, idp1(), spKey())), a.ID
	}

	runOne := func(t *core.T, s spec, tl tol, key string) {
		saml.MaxIssueDelay, saml.MaxClockSkew = tl.delay, tl.skew
		doc, wantID := build(s, tl)
		thesp := sp
		if s.idpInit {
			thesp = spIDPInit
		}
		if s.hooks {
			thesp = spHooks
		}
		a, err := parseXML(thesp, doc, []string{samlgen.ReqID})
		t.Impl(1)
		checkAPIContract(t, a, err)
		v := core.MustAccept
		allFar := true
		for pi, p := range s.pos {
			if s.confs == 0 && pi == kSCD {
				continue // there is no confirmation whose NotOnOrAfter could be out
			}
			if p == posOut || p == posFarOut {
				v = core.MustReject
			}
			if p != posFarIn {
				allFar = false
			}
		}
		if (s.scdMore == "nooa-absent" || s.scdMore == "nooa-empty") && s.confs != 0 {
			v = core.MustReject // "now <= NotOnOrAfter + skew for every confirmation" cannot hold for a confirmation without one
		}
		if v == core.MustAccept && (s.method != "" && s.confs == 1 || s.confs == 0) {
			v = core.DontCare // no obligation to accept an assertion without any bearer confirmation
		}
		if !allFar || s.form != nil || s.second || s.confs != 1 || s.idpInit || s.noDest || s.method != "" || s.hooks || s.scdMore != "" {
			t.NonTrivial()
		}
		t.Outcome(harness.ErrClass(err))
		judge(t, v, err, "C02/window", key)
		if err == nil && a != nil && a.ID != wantID {
			t.Fail("C02/returned-other-assertion", "returned assertion %q, expected the in-window assertion %q", a.ID, wantID)
		}
		if t.Failed() {
			t.Input("response_xml", string(doc))
			t.Input("now", now.Format(time.RFC3339Nano))
			t.Input("MaxIssueDelay", tl.delay.String())
			t.Input("MaxClockSkew", tl.skew.String())
		}
		t.Sample(map[string]interface{}{"case": key, "impl": harness.ErrClass(err), "model": v.String()})
	}

	layouts := []harness.Layout{{SignResponse: true}, {SignAssertion: true}}
	c.Group("window-product")
	for _, tl := range tols {
		for p := 0; p < 1024; p++ {
			var pos [5]int
			x := p
			for i := 0; i < 5; i++ {
				pos[i] = x % 4
				x /= 4
			}
			for confs := 1; confs <= 3; confs++ {
				for _, second := range []bool{false, true} {
					for _, lay := range layouts {
						if second && lay.SignAssertion {
							continue // two assertions: Response-signed layout only (one signature covers both)
						}
						key := fmt.Sprintf("tol=%s/resp=%s/ass=%s/nb=%s/nooa=%s/scd=%s/confs=%d/second=%v/lay=%s", tl.name,
							posNames[pos[0]], posNames[pos[1]], posNames[pos[2]], posNames[pos[3]], posNames[pos[4]], confs, second, lay)
						s := spec{pos: pos, confs: confs, second: second, lay: lay}
						tl := tl
						c.Case(key, func(t *core.T) { runOne(t, s, tl, key) })
					}
				}
			}
		}
	}

	// the same lattice with options that must not matter for the windows: AllowIDPInitiated, and an unsigned Response without Destination
	c.Group("window-product-option-axes")
	for _, tl := range tols[:2] {
		for p := 0; p < 1024; p++ {
			var pos [5]int
			x := p
			for i := 0; i < 5; i++ {
				pos[i] = x % 4
				x /= 4
			}
			for _, opt := range []struct {
				name            string
				idpInit, noDest bool
				lay             harness.Layout
				method          string
				hooks           bool
				scdMore         string
			}{{"scd-notbefore/R", false, false, harness.Layout{SignResponse: true}, "", false, "notbefore"}, {"scd-notbefore/A", false, false, harness.Layout{SignAssertion: true}, "", false, "notbefore"},
				{"scd-nooa-absent/R", false, false, harness.Layout{SignResponse: true}, "", false, "nooa-absent"}, {"scd-nooa-absent/A", false, false, harness.Layout{SignAssertion: true}, "", false, "nooa-absent"},
				{"scd-nooa-empty/A", false, false, harness.Layout{SignAssertion: true}, "", false, "nooa-empty"},
				{"scd-address/A", false, false, harness.Layout{SignAssertion: true}, "", false, "address"}, {"scd-notbefore+address/R", false, false, harness.Layout{SignResponse: true}, "", false, "both"},
				{"hooks/R", false, false, harness.Layout{SignResponse: true}, "", true, ""}, {"hooks/A", false, false, harness.Layout{SignAssertion: true}, "", true, ""}, {"idpinit/R", true, false, harness.Layout{SignResponse: true}, "", false, ""}, {"idpinit/A", true, false, harness.Layout{SignAssertion: true}, "", false, ""},
				{"nodest/A", false, true, harness.Layout{SignAssertion: true}, "", false, ""}, {"idpinit+nodest/A", true, true, harness.Layout{SignAssertion: true}, "", false, ""},
				{"holder-of-key/R", false, false, harness.Layout{SignResponse: true}, "urn:oasis:names:tc:SAML:2.0:cm:holder-of-key", false, ""},
				{"sender-vouches/A", false, false, harness.Layout{SignAssertion: true}, "urn:oasis:names:tc:SAML:2.0:cm:sender-vouches", false, ""}} {
				for _, confs := range []int{0, 1, 2, 3} {
					if opt.method == "" && confs == 2 || confs == 0 && (opt.method != "" || opt.idpInit || opt.noDest || opt.scdMore != "") {
						continue
					}
					key := fmt.Sprintf("opt=%s/tol=%s/resp=%s/ass=%s/nb=%s/nooa=%s/scd=%s/confs=%d", opt.name, tl.name,
						posNames[pos[0]], posNames[pos[1]], posNames[pos[2]], posNames[pos[3]], posNames[pos[4]], confs)
					s := spec{pos: pos, confs: confs, lay: opt.lay, idpInit: opt.idpInit, noDest: opt.noDest, method: opt.method, hooks: opt.hooks, scdMore: opt.scdMore}
					tl := tl
					c.Case(key, func(t *core.T) { runOne(t, s, tl, key) })
				}
			}
		}
	}

	// the clock is not at a whole second: every bound is still evaluated against the reading as it is, to the millisecond
	c.Group("clock-with-a-sub-second-part")
	for _, frac := range []time.Duration{time.Millisecond, 250 * time.Millisecond, 999 * time.Millisecond, 500*time.Millisecond + 499*time.Microsecond} {
		for _, tl := range tols[:2] {
			for kind := 0; kind < 5; kind++ {
				for pos := 0; pos < 4; pos++ {
					for _, lay := range layouts {
						frac, tl, kind, pos, lay := frac, tl, kind, pos, lay
						var ps [5]int
						ps[kind] = pos
						key := fmt.Sprintf("subsecond-clock/+%s/tol=%s/%s=%s/lay=%s", frac, tl.name, kindNames[kind], posNames[pos], lay)
						c.Case(key, func(t *core.T) {
							old := now
							now = samlgen.T0.Add(frac)
							harness.SetNow(now)
							defer func() { now = old; harness.SetNow(old) }()
							runOne(t, spec{pos: ps, confs: 1, lay: lay}, tl, key)
							t.NonTrivial()
						})
					}
				}
			}
		}
	}

	c.Group("lexical-forms")
	for _, tl := range tols {
		for kind := 0; kind < 5; kind++ {
			for pos := 0; pos < 4; pos++ {
				for _, f := range c02Forms[1:] {
					for _, lay := range layouts {
						var ps [5]int
						ps[kind] = pos
						key := fmt.Sprintf("form/tol=%s/%s=%s/form=%s/lay=%s", tl.name, kindNames[kind], posNames[pos], f.name, lay)
						s := spec{pos: ps, confs: 1, lay: lay, formKind: kind, form: f.f}
						tl := tl
						c.Case(key, func(t *core.T) { runOne(t, s, tl, key) })
					}
				}
			}
		}
	}

	// the other side of every window is unconstrained by the statement: an IssueInstant ahead of the SP's clock (IdP clock running fast),
	// a NotBefore long past, an expiry far in the future are all "strictly inside" and must be accepted
	c.Group("open-side-of-each-window")
	for _, tl := range tols[:2] {
		for mask := 0; mask < 32; mask++ {
			for _, lay := range layouts {
				for _, far := range []bool{false, true} {
					tl, mask, lay, far := tl, mask, lay, far
					key := fmt.Sprintf("openside/tol=%s/mask=%05b/far=%v/lay=%s", tl.name, mask, far, lay)
					c.Case(key, func(t *core.T) {
						t.NonTrivial()
						saml.MaxIssueDelay, saml.MaxClockSkew = tl.delay, tl.skew
						ahead := tl.delay + tl.skew/2 // beyond MaxIssueDelay on the future side, NotBefore below stays within the skew
						if far {
							ahead = tl.delay + 1000*time.Hour
						}
						val := func(kind int) time.Time {
							if mask&(1<<uint(kind)) == 0 {
								return instantAt(kind, posFarIn, now, tl)
							}
							switch kind {
							case kRespII, kAssII:
								return now.Add(ahead)
							case kNB:
								return now.Add(-20 * 365 * 24 * time.Hour)
							default:
								return now.Add(20 * 365 * 24 * time.Hour)
							}
						}
						resp := samlgen.DefaultResponse()
						resp.IssueInstant = samlgen.S(std(val(kRespII)))
						a := samlgen.DefaultAssertion()
						a.IssueInstant = samlgen.S(std(val(kAssII)))
						a.NotBefore = samlgen.S(std(val(kNB)))
						a.NotOnOrAfter = samlgen.S(std(val(kNOOA)))
						a.Confirmations[0].NotOnOrAfter = samlgen.S(std(val(kSCD)))
						doc := samlgen.Doc(harness.BuildResponse(resp, []*samlgen.Assertion{a}, lay, idp1(), spKey()))
						got, err := parseXML(sp, doc, []string{samlgen.ReqID})
						t.Impl(1)
						checkAPIContract(t, got, err)
						t.Outcome(harness.ErrClass(err))
						judge(t, core.MustAccept, err, "C02/open-side", key)
						if t.Failed() {
							t.Input("response_xml", string(doc))
							t.Input("now", now.Format(time.RFC3339Nano))
						}
					})
				}
			}
		}
	}

	// unusual but legal values: NotBefore absent or empty (no lower bound - the upper bounds still hold), instants centuries away from the clock
	c.Group("absent-and-far-away-instants")
	{
		type fv struct {
			name string
			v    *string // nil = attribute absent
			ok   bool    // inside the window
		}
		ts := func(t time.Time) *string { return samlgen.S(std(t)) }
		for _, tl := range tols[:2] {
			nbs := []fv{{"present", ts(now.Add(-time.Minute)), true}, {"absent", nil, true}, {"empty", samlgen.S(""), true}, {"year-0001", samlgen.S("0001-01-01T00:00:00Z"), true}, {"year-1600", samlgen.S("1600-01-01T00:00:00Z"), true}, {"year-9999", samlgen.S("9999-12-31T23:59:59Z"), false}}
			nooas := []fv{{"in", ts(now.Add(5 * time.Minute)), true}, {"out-1ms", ts(now.Add(-tl.skew - time.Millisecond)), false}, {"year-1600", samlgen.S("1600-01-01T00:00:00Z"), false}, {"year-1700", samlgen.S("1700-06-01T00:00:00Z"), false},
				{"year-9999", samlgen.S("9999-12-31T23:59:59Z"), true}, {"year-2400", samlgen.S("2400-01-01T00:00:00Z"), true}}
			iis := []fv{{"now", ts(now), true}, {"year-1066", samlgen.S("1066-10-14T00:00:00Z"), false}, {"year-1500", samlgen.S("1500-01-01T00:00:00Z"), false}, {"year-1677", samlgen.S("1677-09-21T00:12:43Z"), false}, {"year-0001", samlgen.S("0001-01-01T00:00:01Z"), false}}
			for _, nb := range nbs {
				for _, nooa := range nooas {
					for _, scd := range nooas {
						for _, ii := range iis {
							if (nb.name == "present") && nooa.name == "in" && scd.name == "in" && ii.name == "now" {
								continue
							}
							if ii.name != "now" && !(nooa.name == "in" && scd.name == "in") {
								continue
							}
							for _, lay := range layouts {
								tl, nb, nooa, scd, ii, lay := tl, nb, nooa, scd, ii, lay
								key := fmt.Sprintf("values/tol=%s/notBefore=%s/condNOOA=%s/scdNOOA=%s/issueInstants=%s/lay=%s", tl.name, nb.name, nooa.name, scd.name, ii.name, lay)
								c.Case(key, func(t *core.T) {
									t.NonTrivial()
									saml.MaxIssueDelay, saml.MaxClockSkew = tl.delay, tl.skew
									resp := samlgen.DefaultResponse()
									resp.IssueInstant = ii.v
									a := samlgen.DefaultAssertion()
									a.IssueInstant = ii.v
									a.NotBefore, a.NotOnOrAfter = nb.v, nooa.v
									a.Confirmations[0].NotOnOrAfter = scd.v
									doc := samlgen.Doc(harness.BuildResponse(resp, []*samlgen.Assertion{a}, lay, idp1(), spKey()))
									got, err := parseXML(sp, doc, []string{samlgen.ReqID})
									t.Impl(1)
									checkAPIContract(t, got, err)
									v := core.MustAccept
									if !nb.ok || !nooa.ok || !scd.ok || !ii.ok {
										v = core.MustReject
									} else if nb.name == "year-0001" || nb.name == "empty" {
										v = core.DontCare // the zero instant / an empty attribute as "no lower bound": accepting is fine, refusing a malformed attribute too
									}
									t.Outcome(harness.ErrClass(err))
									judge(t, v, err, "C02/values", key)
									if t.Failed() {
										t.Input("response_xml", string(doc))
									}
								})
							}
						}
					}
				}
			}
		}
	}

	// artifact resolution over HTTP with a clock that advances while the SP waits for the IdP: the windows are judged at a reading
	// taken when the response is there, not before it was fetched
	c.Group("artifact-clock-advances-during-resolution")
	for _, tl := range tols[:2] {
		for _, adv := range []string{"none", "past-issue-delay", "past-expiry", "tiny"} {
			for _, outer := range []bool{false, true} {
				tl, adv, outer := tl, adv, outer
				key := fmt.Sprintf("artifact-http/tol=%s/clock-advance=%s/outerSigned=%v", tl.name, adv, outer)
				c.Case(key, func(t *core.T) {
					t.NonTrivial()
					saml.MaxIssueDelay, saml.MaxClockSkew = tl.delay, tl.skew
					harness.SetNow(now)
					defer harness.SetNow(now)
					// everything issued at "now" and valid for 5 minutes beyond; IssueInstants exactly now
					var d time.Duration
					v := core.MustAccept
					switch adv {
					case "past-issue-delay":
						d, v = tl.delay+time.Second, core.MustReject
					case "past-expiry":
						d, v = 5*time.Minute+tl.skew+tl.delay+time.Second, core.MustReject
					case "tiny":
						d = time.Millisecond
					}
					resp := samlgen.DefaultResponse()
					resp.IssueInstant = samlgen.S(std(now))
					a := samlgen.DefaultAssertion()
					a.IssueInstant = samlgen.S(std(now))
					a.NotBefore = samlgen.S(std(now.Add(-time.Minute)))
					a.NotOnOrAfter = samlgen.S(std(now.Add(5 * time.Minute)))
					a.Confirmations[0].NotOnOrAfter = a.NotOnOrAfter
					inner := harness.BuildResponse(resp, []*samlgen.Assertion{a}, harness.Layout{SignResponse: !outer}, idp1(), spKey())
					var sent []byte
					got, err := parseArtifact(sp, []string{samlgen.ReqID}, func(resolveID string, body []byte) (*http.Response, error) {
						ar := harness.ArtifactResponseEl("id-artresp-1", resolveID, std(now), samlgen.S(samlgen.IDPEntity), samlgen.StatusOK, inner)
						if outer {
							samlgen.Sign(ar, idp1(), "")
						}
						sent = samlgen.Doc(harness.SoapEnvelope(ar))
						harness.SetNow(now.Add(d)) // the IdP took its time
						return httpOK(sent)
					})
					t.Impl(1)
					checkAPIContract(t, got, err)
					t.Outcome(harness.ErrClass(err))
					judge(t, v, err, "C02/artifact-http-window", key)
					if t.Failed() {
						t.Input("soap_xml", string(sent))
					}
				})
			}
		}
	}

	// artifact entry point: ArtifactResponse.IssueInstant x Response II x Assertion II
	c.Group("artifact")
	for _, tl := range tols {
		for ap := 0; ap < 4; ap++ {
			for rp := 0; rp < 4; rp++ {
				for asp := 0; asp < 4; asp++ {
					for _, outer := range []bool{false, true} {
						key := fmt.Sprintf("artifact/tol=%s/art=%s/resp=%s/ass=%s/outerSigned=%v", tl.name, posNames[ap], posNames[rp], posNames[asp], outer)
						tl, ap, rp, asp, outer := tl, ap, rp, asp, outer
						c.Case(key, func(t *core.T) {
							saml.MaxIssueDelay, saml.MaxClockSkew = tl.delay, tl.skew
							var ps [5]int
							ps[kRespII], ps[kAssII] = rp, asp
							lay := harness.Layout{SignResponse: !outer}
							resp := samlgen.DefaultResponse()
							resp.IssueInstant = samlgen.S(std(instantAt(kRespII, rp, now, tl)))
							a := samlgen.DefaultAssertion()
							a.IssueInstant = samlgen.S(std(instantAt(kAssII, asp, now, tl)))
							a.NotBefore = samlgen.S(std(instantAt(kNB, posFarIn, now, tl)))
							a.NotOnOrAfter = samlgen.S(std(instantAt(kNOOA, posFarIn, now, tl)))
							a.Confirmations[0].NotOnOrAfter = a.NotOnOrAfter
							inner := harness.BuildResponse(resp, []*samlgen.Assertion{a}, lay, idp1(), spKey())
							ar := harness.ArtifactResponseEl("id-artresp-1", "id-resolve-1", std(instantAt(kRespII, ap, now, tl)), samlgen.S(samlgen.IDPEntity), samlgen.StatusOK, inner)
							env := harness.SoapEnvelope(ar)
							if outer {
								samlgen.Sign(ar, idp1(), "")
							}
							doc := samlgen.Doc(env)
							got, err := sp.ParseXMLArtifactResponse(doc, []string{samlgen.ReqID}, "id-resolve-1", acsURL)
							t.Impl(1)
							checkAPIContract(t, got, err)
							v := core.MustAccept
							for _, p := range []int{ap, rp, asp} {
								if p >= posOut {
									v = core.MustReject
								}
							}
							t.NonTrivial()
							t.Outcome(harness.ErrClass(err))
							judge(t, v, err, "C02/artifact-window", key)
							if t.Failed() {
								t.Input("soap_xml", string(doc))
								t.Input("MaxIssueDelay", tl.delay.String())
								t.Input("MaxClockSkew", tl.skew.String())
							}
						})
					}
				}
			}
		}
	}
}
