package checks

import (
	"bytes"
	"crypto/rsa"
	"crypto/x509"
	"encoding/base64"
	"encoding/pem"
	"errors"
	"fmt"
	"io"
	"net/http"
	"net/url"
	"os"
	"regexp"
	"runtime/debug"
	"strings"

	"github.com/beevik/etree"
	"github.com/crewjam/saml"

	"verif/engine/core"
	"verif/engine/harness"
	"verif/engine/samlgen"
)

var (
	acsURL = harness.MustURL(samlgen.SPAcs)
	idp1   = func() *samlgen.KeyPair { return samlgen.Key("idp1") }
	spKey  = func() *samlgen.KeyPair { return samlgen.Key("sp2048") }
)

// formRequest builds the HTTP request a browser POST to the ACS would produce.
func formRequest(target string, form url.Values) *http.Request {
	req, err := http.NewRequest("POST", target, strings.NewReader(form.Encode()))
	if err != nil {
		panic(err)
	}
	req.Header.Set("Content-Type", "application/x-www-form-urlencoded")
	if err := req.ParseForm(); err != nil {
		panic(err)
	}
	return req
}

// parseXML calls ParseXMLResponse.
func parseXML(sp *saml.ServiceProvider, doc []byte, ids []string) (*saml.Assertion, error) {
	return sp.ParseXMLResponse(doc, ids, acsURL)
}

// parseForm calls ParseResponse with a POST-binding form.
func parseForm(sp *saml.ServiceProvider, doc []byte, ids []string) (*saml.Assertion, error) {
	req := formRequest(samlgen.SPAcs, url.Values{"SAMLResponse": {base64.StdEncoding.EncodeToString(doc)}})
	return sp.ParseResponse(req, ids)
}

// rtFunc adapts a function to http.RoundTripper.
type rtFunc func(*http.Request) (*http.Response, error)

func (f rtFunc) RoundTrip(r *http.Request) (*http.Response, error) { return f(r) }

var artIDRe = regexp.MustCompile(`ArtifactResolve[^>]* ID="([^"]*)"`)

// parseArtifact drives the whole ParseResponse artifact path; reply builds the SOAP body from the generated ArtifactResolve ID.
func parseArtifact(sp *saml.ServiceProvider, ids []string, reply func(resolveID string, body []byte) (*http.Response, error)) (*saml.Assertion, error) {
	old := sp.HTTPClient
	defer func() { sp.HTTPClient = old }()
	sp.HTTPClient = &http.Client{Transport: rtFunc(func(r *http.Request) (*http.Response, error) {
		body, _ := io.ReadAll(r.Body)
		m := artIDRe.FindSubmatch(body)
		id := ""
		if m != nil {
			id = string(m[1])
		}
		return reply(id, body)
	})}
	req := formRequest(samlgen.SPAcs, url.Values{"SAMLart": {"artifact-0001"}})
	return sp.ParseResponse(req, ids)
}

func httpOK(body []byte) (*http.Response, error) {
	return &http.Response{StatusCode: 200, Status: "200 OK", Body: io.NopCloser(bytes.NewReader(body)), Header: http.Header{}}, nil
}

// checkAPIContract verifies result-xor-error and the opaque error type for response-parsing APIs.
func checkAPIContract(t *core.T, a *saml.Assertion, err error) {
	if (a == nil) != (err != nil) {
		t.Fail("api-contract/assertion-xor-error", "assertion nil=%v but err=%v", a == nil, err)
	}
	if err != nil {
		var ire *saml.InvalidResponseError
		if !errors.As(err, &ire) || fmt.Sprintf("%T", err) != "*saml.InvalidResponseError" {
			t.Fail("api-contract/error-type", "error type %T: %v", err, err)
		} else if err.Error() != "Authentication failed" {
			t.Fail("api-contract/error-text", "Error() = %q", err.Error())
		}
	}
}

// judge compares an accept/reject outcome with the reference verdict.
func judge(t *core.T, v core.Verdict, err error, findingPrefix, coords string) {
	t.Modelled(v)
	switch {
	case v == core.MustAccept && err != nil:
		t.Fail(findingPrefix+"/rejects-valid", "model MUST_ACCEPT but implementation rejected (%s): %s", coords, privErr(err))
	case v == core.MustReject && err == nil:
		t.Fail(findingPrefix+"/accepts-invalid", "model MUST_REJECT but implementation accepted (%s)", coords)
	}
}

func privErr(err error) string {
	if err == nil {
		return "<nil>"
	}
	if ire, ok := err.(*saml.InvalidResponseError); ok && ire.PrivateErr != nil {
		return ire.PrivateErr.Error()
	}
	return err.Error()
}

func b64doc(el *etree.Element) string {
	return base64.StdEncoding.EncodeToString(samlgen.Doc(el))
}

func optStr(p *string) string {
	if p == nil {
		return "<absent>"
	}
	return *p
}

func b64(b []byte) string { return base64.StdEncoding.EncodeToString(b) }

func stackNow() string { return string(debug.Stack()) }

// parseRSAPEM parses PKCS#1 or PKCS#8 RSA private keys.
func parseRSAPEM(b []byte) *rsa.PrivateKey {
	blk, _ := pem.Decode(b)
	if blk == nil {
		return nil
	}
	if k, err := x509.ParsePKCS1PrivateKey(blk.Bytes); err == nil {
		return k
	}
	if k, err := x509.ParsePKCS8PrivateKey(blk.Bytes); err == nil {
		if rk, ok := k.(*rsa.PrivateKey); ok {
			return rk
		}
	}
	return nil
}

type x509Cert = x509.Certificate

// repoDir is the repository the harness was built against (/repo unless VERIF_REPO redirects a run to a scratch copy).
func repoDir() string {
	if d := os.Getenv("VERIF_REPO"); d != "" {
		return d
	}
	return "/repo"
}
