package checks

import (
	"fmt"
	"math/rand"
	"net/http"
	"os"
	"sync"
	"time"

	rand2 "crypto/rand"

	"github.com/crewjam/saml"
	"github.com/crewjam/saml/samlidp"

	"verif/engine/harness"
	"verif/engine/samlgen"
)

// jitterStore delays store operations a little (time.Sleep creates no happens-before edge) so that handlers overlap.
type jitterStore struct {
	inner samlidp.Store
	rnd   *rand.Rand
	mu    sync.Mutex
}

func (j *jitterStore) nap() {
	j.mu.Lock()
	d := time.Duration(j.rnd.Intn(300)) * time.Microsecond
	j.mu.Unlock()
	time.Sleep(d)
}
func (j *jitterStore) Get(k string, v interface{}) error {
	j.nap()
	err := j.inner.Get(k, v)
	j.nap()
	return err
}
func (j *jitterStore) Put(k string, v interface{}) error { j.nap(); return j.inner.Put(k, v) }
func (j *jitterStore) Delete(k string) error             { j.nap(); return j.inner.Delete(k) }
func (j *jitterStore) List(p string) ([]string, error)   { j.nap(); return j.inner.List(p) }

// RacePassMain is the body of cmd/racepass.
func RacePassMain(reps int) {
	g := harness.Pin(samlgen.T0)
	defer g.Restore()
	saml.RandReader = rand2.Reader // the recording reader the other checks use is not goroutine-safe; crypto/rand is
	hs := c20Handlers()
	hangs := 0
	runPar := func(name string, bodies []func()) {
		fmt.Printf("RUN %s\n", name)
		start := make(chan struct{})
		var wg sync.WaitGroup
		for _, b := range bodies {
			wg.Add(1)
			go func(b func()) {
				defer wg.Done()
				defer func() { recover() }()
				<-start
				b()
			}(b)
		}
		close(start)
		done := make(chan struct{})
		go func() { wg.Wait(); close(done) }()
		select {
		case <-done:
		case <-time.After(5 * time.Second):
			fmt.Printf("DEADLOCK-TIMEOUT %s\n", name)
			if hangs++; hangs >= 3 {
				// three scenarios that never finished are enough to report; each further one would cost another 5 s
				fmt.Printf("RACEPASS-ABANDONED after %d scenarios that did not finish\n", hangs)
				os.Exit(3)
			}
		}
	}
	seed := int64(1)
	for i := range hs {
		for j := i; j < len(hs); j++ {
			for r := 0; r < reps; r++ {
				srv, _ := c20Server()
				seed++
				if ss, ok := srv.Store.(*schedStore); ok {
					srv.Store = &jitterStore{inner: ss.inner, rnd: rand.New(rand.NewSource(seed))}
				}
				var bodies []func()
				for _, h := range []c20Handler{hs[i], hs[j]} {
					h := h
					bodies = append(bodies, func() { srv.ServeHTTP(&strictWriter{hdr: http.Header{}}, h.req()) })
				}
				runPar(hs[i].name+"||"+hs[j].name, bodies)
			}
		}
	}
	// three-way: a service update while SSO and a shortcut launch are in flight
	for r := 0; r < reps*3; r++ {
		srv, _ := c20Server()
		seed++
		if ss, ok := srv.Store.(*schedStore); ok {
			srv.Store = &jitterStore{inner: ss.inner, rnd: rand.New(rand.NewSource(seed))}
		}
		var bodies []func()
		for _, k := range []int{0, 7, 8, 1} {
			h := hs[k]
			bodies = append(bodies, func() { srv.ServeHTTP(&strictWriter{hdr: http.Header{}}, h.req()) })
		}
		runPar("quad/PUT-A2||SSO||SHORTCUT||PUT-B", bodies)
	}
	// bare store operations, pre-populated and zero-value
	ops := []struct {
		n string
		f func(s *samlidp.MemoryStore)
	}{
		{"Get", func(s *samlidp.MemoryStore) { var v string; s.Get("k1", &v) }},
		{"Put", func(s *samlidp.MemoryStore) { s.Put("k1", "v1") }},
		{"Put2", func(s *samlidp.MemoryStore) { s.Put("k2", "v2") }},
		{"Delete", func(s *samlidp.MemoryStore) { s.Delete("k1") }},
		{"List", func(s *samlidp.MemoryStore) { s.List("") }},
	}
	for i := range ops {
		for j := i; j < len(ops); j++ {
			for _, fresh := range []bool{false, true} {
				for r := 0; r < reps; r++ {
					st := &samlidp.MemoryStore{}
					if !fresh {
						st.Put("k1", "v0")
					}
					a, b := ops[i], ops[j]
					runPar(fmt.Sprintf("store/%s||%s/fresh=%v", a.n, b.n, fresh), []func(){func() { a.f(st) }, func() { b.f(st) }})
				}
			}
		}
	}
}
