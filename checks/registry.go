// Package checks holds one file per property; each registers a Check.
package checks

import (
	"sort"
	"time"

	"verif/engine/core"
)

// Check describes one property's exhaustive exploration.
type Check struct {
	ID          string
	Engine      string
	Rule        string // how cases are enumerated, what is non-trivial / distinct
	Bounds      func(tier string) string
	Assumptions []string
	Run         func(c *core.Ctx)
	CapQuick    time.Duration // internal deadline; hitting it gives exhaustive:false, exit 0
	CapThorough time.Duration
	Workers     int // 0 = one per CPU
	// Post lets a check add measurements to coverage after merging shards.
	Post func(res *core.Result, cov map[string]interface{})
}

var registry = map[string]*Check{}

// ruleAddenda: driver extensions added after the first build (each closes a hole a deliberate change slipped through); appended to Rule.
var ruleAddenda = map[string]string{
	"C01": "operators that re-bind a namespace prefix elsewhere in the document (an x:Assertion under a foreign binding plus a later element re-declaring x), reached in pairs at depth 2; group no-signing-key-published: every initial document and every depth-1 document under IdP metadata that publishes an encryption key only / an empty signing descriptor (nothing may be accepted)",
	"C02": "group window-product-option-axes: the 4^5 product again with AllowIDPInitiated set, and for assertion-only signatures with the Response's Destination absent",
	"C03": "lattice fields method (bearer / holder-of-key / sender-vouches on one or all confirmations; acceptance of non-bearer confirmations is DONT_CARE) and idpinit (AllowIDPInitiated)",
	"C04": "a 'no SubjectConfirmation at all' value at the confirmation level; group middleware-acs: 0-2 flows started through samlsp.Middleware, every subset of their tracking cookies presented, 6x6 InResponseTo choices, AllowIDPInitiated, both layouts, POSTed to the real ServeACS",
	"C06": "request kinds that select a registered non-POST endpoint by URL or index; axis reqextra (NameIDPolicy formats, SPNameQualifier, a Subject naming another principal) with a non-interference oracle: identity asserted for the same session must equal the one for the same request without that content",
	"C07": "group rollover-sequences: all 27 length-3 re-keying sequences of the IdP (same entity ID, the SP object kept and handed the re-published metadata) and of the SP (IdP object kept), with and without encryption, a fresh login after every step",
	"C08": "key descriptors listing a certificate chain (first certificate is the key holder's); 5 role-descriptor arrangements (leading/trailing artifact-only SPSSODescriptor, POST ACS in second position) for both launch kinds",
	"C09": "group response-placements: payload (plain / deflated / deflate bombs of 11 and 64 MB) in the form field, the query string, both, GET - for ParseResponse and ValidateLogoutResponseRequest with an allocation bound; group encrypted-assertion-ciphertext-lengths: EncryptedAssertion whose key genuinely unwraps, 5 block algorithms x 2 key transports x 24 data lengths around every block boundary x 2 signing layouts",
	"C13": "option 3: IdP logout endpoints advertising a ResponseLocation; group reconfiguration-sequences: ONE ServiceProvider value whose key pair and signature method are changed between messages (all sequences of <=3 (thorough 4) configurations out of 8, last message of each of the 7 kinds), every message verified against the configuration in force",
	"C14": "form idp-response-sp-initiated: the peer string arrives inside the AuthnRequest (AssertionConsumerServiceURL next to a valid index; RelayState) and the form must post to the registered location",
	"C15": "group metadata-endpoint-location-forms: 25 lexical forms of valid http(s) URLs (case of scheme/host, non-ASCII, blanks and braces, empty fragment/query, lower- and upper-case escapes, userinfo, IPv6, dot segments, IDN) x 8 endpoint positions x 4 bindings must survive a generation verbatim",
	"C16": "group hand-set-lifetimes: codec and provider lifetimes set by hand (0, negative, 1 ns .. 25 h) x 9 session ages",
	"C17": "one of the three protected URLs has reserved characters percent-encoded in its path (and starts with an encoded slash): it must come back verbatim; half of the configurations set their own DefaultRedirectURI (the landing page of a login without RelayState); two more configurations deliver responses by reference (HTTP-Artifact response binding, resolved by the middleware through a stub back channel that answers the ArtifactResolve it actually sent)",
	"C18": "status values with nested PartialLogout / AuthnFailed under non-Success codes; group no-signing-key-published (metadata with an encryption key only / an empty signing descriptor: nothing is valid, whoever signed)",
	"C20": "store alphabet includes a Get whose destination cannot hold the stored JSON (the error path of Get)",
}

// Register adds a check.
func Register(c *Check) {
	if a := ruleAddenda[c.ID]; a != "" {
		c.Rule += " Extensions: " + a
	}
	registry[c.ID] = c
}

// Get looks a check up.
func Get(id string) *Check { return registry[id] }

// IDs lists registered checks.
func IDs() []string {
	var ids []string
	for k := range registry {
		ids = append(ids, k)
	}
	sort.Strings(ids)
	return ids
}
