// Package checks holds one file per property; each registers a Check.
package checks

import (
	"sort"
	"time"

	"verif/engine/core"
)

// Check describes one property's exhaustive exploration.
type Check struct {
	ID          string
	Engine      string
	Rule        string // how cases are enumerated, what is non-trivial / distinct
	Bounds      func(tier string) string
	Assumptions []string
	Run         func(c *core.Ctx)
	CapQuick    time.Duration // internal deadline; hitting it gives exhaustive:false, exit 0
	CapThorough time.Duration
	Workers     int // 0 = one per CPU
	// Post lets a check add measurements to coverage after merging shards.
	Post func(res *core.Result, cov map[string]interface{})
}

var registry = map[string]*Check{}

// ruleAddenda: driver extensions added after the first build (each closes a hole a deliberate change slipped through); appended to Rule.
var ruleAddenda = map[string]string{
	"C19": "group live-credential-sequences: on ONE long-lived server every sequence of 3 (thorough 4) actions touching alice's credentials (logins and SSO with posted credentials, password change, profile change, deletion; at most one bcrypt-cost password change per sequence)",
	"C12": "endpoint variant resploc (IdP logout endpoints advertise a ResponseLocation: requests still go to Location)",
	"C11": "group wrapped-key-length: EncryptedKey CipherValue of 0, 1, k-1, k, k+1, k+2, k+16, 2k, 2k+1, 4k bytes for 3 RSA keys x 3 key transports x both entry elements x with/without embedded certificate; via-sp layouts with RetrievalMethod",
	"C10": "RSA keys whose modulus is not a whole number of bytes (2047, 2044, 1031 bits); group results-independent-across-calls: all sequences of 2-3 Encrypt calls followed by the Decrypts over 7 lengths per block cipher, every returned plaintext and element compared again after the later calls",
	"C01": "operators that re-bind a namespace prefix elsewhere in the document (an x:Assertion under a foreign binding plus a later element re-declaring x), reached in pairs at depth 2; group no-signing-key-published: every initial document and every depth-1 document under IdP metadata that publishes an encryption key only / an empty signing descriptor (nothing may be accepted); a trust configuration with ordinary metadata and an application SignatureVerifier that refuses everything",
	"C02": "group window-product-option-axes: the 4^5 product again with AllowIDPInitiated set, and for assertion-only signatures with the Response's Destination absent; the same group with the varied confirmation declared holder-of-key / sender-vouches (the window holds for every confirmation)",
	"C03": "lattice fields method (bearer / holder-of-key / sender-vouches on one or all confirmations; acceptance of non-bearer confirmations is DONT_CARE) and idpinit (AllowIDPInitiated); fields issuerFormat (Format attribute of the Response / Assertion Issuer) and irt (unsolicited: no InResponseTo anywhere); second pass options-product-x-single-deviation: full product of the four option fields with <= 1 addressing field away from correct",
	"C04": "a 'no SubjectConfirmation at all' value at the confirmation level; group middleware-acs: 0-2 flows started through samlsp.Middleware, every subset of their tracking cookies presented, 6x6 InResponseTo choices, AllowIDPInitiated, both layouts, POSTed to the real ServeACS; decoy cookies in middleware-acs (a session token of the same middleware, or garbage, under a tracking-cookie name)",
	"C06": "request kinds that select a registered non-POST endpoint by URL or index; axis reqextra (NameIDPolicy formats, SPNameQualifier, a Subject naming another principal) with a non-interference oracle: identity asserted for the same session must equal the one for the same request without that content; SP metadata whose ACS endpoints carry a ResponseLocation; IdP configuration with an external Signer and a stale private key left in Key",
	"C07": "group rollover-sequences: all 27 length-3 re-keying sequences of the IdP (same entity ID, the SP object kept and handed the re-published metadata) and of the SP (IdP object kept), with and without encryption, a fresh login after every step; session fields EduPersonPrincipalName (next to a different UserEmail) and SubjectID as string positions; group idp-intermediates",
	"C08": "key descriptors listing a certificate chain (first certificate is the key holder's); 5 role-descriptor arrangements (leading/trailing artifact-only SPSSODescriptor, POST ACS in second position) for both launch kinds; group idp-side-retry-after-failed-encryption: the k-th draw from the random source fails (k=0..5) on ONE IdpAuthnRequest, WriteResponse attempted three times; group idp-side-overlapping-responses: two responses built by two threads under the controlled scheduler with every draw from the random source a scheduling point (quick: <= 2 preemptions on 3 layouts; thorough: all interleavings on all layouts), content keys / IVs distinct and non-degenerate",
	"C09": "group response-placements: payload (plain / deflated / deflate bombs of 11 and 64 MB) in the form field, the query string, both, GET - for ParseResponse and ValidateLogoutResponseRequest with an allocation bound; group encrypted-assertion-ciphertext-lengths: EncryptedAssertion whose key genuinely unwraps, 5 block algorithms x 2 key transports x 24 data lengths around every block boundary x 2 signing layouts; group keyinfo-shapes-x-trust-configurations: 19 shapes of the (unsigned) KeyInfo x 10 trust configurations (metadata variants, fingerprint incl. unknown / missing algorithm, pinned incl. garbage, no signing key) x 5 message kinds; group encrypted-assertion-key-placement: EncryptedKey embedded / sibling / both, RetrievalMethod with 28 URI forms, 5 Id values",
	"C13": "option 3: IdP logout endpoints advertising a ResponseLocation; group reconfiguration-sequences: ONE ServiceProvider value whose key pair and signature method are changed between messages (all sequences of <=3 (thorough 4) configurations out of 8, last message of each of the 7 kinds), every message verified against the configuration in force; group sign-again: the exported Sign* methods applied to an already signed message (twice, three times, after editing a field) for 4 message kinds x 2 key types",
	"C14": "form idp-response-sp-initiated: the peer string arrives inside the AuthnRequest (AssertionConsumerServiceURL next to a valid index; RelayState) and the form must post to the registered location",
	"C15": "group metadata-endpoint-location-forms: 25 lexical forms of valid http(s) URLs (case of scheme/host, non-ASCII, blanks and braces, empty fragment/query, lower- and upper-case escapes, userinfo, IPv6, dot segments, IDN) x 8 endpoint positions x 4 bindings must survive a generation verbatim; group metadata-validity-instants: 22 validUntil instants from year 1 to 9999 (around the Unix epoch, 2038, 2106, 2262, non-UTC zones) x 4 cache durations on an EntityDescriptor and inside an EntitiesDescriptor",
	"C16": "group hand-set-lifetimes: codec and provider lifetimes set by hand (0, negative, 1 ns .. 25 h) x 9 session ages; attribute gates with near-miss values (letter case, blanks, prefixes, joined lists, attribute-name case); group idp-session-bound-vs-lifetime: AuthnStatement SessionNotOnOrAfter absent / inside / far beyond the lifetime x 1-2 statements x 10 ages x 2 lifetimes",
	"C17": "one of the three protected URLs has reserved characters percent-encoded in its path (and starts with an encoded slash): it must come back verbatim; half of the configurations set their own DefaultRedirectURI (the landing page of a login without RelayState); two more configurations deliver responses by reference (HTTP-Artifact response binding, resolved by the middleware through a stub back channel that answers the ArtifactResolve it actually sent); group index-alphabet: tracking indices starting with each of the 64 base64url characters and 16 words (saml_, sso, login-1, ...) through a RelayStateFunc, one complete flow each, both request bindings",
	"C18": "status values with nested PartialLogout / AuthnFailed under non-Success codes; group no-signing-key-published (metadata with an encryption key only / an empty signing descriptor: nothing is valid, whoever signed); group custom-signature-verifier (refusing / delegating) and group trust-rotation (one ServiceProvider, all 8 length-3 key sequences, metadata replaced or edited in place, both signers presented after every step)",
	"C20": "store alphabet includes a Get whose destination cannot hold the stored JSON (the error path of Get); a third registered SP whose metadata carries a validUntil in the past, with an SSO request from it among the handlers",
}

// Register adds a check.
func Register(c *Check) {
	if a := ruleAddenda[c.ID]; a != "" {
		c.Rule += " Extensions: " + a
	}
	registry[c.ID] = c
}

// Get looks a check up.
func Get(id string) *Check { return registry[id] }

// IDs lists registered checks.
func IDs() []string {
	var ids []string
	for k := range registry {
		ids = append(ids, k)
	}
	sort.Strings(ids)
	return ids
}
