// Package checks holds one file per property; each registers a Check.
package checks

import (
	"sort"
	"time"

	"verif/engine/core"
)

// Check describes one property's exhaustive exploration.
type Check struct {
	ID          string
	Engine      string
	Rule        string // how cases are enumerated, what is non-trivial / distinct
	Bounds      func(tier string) string
	Assumptions []string
	Run         func(c *core.Ctx)
	CapQuick    time.Duration // internal deadline; hitting it gives exhaustive:false, exit 0
	CapThorough time.Duration
	Workers     int // 0 = one per CPU
	// Post lets a check add measurements to coverage after merging shards.
	Post func(res *core.Result, cov map[string]interface{})
}

var registry = map[string]*Check{}

// Register adds a check.
func Register(c *Check) { registry[c.ID] = c }

// Get looks a check up.
func Get(id string) *Check { return registry[id] }

// IDs lists registered checks.
func IDs() []string {
	var ids []string
	for k := range registry {
		ids = append(ids, k)
	}
	sort.Strings(ids)
	return ids
}
