// Package checks holds one file per property; each registers a Check.
package checks

import (
	"sort"
	"time"

	"verif/engine/core"
)

// Check describes one property's exhaustive exploration.
type Check struct {
	ID          string
	Engine      string
	Rule        string // how cases are enumerated, what is non-trivial / distinct
	Bounds      func(tier string) string
	Assumptions []string
	Run         func(c *core.Ctx)
	CapQuick    time.Duration // internal deadline; hitting it gives exhaustive:false, exit 0
	CapThorough time.Duration
	Workers     int // 0 = one per CPU
	// Post lets a check add measurements to coverage after merging shards.
	Post func(res *core.Result, cov map[string]interface{})
}

var registry = map[string]*Check{}

// ruleAddenda: driver extensions added after the first build (each closes a hole a deliberate change slipped through); appended to Rule.
var ruleAddenda = map[string]string{
	"C05": "request URLs that are near misses of a registered location (added query, suffix, dot segments, trailing slash, truncation, case, fragment, userinfo trick, trailing blank); one long-lived IdentityProvider value per worker",
	"C19": "group live-credential-sequences: on ONE long-lived server every sequence of 3 (thorough 4) actions touching alice's credentials (logins and SSO with posted credentials, password change, profile change, deletion; at most one bcrypt-cost password change per sequence); credentials at bcrypt's 72-byte boundary in the live credential sequences; a registered SP without any HTTP-POST endpoint (service and shortcut)",
	"C12": "endpoint variant resploc (IdP logout endpoints advertise a ResponseLocation: requests still go to Location); AuthnRequests asking for the HTTP-Artifact response binding; group outputs-checked-after-later-calls (every ordered pair and a-b-a triple of message kinds, each output decoded only after all were produced, on the value returned)",
	"C11": "group wrapped-key-length: EncryptedKey CipherValue of 0, 1, k-1, k, k+1, k+2, k+16, 2k, 2k+1, 4k bytes for 3 RSA keys x 3 key transports x both entry elements x with/without embedded certificate; via-sp layouts with RetrievalMethod; every structure case presented three times in a row with the same key (a certificate mismatch must be refused every time); the harness carries its own RIPEMD-160 so that linking it does not register the hash for the library",
	"C10": "RSA keys whose modulus is not a whole number of bytes (2047, 2044, 1031 bits); group results-independent-across-calls: all sequences of 2-3 Encrypt calls followed by the Decrypts over 7 lengths per block cipher, every returned plaintext and element compared again after the later calls; reference ciphertexts with their base64 wrapped at 76 / 64 / 60 / 4 columns (LF and CRLF); the caller's key slice must be intact after every call and no valid call of a sequence may fail",
	"C01": "operators that re-bind a namespace prefix elsewhere in the document (an x:Assertion under a foreign binding plus a later element re-declaring x), reached in pairs at depth 2; group no-signing-key-published: every initial document and every depth-1 document under IdP metadata that publishes an encryption key only / an empty signing descriptor (nothing may be accepted); a trust configuration with ordinary metadata and an application SignatureVerifier that refuses everything; group artifact-signed-envelope: 4 artifact-resolution replies (envelope signed / unsigned x inner unsigned / Response-signed / Assertion-signed) x every sequence of <= 2 out of 17 envelope-level edits (forged Response or Assertion inside the envelope's Signature Object / KeyInfo, in Status, Header, Body, before / after / instead of the real Response, second ArtifactResponse, envelope re-signed by the attacker or by a look-alike certificate); re-signing with an attacker key under a certificate that copies the IdP certificate's subject, serial and key identifiers",
	"C02": "group window-product-option-axes: the 4^5 product again with AllowIDPInitiated set, and for assertion-only signatures with the Response's Destination absent; the same group with the varied confirmation declared holder-of-key / sender-vouches (the window holds for every confirmation); group open-side-of-each-window (2^5 combinations of instants far on the unconstrained side: IssueInstant ahead of the clock, NotBefore long past, expiries far ahead - all must be accepted); group artifact-clock-advances-during-resolution (HTTP artifact resolution through ParseResponse with a resolver that advances the library clock while answering)",
	"C03": "lattice fields method (bearer / holder-of-key / sender-vouches on one or all confirmations; acceptance of non-bearer confirmations is DONT_CARE) and idpinit (AllowIDPInitiated); fields issuerFormat (Format attribute of the Response / Assertion Issuer) and irt (unsolicited: no InResponseTo anywhere); second pass options-product-x-single-deviation: full product of the four option fields with <= 1 addressing field away from correct; group reconfigured-sp-sequences: one ServiceProvider value (changed in place, or struct-copied) whose ACS URL, entity ID and IdP entity ID change between responses, all 56 ordered pairs of the 8 configurations, after every change the 8 responses addressed to each configuration are presented",
	"C04": "a 'no SubjectConfirmation at all' value at the confirmation level; group middleware-acs: 0-2 flows started through samlsp.Middleware, every subset of their tracking cookies presented, 6x6 InResponseTo choices, AllowIDPInitiated, both layouts, POSTed to the real ServeACS; decoy cookies in middleware-acs (a session token of the same middleware, or garbage, under a tracking-cookie name); a third signing layout (assertion-only signature, Response without Destination) in the full product; group middleware-many-pending-requests (1..33 tracking cookies, the IdP answers the first / middle / last / a never issued one)",
	"C06": "request kinds that select a registered non-POST endpoint by URL or index; axis reqextra (NameIDPolicy formats, SPNameQualifier, a Subject naming another principal) with a non-interference oracle: identity asserted for the same session must equal the one for the same request without that content; SP metadata whose ACS endpoints carry a ResponseLocation; IdP configuration with an external Signer and a stale private key left in Key; RequestedAttribute elements that list values; one long-lived IdentityProvider value per worker, reconfigured from case to case",
	"C07": "group rollover-sequences: all 27 length-3 re-keying sequences of the IdP (same entity ID, the SP object kept and handed the re-published metadata) and of the SP (IdP object kept), with and without encryption, a fresh login after every step; session fields EduPersonPrincipalName (next to a different UserEmail) and SubjectID as string positions; group idp-intermediates; several pending request IDs passed to the SP (the answered one neither first nor last) on the POST-binding and encrypted configurations",
	"C08": "key descriptors listing a certificate chain (first certificate is the key holder's); 5 role-descriptor arrangements (leading/trailing artifact-only SPSSODescriptor, POST ACS in second position) for both launch kinds; group idp-side-retry-after-failed-encryption: the k-th draw from the random source fails (k=0..5) on ONE IdpAuthnRequest, WriteResponse attempted three times; group idp-side-overlapping-responses: two responses built by two threads under the controlled scheduler with every draw from the random source a scheduling point (quick: <= 2 preemptions on 3 layouts; thorough: all interleavings on all layouts), content keys / IVs distinct and non-degenerate; encryption certificates whose keyUsage does not mention encipherment (error reply or encryption, never plaintext); group malformed-plaintext-under-signed-response (10 kinds of not-well-formed decrypted content a tolerant tokenizer would read); one long-lived IdentityProvider value per worker",
	"C09": "group response-placements: payload (plain / deflated / deflate bombs of 11 and 64 MB) in the form field, the query string, both, GET - for ParseResponse and ValidateLogoutResponseRequest with an allocation bound; group encrypted-assertion-ciphertext-lengths: EncryptedAssertion whose key genuinely unwraps, 5 block algorithms x 2 key transports x 24 data lengths around every block boundary x 2 signing layouts; group keyinfo-shapes-x-trust-configurations: 19 shapes of the (unsigned) KeyInfo x 10 trust configurations (metadata variants, fingerprint incl. unknown / missing algorithm, pinned incl. garbage, no signing key) x 5 message kinds; group encrypted-assertion-key-placement: EncryptedKey embedded / sibling / both, RetrievalMethod with 28 URI forms, 5 Id values; IdP metadata whose signing certificate does not parse (truncated / not base64 / garbage / bad then good) among the trust configurations",
	"C13": "option 3: IdP logout endpoints advertising a ResponseLocation; group reconfiguration-sequences: ONE ServiceProvider value whose key pair and signature method are changed between messages (all sequences of <=3 (thorough 4) configurations out of 8, last message of each of the 7 kinds), every message verified against the configuration in force; group sign-again: the exported Sign* methods applied to an already signed message (twice, three times, after editing a field) for 4 message kinds x 2 key types; group outputs-verified-after-later-calls (as C12, with signature verification; the relay state identifies which call an output belongs to)",
	"C14": "form idp-response-sp-initiated: the peer string arrives inside the AuthnRequest (AssertionConsumerServiceURL next to a valid index; RelayState) and the form must post to the registered location; metadata endpoints with a hostile Location next to a well-formed ResponseLocation and vice versa; group login-form-shortcut-flow (the IdP-initiated login form with hostile path suffix / query / double-slash path, differential against the benign request: the action must not depend on the request)",
	"C15": "group metadata-endpoint-location-forms: 25 lexical forms of valid http(s) URLs (case of scheme/host, non-ASCII, blanks and braces, empty fragment/query, lower- and upper-case escapes, userinfo, IPv6, dot segments, IDN) x 8 endpoint positions x 4 bindings must survive a generation verbatim; group metadata-validity-instants: 22 validUntil instants from year 1 to 9999 (around the Unix epoch, 2038, 2106, 2262, non-UTC zones) x 4 cache durations on an EntityDescriptor and inside an EntitiesDescriptor",
	"C16": "group hand-set-lifetimes: codec and provider lifetimes set by hand (0, negative, 1 ns .. 25 h) x 9 session ages; attribute gates with near-miss values (letter case, blanks, prefixes, joined lists, attribute-name case); group idp-session-bound-vs-lifetime: AuthnStatement SessionNotOnOrAfter absent / inside / far beyond the lifetime x 1-2 statements x 10 ages x 2 lifetimes; group cross-deployment-sequences: 3 sets of 3 deployments in one process (other key, other key family, other URL, sibling path, other port), every sequence of <= 3 presentations of each deployment's session and tracking token to any deployment",
	"C17": "one of the three protected URLs has reserved characters percent-encoded in its path (and starts with an encoded slash): it must come back verbatim; half of the configurations set their own DefaultRedirectURI (the landing page of a login without RelayState); two more configurations deliver responses by reference (HTTP-Artifact response binding, resolved by the middleware through a stub back channel that answers the ArtifactResolve it actually sent); group index-alphabet: tracking indices starting with each of the 64 base64url characters and 16 words (saml_, sso, login-1, ...) through a RelayStateFunc, one complete flow each, both request bindings",
	"C18": "status values with nested PartialLogout / AuthnFailed under non-Success codes; group no-signing-key-published (metadata with an encryption key only / an empty signing descriptor: nothing is valid, whoever signed); group custom-signature-verifier (refusing / delegating) and group trust-rotation (one ServiceProvider, all 8 length-3 key sequences, metadata replaced or edited in place, both signers presented after every step); attacker key under a look-alike certificate; group pinned-certificate-differs-from-metadata; group redirect-input-sequences (7 inputs incl. deflate streams without a final block, cut in half, 11 MB; all pairs and triples, repeated 3 times)",
	"C20": "store alphabet includes a Get whose destination cannot hold the stored JSON (the error path of Get); a third registered SP whose metadata carries a validUntil in the past, with an SSO request from it among the handlers; an SSO request from an unregistered SP among the handlers",
}

// ruleAddendaLater: extensions of the fourth and fifth rounds of deliberate changes (appended after ruleAddenda).
var ruleAddendaLater = map[string]string{
	"C01": "group trusted-certificates-outside-their-validity-window: IdP metadata in key rollover (current + not-yet-valid within the clock-skew allowance; not-yet-valid only; just-expired + not-yet-valid; current + expired + far-future + long-expired) x every operator alone and followed by each of 6 operators that quote one of those certificates in KeyInfo",
	"C02": "group absent-and-far-away-instants (window attributes absent, years 1677-9999); open side of each window; the clock advancing while an artifact is being resolved",
	"C03": "URL authority near-misses (port, userinfo, trailing dot, case) and a relative received-at URL; sequences on a reconfigured SP",
	"C04": "non-bearer confirmations; a layout without Destination; many pending requests through the middleware with decoy cookies",
	"C05": "IssueInstant of years 1677, 1500, 1066, 0001 and with a zone offset; ProtocolBinding axis in the routing product",
	"C06": "request IssueInstant written with a zone offset; RequestedAttribute values; a signer whose previous key is stale",
	"C07": "duplicate attribute names; several pending request IDs around the genuine one",
	"C08": "descriptor layouts with empty and use-less placeholders next to the real encryption key; degenerate symmetric keys and IVs; malformed plaintext under a signed Response; keyUsage-restricted certificates",
	"C09": "a 20 s watchdog on metadata parsing that reports the library frame a hung or panicking parse was in; nested EntitiesDescriptor documents; requests whose context ends during resolution; 19 KeyInfo shapes x trust configurations with unparseable metadata certificates",
	"C10": "structured direct keys of 2..7 bytes; reference documents under foreign namespace prefixes; base64 wrapped at 76/64/60/4 columns",
	"C11": "operator cert-same-modulus-other-exponent (a certificate over the recipient's modulus with e=3); private-key arguments without CRT values, with one prime listed, zero-valued, and carrying the public part only",
	"C12": "axis clockzone: saml.TimeNow returning the same instant in UTC, -08:00 and +05:30 (the IdP must still accept every request); endpoint form with an explicit port in the authority",
	"C13": "group idp-endpoint-query-shapes-x-want-requests-signed: 13 query-string forms of the IdP endpoints (escapes a re-encoder would rewrite, valueless and repeated parameters, unsorted names, separators in values) x WantAuthnRequestsSigned absent/true/false x 7 message kinds x RSA and ECDSA",
	"C14": "group metadata-schemes-x-index-forms: 16 forms of the index / isDefault attributes of indexed endpoints (absent, empty, padded, signed, non-numeric, hexadecimal, fractional, non-ASCII digit, out of range, unreadable isDefault) x 7 bindings x 22 location forms x Location/ResponseLocation",
	"C15": "group duration-component-product: ~90 hour counts (0..26, every power of two and its neighbours up to 2^21, calendar figures up to the int64 limit) x minutes and seconds {0,1,29,30,58,59} x 9 fractions at and next to the carries x both signs",
	"C16": "group token-catalogue-x-request-shapes: every catalogue token at issue time and at the refusing clocks presented with 15 request shapes (8 methods, CORS preflight, other paths and queries, XHR / upgrade / bearer / forwarded-user headers) - whether the handler runs must be what it is for a plain GET; Subject shapes without an identifier of their own (NameID only inside SubjectConfirmation, empty Subject, empty-valued NameID, qualified NameID)",
	"C17": "in the redirect+artifact configurations the artifact and RelayState reach the ACS in the query string of a GET; a flow's index must be non-empty and - unless the application's own function chose it - differ from every other pending flow's",
	"C18": "Issuer elements with a Format attribute (entity, unspecified, persistent, mis-spelt, empty) around foreign and genuine values; a pinned certificate that differs from the metadata; sequences of redirect inputs",
	"C19": "a PUT whose password member is present and empty (the empty string becomes the password); a second service whose entity ID differs from A's in letter case only; passwords of 72 and 73 bytes",
	"C20": "List with prefixes shorter than, equal to and longer than stored keys (single-client programs of <= 3 operations and all pairs of single operations over keys that are prefixes of one another), the map model strips the prefix like the store; the registered SP carries an AttributeConsumingService with requested attributes (with / without NameFormat, with values)",
}

// ruleAddendaRound6: extensions of the sixth round.
var ruleAddendaRound6 = map[string]string{
	"C01": "operators that plant a ciphertext of the attacker's own outside the signed EncryptedAssertion (inside Signature / Object, first / last in the Response, inside the EncryptedAssertion, SOAP Header / Body, envelope Signature), artifact replies with an encrypted assertion; trust configurations that publish the issuing CA next to the signing certificate, re-signing with a sibling leaf of that CA",
	"C02": "option hooks: ValidateAudienceRestriction and ValidateRequestID installed (accepting) over the full window product",
	"C03": "group failure-responses (non-Success status without a usable assertion must be ErrBadStatus, 3 entry points); lattice field proxy (ProxyRestriction / OneTimeUse next to the audience restriction)",
	"C04": "the ArtifactResolve ID as an InResponseTo value on the artifact path; group middleware-request-outstanding-for-the-tracking-lifetime-only",
	"C05": "group gate-destination-x-what-the-request-says-about-itself (Host header, request-target authority, forwarding headers)",
	"C06": "oracle: an attribute whose name has a fixed meaning states that field of the session (9 well-known names, 13 requested names)",
	"C07": "7 lexical shapes of the SP's entity ID / metadata URL; an SP whose registered metadata requests every attribute name the IdP can fill, with the fixed-meaning oracle",
	"C08": "faults: octets around the key-transport ciphertext; data declared as a cipher its transported key does not fit (16 pairs)",
	"C09": "every metadata document also goes to the bundled IdP server as the body of PUT /services/{id}, under a 20 s watchdog",
	"C10": "OAEP reference ciphertexts without the optional DigestMethod child",
	"C12": "IdP metadata with two role descriptors (endpoints only in the second; bindings split over the two)",
	"C13": "group signature-method-near-misses (11 almost-URIs); group logout-request-name-ids (11 identifiers with XML-special characters, signed POST / redirect, name read back)",
	"C14": "forms whose requested ACS URL extends a registered location (path and bare origin) by the peer string, no index",
	"C15": "group duration-number-forms (24 lexical forms of a number x 11 component templates)",
	"C17": "group started-url-shapes-and-long-indices (15 URL shapes; application-chosen indices of 81 / 111 / 200+ bytes alone and next to a flow sharing the prefix)",
	"C18": "issue instants named by calendar year (1700 .. 0001, 9999); IdP-signed messages with another root element (6 kinds)",
	"C19": "after every faulted request: registry of the running server = registry a restarted server derives from the store",
	"C20": "group upload-whose-body-arrives-after-another-request (body reader blocking on a scheduler-visible gate, 16 scenarios, preemption bound 2); List over a store of 300 / 1000 fillers while token pairs are replaced in order; the registered SP is also stored under a second name",
}

// ruleAddendaRound7: extensions of the seventh round.
var ruleAddendaRound7 = map[string]string{
	"C01": "more than one ds:Signature child on the Response (a second, attacker-made one; empty shells on Response and Assertion)",
	"C02": "group clock-with-a-sub-second-part (clock 1 / 250 / 999 / 500.499 ms past the second)",
	"C05": "group gate-freshness-x-optional-request-children (Conditions, Subject, Scoping, Extensions x 5 request ages); the IdP's own logout and metadata URLs as Destination",
	"C06": "group retry-after-a-failed-signature (external signer failing on its k-th call, three attempts); request extras with Conditions / Scoping",
	"C07": "a valueless and an empty-valued attribute in every session; logins 49 h / 30 d / 400 d after the metadata exchange",
	"C09": "zlib / gzip / trailing-junk / stored-block containers around the 10 MB+ payloads; foreign-namespace Signature siblings with a KeyInfo; every consuming call under a 20 s watchdog",
	"C11": "a mismatching certificate behind another X509Data / KeyInfo / X509SKI; group undecodable-wrapped-key (3 transports x 5 ciphers x 7 failures x 2 entry elements)",
	"C12": "group logout-response-request-ids (9 ID shapes); configuration axis idp-nameid-formats",
	"C13": "group sp-with-intermediate-certificates (3 chains x 7 messages x 2 keys)",
	"C14": "namespace-qualified Location / ResponseLocation attributes; endpoints without or with an empty Location next to a hostile ResponseLocation",
	"C15": "the SAML 1.0 SOAP binding in metadata-endpoint-location-forms",
	"C17": "delivery with a RelayState field that is present and empty",
	"C18": "issue instants written with a zone offset; genuine signatures whose KeyInfo carries no certificate (valid unless only a fingerprint is configured)",
	"C19": "logins whose password differs from the stored one by surrounding blanks or letter case",
	"C20": "three handlers that end in the login form",
}

// ruleAddendaRound8: extensions of the eighth round.
var ruleAddendaRound8 = map[string]string{
	"C01": "signatures by the attacker naming an unimplemented method under the trusted certificate (Response and Assertion, 3 method values); an expired genuinely signed assertion next to an unsigned twin of the same ID (both orders)",
	"C02": "a Subject without any SubjectConfirmation in the option-axes product",
	"C03": "every mixed sequence of AudienceRestrictions is also presented in reverse order: the verdicts must agree",
	"C04": "tracked lifetime under an application RelayStateFunc; group middleware-every-pending-login-completes (2-3 pending logins answered in every order)",
	"C06": "requests stating a ProtocolBinding next to the URL of the second registered endpoint / of an unregistered one; sessions about to end and without an end",
	"C07": "name identifiers of five formats spelt with capitals, format compared after the round trip",
	"C08": "surplus octets after the intact ciphertext; 11 kinds of foreign characters inside otherwise intact base64 (data and key cipher values)",
	"C09": "15 text-level base64 variants on the logout validators (form, redirect) and on both IdP request decoders",
	"C10": "xmlenc11 OAEP constructors with the DigestMethod field reassigned",
	"C11": "GCM cipher values shortened by 1..all octets from the end and extended by 1..16",
	"C13": "the ServiceProvider samlsp builds for SignRequest with each of 7 key types; one AuthnRequest object rendered for both bindings in 5 orders",
	"C14": "endpoints with an empty, absent, blank-prefixed or upper-cased Binding",
	"C15": "instants with 10-40 fraction digits; entity IDs of 1..1024 characters",
	"C16": "nameless attributes (first / after a named one); values containing list separators and gates on their pieces",
	"C18": "an issuer whose ID extends the configured one; comments and CDATA boundaries inside the Issuer text of a genuinely signed response",
	"C19": "group session-lifetime-histories (login, then <= 5 of {SSO, shortcut, clock step}, clock in 40-minute steps)",
	"C20": "server start over the populated store under a 30 s deadline",
}

// ruleAddendaRound9: extensions of the ninth round.
var ruleAddendaRound9 = map[string]string{
	"C01": "6 genuine assertion variants that say less about the request they answer (no / empty InResponseTo, no Recipient, no confirmation data, no confirmation, no audience) x 3 layouts with every operator around them",
	"C02": "SubjectConfirmationData with its own satisfied NotBefore and / or an Address over the whole window lattice",
	"C04": "middleware-acs also for a middleware configured with its own DefaultRedirectURI",
	"C06": "SP descriptors stating AuthnRequestsSigned / WantAssertionsSigned (3 combinations, with and without encryption key)",
	"C07": "values that repeat (a group listed twice, equal custom attribute values, one text in nine fields)",
	"C08": "a keyless second role descriptor with its own POST endpoint (both orders) and requests naming no endpoint; hand-built IdpAuthnRequests with one exported field left out x 3 emission paths",
	"C09": "EncryptedKey declarations: 5 transport URIs x 15 DigestMethod values x 6 MGF values",
	"C10": "reference ciphertexts with the schema's optional parts (KeySize, Id, MimeType, Encoding, Recipient, KeyName, CarriedKeyName, EncryptionProperties)",
	"C11": "mismatching certificates in documents that bind the XML-DSig / XML-Enc namespaces to other prefixes or to none",
	"C12": "27 relay states that read as markup (tags, character references, comments, CDATA, template actions)",
	"C13": "the messages' own serialisers: LogoutRequest.Bytes / Deflate, Element() written out for all four message types",
	"C14": "six schemes that begin like http",
	"C16": "requests on the SP's own endpoint paths",
	"C17": "started URLs of 500..6000 bytes",
	"C18": "metadata listing several signing certificates (incl. a second key under the same subject name and serial) x 6 signers; 12 request shapes that carry no logout response",
	"C19": "groups in the user model and session snapshot, a PUT changing them, the assertion's groups compared with those stored at login; a PUT whose body carries hashed_password",
}

// ruleAddendaRound10: extensions of the tenth round.
var ruleAddendaRound10 = map[string]string{
	"C01": "fingerprint trust configured with 11 other spellings of the fingerprint (or none) x 6 layouts x every operator",
	"C02": "a confirmation that states no NotOnOrAfter (absent, empty) over the whole window lattice",
	"C04": "tracking tokens minted under the middleware's own key for a sibling application (other audience / issuer / both) as decoy cookies",
	"C07": "an attribute whose value is a name identifier with every optional part; the comparison covers the nested identifier",
	"C08": "random sources answering a Read with at most 1 / 7 / 8 / 15 / 16 / 17 / 24 / 31 / 32 octets; partly-zero keys and IVs are degenerate",
	"C09": "43 optional attributes / children added to a valid AuthnRequest (alone, and an attribute-service index next to each child) through Validate and ServeSSO, for an SP with and without AttributeConsumingServices",
	"C11": "certificates of another key that are damaged or that a strict parser refuses (truncated, trailing data, version out of range, signature bit flipped)",
	"C12": "all eight signature methods (ECDSA with an EC key) toward this library's IdP",
	"C17": "the IdP's signed answer to another browser's request re-wrapped in an unsigned Response naming this browser's pending request (bearer / holder-of-key / sender-vouches)",
	"C19": "a federation aggregate (EntitiesDescriptor) as the body of PUT /services: the first SP in it is what the service stands for",
	"C20": "serial group: after any handler (incl. a login with an over-long password) has been served six times, every handler is still served, each under a deadline",
}

// Register adds a check.
func Register(c *Check) {
	if a := ruleAddenda[c.ID]; a != "" {
		c.Rule += " Extensions: " + a
	}
	if a := ruleAddendaLater[c.ID]; a != "" {
		c.Rule += " Later extensions: " + a
	}
	if a := ruleAddendaRound6[c.ID]; a != "" {
		c.Rule += " Sixth round: " + a
	}
	if a := ruleAddendaRound7[c.ID]; a != "" {
		c.Rule += " Seventh round: " + a
	}
	if a := ruleAddendaRound8[c.ID]; a != "" {
		c.Rule += " Eighth round: " + a
	}
	if a := ruleAddendaRound9[c.ID]; a != "" {
		c.Rule += " Ninth round: " + a
	}
	if a := ruleAddendaRound10[c.ID]; a != "" {
		c.Rule += " Tenth round: " + a
	}
	registry[c.ID] = c
}

// Get looks a check up.
func Get(id string) *Check { return registry[id] }

// IDs lists registered checks.
func IDs() []string {
	var ids []string
	for k := range registry {
		ids = append(ids, k)
	}
	sort.Strings(ids)
	return ids
}
