package checks

import (
	"encoding/base64"
	"encoding/json"
	"encoding/xml"
	"fmt"
	"io"
	"net/http"
	"net/http/httptest"
	"net/url"
	"os"
	"os/exec"
	"regexp"
	"sort"
	"strings"
	"sync"
	"time"

	"github.com/anishathalye/porcupine"
	"github.com/crewjam/saml"
	"github.com/crewjam/saml/samlidp"
	dsig "github.com/russellhaering/goxmldsig"

	"verif/engine/core"
	"verif/engine/harness"
	"verif/engine/samlgen"
	"verif/engine/sched"
)

// C20 — the bundled IdP server and its store are safe under concurrent requests.

// schedStore wraps the real MemoryStore and marks every store call as a scheduling point.
type schedStore struct {
	inner samlidp.Store
}

func (s *schedStore) point(d string) {
	if h := sched.Hook(); h != nil {
		h.Store(d)
	}
}
func (s *schedStore) Get(k string, v interface{}) error {
	s.point("store.Get " + k)
	return s.inner.Get(k, v)
}
func (s *schedStore) Put(k string, v interface{}) error {
	s.point("store.Put " + k)
	return s.inner.Put(k, v)
}
func (s *schedStore) Delete(k string) error { s.point("store.Delete " + k); return s.inner.Delete(k) }
func (s *schedStore) List(p string) ([]string, error) {
	s.point("store.List " + p)
	return s.inner.List(p)
}

type c20Handler struct {
	name string
	req  func() *http.Request
}

const c20Sess = "c2Vzcy1hbGljZQ=="

func c20Handlers() []c20Handler {
	form := func(path string, v url.Values, cookie bool) func() *http.Request {
		return func() *http.Request {
			r := httptest.NewRequest("POST", path, strings.NewReader(v.Encode()))
			r.Header.Set("Content-Type", "application/x-www-form-urlencoded")
			if cookie {
				r.AddCookie(&http.Cookie{Name: "session", Value: c20Sess})
			}
			return r
		}
	}
	plain := func(method, path, body string, cookie bool) func() *http.Request {
		return func() *http.Request {
			r := httptest.NewRequest(method, path, strings.NewReader(body))
			if cookie {
				r.AddCookie(&http.Cookie{Name: "session", Value: c20Sess})
			}
			return r
		}
	}
	sso := func(ent string) url.Values {
		doc := authnRequestXML(samlgen.S(ent), nil, samlgen.S("2.0"), samlgen.S(samlgen.TS(samlgen.T0)), nil, nil, "id-req-c20")
		return url.Values{"SAMLRequest": {base64.StdEncoding.EncodeToString(doc)}, "RelayState": {"rs"}}
	}
	user, _ := json.Marshal(map[string]interface{}{"name": "carol", "email": "carol@example.com"})
	sc, _ := json.Marshal(map[string]interface{}{"service_provider": c19EntA})
	return []c20Handler{
		{"PUT-service-s1=A2", plain("PUT", "/services/s1", string(c19Metadata("A2")), false)},
		{"PUT-service-s1=B", plain("PUT", "/services/s1", string(c19Metadata("B")), false)},
		{"DELETE-service-s1", plain("DELETE", "/services/s1", "", false)},
		{"GET-service-s1", plain("GET", "/services/s1", "", false)},
		{"LIST-services", plain("GET", "/services/", "", false)},
		{"PUT-user-carol", plain("PUT", "/users/carol", string(user), false)},
		{"LOGIN-alice", form("/login", url.Values{"user": {"alice"}, "password": {"p1"}}, false)},
		{"SSO-from-A-with-session", form("/sso", sso(c19EntA), true)},
		{"SHORTCUT-launch-sc1", plain("GET", "/login/sc1", "", true)},
		{"PUT-shortcut-sc2", plain("PUT", "/shortcuts/sc2", string(sc), false)},
		{"DELETE-session", plain("DELETE", "/sessions/"+url.PathEscape(c20Sess), "", false)},
		{"LIST-sessions", plain("GET", "/sessions/", "", false)},
		{"GET-metadata", plain("GET", "/metadata", "", false)},
		{"SSO-from-X-whose-metadata-validity-has-passed", form("/sso", sso("https://sp-x.example.com/metadata"), true)},
		{"SSO-from-an-unregistered-SP", form("/sso", sso("https://unknown.example.com/saml2/metadata"), true)},
		// requests that end in the login form (no session, or wrong credentials): they all render the same template
		{"SSO-from-A-without-session", form("/sso", sso(c19EntA), false)},
		{"LOGIN-with-a-wrong-password", form("/login", url.Values{"user": {"alice"}, "password": {"nope"}}, false)},
		{"GET-login-page", plain("GET", "/login", "", false)},
	}
}

// c20OverLong: credentials beyond what the hash function takes (72 octets) - refused, like any wrong password. (Only in the serial
// repeated-requests group: whatever such a request might leave behind is looked for there, under a deadline.)
func c20OverLong() c20Handler {
	return c20Handler{"LOGIN-with-an-over-long-password", func() *http.Request {
		r := httptest.NewRequest("POST", c19Root+"/login", strings.NewReader(url.Values{"user": {"alice"}, "password": {"p1" + strings.Repeat("x", 80)}}.Encode()))
		r.Header.Set("Content-Type", "application/x-www-form-urlencoded")
		return r
	}}
}

// c20Server builds a pre-seeded server over the real MemoryStore (wrapped).
func c20Server() (*samlidp.Server, *samlidp.MemoryStore) {
	ms := &samlidp.MemoryStore{}
	put := func(k string, v interface{}) {
		if err := ms.Put(k, v); err != nil {
			panic(err)
		}
	}
	put("/users/alice", samlidp.User{Name: "alice", Email: "alice@example.com", HashedPassword: minHash("p1")})
	var md saml.EntityDescriptor
	xml.Unmarshal(c19Metadata("A"), &md)
	// the registered SP asks for attributes: with a NameFormat, without one, and with values (what every login for it reads while it
	// builds the assertion)
	if len(md.SPSSODescriptors) > 0 {
		tr := true
		md.SPSSODescriptors[0].AttributeConsumingServices = []saml.AttributeConsumingService{{Index: 1, IsDefault: &tr,
			ServiceNames: []saml.LocalizedName{{Lang: "en", Value: "service A"}},
			RequestedAttributes: []saml.RequestedAttribute{
				{Attribute: saml.Attribute{Name: "urn:oid:0.9.2342.19200300.100.1.3", FriendlyName: "mail", NameFormat: "urn:oasis:names:tc:SAML:2.0:attrname-format:uri"}, IsRequired: &tr},
				{Attribute: saml.Attribute{Name: "department"}},
				{Attribute: saml.Attribute{Name: "tier", NameFormat: "urn:oasis:names:tc:SAML:2.0:attrname-format:basic", Values: []saml.AttributeValue{{Type: "xs:string", Value: "gold"}}}},
				{Attribute: saml.Attribute{Name: "region", NameFormat: "urn:oasis:names:tc:SAML:2.0:attrname-format:unspecified", Values: []saml.AttributeValue{{Type: "xs:string", Value: "eu"}}}},
			}}}
	}
	put("/services/s1", samlidp.Service{Name: "s1", Metadata: md})
	// the same service provider is registered under a second name as well (an alias): removing or replacing one of the two names leaves
	// the entity ID in use
	put("/services/s3", samlidp.Service{Name: "s3", Metadata: md})
	var mdx saml.EntityDescriptor
	xml.Unmarshal(c19Metadata("X"), &mdx)
	put("/services/s2", samlidp.Service{Name: "s2", Metadata: mdx})
	put("/shortcuts/sc1", samlidp.Shortcut{Name: "sc1", ServiceProviderID: c19EntA})
	put("/sessions/"+c20Sess, saml.Session{ID: c20Sess, NameID: "alice@example.com", UserName: "alice", CreateTime: samlgen.T0, ExpireTime: samlgen.T0.Add(time.Hour), Index: "idx"})
	kp := samlgen.Key("idpec")
	srv, err := samlidp.New(samlidp.Options{URL: harness.MustURL(c19Root), Signer: kp.Key, Certificate: kp.Cert, Store: &schedStore{inner: ms}, Logger: harness.NullLogger{}})
	if err != nil {
		panic(err)
	}
	srv.IDP.SignatureMethod = dsig.ECDSASHA256SignatureMethod
	return srv, ms
}

type c20Obs struct {
	code      int
	assertion bool
	late      bool
	done      bool
}

func (o c20Obs) class() string { return fmt.Sprintf("%d/%v", o.code/100, o.assertion) }

// c20Digest summarises the final state (sessions by owner, not by random id).
func c20Digest(srv *samlidp.Server, ms *samlidp.MemoryStore) string {
	var parts []string
	for _, pre := range []string{"/users/", "/services/", "/shortcuts/", "/sessions/"} {
		names, _ := ms.List(pre)
		sort.Strings(names)
		for _, n := range names {
			var raw json.RawMessage
			if err := ms.Get(pre+n, &raw); err != nil {
				continue
			}
			if pre == "/sessions/" {
				var s saml.Session
				json.Unmarshal(raw, &s)
				parts = append(parts, "session:"+s.UserName)
			} else if pre == "/users/" {
				var u samlidp.User
				json.Unmarshal(raw, &u)
				parts = append(parts, "user:"+u.Name+":"+u.Email)
			} else {
				parts = append(parts, pre+n+"="+core.Hash12(string(raw)))
			}
		}
	}
	sort.Strings(parts)
	return strings.Join(parts, ";") + " | registry: " + observeRegistry(srv)
}

func init() {
	Register(&Check{
		ID:     "C20",
		Engine: "sched",
		Rule: "stateless exploration under a controlled scheduler: real handler goroutines of samlidp.Server over the real MemoryStore, one running at a time, a scheduling point at every RWMutex/Mutex operation (the package's \"sync\" import is rewritten to a shim by go build -overlay; RWMutex is modelled with writer preference, bound to the real type by a conformance table) and at every Store call; preemption-bounded depth-first enumeration of schedules for every ordered pair (and selected triples / a 4-thread scenario) of 13 handlers, " +
			"oracle: no deadlock, every request gets exactly one reply, no panic, final store+registry and per-request outcomes equal those of some serial order; MemoryStore client programs (2-3 clients x 1-3 operations on two colliding keys, pre-populated and zero-value stores) under all schedules with every history checked for linearizability against a map model (porcupine); plus a free-running pass of the same scenarios under the race detector. non-trivial = every schedule with at least one context switch",
		Bounds: func(tier string) string {
			if tier == "thorough" {
				return "pairs: preemption bound 4 (cap per pair); triples containing a service mutation and a registry reader: bound 2; 4 threads: bound 2; store programs 2x3, 3x2: all schedules; race pass 30 repetitions"
			}
			return "all 169 ordered pairs: preemption bound 2; 4 triples + one 4-thread scenario: bound 1; store programs 2x<=2 and 3x1: all schedules; race pass 10 repetitions per pair"
		},
		Assumptions: []string{"weak-memory effects below sync are not modelled; data races are the race detector's job in a separate free-running pass (the cooperative scheduler's hand-offs would hide them)", "handlers are invoked directly, not through net/http's connection goroutines", "more than 4 threads not explored"},
		Run:         runC20,
		CapQuick:    8 * time.Minute,
		CapThorough: 25 * time.Minute,
		Post: func(res *core.Result, cov map[string]interface{}) {
			for _, k := range []string{"schedules", "scheduling_points", "rwmutex_conformance_states"} {
				if v, ok := res.Notes[k].(float64); ok {
					cov[k] = int(v)
				}
			}
			if v, ok := res.Notes["schedules"].(float64); ok {
				cov["states"] = int(v)
			}
			if v, ok := res.Notes["scheduling_points"].(float64); ok {
				cov["transitions"] = int(v)
			}
		},
	})
}

func runC20(c *core.Ctx) {
	g := harness.Pin(samlgen.T0)
	defer g.Restore()
	if !sched.ShimLinked {
		c.Case("harness/overlay-not-linked", func(t *core.T) {
			t.Fail("C20/harness/overlay-not-linked", "this binary was built without the sync overlay: run through ./run.sh C20")
		})
		return
	}
	totalSched, totalPoints := 0, 0
	note := func(st sched.Stats) { totalSched += st.Executions; totalPoints += st.Points }

	// the server must come up over a store that already holds several services (a restart): every scenario below starts that way
	if !returnsWithin(30*time.Second, func() { c20Server() }) {
		c.Case("server-start-over-a-populated-store", func(t *core.T) {
			t.NonTrivial()
			t.Fail("C20/deadlock/server-start-never-returns", "samlidp.New over a store holding three services, a user, a shortcut and a session has not returned after 30 s (it blocks on a lock of its own)")
		})
		return
	}

	c.Group("rwmutex-conformance")
	c.Case("rwmutex-model-vs-real", func(t *core.T) { c20Conformance(t, c) })

	hs := c20Handlers()
	pb := 2
	if c.Thorough() {
		pb = 4
	}
	c.Group("handler-pairs")
	for i := range hs {
		for j := range hs {
			i, j := i, j
			c.Case(fmt.Sprintf("pair/%s||%s/pb<=%d", hs[i].name, hs[j].name, pb), func(t *core.T) {
				note(c20Scenario(t, []c20Handler{hs[i], hs[j]}, pb, 20000))
			})
		}
	}
	c.Group("handler-triples")
	muts := []int{0, 1, 2}
	readers := []int{7, 8, 3, 12}
	others := []int{5, 6, 10, 11}
	tb := 1
	if c.Thorough() {
		tb = 2
	}
	for _, m := range muts {
		for _, r := range readers {
			for _, o := range others {
				if !c.Thorough() && !(m == 1 && (r == 7 || r == 8)) && !(m == 2 && r == 8 && o == 6) {
					continue
				}
				m, r, o := m, r, o
				c.Case(fmt.Sprintf("triple/%s||%s||%s/pb<=%d", hs[m].name, hs[r].name, hs[o].name, tb), func(t *core.T) {
					note(c20Scenario(t, []c20Handler{hs[m], hs[r], hs[o]}, tb, 20000))
				})
			}
		}
	}
	c.Case(fmt.Sprintf("quad/PUT-service||DELETE-service||SHORTCUT||SSO/pb<=%d", tb), func(t *core.T) {
		note(c20Scenario(t, []c20Handler{hs[1], hs[2], hs[8], hs[7]}, tb, 30000))
	})

	// a service upload whose body arrives late - only after another request has been answered (a client that builds the metadata it
	// uploads from what it first fetches from this server, or simply a slow link): nothing may wait for it while holding the registry
	c.Group("upload-whose-body-arrives-after-another-request")
	for _, up := range []int{0, 1} {
		for _, other := range []int{3, 4, 7, 8, 12, 13, 14, 2} {
			up, other := up, other
			c.Case(fmt.Sprintf("late-body/%s-gated-on/%s", hs[up].name, hs[other].name), func(t *core.T) {
				note(c20LateBody(t, hs[up], hs[other]))
			})
		}
	}

	// no request uses up something the next one needs: on one long-lived server, after any handler has been served six times over,
	// every handler is still served (each request under a deadline)
	c.Group("every-request-completes-however-often-it-was-made-before")
	hsAll := append(append([]c20Handler{}, hs...), c20OverLong())
	for i := range hsAll {
		i, hs := i, hsAll
		c.Case("repeated/"+hs[i].name+"-x6-then-every-handler", func(t *core.T) {
			t.NonTrivial()
			if c19Hung {
				t.Outcome("skipped-after-a-hang")
				return
			}
			srv, _ := c20Server()
			n := 0
			serve := func(h c20Handler, what string) bool {
				w := &strictWriter{hdr: http.Header{}}
				n++
				if !returnsWithin(20*time.Second, func() { srv.ServeHTTP(w, h.req()) }) {
					c19Hung = true
					t.Fail("C20/deadlock/request-never-returns-after-earlier-requests", "%s did not return within 20 s on a server that had served %d requests one after the other (no two at the same time)", what, n-1)
					return false
				}
				return true
			}
			for k := 0; k < 6; k++ {
				if !serve(hs[i], fmt.Sprintf("%s (time %d)", hs[i].name, k+1)) {
					return
				}
			}
			for _, g := range hs {
				if !serve(g, g.name+" after six times "+hs[i].name) {
					return
				}
			}
			t.Impl(n)
			t.Compared()
			t.Outcome("all-served")
		})
	}

	c.Group("store-linearizability")
	c20StorePrograms(c, note)
	c20BigStore(c, note)

	c.Note("schedules", float64(totalSched))
	c.Note("scheduling_points", float64(totalPoints))

	c.Group("race-pass")
	c.Affinity(0)
	c.Case("racepass/free-running-under-the-race-detector", func(t *core.T) { c20RacePass(t, c) })
	c.Affinity(-1)
}

// c20Scenario explores all schedules (preemption bound pb) of the given handlers on a fresh pre-seeded server.
func c20Scenario(t *core.T, hs []c20Handler, pb, limit int) sched.Stats {
	t.NonTrivial()
	var names []string
	for _, h := range hs {
		names = append(names, h.name)
	}
	scen := strings.Join(names, "||")
	// serial orders: the set of acceptable (final state, outcomes) pairs
	serial := map[string]bool{}
	hung := ""
	perm(len(hs), func(order []int) {
		if hung != "" || c19Hung {
			return
		}
		srv, ms := c20Server()
		obs := make([]c20Obs, len(hs))
		for _, i := range order {
			w := &strictWriter{hdr: http.Header{}}
			// these run outside the scheduler, on the real locks: a request that blocks on the server's own lock would block for ever
			if !returnsWithin(30*time.Second, func() { srv.ServeHTTP(w, hs[i].req()) }) {
				hung, c19Hung = "request "+hs[i].name+" run on its own, one request after the other", true
				return
			}
			obs[i] = c20Obs{code: w.code, assertion: hasAssertionForm(w.body.Bytes()), done: true}
		}
		d := c20Digest(srv, ms)
		if strings.Contains(d, registryLookupHung) {
			hung = "GetServiceProvider after the requests " + scen + " had completed one after the other"
			return
		}
		serial[c20Outcome(obs)+" :: "+d] = true
	})
	if hung != "" || c19Hung {
		if hung == "" {
			hung = "an earlier scenario of this process"
		}
		t.Fail("C20/deadlock/never-returns-without-any-concurrency", "%s did not return within 30 s: it blocks on a lock its own goroutine holds", hung)
		return sched.Stats{}
	}
	var srv *samlidp.Server
	var ms *samlidp.MemoryStore
	var obs []c20Obs
	mk := func() []func() {
		srv, ms = c20Server()
		obs = make([]c20Obs, len(hs))
		var bodies []func()
		for i, h := range hs {
			i, h := i, h
			bodies = append(bodies, func() {
				w := &strictWriter{hdr: http.Header{}}
				srv.ServeHTTP(w, h.req())
				obs[i] = c20Obs{code: w.code, assertion: hasAssertionForm(w.body.Bytes()), late: w.lateHeader, done: true}
			})
		}
		return bodies
	}
	reported := map[string]bool{}
	outcomes := map[string]bool{}
	nonSerial, nonSerialExample := 0, ""
	st := sched.Explore(mk, pb, limit, func(x *sched.Execution, choices []int) bool {
		fail := func(k, f string, a ...interface{}) {
			if !reported[k] {
				reported[k] = true
				t.Fail("C20/"+k, "scenario %s, schedule %v:\n%s\n%s", scen, choices, strings.Join(x.Trace, " -> "), fmt.Sprintf(f, a...))
				t.Input("schedule", fmt.Sprint(choices))
			}
		}
		if x.Diverged {
			fail("harness/replay-diverged", "a recorded prefix could not be replayed (nondeterminism outside the scheduler)")
			return false
		}
		if len(x.Panics) > 0 {
			fail("panic", "%v", x.Panics)
			return true
		}
		if x.Deadlock {
			fail("deadlock/"+deadlockClass(x.DeadlockMsg), "no thread can proceed: %s", x.DeadlockMsg)
			return true
		}
		for i, o := range obs {
			if !o.done || o.code == 0 {
				fail("request-without-reply", "request %s finished without a reply", hs[i].name)
			}
			if o.late {
				fail("status-after-body", "request %s wrote a status line after body bytes", hs[i].name)
			}
		}
		got := c20Outcome(obs) + " :: " + c20Digest(srv, ms)
		if strings.Contains(got, registryLookupHung) {
			fail("deadlock/registry-lookup-never-returns", "after the requests had completed, GetServiceProvider for a registered / an unregistered entity ID did not return within 30 s (a lookup that blocks on the server's own lock)")
			return false
		}
		outcomes[got] = true
		if !serial[got] {
			// Not a violation of C20 as stated (no data race, no deadlock, every request completes, store linearizable):
			// handler-level atomicity is not promised. Counted and sampled in the evidence only.
			nonSerial++
			if nonSerialExample == "" {
				nonSerialExample = fmt.Sprintf("schedule %v: %s", choices, got)
			}
		}
		return true
	})
	t.Evals(st.Executions)
	t.Impl(st.Points)
	t.Compared()
	t.Outcome(fmt.Sprintf("distinct-outcomes=%d", len(outcomes)))
	t.Sample(map[string]interface{}{"scenario": scen, "preemption_bound": pb, "schedules": st.Executions, "scheduling_points": st.Points, "max_points_in_one_schedule": st.MaxPoints, "distinct_final_outcomes": len(outcomes), "serial_outcomes": len(serial), "capped": st.Capped,
		"schedules_whose_outcome_matches_no_serial_order(informational)": nonSerial, "example": nonSerialExample})
	if st.Capped {
		t.Outcome("capped")
	}
	return st
}

// gatedBody is a request body whose bytes become available only once gate can be taken (the scheduler sees the wait as a blocked thread).
type gatedBody struct {
	r    io.Reader
	gate interface{}
	done bool
}

func (g *gatedBody) Read(p []byte) (int, error) {
	if !g.done {
		g.done = true
		h := sched.Hook()
		h.MLock(g.gate)
		h.MUnlock(g.gate)
	}
	return g.r.Read(p)
}
func (g *gatedBody) Close() error { return nil }

// c20LateBody: request `up` (a PUT with a body) and request `other` run concurrently; other holds the gate from start to end, the body of up
// can be read only when the gate is free. Every schedule must let both finish.
func c20LateBody(t *core.T, up, other c20Handler) sched.Stats {
	t.NonTrivial()
	scen := up.name + "[body gated]||" + other.name
	var obs [2]c20Obs
	mk := func() []func() {
		srv, _ := c20Server()
		gate := new(int)
		obs = [2]c20Obs{}
		return []func(){
			func() {
				r := up.req()
				r.Body = &gatedBody{r: r.Body, gate: gate}
				w := &strictWriter{hdr: http.Header{}}
				srv.ServeHTTP(w, r)
				obs[0] = c20Obs{code: w.code, done: true}
			},
			func() {
				h := sched.Hook()
				h.MLock(gate)
				w := &strictWriter{hdr: http.Header{}}
				srv.ServeHTTP(w, other.req())
				obs[1] = c20Obs{code: w.code, done: true}
				h.MUnlock(gate)
			},
		}
	}
	reported := false
	st := sched.Explore(mk, 2, 20000, func(x *sched.Execution, choices []int) bool {
		if reported {
			return true
		}
		switch {
		case x.Diverged:
			reported = true
			t.Fail("C20/harness/replay-diverged", "scenario %s: a recorded prefix could not be replayed", scen)
			return false
		case len(x.Panics) > 0:
			reported = true
			t.Fail("C20/panic", "scenario %s, schedule %v: %v", scen, choices, x.Panics)
		case x.Deadlock:
			reported = true
			t.Fail("C20/deadlock/upload-holds-the-registry-while-waiting-for-its-body", "scenario %s, schedule %v:\n%s\nno thread can proceed: %s", scen, choices, strings.Join(x.Trace, " -> "), x.DeadlockMsg)
			t.Input("schedule", fmt.Sprint(choices))
		case !obs[0].done || !obs[1].done || obs[0].code == 0 || obs[1].code == 0:
			reported = true
			t.Fail("C20/request-without-reply", "scenario %s, schedule %v: a request finished without a reply", scen, choices)
		}
		return true
	})
	t.Evals(st.Executions)
	t.Impl(st.Points)
	t.Compared()
	t.Outcome("late-body-scenario")
	t.Sample(map[string]interface{}{"scenario": scen, "schedules": st.Executions, "capped": st.Capped})
	return st
}

func c20Outcome(obs []c20Obs) string {
	var p []string
	for _, o := range obs {
		p = append(p, o.class())
	}
	return strings.Join(p, ",")
}

var lockNameRe = regexp.MustCompile(`L\d+`)

func deadlockClass(msg string) string {
	var ops []string
	for _, part := range strings.Split(strings.SplitN(msg, " | ", 2)[0], ", ") {
		f := strings.Fields(part)
		if len(f) > 0 {
			op := f[0]
			if i := strings.Index(op, ":"); i >= 0 {
				op = op[i+1:]
			}
			ops = append(ops, lockNameRe.ReplaceAllString(op, "L"))
		}
	}
	sort.Strings(ops)
	return strings.Join(ops, "+")
}

func perm(n int, f func([]int)) {
	a := make([]int, n)
	for i := range a {
		a[i] = i
	}
	var rec func(k int)
	rec = func(k int) {
		if k == n {
			f(append([]int{}, a...))
			return
		}
		for i := k; i < n; i++ {
			a[k], a[i] = a[i], a[k]
			rec(k + 1)
			a[k], a[i] = a[i], a[k]
		}
	}
	rec(0)
}

// ---------- RWMutex conformance ----------

func c20Conformance(t *core.T, c *core.Ctx) {
	t.NonTrivial()
	type st struct{ w, r, wait int }
	states := []st{{0, 0, 0}, {0, 1, 0}, {0, 2, 0}, {1, 0, 0}, {0, 1, 1}, {0, 2, 1}, {1, 0, 1}}
	n := 0
	for _, s := range states {
		var m sync.RWMutex
		for i := 0; i < s.r; i++ {
			m.RLock()
		}
		if s.w == 1 {
			m.Lock()
		}
		released := make(chan struct{})
		if s.wait == 1 {
			go func() { m.Lock(); m.Unlock(); close(released) }()
			// wait until the writer is queued: a reader can then no longer enter (only meaningful when readers hold the lock)
			if s.r > 0 {
				deadline := time.Now().Add(10 * time.Second)
				queued := false
				for time.Now().Before(deadline) {
					if m.TryRLock() {
						m.RUnlock()
						time.Sleep(100 * time.Microsecond)
						continue
					}
					queued = true
					break
				}
				if !queued {
					t.Outcome("inconclusive")
					continue
				}
			} else {
				time.Sleep(2 * time.Millisecond)
			}
		}
		realR := m.TryRLock()
		if realR {
			m.RUnlock()
		}
		realW := m.TryLock()
		if realW {
			m.Unlock()
		}
		modelR := s.w == 0 && s.wait == 0
		modelW := s.w == 0 && s.r == 0
		n++
		if realR != modelR || realW != modelW {
			t.Fail("C20/rwmutex-model-differs-from-sync", "state writer=%d readers=%d waitingWriters=%d: sync.RWMutex TryRLock=%v TryLock=%v, model RLock enabled=%v Lock enabled=%v", s.w, s.r, s.wait, realR, realW, modelR, modelW)
		}
		// unwind
		if s.w == 1 {
			m.Unlock()
		}
		for i := 0; i < s.r; i++ {
			m.RUnlock()
		}
		if s.wait == 1 {
			<-released
		}
	}
	t.Evals(n)
	t.Compared()
	c.Note("rwmutex_conformance_states", float64(n))
}

// ---------- MemoryStore linearizability ----------

type kvIn struct {
	op, key, val string
}
type kvOut struct {
	found bool
	val   string
	keys  string
}

var kvModel = porcupine.Model{
	Init: func() interface{} { return "" }, // state: sorted "k=v;" string
	Step: func(state, input, output interface{}) (bool, interface{}) {
		m := map[string]string{}
		for _, kv := range strings.Split(state.(string), ";") {
			if k, v, ok := strings.Cut(kv, "="); ok {
				m[k] = v
			}
		}
		in, out := input.(kvIn), output.(kvOut)
		enc := func() string {
			var ks []string
			for k := range m {
				ks = append(ks, k)
			}
			sort.Strings(ks)
			var sb strings.Builder
			for _, k := range ks {
				sb.WriteString(k + "=" + m[k] + ";")
			}
			return sb.String()
		}
		switch in.op {
		case "get":
			v, ok := m[in.key]
			return ok == out.found && (!ok || v == out.val), state
		case "getbad":
			return !out.found, state // absent or undecodable: an error either way, and no effect
		case "put":
			m[in.key] = in.val
			return true, enc()
		case "delete":
			delete(m, in.key)
			return true, enc()
		case "list": // in.key is the prefix; a key equal to the prefix is listed too (under the empty name)
			var ks []string
			for k := range m {
				if strings.HasPrefix(k, in.key) {
					ks = append(ks, strings.TrimPrefix(k, in.key))
				}
			}
			sort.Strings(ks)
			return fmt.Sprintf("%d:%s", len(ks), strings.Join(ks, ",")) == out.keys, state
		}
		return false, state
	},
}

func c20StorePrograms(c *core.Ctx, note func(sched.Stats)) {
	// "getbad" reads k1 into a destination the stored JSON cannot be decoded into: the error path of Get
	alphabet := []kvIn{{"get", "k1", ""}, {"get", "k2", ""}, {"getbad", "k1", ""}, {"put", "k1", "v1"}, {"put", "k1", "v2"}, {"put", "k2", "v1"}, {"delete", "k1", ""}, {"list", "", ""}}
	var seqs [][]kvIn
	maxOps := 2
	if c.Thorough() {
		maxOps = 3
	}
	var gen func(p []kvIn)
	gen = func(p []kvIn) {
		if len(p) > 0 {
			seqs = append(seqs, append([]kvIn{}, p...))
		}
		if len(p) == maxOps {
			return
		}
		for _, a := range alphabet {
			gen(append(p, a))
		}
	}
	gen(nil)
	runProg := func(t *core.T, progs [][]kvIn, fresh bool, name string, bound int) {
		t.NonTrivial()
		var hist []porcupine.Operation
		var store *samlidp.MemoryStore
		var hmu sync.Mutex
		mk := func() []func() {
			store = &samlidp.MemoryStore{}
			if !fresh {
				store.Put("k1", "v0")
			}
			hist = nil
			var bodies []func()
			for ci, prog := range progs {
				ci, prog := ci, prog
				bodies = append(bodies, func() {
					for _, in := range prog {
						h := sched.Hook()
						call := int64(h.Step())
						var out kvOut
						switch in.op {
						case "get":
							var v string
							err := store.Get(in.key, &v)
							out = kvOut{found: err == nil, val: v}
						case "getbad":
							var n int
							err := store.Get(in.key, &n)
							out = kvOut{found: err == nil}
						case "put":
							store.Put(in.key, in.val)
						case "delete":
							store.Delete(in.key)
						case "list":
							ks, _ := store.List(in.key)
							sort.Strings(ks)
							out = kvOut{keys: fmt.Sprintf("%d:%s", len(ks), strings.Join(ks, ","))}
						}
						ret := int64(h.Step())
						hmu.Lock()
						hist = append(hist, porcupine.Operation{ClientId: ci, Input: in, Call: call, Output: out, Return: ret})
						hmu.Unlock()
					}
				})
			}
			return bodies
		}
		model := kvModel
		if !fresh {
			model.Init = func() interface{} { return "k1=v0;" }
		}
		failed := false
		st := sched.Explore(mk, bound, 50000, func(x *sched.Execution, choices []int) bool {
			if x.Deadlock || len(x.Panics) > 0 {
				if !failed {
					failed = true
					t.Fail("C20/store/deadlock-or-panic", "program %s schedule %v: %s %v", name, choices, x.DeadlockMsg, x.Panics)
				}
				return true
			}
			if !porcupine.CheckOperations(model, hist) && !failed {
				failed = true
				var hs []string
				for _, o := range hist {
					hs = append(hs, fmt.Sprintf("c%d %v->%v [%d,%d]", o.ClientId, o.Input, o.Output, o.Call, o.Return))
				}
				cls := "populated-store"
				if fresh {
					cls = "zero-value-store"
				}
				t.Fail("C20/store/not-linearizable/"+cls, "program %s, schedule %v (%s): history %s is not linearizable with respect to a map", name, choices, strings.Join(x.Trace, " -> "), strings.Join(hs, "; "))
			}
			return true
		})
		note(st)
		t.Evals(st.Executions)
		t.Impl(st.Points)
		t.Compared()
		t.Sample(map[string]interface{}{"program": name, "schedules": st.Executions, "capped": st.Capped})
	}
	progName := func(ps [][]kvIn) string {
		var cs []string
		for _, p := range ps {
			var os []string
			for _, o := range p {
				os = append(os, o.op+":"+o.key+o.val)
			}
			cs = append(cs, strings.Join(os, ","))
		}
		return strings.Join(cs, " || ")
	}
	// List with prefixes that are shorter than, equal to and longer than stored keys: every single-client program of up to three
	// operations and every pair of single operations, over keys that are prefixes of one another
	{
		alpha2 := []kvIn{{"put", "a", "v1"}, {"put", "aa", "v2"}, {"put", "b", "v3"}, {"delete", "a", ""}, {"list", "", ""}, {"list", "a", ""}, {"list", "aa", ""}, {"list", "b", ""}, {"list", "k1", ""}, {"list", "k", ""}}
		var seqs2 [][]kvIn
		var gen2 func(p []kvIn)
		gen2 = func(p []kvIn) {
			if len(p) > 0 {
				seqs2 = append(seqs2, append([]kvIn{}, p...))
			}
			if len(p) == 3 {
				return
			}
			for _, a := range alpha2 {
				gen2(append(p, a))
			}
		}
		gen2(nil)
		for _, p := range seqs2 {
			if p[len(p)-1].op != "list" {
				continue // only a final List observes anything
			}
			for _, fresh := range []bool{false, true} {
				p, fresh := p, fresh
				ps := [][]kvIn{p}
				c.Case(fmt.Sprintf("store/1c-prefixes/fresh=%v/%s", fresh, progName(ps)), func(t *core.T) { runProg(t, ps, fresh, progName(ps), -1) })
			}
		}
		for i, a := range alpha2 {
			for j, b := range alpha2 {
				if j < i || a.op == "list" && b.op == "list" {
					continue
				}
				for _, fresh := range []bool{false, true} {
					fresh := fresh
					ps := [][]kvIn{{a}, {b}}
					c.Case(fmt.Sprintf("store/2c-prefixes/fresh=%v/%s", fresh, progName(ps)), func(t *core.T) { runProg(t, ps, fresh, progName(ps), -1) })
				}
			}
		}
	}
	// two clients
	for i, a := range seqs {
		for j, b := range seqs {
			if j < i {
				continue // symmetric
			}
			// keep programs that can conflict: at least one write
			if !hasWrite(a) && !hasWrite(b) {
				continue
			}
			for _, fresh := range []bool{false, true} {
				a, b, fresh := a, b, fresh
				ps := [][]kvIn{a, b}
				bound := -1 // single operations: every schedule
				if len(a)+len(b) > 2 {
					bound = 2
					if c.Thorough() {
						bound = 3
					}
				}
				c.Case(fmt.Sprintf("store/2c/fresh=%v/pb=%d/%s", fresh, bound, progName(ps)), func(t *core.T) { runProg(t, ps, fresh, progName(ps), bound) })
			}
		}
	}
	// three clients, one op each (quick) / up to two (thorough)
	var short [][]kvIn
	for _, s := range seqs {
		onK2 := false
		for _, o := range s {
			if o.key == "k2" {
				onK2 = true
			}
		}
		if onK2 {
			continue // three clients: colliding key and List only
		}
		if len(s) == 1 || (c.Thorough() && len(s) == 2) {
			short = append(short, s)
		}
	}
	for i, a := range short {
		for j, b := range short {
			for k, d := range short {
				if j < i || k < j || (c.Thorough() && len(a)+len(b)+len(d) > 4) {
					continue
				}
				if !hasWrite(a) && !hasWrite(b) && !hasWrite(d) {
					continue
				}
				for _, fresh := range []bool{false, true} {
					a, b, d, fresh := a, b, d, fresh
					ps := [][]kvIn{a, b, d}
					bound := -1
					if len(a)+len(b)+len(d) > 3 {
						bound = 2
					}
					c.Case(fmt.Sprintf("store/3c/fresh=%v/pb=%d/%s", fresh, bound, progName(ps)), func(t *core.T) { runProg(t, ps, fresh, progName(ps), bound) })
				}
			}
		}
	}
}

// c20BigStore: List over a store holding more keys than any batch size an implementation might walk at a time (300 fillers + tokens),
// concurrent with a writer that replaces token k-0 by k-1 one after the other. Any linearizable List shows, for every k, exactly one of the
// two - or both while the pair is being replaced - never neither. (Go's map iteration order is not under the scheduler's control: the
// schedules are enumerated exhaustively, the position of a key within one walk is whatever the runtime picks in that execution.)
func c20BigStore(c *core.Ctx, note func(sched.Stats)) {
	for _, nFill := range []int{300, 1000} {
		for _, pairs := range []int{1, 3} {
			nFill, pairs := nFill, pairs
			c.Case(fmt.Sprintf("store/big/fillers=%d/replaced-pairs=%d", nFill, pairs), func(t *core.T) {
				t.NonTrivial()
				var store *samlidp.MemoryStore
				var listed [][]string
				mk := func() []func() {
					store = &samlidp.MemoryStore{}
					for i := 0; i < nFill; i++ {
						store.Put(fmt.Sprintf("f/%04d", i), i)
					}
					for k := 0; k < 6; k++ {
						store.Put(fmt.Sprintf("tok/%d-0", k), k)
					}
					listed = nil
					return []func(){
						func() {
							for k := 0; k < pairs; k++ {
								store.Put(fmt.Sprintf("tok/%d-1", k), k)
								store.Delete(fmt.Sprintf("tok/%d-0", k))
							}
						},
						func() {
							for i := 0; i < 2; i++ {
								ks, _ := store.List("tok/")
								sort.Strings(ks)
								listed = append(listed, ks)
							}
						},
					}
				}
				failed := false
				st := sched.Explore(mk, 2, 20000, func(x *sched.Execution, choices []int) bool {
					if failed {
						return true
					}
					if x.Deadlock || len(x.Panics) > 0 {
						failed = true
						t.Fail("C20/store/deadlock-or-panic", "big store, schedule %v: %s %v", choices, x.DeadlockMsg, x.Panics)
						return true
					}
					for li, ks := range listed {
						have := map[string]bool{}
						for _, k := range ks {
							have[k] = true
						}
						for k := 0; k < 6; k++ {
							old, nw := have[fmt.Sprintf("%d-0", k)], have[fmt.Sprintf("%d-1", k)]
							if !old && !nw || k >= pairs && (!old || nw) {
								failed = true
								t.Fail("C20/store/not-linearizable/list-over-a-big-store", "schedule %v (%s): List #%d returned %v: token %d shows neither its old nor its new key (the new one is written before the old one is deleted), or a token that nobody touched is missing", choices, strings.Join(x.Trace, " -> "), li, ks, k)
								return true
							}
						}
						// pairs are replaced in order: once pair k shows its new key only, every earlier pair does too
						seenOld := false
						for k := 0; k < pairs; k++ {
							if have[fmt.Sprintf("%d-0", k)] {
								seenOld = true
							} else if seenOld {
								failed = true
								t.Fail("C20/store/not-linearizable/list-over-a-big-store", "schedule %v: List #%d returned %v: pair %d is already replaced although an earlier pair is not (replacement happens in order)", choices, li, ks, k)
								return true
							}
						}
					}
					return true
				})
				note(st)
				t.Evals(st.Executions)
				t.Impl(st.Points)
				t.Compared()
				t.Sample(map[string]interface{}{"program": "big-store", "schedules": st.Executions, "capped": st.Capped})
			})
		}
	}
}

func hasWrite(p []kvIn) bool {
	for _, o := range p {
		if o.op == "put" || o.op == "delete" {
			return true
		}
	}
	return false
}

// ---------- race pass ----------

var raceSite = regexp.MustCompile(`(?m)^\s+(github\.com/crewjam/saml[^\s(]*)\.([A-Za-z0-9_.()*]+)\(`)

func c20RacePass(t *core.T, c *core.Ctx) {
	t.NonTrivial()
	bin := "/verif/bin/racepass"
	if b := os.Getenv("VERIF_RACEPASS_BIN"); b != "" {
		bin = b
	}
	if _, err := os.Stat(bin); err != nil {
		t.Fail("C20/harness/racepass-missing", "bin/racepass was not built (run through ./run.sh C20)")
		return
	}
	reps := "10"
	if c.Thorough() {
		reps = "30"
	}
	cmd := exec.Command(bin, reps)
	cmd.Env = append(os.Environ(), "GORACE=halt_on_error=0", "GOMAXPROCS=8")
	out, err := cmd.CombinedOutput()
	t.Impl(1)
	txt := string(out)
	nRuns := strings.Count(txt, "RUN ")
	t.Evals(nRuns)
	reports := strings.Split(txt, "WARNING: DATA RACE")
	seen := map[string]bool{}
	for _, r := range reports[1:] {
		if end := strings.Index(r, "=================="); end >= 0 {
			r = r[:end]
		}
		var sites []string
		for _, m := range raceSite.FindAllStringSubmatch(r, -1) {
			f := m[1][strings.LastIndex(m[1], "/")+1:] + "." + strings.NewReplacer("(*", "", ")", "").Replace(m[2])
			if len(sites) == 0 || sites[len(sites)-1] != f {
				sites = append(sites, f)
			}
		}
		// first in-repo frame of each of the two stacks
		key := "unknown"
		if len(sites) > 0 {
			a := sites[0]
			b := a
			if i := strings.Index(r, "Previous "); i >= 0 {
				if m := raceSite.FindStringSubmatch(r[i:]); m != nil {
					b = m[1][strings.LastIndex(m[1], "/")+1:] + "." + strings.NewReplacer("(*", "", ")", "").Replace(m[2])
				}
			}
			pair := []string{a, b}
			sort.Strings(pair)
			key = pair[0] + "~" + pair[1]
		}
		if !seen[key] {
			seen[key] = true
			t.Fail("C20/data-race/"+key, "the race detector reports a data race in a free-running run:\nWARNING: DATA RACE%s", string(trunc([]byte(r), 2500)))
		}
	}
	if err != nil && len(reports) == 1 {
		if strings.Contains(txt, "DEADLOCK-TIMEOUT") {
			t.Fail("C20/racepass/hang", "a free-running scenario did not finish: %s", string(trunc(out, 1500)))
		} else if !strings.Contains(txt, "exit status 66") {
			t.Fail("C20/harness/racepass-failed", "racepass: %v\n%s", err, string(trunc(out, 1500)))
		}
	}
	t.Compared()
	t.Sample(map[string]interface{}{"free_running_runs": nRuns, "race_reports": len(reports) - 1})
}
