package checks

import (
	"bytes"
	"compress/flate"
	"compress/gzip"
	"compress/zlib"
	"context"
	"crypto/rsa"
	"encoding/base64"
	"encoding/xml"
	"errors"
	"fmt"
	"io"
	"net/http"
	"net/http/httptest"
	"net/url"
	"os"
	"runtime"
	"runtime/debug"
	"sort"
	"strings"
	"time"

	"github.com/beevik/etree"
	"github.com/crewjam/saml"
	"github.com/crewjam/saml/samlidp"
	"github.com/crewjam/saml/samlsp"

	"verif/engine/core"
	"verif/engine/harness"
	"verif/engine/samlgen"
	"verif/engine/xenc"
)

// C09 — message-consuming APIs are total.

type c09Part struct {
	name string
	rm   func(root *etree.Element)
}

func elPart(path string) c09Part {
	return c09Part{path, func(root *etree.Element) {
		if e := root.FindElement(path); e != nil && e.Parent() != nil {
			e.Parent().RemoveChild(e)
		}
	}}
}

func attrPart(path, attr string) c09Part {
	return c09Part{path + "@" + attr, func(root *etree.Element) {
		e := root
		if path != "." {
			e = root.FindElement(path)
		}
		if e != nil {
			e.RemoveAttr(attr)
		}
	}}
}

func c09ResponseParts() []c09Part {
	A := "./Assertion"
	return []c09Part{
		attrPart(".", "Destination"), attrPart(".", "InResponseTo"), attrPart(".", "IssueInstant"), attrPart(".", "Version"), attrPart(".", "ID"),
		elPart("./Issuer"), elPart("./Status"), elPart("./Status/StatusCode"), attrPart("./Status/StatusCode", "Value"),
		attrPart(A, "IssueInstant"), attrPart(A, "Version"), elPart(A + "/Issuer"), elPart(A + "/Subject"), elPart(A + "/Subject/NameID"),
		elPart(A + "/Subject/SubjectConfirmation"), elPart(A + "/Subject/SubjectConfirmation/SubjectConfirmationData"),
		attrPart(A+"/Subject/SubjectConfirmation/SubjectConfirmationData", "InResponseTo"),
		attrPart(A+"/Subject/SubjectConfirmation/SubjectConfirmationData", "Recipient"),
		attrPart(A+"/Subject/SubjectConfirmation/SubjectConfirmationData", "NotOnOrAfter"),
		elPart(A + "/Conditions"), attrPart(A+"/Conditions", "NotBefore"), attrPart(A+"/Conditions", "NotOnOrAfter"),
		elPart(A + "/Conditions/AudienceRestriction"), elPart(A + "/Conditions/AudienceRestriction/Audience"),
		elPart(A + "/AuthnStatement"), elPart(A + "/AuthnStatement/AuthnContext"), elPart(A + "/AttributeStatement"),
		attrPart(A+"/AttributeStatement/Attribute", "Name"), elPart(A + "/AttributeStatement/Attribute/AttributeValue"),
	}
}

// subsets enumerates all subsets of {0..n-1} with size <= k.
func subsets(n, k int, f func(sel []int)) {
	var sel []int
	var rec func(start int)
	rec = func(start int) {
		f(sel)
		if len(sel) == k {
			return
		}
		for i := start; i < n; i++ {
			sel = append(sel, i)
			rec(i + 1)
			sel = sel[:len(sel)-1]
		}
	}
	rec(0)
}

// guardWithin runs f under recover on its own goroutine and waits up to 20 s for it: a call that does not come back is a hang (the
// goroutine is abandoned; after three of them nothing further is started in this process, every later call is reported the same way).
var c09Hangs int

// c09Patience is how long a consuming call may take before it is reported as not returning. 20 s for ordinary inputs (they take
// milliseconds); the 100 000-step size ladder sets it to 15 minutes, because parsing cost that grows with the square of the nesting depth
// (about a minute for 100 000 levels on this machine) is slow, not a hang.
var c09Patience = 20 * time.Second

func guardWithin(f func()) (panicTrace string, hung bool) {
	if c09Hangs >= 3 {
		return "", true
	}
	var p string
	if !returnsWithin(c09Patience, func() { _, p = guard(func() error { f(); return nil }) }) {
		c09Hangs++
		return "", true
	}
	return p, false
}

// respContract checks the response-parsing API contract under recover.
func respContract(t *core.T, api, family string, f func() (*saml.Assertion, error)) (err error, panicked bool) {
	var a *saml.Assertion
	p, hung := guardWithin(func() { a, err = f() })
	t.Impl(1)
	if hung {
		t.Fail("C09/"+api+"/"+family+"/does-not-return", "%s has not returned after %s", api, c09Patience)
		t.Outcome("hang")
		return nil, true
	}
	if p != "" {
		site := p[strings.LastIndex(p, "@")+1:]
		t.Fail("C09/"+api+"/"+family+"/panic@"+site, "%s panicked: %s", api, p)
		t.Outcome("panic")
		return nil, true
	}
	if (a == nil) != (err != nil) {
		t.Fail("C09/"+api+"/assertion-xor-error", "assertion nil=%v but err=%v", a == nil, err)
	}
	if err != nil {
		if fmt.Sprintf("%T", err) != "*saml.InvalidResponseError" {
			t.Fail("C09/"+api+"/error-type", "error has dynamic type %T (%v), want *saml.InvalidResponseError", err, err)
		} else if err.Error() != "Authentication failed" {
			t.Fail("C09/"+api+"/error-text", "Error() = %q", err.Error())
		}
	}
	t.Compared()
	t.Outcome(harness.ErrClass(err))
	return err, false
}

// anyContract: value xor error, no panic, for non-response consumers.
func anyContract(t *core.T, api, family string, f func() (ok bool, err error)) (err error, panicked bool) {
	var ok bool
	p, hung := guardWithin(func() { ok, err = f() })
	t.Impl(1)
	if hung {
		t.Fail("C09/"+api+"/"+family+"/does-not-return", "%s has not returned after %s", api, c09Patience)
		t.Outcome("hang")
		return nil, true
	}
	if p != "" {
		site := p[strings.LastIndex(p, "@")+1:]
		t.Fail("C09/"+api+"/"+family+"/panic@"+site, "%s panicked: %s", api, p)
		t.Outcome("panic")
		return nil, true
	}
	if ok == (err != nil) {
		t.Fail("C09/"+api+"/value-xor-error", "value present=%v but err=%v", ok, err)
	}
	t.Compared()
	t.Outcome(outcomeOf(err, false))
	return err, false
}

func init() {
	Register(&Check{
		ID:     "C09",
		Engine: "lattice",
		Rule: "for each consumer (ParseXMLResponse, ParseResponse form+artifact, ParseXMLArtifactResponse, ValidateLogoutResponseForm/Redirect/Request, NewIdpAuthnRequest+Validate+ServeSSO, samlsp.ParseMetadata, samlidp PUT service, xml.Unmarshal of metadata): (1) every subset of <=k optional parts removed from a schema-valid message with a valid harness signature re-applied (and optionally encrypted); " +
			"(2) base64/deflate framings and inflate ladders 1MB..>10MB; (3) every prefix of fixtures, single element/attribute deletions and tag renames, rootless / non-UTF-8 / DTD / deep and wide documents; (4) every single fault of the artifact resolver (dial error, cancelled context, status codes, read error after k bytes for every k, every prefix of a valid reply, SOAP fault, wrong envelopes, lying Content-Length). " +
			"Oracle: no panic; response parsers return *InvalidResponseError with the constant text and assertion nil iff error; others value xor error; >10MB inflated is an error with bounded allocation. non-trivial = every case but the unmodified message",
		Bounds: func(tier string) string {
			if tier == "thorough" {
				return "part subsets of size <= 4 (Response+Assertion), all subsets for logout/request/artifact/metadata; every prefix of 6 fixtures; ladders to 1e5; bombs to 1 GB"
			}
			return "part subsets of size <= 3 (Response+Assertion, 29 parts x 3 layouts x plain/encrypted), all subsets for logout (2^9), AuthnRequest (2^9), ArtifactResponse (2^7), metadata; every 7th prefix of fixtures plus all prefixes of one; ladders to 1e4; bombs to 100 MB"
		},
		Assumptions: []string{"arbitrary byte strings beyond the enumerated families (no coverage-guided fuzzing - a different technique family)", "hang detection: a worker that does not finish is reported by the parent as a crash of the case it was running"},
		Run:         runC09,
		CapQuick:    8 * time.Minute,
		CapThorough: 25 * time.Minute,
	})
}

func runC09(c *core.Ctx) {
	g := harness.Pin(samlgen.T0)
	defer g.Restore()
	sp := harness.NewSP(harness.SPOpt{})
	ids := []string{samlgen.ReqID}

	// ---------- (1a) Response + Assertion optional-part subsets ----------
	c.Group("response-part-subsets")
	parts := c09ResponseParts()
	k := 3
	if c.Thorough() {
		k = 4
	}
	type lay struct {
		name           string
		signR, signA   bool
		enc, dropKInfo bool
	}
	lays := []lay{{"R", true, false, false, false}, {"A", false, true, false, false}, {"RA", true, true, false, false},
		{"R+enc", true, false, true, false}, {"A+enc", false, true, true, false}, {"A-noKeyInfo", false, true, false, true}}
	np := 0
	subsets(len(parts), k, func(sel []int) {
		c.Affinity(np)
		np++
		sel = append([]int{}, sel...)
		var names []string
		for _, i := range sel {
			names = append(names, parts[i].name)
		}
		label := strings.Join(names, ",")
		if label == "" {
			label = "none"
		}
		for _, l := range lays {
			l := l
			key := "resp-parts/" + l.name + "/-" + label
			c.Case(key, func(t *core.T) {
				if len(sel) > 0 {
					t.NonTrivial()
				}
				rel := samlgen.DefaultResponse().Element()
				ael := samlgen.DefaultAssertion().Element()
				rel.AddChild(ael)
				for _, i := range sel {
					parts[i].rm(rel)
				}
				if l.signA {
					s := samlgen.Sign(ael, idp1(), "")
					if l.dropKInfo {
						if ki := s.FindElement("./KeyInfo"); ki != nil {
							s.RemoveChild(ki)
						}
					}
				}
				if l.enc {
					rel.RemoveChild(ael)
					rel.AddChild(harness.EncryptAssertionEl(samlgen.Doc(ael), spKey(), "c09"))
				}
				if l.signR {
					samlgen.Sign(rel, idp1(), "")
				}
				doc := samlgen.Doc(rel)
				_, pan := respContract(t, "ParseXMLResponse", "signed-without-optional-parts", func() (*saml.Assertion, error) { return parseXML(sp, doc, ids) })
				if pan {
					t.Input("response_xml", string(doc))
				}
				_, pan = respContract(t, "ParseResponse-form", "signed-without-optional-parts", func() (*saml.Assertion, error) { return parseForm(sp, doc, ids) })
				if !l.enc {
					ar := harness.ArtifactResponseEl("id-artresp-1", "id-resolve-1", samlgen.TS(samlgen.T0), samlgen.S(samlgen.IDPEntity), samlgen.StatusOK, samlgen.Parse(doc))
					adoc := samlgen.Doc(harness.SoapEnvelope(ar))
					respContract(t, "ParseXMLArtifactResponse", "signed-without-optional-parts", func() (*saml.Assertion, error) {
						return sp.ParseXMLArtifactResponse(adoc, ids, "id-resolve-1", acsURL)
					})
				}
				t.Sample(map[string]interface{}{"case": key})
			})
		}
	})
	c.Affinity(-1)

	// ---------- (1b) ArtifactResponse wrapper parts: all subsets ----------
	c.Group("artifactresponse-part-subsets")
	arParts := []c09Part{attrPart(".", "InResponseTo"), attrPart(".", "IssueInstant"), attrPart(".", "Version"), elPart("./Issuer"), elPart("./Status"), elPart("./Status/StatusCode"), attrPart("./Status/StatusCode", "Value"), elPart("./Response")}
	subsets(len(arParts), len(arParts), func(sel []int) {
		sel = append([]int{}, sel...)
		var names []string
		for _, i := range sel {
			names = append(names, arParts[i].name)
		}
		for _, signed := range []bool{true, false} {
			signed := signed
			key := fmt.Sprintf("artresp-parts/signed=%v/-%s", signed, strings.Join(names, ","))
			c.Case(key, func(t *core.T) {
				t.NonTrivial()
				inner := harness.BuildResponse(samlgen.DefaultResponse(), []*samlgen.Assertion{samlgen.DefaultAssertion()}, harness.Layout{SignResponse: !signed}, idp1(), spKey())
				ar := harness.ArtifactResponseEl("id-artresp-1", "id-resolve-1", samlgen.TS(samlgen.T0), samlgen.S(samlgen.IDPEntity), samlgen.StatusOK, inner)
				for _, i := range sel {
					arParts[i].rm(ar)
				}
				if signed {
					samlgen.Sign(ar, idp1(), "")
				}
				doc := samlgen.Doc(harness.SoapEnvelope(ar))
				_, pan := respContract(t, "ParseXMLArtifactResponse", "artifactresponse-without-optional-parts", func() (*saml.Assertion, error) {
					return sp.ParseXMLArtifactResponse(doc, ids, "id-resolve-1", acsURL)
				})
				if pan {
					t.Input("soap_xml", string(doc))
				}
			})
		}
	})

	// ---------- (1c) LogoutResponse parts: all subsets, both encodings ----------
	c.Group("logout-part-subsets")
	lrParts := []c09Part{attrPart(".", "Destination"), attrPart(".", "InResponseTo"), attrPart(".", "IssueInstant"), attrPart(".", "Version"), attrPart(".", "ID"),
		elPart("./Issuer"), elPart("./Status"), elPart("./Status/StatusCode"), attrPart("./Status/StatusCode", "Value")}
	subsets(len(lrParts), len(lrParts), func(sel []int) {
		sel = append([]int{}, sel...)
		var names []string
		for _, i := range sel {
			names = append(names, lrParts[i].name)
		}
		for _, signed := range []bool{true, false} {
			signed := signed
			key := fmt.Sprintf("logout-parts/signed=%v/-%s", signed, strings.Join(names, ","))
			c.Case(key, func(t *core.T) {
				t.NonTrivial()
				el := logoutResponseEl(time.Now().UTC())
				for _, i := range sel {
					lrParts[i].rm(el)
				}
				if signed {
					samlgen.Sign(el, idp1(), "")
				}
				doc := samlgen.Doc(el)
				_, pan := anyContract(t, "ValidateLogoutResponseForm", "logout-without-optional-parts", func() (bool, error) {
					err := sp.ValidateLogoutResponseForm(b64(doc))
					return err == nil, err
				})
				if pan {
					t.Input("logout_xml", string(doc))
				}
				anyContract(t, "ValidateLogoutResponseRedirect", "logout-without-optional-parts", func() (bool, error) {
					err := sp.ValidateLogoutResponseRedirect(b64(deflate(doc)))
					return err == nil, err
				})
			})
		}
	})

	// ---------- (1d) AuthnRequest parts on the IdP: all subsets, both encodings ----------
	c.Group("authnrequest-part-subsets")
	spMD := spMetadataFor(sp)
	idp := harness.NewIDP("idp1", harness.SPRegistry{spMD.EntityID: spMD}, &saml.Session{ID: "s1", NameID: "alice", UserName: "alice", CreateTime: samlgen.T0, ExpireTime: samlgen.T0.Add(time.Hour), Index: "i1"})
	rqParts := []c09Part{attrPart(".", "Destination"), attrPart(".", "IssueInstant"), attrPart(".", "Version"), attrPart(".", "ID"), attrPart(".", "AssertionConsumerServiceURL"),
		attrPart(".", "ProtocolBinding"), elPart("./Issuer"), elPart("./NameIDPolicy"), attrPart("./NameIDPolicy", "Format")}
	subsets(len(rqParts), len(rqParts), func(sel []int) {
		sel = append([]int{}, sel...)
		var names []string
		for _, i := range sel {
			names = append(names, rqParts[i].name)
		}
		for _, enc := range []string{"GET", "POST"} {
			enc := enc
			key := fmt.Sprintf("authnreq-parts/%s/-%s", enc, strings.Join(names, ","))
			c.Case(key, func(t *core.T) {
				t.NonTrivial()
				ar, err := sp.MakeAuthenticationRequest(samlgen.IDPSSO, saml.HTTPRedirectBinding, saml.HTTPPostBinding)
				if err != nil {
					t.Fail("C09/harness/make-authn-request", "%v", err)
					return
				}
				el := ar.Element()
				for _, i := range sel {
					rqParts[i].rm(el)
				}
				doc := samlgen.Doc(el)
				mk := func() *http.Request { return idpRequest(enc, doc, "rs") }
				_, pan := anyContract(t, "IdpAuthnRequest.Validate", "request-without-optional-parts", func() (bool, error) {
					req, err := saml.NewIdpAuthnRequest(idp, mk())
					if err != nil {
						return false, err
					}
					err = req.Validate()
					return err == nil, err
				})
				if pan {
					t.Input("request_xml", string(doc))
				}
				_, p := guard(func() error { w := httptest.NewRecorder(); idp.ServeSSO(w, mk()); return nil })
				t.Impl(1)
				if p != "" {
					t.Fail("C09/ServeSSO/request-without-optional-parts/panic@"+p[strings.LastIndex(p, "@")+1:], "ServeSSO panicked: %s", p)
					t.Input("request_xml", string(doc))
				}
			})
		}
	})

	// ---------- (1d') optional parts ADDED to a valid request: attributes and children the schema allows and this SP never writes ----------
	c.Group("authnrequest-optional-parts-added")
	{
		spMD2 := spMetadataFor(sp)
		tr := true
		spMD2.SPSSODescriptors[0].AttributeConsumingServices = []saml.AttributeConsumingService{{Index: 1, IsDefault: &tr, RequestedAttributes: []saml.RequestedAttribute{{Attribute: saml.Attribute{Name: "email", NameFormat: "urn:oasis:names:tc:SAML:2.0:attrname-format:basic"}}}},
			{Index: 3, RequestedAttributes: []saml.RequestedAttribute{{Attribute: saml.Attribute{Name: "uid", NameFormat: "urn:oasis:names:tc:SAML:2.0:attrname-format:basic"}}}}}
		sess := &saml.Session{ID: "s1", NameID: "alice", UserName: "alice", UserEmail: "alice@example.com", CreateTime: samlgen.T0, ExpireTime: samlgen.T0.Add(time.Hour), Index: "i1"}
		idps := map[string]*saml.IdentityProvider{"sp-without-attribute-services": harness.NewIDP("idp1", harness.SPRegistry{spMD.EntityID: spMD}, sess), "sp-with-two-attribute-services": harness.NewIDP("idp1", harness.SPRegistry{spMD2.EntityID: spMD2}, sess)}
		type add struct{ name, attr, val, child string }
		var adds []add
		for _, v := range []string{"0", "1", "3", "7", "-1", "65535", "65536", "99999999999999999999", "x", "", " 1", "1.0", "+1"} {
			adds = append(adds, add{name: fmt.Sprintf("AttributeConsumingServiceIndex=%q", v), attr: "AttributeConsumingServiceIndex", val: v})
		}
		for _, v := range []string{"0", "1", "7", "-1", "99999999999999999999", "x", ""} {
			adds = append(adds, add{name: fmt.Sprintf("AssertionConsumerServiceIndex=%q", v), attr: "AssertionConsumerServiceIndex", val: v})
		}
		for _, a := range []string{"ForceAuthn", "IsPassive"} {
			for _, v := range []string{"true", "false", "1", "0", "x", ""} {
				adds = append(adds, add{name: fmt.Sprintf("%s=%q", a, v), attr: a, val: v})
			}
		}
		adds = append(adds, add{name: "ProviderName", attr: "ProviderName", val: "The \"SP\" <&>"}, add{name: "Consent", attr: "Consent", val: "urn:oasis:names:tc:SAML:2.0:consent:obtained"},
			add{name: "Subject", child: `<saml:Subject><saml:NameID Format="urn:oasis:names:tc:SAML:1.1:nameid-format:emailAddress">bob@example.com</saml:NameID></saml:Subject>`},
			add{name: "empty-Subject", child: `<saml:Subject/>`},
			add{name: "Conditions", child: `<saml:Conditions NotBefore="2000-01-01T00:00:00Z" NotOnOrAfter="2100-01-01T00:00:00Z"><saml:AudienceRestriction><saml:Audience>urn:x</saml:Audience></saml:AudienceRestriction></saml:Conditions>`},
			add{name: "empty-Conditions", child: `<saml:Conditions/>`},
			add{name: "RequestedAuthnContext", child: `<samlp:RequestedAuthnContext Comparison="exact"><saml:AuthnContextClassRef>urn:oasis:names:tc:SAML:2.0:ac:classes:X509</saml:AuthnContextClassRef></samlp:RequestedAuthnContext>`},
			add{name: "empty-RequestedAuthnContext", child: `<samlp:RequestedAuthnContext/>`},
			add{name: "Scoping", child: `<samlp:Scoping ProxyCount="0"><samlp:IDPList><samlp:IDPEntry ProviderID="urn:idp"/></samlp:IDPList><samlp:RequesterID>urn:r</samlp:RequesterID></samlp:Scoping>`},
			add{name: "empty-Scoping", child: `<samlp:Scoping/>`},
			add{name: "Extensions", child: `<samlp:Extensions><x:y xmlns:x="urn:x">z</x:y></samlp:Extensions>`},
			add{name: "empty-NameIDPolicy-second", child: `<samlp:NameIDPolicy/>`})
		for _, idpName := range []string{"sp-without-attribute-services", "sp-with-two-attribute-services"} { // (a fixed order: every worker enumerates the same cases)
			idp2 := idps[idpName]
			for ai := range adds {
				for bi := ai; bi < len(adds); bi++ {
					if bi != ai && !(strings.HasPrefix(adds[ai].name, "AttributeConsumingServiceIndex") && adds[bi].child != "") {
						continue // each addition alone; an attribute-service index also next to each added child
					}
					for _, enc := range []string{"GET", "POST"} {
						idpName, idp2, a, b, enc, alone := idpName, idp2, adds[ai], adds[bi], enc, ai == bi
						key := fmt.Sprintf("authnreq-added/%s/%s/%s", idpName, enc, a.name)
						if !alone {
							key += "+" + b.name
						}
						c.Case(key, func(t *core.T) {
							t.NonTrivial()
							ar, err := sp.MakeAuthenticationRequest(samlgen.IDPSSO, saml.HTTPRedirectBinding, saml.HTTPPostBinding)
							if err != nil {
								t.Fail("C09/harness/make-authn-request", "%v", err)
								return
							}
							el := ar.Element()
							for _, x := range []add{a, b} {
								if x.attr != "" {
									el.RemoveAttr(x.attr)
									el.CreateAttr(x.attr, x.val)
								} else if x.child != "" {
									frag := etree.NewDocument()
									if err := frag.ReadFromString(`<x xmlns:samlp="` + samlgen.NSProtocol + `" xmlns:saml="` + samlgen.NSAssertion + `">` + x.child + `</x>`); err == nil {
										for _, ch := range frag.Root().ChildElements() {
											el.AddChild(ch.Copy())
										}
									}
								}
								if alone {
									break
								}
							}
							doc := samlgen.Doc(el)
							mk := func() *http.Request { return idpRequest(enc, doc, "rs") }
							_, pan := anyContract(t, "IdpAuthnRequest.Validate", "request-with-optional-parts", func() (bool, error) {
								req, err := saml.NewIdpAuthnRequest(idp2, mk())
								if err != nil {
									return false, err
								}
								err = req.Validate()
								return err == nil, err
							})
							if pan {
								t.Input("request_xml", string(doc))
							}
							_, p := guard(func() error { w := httptest.NewRecorder(); idp2.ServeSSO(w, mk()); return nil })
							t.Impl(1)
							if p != "" {
								t.Fail("C09/ServeSSO/request-with-optional-parts/panic@"+p[strings.LastIndex(p, "@")+1:], "ServeSSO panicked: %s", p)
								t.Input("request_xml", string(doc))
							}
						})
					}
				}
			}
		}
	}

	// ---------- (1e) metadata parts ----------
	c.Group("metadata-part-subsets")
	mdParts := []c09Part{attrPart(".", "entityID"), attrPart(".", "validUntil"), elPart("./SPSSODescriptor"), elPart("./SPSSODescriptor/KeyDescriptor"), attrPart("./SPSSODescriptor/KeyDescriptor", "use"),
		elPart("./SPSSODescriptor/KeyDescriptor/KeyInfo"), elPart("./SPSSODescriptor/KeyDescriptor/KeyInfo/X509Data"), elPart("./SPSSODescriptor/KeyDescriptor/KeyInfo/X509Data/X509Certificate"),
		elPart("./SPSSODescriptor/AssertionConsumerService"), attrPart("./SPSSODescriptor/AssertionConsumerService", "Location"), attrPart("./SPSSODescriptor/AssertionConsumerService", "Binding"),
		attrPart("./SPSSODescriptor/AssertionConsumerService", "index"), elPart("./IDPSSODescriptor"), elPart("./IDPSSODescriptor/SingleSignOnService")}
	mdBase := func() *etree.Element {
		b, _ := xml.Marshal(spMD)
		root := samlgen.Parse(b)
		ib, _ := xml.Marshal(harness.IDPMetadata("meta1", "", ""))
		if idpd := samlgen.Parse(ib).FindElement("./IDPSSODescriptor"); idpd != nil {
			root.AddChild(idpd.Copy())
		}
		return root
	}
	mk := 4
	if c.Thorough() {
		mk = len(mdParts)
	}
	subsets(len(mdParts), mk, func(sel []int) {
		sel = append([]int{}, sel...)
		var names []string
		for _, i := range sel {
			names = append(names, mdParts[i].name)
		}
		for _, wrap := range []bool{false, true} {
			wrap := wrap
			key := fmt.Sprintf("metadata-parts/entities=%v/-%s", wrap, strings.Join(names, ","))
			c.Case(key, func(t *core.T) {
				t.NonTrivial()
				root := mdBase()
				for _, i := range sel {
					mdParts[i].rm(root)
				}
				if wrap {
					es := etree.NewElement("EntitiesDescriptor")
					es.CreateAttr("xmlns", "urn:oasis:names:tc:SAML:2.0:metadata")
					es.AddChild(root)
					root = es
				}
				doc := samlgen.Doc(root)
				c09Metadata(t, doc, "metadata-without-optional-parts", idp)
			})
		}
	})

	c09Framings(c, sp, idp)
	c09Bytes(c, sp, idp)
	c09Resolver(c, sp)
	c09Placements(c, sp)
	c09KeyInfoShapes(c)
	c09KeyPlacement(c, sp)
	c09KeyTransports(c, sp)
	c09EncryptedLengths(c, sp)
}

// c09Metadata pushes one metadata document through every metadata consumer, then registers it with an IdP and asks for a response.
func c09Metadata(t *core.T, doc []byte, family string, idp *saml.IdentityProvider) {
	// the parser runs under a watchdog: a document on which it does not return is a hang, not something to wait out
	type res struct {
		md  *saml.EntityDescriptor
		err error
		pan interface{}
	}
	ch := make(chan res, 1)
	go func() {
		defer func() {
			if r := recover(); r != nil {
				ch <- res{pan: fmt.Sprintf("%v\n%s", r, debug.Stack())}
			}
		}()
		md, err := samlsp.ParseMetadata(doc)
		ch <- res{md: md, err: err}
	}()
	var r res
	select {
	case r = <-ch:
	case <-time.After(c09Patience):
		t.Fail("C09/samlsp.ParseMetadata/"+family+"/does-not-return", "samlsp.ParseMetadata has not returned after %s on a %d-byte document", c09Patience, len(doc))
		t.Input("metadata_xml", string(trunc(doc, 4000)))
		return // (the stuck goroutine is abandoned; the worker process ends with the run)
	}
	if r.pan != nil {
		st := fmt.Sprint(r.pan)
		t.Fail("C09/samlsp.ParseMetadata/"+family+"/panic@"+core.PanicSite(st), "samlsp.ParseMetadata panicked: %s", trunc([]byte(st), 1500))
		t.Input("metadata_xml", string(trunc(doc, 4000)))
		return
	}
	// the bundled IdP server takes SP metadata as the body of PUT /services/{id}: it answers (201 or an error status), whatever the body
	if srv, serr := samlidp.New(samlidp.Options{URL: harness.MustURL("https://idp.example.com"), Key: samlgen.Key("idp1").Key, Certificate: samlgen.Key("idp1").Cert, Store: &samlidp.MemoryStore{}, Logger: harness.NullLogger{}}); serr == nil {
		var p string
		code := 0
		if !returnsWithin(c09Patience, func() {
			_, p = guard(func() error {
				w := httptest.NewRecorder()
				srv.ServeHTTP(w, httptest.NewRequest("PUT", "https://idp.example.com/services/x", bytes.NewReader(doc)))
				code = w.Code
				return nil
			})
		}) {
			t.Fail("C09/samlidp.PUT-service/"+family+"/does-not-return", "PUT /services/x has not returned after %s on a %d-byte body", c09Patience, len(doc))
			t.Input("metadata_xml", string(trunc(doc, 4000)))
			return
		}
		t.Impl(1)
		if p != "" {
			t.Fail("C09/samlidp.PUT-service/"+family+"/panic@"+p[strings.LastIndex(p, "@")+1:], "PUT /services/x panicked: %s", p)
			t.Input("metadata_xml", string(trunc(doc, 4000)))
		} else if code == 0 {
			t.Fail("C09/samlidp.PUT-service/"+family+"/no-reply", "PUT /services/x wrote no status")
		}
	}
	_, pan := anyContract(t, "samlsp.ParseMetadata", family, func() (bool, error) { return r.md != nil, r.err })
	if pan {
		t.Input("metadata_xml", string(trunc(doc, 4000)))
	}
	var parsed *saml.EntityDescriptor
	anyContract(t, "xml.Unmarshal-EntityDescriptor", family, func() (bool, error) {
		var ed saml.EntityDescriptor
		err := xml.Unmarshal(doc, &ed)
		if err == nil {
			parsed = &ed
		}
		return err == nil, err
	})
	anyContract(t, "xml.Unmarshal-EntitiesDescriptor", family, func() (bool, error) {
		var ed saml.EntitiesDescriptor
		err := xml.Unmarshal(doc, &ed)
		return err == nil, err
	})
	// an SP registered from this metadata must get a reply (response or error), never a panic
	if parsed != nil && idp != nil {
		reg := harness.SPRegistry{parsed.EntityID: parsed}
		idp2 := *idp
		idp2.ServiceProviderProvider = reg
		_, p := guard(func() error {
			w := httptest.NewRecorder()
			idp2.ServeIDPInitiated(w, httptest.NewRequest("GET", samlgen.IDPSSO, nil), parsed.EntityID, "rs")
			return nil
		})
		t.Impl(1)
		if p != "" {
			t.Fail("C09/ServeIDPInitiated/"+family+"/panic@"+p[strings.LastIndex(p, "@")+1:], "IdP panicked answering an SP registered from this metadata: %s", p)
			t.Input("metadata_xml", string(trunc(doc, 4000)))
		}
	}
}

func logoutResponseEl(issued time.Time) *etree.Element {
	el := etree.NewElement("samlp:LogoutResponse")
	el.CreateAttr("xmlns:samlp", samlgen.NSProtocol)
	el.CreateAttr("xmlns:saml", samlgen.NSAssertion)
	el.CreateAttr("ID", "id-logout-response-1")
	el.CreateAttr("Version", "2.0")
	el.CreateAttr("IssueInstant", samlgen.TS(issued))
	el.CreateAttr("Destination", samlgen.SPSlo)
	el.CreateAttr("InResponseTo", "id-logout-request-1")
	el.CreateElement("saml:Issuer").SetText(samlgen.IDPEntity)
	el.CreateElement("samlp:Status").CreateElement("samlp:StatusCode").CreateAttr("Value", samlgen.StatusOK)
	return el
}

func deflate(b []byte) []byte {
	var buf bytes.Buffer
	w, _ := flate.NewWriter(&buf, 9)
	w.Write(b)
	w.Close()
	return buf.Bytes()
}

func idpRequest(enc string, doc []byte, relay string) *http.Request {
	if enc == "GET" {
		q := url.Values{"SAMLRequest": {b64(deflate(doc))}, "RelayState": {relay}}
		return httptest.NewRequest("GET", samlgen.IDPSSO+"?"+q.Encode(), nil)
	}
	r := httptest.NewRequest("POST", samlgen.IDPSSO, strings.NewReader(url.Values{"SAMLRequest": {b64(doc)}, "RelayState": {relay}}.Encode()))
	r.Header.Set("Content-Type", "application/x-www-form-urlencoded")
	return r
}

// spMetadataFor re-parses the SP's own published metadata (what a registration would contain).
func spMetadataFor(sp *saml.ServiceProvider) *saml.EntityDescriptor {
	b, err := xml.Marshal(sp.Metadata())
	if err != nil {
		panic(err)
	}
	var ed saml.EntityDescriptor
	if err := xml.Unmarshal(b, &ed); err != nil {
		panic(err)
	}
	return &ed
}

// bomb returns a raw-deflate stream inflating to a well-formed AuthnRequest / LogoutResponse padded to n bytes.
// paddedFramed is paddedDeflate inside another container: "zlib" (RFC 1950), "gzip" (RFC 1952), "raw+trailing" (a complete raw stream
// followed by junk), "stored" (raw deflate made of stored blocks only: no compression at all).
func paddedFramed(kind, prefix, suffix string, n int) []byte {
	var buf bytes.Buffer
	var w io.WriteCloser
	switch kind {
	case "zlib":
		w, _ = zlib.NewWriterLevel(&buf, 1)
	case "gzip":
		w, _ = gzip.NewWriterLevel(&buf, 1)
	case "stored":
		w, _ = flate.NewWriter(&buf, flate.NoCompression)
	default:
		w, _ = flate.NewWriter(&buf, 1)
	}
	io.WriteString(w, prefix)
	pad := n - len(prefix) - len(suffix)
	chunk := bytes.Repeat([]byte("x"), 1<<16)
	for pad > 0 {
		m := len(chunk)
		if pad < m {
			m = pad
		}
		w.Write(chunk[:m])
		pad -= m
	}
	io.WriteString(w, suffix)
	w.Close()
	if kind == "raw+trailing" {
		buf.WriteString("trailing junk after the final block")
	}
	return buf.Bytes()
}

func paddedDeflate(prefix, suffix string, n int) []byte {
	var buf bytes.Buffer
	w, _ := flate.NewWriter(&buf, 1)
	io.WriteString(w, prefix)
	pad := n - len(prefix) - len(suffix)
	chunk := bytes.Repeat([]byte("x"), 1<<16)
	for pad > 0 {
		m := len(chunk)
		if pad < m {
			m = pad
		}
		w.Write(chunk[:m])
		pad -= m
	}
	io.WriteString(w, suffix)
	w.Close()
	return buf.Bytes()
}

func c09Framings(c *core.Ctx, sp *saml.ServiceProvider, idp *saml.IdentityProvider) {
	c.Group("framings")
	ids := []string{samlgen.ReqID}
	good := samlgen.Doc(harness.BuildResponse(samlgen.DefaultResponse(), []*samlgen.Assertion{samlgen.DefaultAssertion()}, harness.Layout{SignResponse: true}, idp1(), spKey()))
	std := base64.StdEncoding.EncodeToString(good)
	b64variants := map[string]string{
		"std": std, "urlsafe": base64.URLEncoding.EncodeToString(good), "rawstd": base64.RawStdEncoding.EncodeToString(good),
		"newlines76": wrap76(std), "leading-space": " " + std, "trailing-newline": std + "\n", "empty": "", "not-base64": "<<<>>>",
		"trunc-1": std[:len(std)-1], "trunc-2": std[:len(std)-2], "trunc-3": std[:len(std)-3], "trunc-4": std[:len(std)-4], "half": std[:len(std)/2],
		"double-encoded": base64.StdEncoding.EncodeToString([]byte(std)), "deflated": b64(deflate(good)), "nul-inside": std[:10] + "\x00" + std[10:],
	}
	for name, v := range b64variants {
		name, v := name, v
		c.Case("framing/response-form/"+name, func(t *core.T) {
			t.NonTrivial()
			err, _ := respContract(t, "ParseResponse-form", "base64-framing", func() (*saml.Assertion, error) {
				req := formRequest(samlgen.SPAcs, url.Values{"SAMLResponse": {v}})
				return sp.ParseResponse(req, ids)
			})
			if name == "std" && err != nil {
				t.Fail("C09/ParseResponse-form/rejects-valid", "standard base64 of a valid response rejected: %s", privErr(err))
			}
		})
	}
	// logout + IdP request framings
	lr := logoutResponseEl(time.Now().UTC())
	samlgen.Sign(lr, idp1(), "")
	lrDoc := samlgen.Doc(lr)
	var zl bytes.Buffer
	zw := zlib.NewWriter(&zl)
	zw.Write(lrDoc)
	zw.Close()
	lrFrames := map[string]string{"deflate": b64(deflate(lrDoc)), "zlib-wrapped": b64(zl.Bytes()), "not-deflated": b64(lrDoc), "truncated-stream": b64(deflate(lrDoc)[:len(deflate(lrDoc))/2]),
		"empty": "", "not-base64": "!!", "deflate-of-empty": b64(deflate(nil)), "deflate-of-rootless": b64(deflate([]byte("<!-- only a comment -->"))), "deflate-of-ws": b64(deflate([]byte("  \n "))),
		"deflate-of-pi": b64(deflate([]byte("<?xml version=\"1.0\"?>")))}
	for name, v := range lrFrames {
		name, v := name, v
		c.Case("framing/logout-redirect/"+name, func(t *core.T) {
			t.NonTrivial()
			err, pan := anyContract(t, "ValidateLogoutResponseRedirect", "framing", func() (bool, error) { e := sp.ValidateLogoutResponseRedirect(v); return e == nil, e })
			if name == "deflate" && !pan && err != nil {
				t.Fail("C09/ValidateLogoutResponseRedirect/rejects-valid", "valid deflated logout response rejected: %s", privErr(err))
			}
			anyContract(t, "ValidateLogoutResponseRequest", "framing", func() (bool, error) {
				r := httptest.NewRequest("GET", samlgen.SPSlo+"?"+url.Values{"SAMLResponse": {v}}.Encode(), nil)
				e := sp.ValidateLogoutResponseRequest(r)
				return e == nil, e
			})
		})
	}
	for name, v := range map[string]string{"plain": b64(lrDoc), "empty": "", "rootless-comment": b64([]byte("<!-- c -->")), "rootless-pi": b64([]byte("<?pi x?>")), "rootless-ws": b64([]byte(" \n")),
		"not-base64": "@@", "deflated": b64(deflate(lrDoc)), "two-roots": b64(append(append([]byte{}, lrDoc...), lrDoc...)), "text-only": b64([]byte("hello"))} {
		name, v := name, v
		c.Case("framing/logout-form/"+name, func(t *core.T) {
			t.NonTrivial()
			err, pan := anyContract(t, "ValidateLogoutResponseForm", "framing", func() (bool, error) { e := sp.ValidateLogoutResponseForm(v); return e == nil, e })
			if name == "plain" && !pan && err != nil {
				t.Fail("C09/ValidateLogoutResponseForm/rejects-valid", "valid logout response rejected: %s", privErr(err))
			}
			anyContract(t, "ValidateLogoutResponseRequest", "framing", func() (bool, error) {
				r := httptest.NewRequest("POST", samlgen.SPSlo, strings.NewReader(url.Values{"SAMLResponse": {v}}.Encode()))
				r.Header.Set("Content-Type", "application/x-www-form-urlencoded")
				e := sp.ValidateLogoutResponseRequest(r)
				return e == nil, e
			})
		})
	}

	// the text-level variants of base64 (unpadded, cut short by 1-4 characters, URL-safe alphabet, wrapped, blanks around, NUL inside) on
	// every other consumer of a base64 parameter: the logout validators (form and redirect) and the IdP's two request encodings
	textVariants := func(std string) map[string]string {
		raw, _ := base64.StdEncoding.DecodeString(std)
		return map[string]string{"unpadded": strings.TrimRight(std, "="), "urlsafe": base64.URLEncoding.EncodeToString(raw), "trunc-1": std[:len(std)-1], "trunc-2": std[:len(std)-2], "trunc-3": std[:len(std)-3],
			"trunc-5": std[:len(std)-5], "one-char": std[:1], "two-chars": std[:2], "three-chars": std[:3], "newlines76": wrap76(std), "leading-space": " " + std, "trailing-newline": std + "\n",
			"nul-inside": std[:10] + "\x00" + std[10:], "padding-only": "==", "extra-padding": std + "=="}
	}
	reqDoc := authnRequestXML(samlgen.S(samlgen.SPEntity), samlgen.S(samlgen.IDPSSO), samlgen.S("2.0"), samlgen.S(samlgen.TS(samlgen.T0)), nil, nil, "id-req-framing")
	for name, v := range textVariants(b64(lrDoc)) {
		name, v := name, v
		c.Case("framing/logout-form-base64-text/"+name, func(t *core.T) {
			t.NonTrivial()
			anyContract(t, "ValidateLogoutResponseForm", "base64-text", func() (bool, error) { e := sp.ValidateLogoutResponseForm(v); return e == nil, e })
			anyContract(t, "ValidateLogoutResponseRequest", "base64-text", func() (bool, error) {
				r := httptest.NewRequest("POST", samlgen.SPSlo, strings.NewReader(url.Values{"SAMLResponse": {v}}.Encode()))
				r.Header.Set("Content-Type", "application/x-www-form-urlencoded")
				e := sp.ValidateLogoutResponseRequest(r)
				return e == nil, e
			})
		})
	}
	for name, v := range textVariants(b64(deflate(lrDoc))) {
		name, v := name, v
		c.Case("framing/logout-redirect-base64-text/"+name, func(t *core.T) {
			t.NonTrivial()
			anyContract(t, "ValidateLogoutResponseRedirect", "base64-text", func() (bool, error) { e := sp.ValidateLogoutResponseRedirect(v); return e == nil, e })
		})
	}
	for name, v := range textVariants(b64(reqDoc)) {
		name, v := name, v
		c.Case("framing/idp-post-base64-text/"+name, func(t *core.T) {
			t.NonTrivial()
			anyContract(t, "NewIdpAuthnRequest-POST", "base64-text", func() (bool, error) {
				r := httptest.NewRequest("POST", samlgen.IDPSSO, strings.NewReader(url.Values{"SAMLRequest": {v}}.Encode()))
				r.Header.Set("Content-Type", "application/x-www-form-urlencoded")
				req, err := saml.NewIdpAuthnRequest(idp, r)
				if err == nil {
					err = req.Validate()
				}
				return err == nil, err
			})
		})
	}
	for name, v := range textVariants(b64(deflate(reqDoc))) {
		name, v := name, v
		c.Case("framing/idp-get-base64-text/"+name, func(t *core.T) {
			t.NonTrivial()
			anyContract(t, "NewIdpAuthnRequest-GET", "base64-text", func() (bool, error) {
				r := httptest.NewRequest("GET", samlgen.IDPSSO+"?"+url.Values{"SAMLRequest": {v}}.Encode(), nil)
				req, err := saml.NewIdpAuthnRequest(idp, r)
				if err == nil {
					err = req.Validate()
				}
				return err == nil, err
			})
		})
	}

	// inflate ladder on both bounded-inflate consumers
	c.Group("inflate-ladder")
	ar, _ := sp.MakeAuthenticationRequest(samlgen.IDPSSO, saml.HTTPRedirectBinding, saml.HTTPPostBinding)
	reqXML := string(samlgen.Doc(ar.Element()))
	cut := strings.Index(reqXML, ">") + 1
	prefix, suffix := reqXML[:cut]+"<!--", "-->"+reqXML[cut:]
	sizes := []int{1 << 20, 10*1024*1024 - 64*1024, 10*1024*1024 + 1, 11 * 1024 * 1024, 100 * 1024 * 1024}
	if c.Thorough() {
		sizes = append(sizes, 1<<30)
	}
	const limit = 10 * 1024 * 1024
	for _, n := range sizes {
		n := n
		c.Case(fmt.Sprintf("inflate/idp-get/%d", n), func(t *core.T) {
			t.NonTrivial()
			stream := paddedDeflate(prefix, suffix, n)
			anyContract(t, "NewIdpAuthnRequest", "inflate", func() (bool, error) {
				q := url.Values{"SAMLRequest": {b64(stream)}}
				r := httptest.NewRequest("GET", samlgen.IDPSSO+"?"+q.Encode(), nil)
				req, err := saml.NewIdpAuthnRequest(idp, r)
				if err == nil {
					err = req.Validate()
				}
				return err == nil, err
			})
			t.Outcome(fmt.Sprintf("inflate-%d", n))
		})
		c.Case(fmt.Sprintf("inflate/idp-get-verdict/%d", n), func(t *core.T) {
			t.NonTrivial()
			stream := paddedDeflate(prefix, suffix, n)
			q := url.Values{"SAMLRequest": {b64(stream)}}
			var ms0, ms1 runtime.MemStats
			runtime.ReadMemStats(&ms0)
			var err, verr error
			_, p := guard(func() error {
				r := httptest.NewRequest("GET", samlgen.IDPSSO+"?"+q.Encode(), nil)
				var req *saml.IdpAuthnRequest
				req, err = saml.NewIdpAuthnRequest(idp, r)
				if err == nil {
					verr = req.Validate()
				}
				return nil
			})
			runtime.ReadMemStats(&ms1)
			t.Impl(1)
			if p != "" {
				return // reported by the sibling case
			}
			alloc := ms1.TotalAlloc - ms0.TotalAlloc
			switch {
			case n > limit:
				t.Modelled(core.MustReject)
				if err == nil {
					t.Fail("C09/NewIdpAuthnRequest/inflate-limit-not-enforced", "a request inflating to %d bytes (> 10 MB) was decoded without error", n)
				}
				if alloc > 256<<20 {
					t.Fail("C09/NewIdpAuthnRequest/inflate-unbounded-allocation", "decoding a %d-byte bomb allocated %d MB", n, alloc>>20)
				}
			case n <= 1<<20:
				t.Modelled(core.MustAccept)
				if err != nil || verr != nil {
					t.Fail("C09/NewIdpAuthnRequest/rejects-1MB", "a valid request of %d inflated bytes was refused: %v / %v", n, err, verr)
				}
			default:
				t.Modelled(core.DontCare)
			}
		})
		// the same payload in other containers (some senders zlib- or gzip-compress instead of raw deflate): whatever the library makes of
		// them, more than 10 MB is never inflated and accepted
		for _, kind := range []string{"zlib", "gzip", "raw+trailing", "stored"} {
			if n > 48<<20 || kind == "stored" && n > 11<<20 {
				continue
			}
			kind := kind
			c.Case(fmt.Sprintf("inflate/idp-get/%s/%d", kind, n), func(t *core.T) {
				t.NonTrivial()
				stream := paddedFramed(kind, prefix, suffix, n)
				q := url.Values{"SAMLRequest": {b64(stream)}}
				var ms0, ms1 runtime.MemStats
				runtime.ReadMemStats(&ms0)
				var err error
				decoded := 0
				_, p := guard(func() error {
					r := httptest.NewRequest("GET", samlgen.IDPSSO+"?"+q.Encode(), nil)
					var req *saml.IdpAuthnRequest
					req, err = saml.NewIdpAuthnRequest(idp, r)
					if err == nil && req != nil {
						decoded = len(req.RequestBuffer)
						err = req.Validate()
					}
					return nil
				})
				runtime.ReadMemStats(&ms1)
				t.Impl(1)
				t.Compared()
				if p != "" {
					t.Fail("C09/NewIdpAuthnRequest/inflate-"+kind+"/panic@"+p[strings.LastIndex(p, "@")+1:], "panicked: %s", p)
					return
				}
				t.Outcome(fmt.Sprintf("framing-%s-accepted=%v", kind, err == nil))
				alloc := ms1.TotalAlloc - ms0.TotalAlloc
				if n > limit && (err == nil || decoded > limit) {
					t.Fail("C09/NewIdpAuthnRequest/inflate-limit-not-enforced/"+kind, "a %s-framed request of %d bytes on the wire inflating to %d bytes (> 10 MB) was decoded (%d bytes) and accepted=%v", kind, len(stream), n, decoded, err == nil)
				}
				if alloc > 256<<20 {
					t.Fail("C09/NewIdpAuthnRequest/inflate-unbounded-allocation/"+kind, "decoding a %s-framed %d-byte bomb allocated %d MB", kind, n, alloc>>20)
				}
			})
			c.Case(fmt.Sprintf("inflate/logout-redirect/%s/%d", kind, n), func(t *core.T) {
				t.NonTrivial()
				lr := string(lrDoc)
				cut := strings.Index(lr, ">") + 1
				stream := paddedFramed(kind, lr[:cut]+"<!--", "-->"+lr[cut:], n)
				var ms0, ms1 runtime.MemStats
				runtime.ReadMemStats(&ms0)
				err, pan := anyContract(t, "ValidateLogoutResponseRedirect", "inflate-"+kind, func() (bool, error) { e := sp.ValidateLogoutResponseRedirect(b64(stream)); return e == nil, e })
				runtime.ReadMemStats(&ms1)
				if pan {
					return
				}
				if n > limit && err == nil {
					t.Fail("C09/ValidateLogoutResponseRedirect/inflate-limit-not-enforced/"+kind, "a %s-framed logout response inflating to %d bytes was accepted", kind, n)
				}
				if alloc := ms1.TotalAlloc - ms0.TotalAlloc; alloc > 256<<20 {
					t.Fail("C09/ValidateLogoutResponseRedirect/inflate-unbounded-allocation/"+kind, "a %s-framed %d-byte bomb allocated %d MB", kind, n, alloc>>20)
				}
			})
		}
		c.Case(fmt.Sprintf("inflate/logout-redirect/%d", n), func(t *core.T) {
			t.NonTrivial()
			lr := string(lrDoc)
			cut := strings.Index(lr, ">") + 1
			stream := paddedDeflate(lr[:cut]+"<!--", "-->"+lr[cut:], n)
			var ms0, ms1 runtime.MemStats
			runtime.ReadMemStats(&ms0)
			err, pan := anyContract(t, "ValidateLogoutResponseRedirect", "inflate", func() (bool, error) { e := sp.ValidateLogoutResponseRedirect(b64(stream)); return e == nil, e })
			runtime.ReadMemStats(&ms1)
			alloc := ms1.TotalAlloc - ms0.TotalAlloc
			if pan {
				return
			}
			if n > limit {
				t.Modelled(core.MustReject)
				if err == nil {
					t.Fail("C09/ValidateLogoutResponseRedirect/inflate-limit-not-enforced", "a logout response inflating to %d bytes was accepted", n)
				}
				if alloc > 256<<20 {
					t.Fail("C09/ValidateLogoutResponseRedirect/inflate-unbounded-allocation", "a %d-byte bomb allocated %d MB", n, alloc>>20)
				}
			} else if n <= 1<<20 {
				t.Modelled(core.MustAccept)
				if err != nil {
					t.Fail("C09/ValidateLogoutResponseRedirect/rejects-1MB", "a valid signed logout response of %d inflated bytes was refused: %s", n, privErr(err))
				}
			}
		})
	}
}

// c09Placements: where and how a (possibly huge) payload reaches the response-consuming entry points: the form field, the query
// string, both, compressed or not. Whatever the library chooses to read, it must answer with the error contract and bounded allocation.
func c09Placements(c *core.Ctx, sp *saml.ServiceProvider) {
	c.Group("response-placements")
	ids := []string{samlgen.ReqID}
	good := samlgen.Doc(harness.BuildResponse(samlgen.DefaultResponse(), []*samlgen.Assertion{samlgen.DefaultAssertion()}, harness.Layout{SignResponse: true}, idp1(), spKey()))
	gs := string(good)
	cut := strings.Index(gs, ">") + 1
	sizes := []int{len(good), 11 * 1024 * 1024, 64 * 1024 * 1024}
	for _, n := range sizes {
		for _, enc := range []string{"plain", "deflated"} {
			if enc == "plain" && n > len(good) {
				continue // a multi-megabyte form value is bounded by net/http, not by this library
			}
			for _, place := range []string{"form", "query-only", "query-and-empty-form-field", "query-and-form", "query-only-GET"} {
				for _, api := range []string{"ParseResponse", "ValidateLogoutResponseRequest"} {
					n, enc, place, api := n, enc, place, api
					c.Case(fmt.Sprintf("placement/%s/%s/%s/%d", api, place, enc, n), func(t *core.T) {
						t.NonTrivial()
						var payload []byte
						switch {
						case enc == "plain":
							payload = good
						case n == len(good):
							payload = deflate(good)
						default:
							payload = paddedDeflate(gs[:cut]+"<!--", "-->"+gs[cut:], n)
						}
						v := b64(payload)
						target := samlgen.SPAcs
						if api != "ParseResponse" {
							target = samlgen.SPSlo
						}
						mk := func() *http.Request {
							q := "?" + url.Values{"SAMLResponse": {v}}.Encode()
							var r *http.Request
							switch place {
							case "form":
								r = httptest.NewRequest("POST", target, strings.NewReader(url.Values{"SAMLResponse": {v}}.Encode()))
							case "query-only":
								r = httptest.NewRequest("POST", target+q, strings.NewReader(url.Values{"RelayState": {"x"}}.Encode()))
							case "query-and-empty-form-field":
								r = httptest.NewRequest("POST", target+q, strings.NewReader(url.Values{"SAMLResponse": {""}}.Encode()))
							case "query-and-form":
								r = httptest.NewRequest("POST", target+q, strings.NewReader(url.Values{"SAMLResponse": {b64(good)}}.Encode()))
							default:
								return httptest.NewRequest("GET", target+q, nil)
							}
							r.Header.Set("Content-Type", "application/x-www-form-urlencoded")
							return r
						}
						var ms0, ms1 runtime.MemStats
						runtime.GC()
						runtime.ReadMemStats(&ms0)
						var pan bool
						if api == "ParseResponse" {
							_, pan = respContract(t, "ParseResponse-placement", place+"/"+enc, func() (*saml.Assertion, error) { return sp.ParseResponse(mk(), ids) })
						} else {
							_, pan = anyContract(t, "ValidateLogoutResponseRequest-placement", place+"/"+enc, func() (bool, error) {
								e := sp.ValidateLogoutResponseRequest(mk())
								return e == nil, e
							})
						}
						runtime.ReadMemStats(&ms1)
						if pan {
							return
						}
						alloc := ms1.TotalAlloc - ms0.TotalAlloc
						t.Outcome(fmt.Sprintf("alloc<=%dMB", 1<<uint(bitsFor(alloc>>20))))
						// the request itself (base64 of the stream) is small; 10 MB of permitted inflation plus parsing overhead stays far below this
						if n > 10*1024*1024 && alloc > 256<<20 {
							t.Fail("C09/"+api+"/inflate-unbounded-allocation/"+place, "a %d-byte request value placed as %s inflating to %d bytes made %s allocate %d MB", len(v), place, n, api, alloc>>20)
						}
					})
				}
			}
		}
	}
}

func bitsFor(x uint64) int {
	n := 0
	for x > 0 {
		n++
		x >>= 1
	}
	return n
}

// c09EncryptedLengths: an EncryptedAssertion whose key genuinely unwraps with the SP key (anybody holding the SP's public certificate can
// build one) and whose data CipherValue has every small length around the block boundaries, for every block algorithm.
func c09EncryptedLengths(c *core.Ctx, sp *saml.ServiceProvider) {
	c.Group("encrypted-assertion-ciphertext-lengths")
	ids := []string{samlgen.ReqID}
	pt := samlgen.Doc(func() *etree.Element {
		a := samlgen.DefaultAssertion().Element()
		samlgen.Sign(a, idp1(), "")
		return a
	}())
	for _, alg := range []string{xenc.AES128CBC, xenc.AES192CBC, xenc.AES256CBC, xenc.TDESCBC, xenc.AES128GCM} {
		for _, kt := range []xenc.KeyTransport{{Alg: xenc.OAEPMGF1P, DigestURI: "http://www.w3.org/2000/09/xmldsig#sha1"}, {Alg: xenc.RSA15}} {
			for _, n := range []int{-1, 0, 1, 7, 8, 9, 11, 12, 13, 15, 16, 17, 23, 24, 25, 27, 28, 29, 31, 32, 33, 47, 48, 49} {
				for _, lay := range []harness.Layout{{SignAssertion: true}, {SignResponse: true}} {
					alg, kt, n, lay := alg, kt, n, lay
					key := fmt.Sprintf("enclen/%s/%s/len=%d/lay=%s", alg[strings.LastIndexAny(alg, "#")+1:], kt.Alg[strings.LastIndexAny(kt.Alg, "#")+1:], n, lay)
					c.Case(key, func(t *core.T) {
						t.NonTrivial()
						ed, err := xenc.Encrypt(alg, kt, &spKey().Key.(*rsa.PrivateKey).PublicKey, spKey().CertB64, harness.NewCtr(key), pt)
						if err != nil {
							t.Fail("C09/harness", "cannot encrypt: %v", err)
							return
						}
						cv := ed.FindElement("./CipherData/CipherValue")
						full, _ := base64.StdEncoding.DecodeString(cv.Text())
						switch {
						case n == 0:
							cv.SetText("")
						case n > 0 && n <= len(full):
							cv.SetText(b64(full[:n]))
						}
						ea := etree.NewElement("saml:EncryptedAssertion")
						ea.CreateAttr("xmlns:saml", samlgen.NSAssertion)
						ea.AddChild(ed)
						resp := samlgen.DefaultResponse().Element()
						resp.AddChild(ea)
						if lay.SignResponse {
							samlgen.Sign(resp, idp1(), "")
						}
						doc := samlgen.Doc(resp)
						e, pan := respContract(t, "ParseXMLResponse-encrypted", "ciphertext-length", func() (*saml.Assertion, error) { return parseXML(sp, doc, ids) })
						if !pan && n == -1 && e != nil && alg != xenc.AES128GCM {
							t.Fail("C09/ParseXMLResponse-encrypted/rejects-valid/"+alg[strings.LastIndexAny(alg, "#")+1:], "an untruncated, correctly encrypted and signed assertion is rejected: %s", privErr(e))
						}
					})
				}
			}
		}
	}
}

// c09KeyInfoShapes: every shape of the signature's KeyInfo (which no signature covers, so anybody can rewrite it) under every
// way the SP can be told whom to trust. The code that picks certificates differs per configuration and runs before any cryptography.
func c09KeyInfoShapes(c *core.Ctx) {
	c.Group("keyinfo-shapes-x-trust-configurations")
	ids := []string{samlgen.ReqID}
	cert := idp1().CertB64
	shapes := []struct {
		name string
		f    func(ki *etree.Element, sig *etree.Element)
	}{
		{"unchanged", func(ki, sig *etree.Element) {}},
		{"keyinfo-removed", func(ki, sig *etree.Element) { sig.RemoveChild(ki) }},
		{"keyinfo-empty", func(ki, sig *etree.Element) { ki.Child = nil }},
		{"x509data-empty", func(ki, sig *etree.Element) { ki.FindElement("./X509Data").Child = nil }},
		{"certificate-element-empty", func(ki, sig *etree.Element) { ki.FindElement("./X509Data/X509Certificate").Child = nil }},
		{"certificate-whitespace-only", func(ki, sig *etree.Element) { ki.FindElement("./X509Data/X509Certificate").SetText(" \n ") }},
		{"certificate-not-base64", func(ki, sig *etree.Element) { ki.FindElement("./X509Data/X509Certificate").SetText("!!!") }},
		{"certificate-base64-of-garbage", func(ki, sig *etree.Element) {
			ki.FindElement("./X509Data/X509Certificate").SetText(b64([]byte("not a certificate")))
		}},
		{"certificate-truncated", func(ki, sig *etree.Element) { ki.FindElement("./X509Data/X509Certificate").SetText(cert[:len(cert)/2]) }},
		{"certificate-with-comment-child", func(ki, sig *etree.Element) {
			x := ki.FindElement("./X509Data/X509Certificate")
			x.Child = nil
			x.CreateComment("c")
			x.CreateText(cert)
		}},
		{"certificate-with-element-child", func(ki, sig *etree.Element) {
			x := ki.FindElement("./X509Data/X509Certificate")
			x.Child = nil
			x.CreateElement("ds:X").SetText(cert)
		}},
		{"two-certificates", func(ki, sig *etree.Element) {
			ki.FindElement("./X509Data").CreateElement("ds:X509Certificate").SetText(samlgen.Key("attacker").CertB64)
		}},
		{"two-certificates-first-empty", func(ki, sig *etree.Element) {
			xd := ki.FindElement("./X509Data")
			e := etree.NewElement("ds:X509Certificate")
			xd.InsertChildAt(0, e)
		}},
		{"two-x509data", func(ki, sig *etree.Element) {
			ki.CreateElement("ds:X509Data").CreateElement("ds:X509Certificate").SetText(cert)
		}},
		{"keyname-only", func(ki, sig *etree.Element) { ki.Child = nil; ki.CreateElement("ds:KeyName").SetText("idp") }},
		{"rsakeyvalue-only", func(ki, sig *etree.Element) {
			ki.Child = nil
			kv := ki.CreateElement("ds:KeyValue").CreateElement("ds:RSAKeyValue")
			kv.CreateElement("ds:Modulus").SetText("AQAB")
			kv.CreateElement("ds:Exponent").SetText("AQAB")
		}},
		{"x509-issuer-serial-only", func(ki, sig *etree.Element) {
			xd := ki.FindElement("./X509Data")
			xd.Child = nil
			is := xd.CreateElement("ds:X509IssuerSerial")
			is.CreateElement("ds:X509IssuerName").SetText("CN=x")
			is.CreateElement("ds:X509SerialNumber").SetText("1")
		}},
		{"two-keyinfo", func(ki, sig *etree.Element) { sig.AddChild(ki.Copy()) }},
		// siblings of the Signature that merely share its local name (another namespace), with a KeyInfo of their own: with and without a
		// certificate left in the real KeyInfo
		{"foreign-namespace-Signature-sibling-with-KeyInfo", func(ki, sig *etree.Element) {
			f := etree.NewElement("foreign:Signature")
			f.CreateAttr("xmlns:foreign", "urn:example:not-dsig")
			f.CreateElement("foreign:KeyInfo").CreateElement("foreign:X509Data")
			sig.Parent().InsertChildAt(sig.Index()+1, f)
		}},
		{"foreign-namespace-Signature-sibling-with-KeyInfo+real-keyinfo-names-no-certificate", func(ki, sig *etree.Element) {
			ki.Child = nil
			ki.CreateElement("ds:KeyName").SetText("idp")
			f := etree.NewElement("foreign:Signature")
			f.CreateAttr("xmlns:foreign", "urn:example:not-dsig")
			f.CreateElement("foreign:KeyInfo").CreateElement("foreign:KeyName").SetText("x")
			sig.Parent().InsertChildAt(sig.Index(), f)
		}},
		{"foreign-namespace-Signature-sibling-before+real-keyinfo-removed", func(ki, sig *etree.Element) {
			sig.RemoveChild(ki)
			f := etree.NewElement("foreign:Signature")
			f.CreateAttr("xmlns:foreign", "urn:example:not-dsig")
			f.CreateElement("foreign:KeyInfo")
			sig.Parent().InsertChildAt(sig.Index(), f)
		}},
		{"certificate-is-attackers", func(ki, sig *etree.Element) {
			ki.FindElement("./X509Data/X509Certificate").SetText(samlgen.Key("attacker").CertB64)
		}},
	}
	trusts := []string{"meta1", "meta2", "metanouse", "fingerprint", "pinned", "metaenconly", "metaemptysign"}
	sps := map[string]*saml.ServiceProvider{}
	for _, tr := range trusts {
		sps[tr] = harness.NewSP(harness.SPOpt{Trust: tr})
	}
	// a fingerprint configuration whose algorithm is unknown, and one where only the fingerprint is set
	fpBad := harness.NewSP(harness.SPOpt{Trust: "fingerprint"})
	bad := "urn:example:no-such-digest"
	fpBad.IDPCertificateFingerprintAlgorithm = &bad
	sps["fingerprint-unknown-algorithm"] = fpBad
	fpOnly := harness.NewSP(harness.SPOpt{Trust: "fingerprint"})
	fpOnly.IDPCertificateFingerprintAlgorithm = nil
	sps["fingerprint-without-algorithm"] = fpOnly
	pinBad := harness.NewSP(harness.SPOpt{Trust: "pinned"})
	junk := "not a certificate"
	pinBad.IDPCertificate = &junk
	sps["pinned-garbage"] = pinBad
	trusts = append(trusts, "fingerprint-unknown-algorithm", "fingerprint-without-algorithm", "pinned-garbage")
	// IdP metadata whose only signing certificate does not parse (truncated / not base64 / base64 of garbage), and one good after one bad
	for name, certs := range map[string][]string{"meta-truncated-cert": {cert[:64]}, "meta-not-base64-cert": {"@@@"}, "meta-garbage-cert": {b64([]byte("garbage"))}, "meta-bad-then-good-cert": {cert[:64], cert}} {
		sp := harness.NewSP(harness.SPOpt{Trust: "meta1"})
		var kds []saml.KeyDescriptor
		for _, cs := range certs {
			kds = append(kds, saml.KeyDescriptor{Use: "signing", KeyInfo: saml.KeyInfo{X509Data: saml.X509Data{X509Certificates: []saml.X509Certificate{{Data: cs}}}}})
		}
		sp.IDPMetadata.IDPSSODescriptors[0].KeyDescriptors = kds
		sps[name] = sp
		trusts = append(trusts, name)
	}
	sort.Strings(trusts[len(trusts)-4:])

	for _, kind := range []string{"response/R", "response/A", "artifact", "logout-form", "logout-redirect"} {
		for _, sh := range shapes {
			for _, tr := range trusts {
				kind, sh, tr := kind, sh, tr
				c.Case(fmt.Sprintf("keyinfo/%s/%s/trust=%s", kind, sh.name, tr), func(t *core.T) {
					t.NonTrivial()
					sp := sps[tr]
					var root *etree.Element
					switch kind {
					case "response/R", "artifact":
						root = harness.BuildResponse(samlgen.DefaultResponse(), []*samlgen.Assertion{samlgen.DefaultAssertion()}, harness.Layout{SignResponse: true}, idp1(), spKey())
					case "response/A":
						root = harness.BuildResponse(samlgen.DefaultResponse(), []*samlgen.Assertion{samlgen.DefaultAssertion()}, harness.Layout{SignAssertion: true}, idp1(), spKey())
					default:
						root = logoutResponseEl(time.Now().UTC())
						samlgen.Sign(root, idp1(), "")
					}
					holder := etree.NewDocument()
					holder.SetRoot(root)
					n := 0
					for _, sig := range findNS(root, samlgen.NSDsig, "Signature") {
						if ki := sig.FindElement("./KeyInfo"); ki != nil {
							func() {
								defer func() { recover() }() // a shape that does not apply to this signature
								sh.f(ki, sig)
								n++
							}()
						}
					}
					doc := samlgen.Doc(root)
					fam := "keyinfo/" + sh.name + "/" + tr
					switch kind {
					case "response/R", "response/A":
						respContract(t, "ParseXMLResponse", fam, func() (*saml.Assertion, error) { return parseXML(sp, doc, ids) })
					case "artifact":
						ar := samlgen.Doc(harness.SoapEnvelope(harness.ArtifactResponseEl("id-artresp-1", "id-resolve-1", samlgen.TS(samlgen.T0), samlgen.S(samlgen.IDPEntity), samlgen.StatusOK, samlgen.Parse(doc))))
						respContract(t, "ParseXMLArtifactResponse", fam, func() (*saml.Assertion, error) { return sp.ParseXMLArtifactResponse(ar, ids, "id-resolve-1", acsURL) })
					case "logout-form":
						anyContract(t, "ValidateLogoutResponseForm", fam, func() (bool, error) { e := sp.ValidateLogoutResponseForm(b64(doc)); return e == nil, e })
					case "logout-redirect":
						anyContract(t, "ValidateLogoutResponseRedirect", fam, func() (bool, error) { e := sp.ValidateLogoutResponseRedirect(b64(deflate(doc))); return e == nil, e })
					}
					if t.Failed() {
						t.Input("input", string(trunc(doc, 6000)))
					}
				})
			}
		}
	}
}

// c09KeyPlacement: where the EncryptedKey of an EncryptedAssertion sits and how EncryptedData refers to it (all of it attacker-written,
// outside every signature): embedded in KeyInfo, a sibling referenced by RetrievalMethod with every kind of URI, a sibling without
// reference, both. The genuine arrangements must decrypt; none may panic.
func c09KeyPlacement(c *core.Ctx, sp *saml.ServiceProvider) {
	c.Group("encrypted-assertion-key-placement")
	ids := []string{samlgen.ReqID}
	pt := samlgen.Doc(func() *etree.Element {
		a := samlgen.DefaultAssertion().Element()
		samlgen.Sign(a, idp1(), "")
		return a
	}())
	uris := []string{"#ek1", "", "#", "ek1", "#other", "#it's", "#'", "#\"", "#ek1'", "#key[1", "#a]b", "#[", "#]", "#ek1[@x='y']", "#//*", "#ek1 or 1=1", "#(", "#)", "#*", "#@", "#ek1/../x", "#\\", "#" + strings.Repeat("k", 5000), "#\u00e9\u4e2d", "##ek1", "#ek1#", "http://example.com/key#ek1", "#%27"}
	ekIDs := []string{"ek1", "", "it's", "key[1", "a b"}
	kt := xenc.KeyTransport{Alg: xenc.OAEPMGF1P, DigestURI: "http://www.w3.org/2000/09/xmldsig#sha1"}
	for _, place := range []string{"embedded", "sibling+retrievalmethod", "sibling-only", "embedded+sibling", "retrievalmethod-only"} {
		for ui, uri := range uris {
			for _, ekID := range ekIDs {
				if place != "sibling+retrievalmethod" && place != "retrievalmethod-only" && ui > 0 {
					continue
				}
				if ekID != "ek1" && ui > 1 && uri != "#"+ekID {
					continue // other Id values with the default URI and with the URI that names them
				}
				place, uri, ekID := place, uri, ekID
				key := fmt.Sprintf("keyplace/%s/uri=%+q/id=%+q", place, truncStr(uri, 24), ekID)
				c.Case(key, func(t *core.T) {
					t.NonTrivial()
					ed, err := xenc.Encrypt(xenc.AES128CBC, kt, &spKey().Key.(*rsa.PrivateKey).PublicKey, spKey().CertB64, harness.NewCtr(key), pt)
					if err != nil {
						t.Fail("C09/harness", "cannot encrypt: %v", err)
						return
					}
					ki := ed.FindElement("./KeyInfo")
					ek := ki.FindElement("./EncryptedKey")
					if ekID != "" {
						ek.CreateAttr("Id", ekID)
					}
					ea := etree.NewElement("saml:EncryptedAssertion")
					ea.CreateAttr("xmlns:saml", samlgen.NSAssertion)
					ea.AddChild(ed)
					rm := func() {
						r := etree.NewElement("ds:RetrievalMethod")
						r.CreateAttr("Type", "http://www.w3.org/2001/04/xmlenc#EncryptedKey")
						r.CreateAttr("URI", uri)
						ki.AddChild(r)
					}
					switch place {
					case "sibling+retrievalmethod":
						ki.RemoveChild(ek)
						rm()
						ea.AddChild(ek)
					case "sibling-only":
						ki.RemoveChild(ek)
						ea.AddChild(ek)
					case "embedded+sibling":
						ea.AddChild(ek.Copy())
					case "retrievalmethod-only":
						ki.RemoveChild(ek)
						rm()
					}
					resp := samlgen.DefaultResponse().Element()
					resp.AddChild(ea)
					doc := samlgen.Doc(resp)
					e, pan := respContract(t, "ParseXMLResponse-encrypted", "key-placement", func() (*saml.Assertion, error) { return parseXML(sp, doc, ids) })
					genuine := place == "embedded" || (place == "sibling+retrievalmethod" && uri == "#"+ekID && ekID != "") || place == "embedded+sibling"
					if !pan && genuine && e != nil && place == "embedded" {
						t.Fail("C09/ParseXMLResponse-encrypted/rejects-valid/key-placement", "%s: a correctly encrypted and signed assertion is rejected: %s", key, privErr(e))
					}
					if t.Failed() {
						t.Input("input", string(trunc(doc, 6000)))
					}
				})
			}
		}
	}
}

// c09KeyTransports: what the EncryptedKey of an EncryptedAssertion declares about how the key was wrapped - transport algorithm x
// DigestMethod x MGF, all attacker-written and outside every signature. Where the independent implementation can wrap that way it does;
// otherwise a SHA-1-wrapped key is sent under the other declaration. Every combination gets an answer (assertion or error); the
// plain SHA-1 arrangements decrypt.
func c09KeyTransports(c *core.Ctx, sp *saml.ServiceProvider) {
	c.Group("encrypted-assertion-key-transport-declarations")
	ids := []string{samlgen.ReqID}
	pt := samlgen.Doc(func() *etree.Element {
		a := samlgen.DefaultAssertion().Element()
		samlgen.Sign(a, idp1(), "")
		return a
	}())
	algs := []string{xenc.OAEPMGF1P, xenc.OAEP11, xenc.RSA15, "http://www.w3.org/2001/04/xmlenc#rsa-oaep", ""}
	digests := []string{"", "http://www.w3.org/2000/09/xmldsig#sha1", "http://www.w3.org/2000/09/xmldsig#sha256", "http://www.w3.org/2000/09/xmldsig#sha512", "http://www.w3.org/2000/09/xmldsig#ripemd160",
		"http://www.w3.org/2001/04/xmlenc#sha256", "http://www.w3.org/2001/04/xmlenc#sha512", "http://www.w3.org/2001/04/xmlenc#ripemd160", "http://www.w3.org/2001/04/xmldsig-more#sha384", "http://www.w3.org/2001/04/xmldsig-more#sha224",
		"http://www.w3.org/2001/04/xmldsig-more#md5", "http://www.w3.org/2007/05/xmldsig-more#sha3-256", "urn:unknown:digest", "\x00absent-attribute", " http://www.w3.org/2000/09/xmldsig#sha1 "}
	mgfs := []string{"", "http://www.w3.org/2009/xmlenc11#mgf1sha1", "http://www.w3.org/2009/xmlenc11#mgf1sha256", "http://www.w3.org/2009/xmlenc11#mgf1sha512", "http://www.w3.org/2009/xmlenc11#mgf1sha224", "urn:unknown:mgf"}
	for ai, alg := range algs {
		for di, dg := range digests {
			for mi, mgf := range mgfs {
				if mi > 0 && ai > 1 && di > 1 {
					continue
				}
				alg, dg, mgf := alg, dg, mgf
				key := fmt.Sprintf("keytransport/alg=%d/digest=%d/mgf=%d", ai, di, mi)
				c.Case(key, func(t *core.T) {
					t.NonTrivial()
					pub := &spKey().Key.(*rsa.PrivateKey).PublicKey
					declared := xenc.KeyTransport{Alg: alg, DigestURI: dg, MGFURI: mgf}
					real := true
					ed, err := xenc.Encrypt(xenc.AES128CBC, declared, pub, spKey().CertB64, harness.NewCtr(key), pt)
					if err != nil || dg == "\x00absent-attribute" {
						real = false
						ed, err = xenc.Encrypt(xenc.AES128CBC, xenc.KeyTransport{Alg: xenc.OAEPMGF1P, DigestURI: "http://www.w3.org/2000/09/xmldsig#sha1"}, pub, spKey().CertB64, harness.NewCtr(key), pt)
						if err != nil {
							t.Fail("C09/harness", "cannot encrypt: %v", err)
							return
						}
						// same wrapped key, the other declaration
						ek := ed.FindElement("./KeyInfo/EncryptedKey")
						old := ek.FindElement("./EncryptionMethod")
						nw := xenc.EncryptedKeyEl(declared, "", nil).FindElement("./EncryptionMethod")
						if dg == "\x00absent-attribute" {
							if dm := nw.FindElement("./DigestMethod"); dm != nil {
								dm.RemoveAttr("Algorithm")
							}
						}
						idx := old.Index()
						ek.RemoveChild(old)
						ek.InsertChildAt(idx, nw.Copy())
					}
					ea := etree.NewElement("saml:EncryptedAssertion")
					ea.CreateAttr("xmlns:saml", samlgen.NSAssertion)
					ea.AddChild(ed)
					resp := samlgen.DefaultResponse().Element()
					resp.AddChild(ea)
					doc := samlgen.Doc(resp)
					e, pan := respContract(t, "ParseXMLResponse-encrypted", "key-transport-declaration", func() (*saml.Assertion, error) { return parseXML(sp, doc, ids) })
					plain := real && alg == xenc.OAEPMGF1P && (dg == "" || dg == "http://www.w3.org/2000/09/xmldsig#sha1") && mgf == ""
					if !pan && plain && e != nil {
						t.Fail("C09/ParseXMLResponse-encrypted/rejects-valid/key-transport-declaration", "%s: a correctly encrypted (rsa-oaep-mgf1p, SHA-1) and signed assertion is rejected: %s", key, privErr(e))
					}
					if t.Failed() {
						t.Input("input", string(trunc(doc, 6000)))
					}
				})
			}
		}
	}
}

func wrap76(s string) string {
	var sb strings.Builder
	for len(s) > 76 {
		sb.WriteString(s[:76] + "\r\n")
		s = s[76:]
	}
	sb.WriteString(s)
	return sb.String()
}

func c09Bytes(c *core.Ctx, sp *saml.ServiceProvider, idp *saml.IdentityProvider) {
	ids := []string{samlgen.ReqID}
	good := samlgen.Doc(harness.BuildResponse(samlgen.DefaultResponse(), []*samlgen.Assertion{samlgen.DefaultAssertion()}, harness.Layout{SignResponse: true, SignAssertion: true}, idp1(), spKey()))
	enc := samlgen.Doc(harness.BuildResponse(samlgen.DefaultResponse(), []*samlgen.Assertion{samlgen.DefaultAssertion()}, harness.Layout{SignAssertion: true, Encrypt: true}, idp1(), spKey()))
	art := samlgen.Doc(harness.SoapEnvelope(harness.ArtifactResponseEl("id-artresp-1", "id-resolve-1", samlgen.TS(samlgen.T0), samlgen.S(samlgen.IDPEntity), samlgen.StatusOK, samlgen.Parse(good))))
	lr := logoutResponseEl(time.Now().UTC())
	samlgen.Sign(lr, idp1(), "")
	lrDoc := samlgen.Doc(lr)
	arq, _ := sp.MakeAuthenticationRequest(samlgen.IDPSSO, saml.HTTPRedirectBinding, saml.HTTPPostBinding)
	rqDoc := samlgen.Doc(arq.Element())
	mdB, _ := xml.Marshal(sp.Metadata())

	feed := func(t *core.T, family string, kind string, doc []byte) {
		switch kind {
		case "response":
			_, pan := respContract(t, "ParseXMLResponse", family, func() (*saml.Assertion, error) { return parseXML(sp, doc, ids) })
			if pan {
				t.Input("input", string(trunc(doc, 6000)))
			}
		case "artifact":
			_, pan := respContract(t, "ParseXMLArtifactResponse", family, func() (*saml.Assertion, error) {
				return sp.ParseXMLArtifactResponse(doc, ids, "id-resolve-1", acsURL)
			})
			if pan {
				t.Input("input", string(trunc(doc, 6000)))
			}
		case "logout":
			_, pan := anyContract(t, "ValidateLogoutResponseForm", family, func() (bool, error) { e := sp.ValidateLogoutResponseForm(b64(doc)); return e == nil, e })
			if pan {
				t.Input("input", string(trunc(doc, 6000)))
			}
			anyContract(t, "ValidateLogoutResponseRedirect", family, func() (bool, error) { e := sp.ValidateLogoutResponseRedirect(b64(deflate(doc))); return e == nil, e })
		case "request":
			_, pan := anyContract(t, "IdpAuthnRequest.Validate", family, func() (bool, error) {
				req, err := saml.NewIdpAuthnRequest(idp, idpRequest("POST", doc, ""))
				if err != nil {
					return false, err
				}
				err = req.Validate()
				return err == nil, err
			})
			if pan {
				t.Input("input", string(trunc(doc, 6000)))
			}
		case "metadata":
			c09Metadata(t, doc, family, idp)
		}
	}
	fixtures := []struct {
		name, kind string
		doc        []byte
	}{{"response", "response", good}, {"encrypted-response", "response", enc}, {"artifact", "artifact", art}, {"logout", "logout", lrDoc}, {"request", "request", rqDoc}, {"metadata", "metadata", mdB}}

	c.Group("prefixes")
	for _, fx := range fixtures {
		step := 7
		if c.Thorough() || fx.name == "logout" || fx.name == "request" {
			step = 1
		}
		const blk = 64
		for lo := 0; lo < len(fx.doc); lo += blk * step {
			fx, lo, step := fx, lo, step
			c.Case(fmt.Sprintf("prefix/%s/%d", fx.name, lo), func(t *core.T) {
				t.NonTrivial()
				n := 0
				for i := lo; i < lo+blk*step && i < len(fx.doc); i += step {
					feed(t, "prefix", fx.kind, fx.doc[:i])
					n++
				}
				t.Evals(n)
			})
		}
	}

	c.Group("tree-edits")
	for _, fx := range fixtures {
		root := samlgen.Parse(fx.doc)
		var els []*etree.Element
		walk(root, func(e *etree.Element) { els = append(els, e) })
		for ei := range els {
			for _, op := range []string{"delete", "rename", "empty", "dup", "attrs"} {
				fx, ei, op := fx, ei, op
				c.Case(fmt.Sprintf("edit/%s/el=%d/%s", fx.name, ei, op), func(t *core.T) {
					t.NonTrivial()
					r := samlgen.Parse(fx.doc)
					var es []*etree.Element
					walk(r, func(e *etree.Element) { es = append(es, e) })
					e := es[ei]
					n := 1
					switch op {
					case "delete":
						if e.Parent() == nil {
							return
						}
						e.Parent().RemoveChild(e)
					case "rename":
						e.Tag = e.Tag + "X"
					case "empty":
						e.Child = nil
					case "dup":
						if e.Parent() == nil {
							return
						}
						e.Parent().InsertChildAt(e.Index(), e.Copy())
					case "attrs":
						// remove each attribute in turn
						attrs := append([]etree.Attr{}, e.Attr...)
						n = 0
						for _, a := range attrs {
							r2 := samlgen.Parse(fx.doc)
							var es2 []*etree.Element
							walk(r2, func(x *etree.Element) { es2 = append(es2, x) })
							es2[ei].RemoveAttr(a.FullKey())
							feed(t, "single-attribute-deletion", fx.kind, samlgen.Doc(r2))
							n++
						}
						t.Evals(n)
						return
					}
					feed(t, "single-element-"+op, fx.kind, samlgen.Doc(r))
				})
			}
		}
	}

	c.Group("degenerate-documents")
	deg := map[string][]byte{
		"empty": {}, "whitespace": []byte("  \n\t"), "comment-only": []byte("<!-- c -->"), "pi-only": []byte("<?xml version=\"1.0\"?>"), "pi+comment": []byte("<?xml version=\"1.0\"?><!-- c -->"),
		"text-only": []byte("hello"), "lt": []byte("<"), "unclosed": []byte("<a>"), "two-roots": []byte("<a/><b/>"), "nul": []byte("<a>\x00</a>"), "invalid-utf8": []byte("<a>\xff\xfe</a>"),
		"utf16-bom": append([]byte{0xff, 0xfe}, []byte("<\x00a\x00/\x00>\x00")...), "utf8-bom": append([]byte{0xef, 0xbb, 0xbf}, good...),
		"latin1-decl": []byte("<?xml version=\"1.0\" encoding=\"ISO-8859-1\"?><a>\xe9</a>"),
		"dtd-entity":  []byte("<!DOCTYPE a [<!ENTITY x \"y\">]><a>&x;</a>"), "dtd-external": []byte("<!DOCTYPE a SYSTEM \"file:///etc/passwd\"><a/>"),
		"billion-laughs": []byte("<!DOCTYPE l [<!ENTITY a \"aaaaaaaaaa\"><!ENTITY b \"&a;&a;&a;&a;&a;&a;&a;&a;\"><!ENTITY c \"&b;&b;&b;&b;&b;&b;&b;&b;\">]><l>&c;</l>"),
		"colon-name":     []byte("<x::y/>"), "leading-colon": []byte("<:a/>"), "empty-prefix-decl": []byte("<a xmlns:=\"u\"/>"), "undeclared-prefix": []byte("<samlp:Response ID=\"x\"/>"),
		"wrong-root": []byte("<Assertion xmlns=\"urn:oasis:names:tc:SAML:2.0:assertion\"/>"), "root-only-response": []byte("<samlp:Response xmlns:samlp=\"urn:oasis:names:tc:SAML:2.0:protocol\"/>"),
		"soap-empty-body": []byte("<s:Envelope xmlns:s=\"http://schemas.xmlsoap.org/soap/envelope/\"><s:Body/></s:Envelope>"),
		"soap-no-body":    []byte("<s:Envelope xmlns:s=\"http://schemas.xmlsoap.org/soap/envelope/\"/>"),
		"soap-fault":      []byte("<s:Envelope xmlns:s=\"http://schemas.xmlsoap.org/soap/envelope/\"><s:Body><s:Fault><faultcode>s:Server</faultcode><faultstring>no</faultstring></s:Fault></s:Body></s:Envelope>"),
		"soap12-envelope": []byte("<s:Envelope xmlns:s=\"http://www.w3.org/2003/05/soap-envelope\"><s:Body/></s:Envelope>"),
	}
	// federation aggregates: EntitiesDescriptor groups nested 1..4 deep, with and without an IdP somewhere inside, with uneven fan-out
	mdNS := "urn:oasis:names:tc:SAML:2.0:metadata"
	idpED := `<EntityDescriptor entityID="https://nested-idp.example.com/"><IDPSSODescriptor protocolSupportEnumeration="urn:oasis:names:tc:SAML:2.0:protocol"><SingleSignOnService Binding="urn:oasis:names:tc:SAML:2.0:bindings:HTTP-Redirect" Location="https://nested-idp.example.com/sso"/></IDPSSODescriptor></EntityDescriptor>`
	spED := `<EntityDescriptor entityID="https://nested-sp.example.com/"><SPSSODescriptor protocolSupportEnumeration="urn:oasis:names:tc:SAML:2.0:protocol"><AssertionConsumerService Binding="urn:oasis:names:tc:SAML:2.0:bindings:HTTP-POST" Location="https://nested-sp.example.com/acs" index="1"/></SPSSODescriptor></EntityDescriptor>`
	for depth := 1; depth <= 4; depth++ {
		for _, leaf := range []struct{ n, x string }{{"empty", ""}, {"sp-only", spED}, {"idp", idpED}} {
			for _, fan := range []string{"chain", "two-then-one", "one-then-three"} {
				inner := leaf.x
				for d := depth; d >= 1; d-- {
					g := "<EntitiesDescriptor>" + inner + "</EntitiesDescriptor>"
					switch {
					case fan == "two-then-one" && d == 1:
						g = "<EntitiesDescriptor>" + inner + "</EntitiesDescriptor><EntitiesDescriptor>" + spED + "</EntitiesDescriptor>"
					case fan == "one-then-three" && d == 2:
						g = "<EntitiesDescriptor>" + inner + "</EntitiesDescriptor><EntitiesDescriptor/><EntitiesDescriptor>" + spED + "</EntitiesDescriptor>"
					}
					inner = g
				}
				deg[fmt.Sprintf("nested-groups/depth=%d/leaf=%s/%s", depth, leaf.n, fan)] = []byte(`<EntitiesDescriptor xmlns="` + mdNS + `">` + inner + `</EntitiesDescriptor>`)
			}
		}
	}
	for name, d := range deg {
		for _, kind := range []string{"response", "artifact", "logout", "request", "metadata"} {
			name, d, kind := name, d, kind
			c.Case("degenerate/"+kind+"/"+name, func(t *core.T) {
				t.NonTrivial()
				feed(t, "degenerate", kind, d)
			})
		}
	}

	c.Group("size-ladders")
	ladder := []int{100, 1000, 10000}
	if c.Thorough() {
		ladder = append(ladder, 100000)
	}
	for _, n := range ladder {
		for _, shape := range []string{"deep", "wide", "long-attr", "many-attrs", "deep-in-extensions", "wide-assertions"} {
			for _, kind := range []string{"response", "artifact", "logout", "request", "metadata"} {
				if (shape == "deep-in-extensions" || shape == "wide-assertions") && kind != "response" {
					continue
				}
				n, shape, kind := n, shape, kind
				c.Case(fmt.Sprintf("ladder/%s/%s/%d", kind, shape, n), func(t *core.T) {
					t.NonTrivial()
					if n > 10000 {
						c09Patience = 15 * time.Minute
						defer func() { c09Patience = 20 * time.Second }()
					}
					var d []byte
					switch shape {
					case "deep":
						d = []byte(strings.Repeat("<a>", n) + strings.Repeat("</a>", n))
					case "wide":
						d = []byte("<a>" + strings.Repeat("<b/>", n) + "</a>")
					case "long-attr":
						d = []byte("<a x=\"" + strings.Repeat("y", n*10) + "\"/>")
					case "many-attrs":
						var sb strings.Builder
						sb.WriteString("<a")
						for i := 0; i < n; i++ {
							fmt.Fprintf(&sb, " a%d=\"v\"", i)
						}
						sb.WriteString("/>")
						d = []byte(sb.String())
					case "deep-in-extensions":
						r := samlgen.DefaultResponse().Element()
						s := string(samlgen.Doc(r))
						i := strings.Index(s, "<samlp:Status")
						d = []byte(s[:i] + "<samlp:Extensions>" + strings.Repeat("<x>", n) + strings.Repeat("</x>", n) + "</samlp:Extensions>" + s[i:])
					case "wide-assertions":
						r := samlgen.DefaultResponse().Element()
						s := string(samlgen.Doc(r))
						i := strings.LastIndex(s, "</samlp:Response>")
						a := string(samlgen.Doc(samlgen.DefaultAssertion().Element()))
						m := n / 10
						d = []byte(s[:i] + strings.Repeat(a, m) + s[i:])
					}
					feed(t, "size-ladder", kind, d)
				})
			}
		}
	}
}

// ---------- artifact resolver faults ----------

type faultBody struct {
	data     []byte
	failAt   int
	pos      int
	closeErr error
	readErr  error
}

func (b *faultBody) Read(p []byte) (int, error) {
	if b.pos >= b.failAt {
		if b.readErr != nil {
			return 0, b.readErr
		}
		return 0, io.EOF
	}
	n := copy(p, b.data[b.pos:b.failAt])
	if n > 1 {
		n = (n + 1) / 2 // short reads
	}
	b.pos += n
	return n, nil
}

func (b *faultBody) Close() error { return b.closeErr }

func c09Resolver(c *core.Ctx, sp *saml.ServiceProvider) {
	c.Group("artifact-resolver-faults")
	ids := []string{samlgen.ReqID}
	inner := samlgen.Doc(harness.BuildResponse(samlgen.DefaultResponse(), []*samlgen.Assertion{samlgen.DefaultAssertion()}, harness.Layout{SignResponse: true}, idp1(), spKey()))
	reply := func(resolveID string) []byte {
		ar := harness.ArtifactResponseEl("id-artresp-1", resolveID, samlgen.TS(samlgen.T0), samlgen.S(samlgen.IDPEntity), samlgen.StatusOK, samlgen.Parse(inner))
		return samlgen.Doc(harness.SoapEnvelope(ar))
	}
	run := func(t *core.T, family string, rt func(resolveID string) (*http.Response, error), ctx context.Context) (error, bool) {
		return respContract(t, "ParseResponse-artifact", family, func() (*saml.Assertion, error) {
			old := sp.HTTPClient
			defer func() { sp.HTTPClient = old }()
			sp.HTTPClient = &http.Client{Transport: rtFunc(func(r *http.Request) (*http.Response, error) {
				body, _ := io.ReadAll(r.Body)
				id := ""
				if m := artIDRe.FindSubmatch(body); m != nil {
					id = string(m[1])
				}
				return rt(id)
			})}
			req := formRequest(samlgen.SPAcs, url.Values{"SAMLart": {"artifact-0001"}})
			if ctx != nil {
				req = req.WithContext(ctx)
			}
			return sp.ParseResponse(req, ids)
		})
	}
	mkResp := func(status int, body io.ReadCloser, cl int64) *http.Response {
		return &http.Response{StatusCode: status, Status: fmt.Sprintf("%d %s", status, http.StatusText(status)), Body: body, ContentLength: cl, Header: http.Header{}}
	}
	c.Case("resolver/ok", func(t *core.T) {
		err, _ := run(t, "resolver", func(id string) (*http.Response, error) { return httpOK(reply(id)) }, nil)
		if err != nil {
			t.Fail("C09/ParseResponse-artifact/rejects-valid", "a correct resolver reply was rejected: %s", privErr(err))
		}
	})
	simple := map[string]func(id string) (*http.Response, error){
		"dial-error": func(string) (*http.Response, error) { return nil, errors.New("dial tcp: connection refused") },
		"timeout":    func(string) (*http.Response, error) { return nil, context.DeadlineExceeded },
		"status-204": func(id string) (*http.Response, error) {
			return mkResp(204, io.NopCloser(bytes.NewReader(nil)), 0), nil
		},
		"status-302": func(id string) (*http.Response, error) {
			return mkResp(302, io.NopCloser(bytes.NewReader(reply(id))), -1), nil
		},
		"status-404": func(id string) (*http.Response, error) {
			return mkResp(404, io.NopCloser(bytes.NewReader([]byte("nope"))), -1), nil
		},
		"status-500-valid": func(id string) (*http.Response, error) {
			return mkResp(500, io.NopCloser(bytes.NewReader(reply(id))), -1), nil
		},
		"empty-200": func(id string) (*http.Response, error) {
			return mkResp(200, io.NopCloser(bytes.NewReader(nil)), 0), nil
		},
		"html-200": func(id string) (*http.Response, error) { return httpOK([]byte("<html><body>login</body></html>")) },
		"soap-fault": func(id string) (*http.Response, error) {
			return httpOK([]byte("<s:Envelope xmlns:s=\"http://schemas.xmlsoap.org/soap/envelope/\"><s:Body><s:Fault><faultcode>s:Server</faultcode></s:Fault></s:Body></s:Envelope>"))
		},
		"wrong-envelope-ns": func(id string) (*http.Response, error) {
			return httpOK(bytes.Replace(reply(id), []byte("http://schemas.xmlsoap.org/soap/envelope/"), []byte("http://www.w3.org/2003/05/soap-envelope"), 1))
		},
		"two-bodies": func(id string) (*http.Response, error) {
			r := samlgen.Parse(reply(id))
			r.AddChild(r.ChildElements()[0].Copy())
			return httpOK(samlgen.Doc(r))
		},
		"two-artifactresponses": func(id string) (*http.Response, error) {
			r := samlgen.Parse(reply(id))
			b := r.ChildElements()[0]
			b.AddChild(b.ChildElements()[0].Copy())
			return httpOK(samlgen.Doc(r))
		},
		"body-without-artifactresponse": func(id string) (*http.Response, error) {
			r := samlgen.Parse(reply(id))
			r.ChildElements()[0].Child = nil
			return httpOK(samlgen.Doc(r))
		},
		"bare-response-no-envelope": func(id string) (*http.Response, error) { return httpOK(inner) },
		"close-error": func(id string) (*http.Response, error) {
			d := reply(id)
			return mkResp(200, &faultBody{data: d, failAt: len(d), closeErr: errors.New("close failed")}, -1), nil
		},
		"content-length-lies-huge": func(id string) (*http.Response, error) {
			d := reply(id)
			return mkResp(200, &faultBody{data: d, failAt: len(d) / 2, readErr: io.ErrUnexpectedEOF}, 256<<20), nil
		},
		"content-length-maxint": func(id string) (*http.Response, error) {
			d := reply(id)
			return mkResp(200, &faultBody{data: d, failAt: len(d) / 2, readErr: io.ErrUnexpectedEOF}, 1<<63-1), nil
		},
		"content-length-lies-small": func(id string) (*http.Response, error) {
			d := reply(id)
			return mkResp(200, &faultBody{data: d, failAt: len(d)}, 10), nil
		},
		"nil-body-error-later": func(id string) (*http.Response, error) {
			return mkResp(200, &faultBody{data: nil, failAt: 0, readErr: errors.New("connection reset")}, -1), nil
		},
	}
	for name, f := range simple {
		name, f := name, f
		c.Case("resolver/"+name, func(t *core.T) {
			t.NonTrivial()
			var ms0, ms1 runtime.MemStats
			runtime.ReadMemStats(&ms0)
			err, pan := run(t, "resolver-fault", f, nil)
			runtime.ReadMemStats(&ms1)
			if !pan && err == nil && name != "close-error" && name != "content-length-lies-small" {
				t.Fail("C09/ParseResponse-artifact/resolver-failure-swallowed", "resolver behaviour %s produced an assertion", name)
			}
			if alloc := ms1.TotalAlloc - ms0.TotalAlloc; alloc > 128<<20 {
				t.Fail("C09/ParseResponse-artifact/resolver-unbounded-allocation", "resolver behaviour %s made the SP allocate %d MB for a %d-byte body", name, alloc>>20, len(inner))
			}
		})
	}
	// the request's own context ends and the back channel fails BECAUSE of it (as net/http's transport does): still the same error contract
	for _, how := range []string{"cancelled-before-the-call", "deadline-passes-before-the-reply", "deadline-passes-while-the-body-is-read"} {
		how := how
		c.Case("resolver/context-ends/"+how, func(t *core.T) {
			t.NonTrivial()
			var ctx context.Context
			var cancel context.CancelFunc
			if how == "cancelled-before-the-call" {
				ctx, cancel = context.WithCancel(context.Background())
				cancel()
			} else {
				ctx, cancel = context.WithTimeout(context.Background(), 30*time.Millisecond)
				defer cancel()
			}
			err, pan := run(t, "resolver-context", func(id string) (*http.Response, error) {
				switch how {
				case "cancelled-before-the-call":
					return nil, ctx.Err()
				case "deadline-passes-before-the-reply":
					<-ctx.Done()
					return nil, ctx.Err()
				}
				d := reply(id)
				return mkResp(200, &ctxBody{ctx: ctx, data: d[:len(d)/2]}, -1), nil
			}, ctx)
			if !pan && err == nil {
				t.Fail("C09/ParseResponse-artifact/resolver-failure-swallowed", "the request context ended (%s) and an assertion was still produced", how)
			}
		})
	}
	c.Case("resolver/context-cancelled", func(t *core.T) {
		t.NonTrivial()
		ctx, cancel := context.WithCancel(context.Background())
		cancel()
		err, pan := run(t, "resolver-fault", func(id string) (*http.Response, error) { return httpOK(reply(id)) }, ctx)
		_ = err
		_ = pan
	})
	// read error after k bytes, for every k; and every prefix delivered cleanly
	full := reply("id-placeholder-0000000000000000000000000000000000")
	const blk = 32
	for lo := 0; lo <= len(full); lo += blk {
		lo := lo
		c.Case(fmt.Sprintf("resolver/read-error-after/%d", lo), func(t *core.T) {
			t.NonTrivial()
			n := 0
			for k := lo; k < lo+blk && k <= len(full)+60; k++ {
				k := k
				for _, mode := range []string{"error", "eof"} {
					mode := mode
					err, pan := run(t, "resolver-truncation", func(id string) (*http.Response, error) {
						d := reply(id)
						kk := k
						if kk > len(d) {
							kk = len(d)
						}
						fb := &faultBody{data: d, failAt: kk}
						if mode == "error" {
							fb.readErr = errors.New("read: connection reset by peer")
						}
						return mkResp(200, fb, -1), nil
					}, nil)
					n++
					if !pan && err == nil && mode == "error" {
						t.Fail("C09/ParseResponse-artifact/resolver-read-error-swallowed", "a body read error after %d bytes still produced an assertion", k)
					}
				}
			}
			t.Evals(n)
		})
	}
	_ = os.Stdout
}

// ctxBody serves data and then blocks until its context ends, returning the context's error (as an http.Response body does).
type ctxBody struct {
	ctx  context.Context
	data []byte
	pos  int
}

func (b *ctxBody) Read(p []byte) (int, error) {
	if b.pos < len(b.data) {
		n := copy(p, b.data[b.pos:])
		b.pos += n
		return n, nil
	}
	<-b.ctx.Done()
	return 0, b.ctx.Err()
}

func (b *ctxBody) Close() error { return nil }
