package checks

import (
	"bytes"
	"crypto/rsa"
	"fmt"
	"os"
	"strings"
	"time"

	"github.com/beevik/etree"
	"github.com/crewjam/saml/xmlenc"

	"verif/engine/core"
	"verif/engine/harness"
	"verif/engine/samlgen"
	"verif/engine/xenc"
)

// C10 — XML encryption round-trips for every offered algorithm and interoperates.

type c10Block struct {
	name string
	lib  xmlenc.BlockCipher
	alg  string
	bs   int
}

func c10Blocks() []c10Block {
	return []c10Block{
		{"aes128-cbc", xmlenc.AES128CBC, xenc.AES128CBC, 16},
		{"aes192-cbc", xmlenc.AES192CBC, xenc.AES192CBC, 16},
		{"aes256-cbc", xmlenc.AES256CBC, xenc.AES256CBC, 16},
		{"tripledes-cbc", xmlenc.TripleDES, xenc.TDESCBC, 8},
		{"aes128-gcm", xmlenc.AES128GCM, xenc.AES128GCM, 16},
	}
}

type c10Transport struct {
	name  string
	class string
	mk    func() *xmlenc.RSA // nil = direct key
	ref   xenc.KeyTransport
	hlen  int // label hash length (0 for PKCS1)
}

func c10Transports() []c10Transport {
	oaep := func(d xmlenc.DigestMethod) func() *xmlenc.RSA {
		return func() *xmlenc.RSA { e := xmlenc.OAEP(); e.DigestMethod = d; return &e }
	}
	return []c10Transport{
		{name: "direct", class: "direct"},
		{"oaep-mgf1p-sha1", "oaep-mgf1p-sha1", oaep(xmlenc.SHA1), xenc.KeyTransport{Alg: xenc.OAEPMGF1P, DigestURI: xmlenc.SHA1.Algorithm()}, 20},
		// the DigestMethod child is optional and defaults to SHA-1: a reference ciphertext that leaves it out must decrypt all the same
		{"oaep-mgf1p-digest-element-omitted", "oaep-mgf1p-sha1", oaep(xmlenc.SHA1), xenc.KeyTransport{Alg: xenc.OAEPMGF1P}, 20},
		{"oaep-mgf1p-sha256", "oaep-mgf1p-nonsha1", oaep(xmlenc.SHA256), xenc.KeyTransport{Alg: xenc.OAEPMGF1P, DigestURI: xmlenc.SHA256.Algorithm()}, 32},
		{"oaep-mgf1p-sha512", "oaep-mgf1p-nonsha1", oaep(xmlenc.SHA512), xenc.KeyTransport{Alg: xenc.OAEPMGF1P, DigestURI: xmlenc.SHA512.Algorithm()}, 64},
		{"oaep-mgf1p-ripemd160", "oaep-mgf1p-nonsha1", oaep(xmlenc.RIPEMD160), xenc.KeyTransport{Alg: xenc.OAEPMGF1P, DigestURI: xmlenc.RIPEMD160.Algorithm()}, 20},
		{"oaep11-sha256", "oaep11", func() *xmlenc.RSA { e := xmlenc.OAEP_SHA256(); return &e }, xenc.KeyTransport{Alg: xenc.OAEP11, DigestURI: xmlenc.SHA256.Algorithm()}, 32},
		{"oaep11-sha512", "oaep11", func() *xmlenc.RSA { e := xmlenc.OAEP_SHA512(); return &e }, xenc.KeyTransport{Alg: xenc.OAEP11, DigestURI: xmlenc.SHA512.Algorithm()}, 64},
		// the xmlenc11 constructors with the digest reassigned afterwards (the field is exported for that): what is declared is what is used
		{"oaep11-constructor-sha256-reassigned-sha1", "oaep11", func() *xmlenc.RSA { e := xmlenc.OAEP_SHA256(); e.DigestMethod = xmlenc.SHA1; return &e }, xenc.KeyTransport{Alg: xenc.OAEP11, DigestURI: xmlenc.SHA1.Algorithm()}, 20},
		{"oaep11-constructor-sha256-reassigned-sha512", "oaep11", func() *xmlenc.RSA { e := xmlenc.OAEP_SHA256(); e.DigestMethod = xmlenc.SHA512; return &e }, xenc.KeyTransport{Alg: xenc.OAEP11, DigestURI: xmlenc.SHA512.Algorithm()}, 64},
		{"oaep11-constructor-sha512-reassigned-sha256", "oaep11", func() *xmlenc.RSA { e := xmlenc.OAEP_SHA512(); e.DigestMethod = xmlenc.SHA256; return &e }, xenc.KeyTransport{Alg: xenc.OAEP11, DigestURI: xmlenc.SHA256.Algorithm()}, 32},
		{"pkcs1v15", "pkcs1v15", func() *xmlenc.RSA { e := xmlenc.PKCS1v15(); return &e }, xenc.KeyTransport{Alg: xenc.RSA15}, 0},
	}
}

type c10Pattern struct {
	name string
	f    func(n int, bs int) []byte
}

func c10Patterns() []c10Pattern {
	fill := func(b byte) func(int, int) []byte {
		return func(n, _ int) []byte { return bytes.Repeat([]byte{b}, n) }
	}
	last := func(b byte) func(int, int) []byte {
		return func(n, _ int) []byte {
			p := make([]byte, n)
			for i := range p {
				p[i] = byte(i*7 + 3)
			}
			if n > 0 {
				p[n-1] = b
			}
			return p
		}
	}
	return []c10Pattern{
		{"zeros", fill(0)},
		{"ff", fill(0xff)},
		{"counter", func(n, _ int) []byte {
			p := make([]byte, n)
			for i := range p {
				p[i] = byte(i)
			}
			return p
		}},
		{"padlen", func(n, bs int) []byte { return bytes.Repeat([]byte{byte(bs - n%bs)}, n) }},
		{"last00", last(0)}, {"last01", last(1)}, {"last10", last(0x10)}, {"last11", last(0x11)}, {"lastff", last(0xff)},
		{"prng", func(n, _ int) []byte { p := make([]byte, n); harness.NewCtr(fmt.Sprint("pt", n)).Read(p); return p }},
	}
}

func lenClass(n, bs int) string {
	switch {
	case n == 0:
		return "len=0"
	case n%bs == 0:
		return "len%bs=0"
	}
	return "len%bs!=0"
}

// rewire serialises and re-parses an element, as it would travel on the wire.
func rewire(el *etree.Element) (*etree.Element, error) {
	doc := etree.NewDocument()
	doc.SetRoot(el.Copy())
	b, err := doc.WriteToBytes()
	if err != nil {
		return nil, err
	}
	d2 := etree.NewDocument()
	if err := d2.ReadFromBytes(b); err != nil {
		return nil, err
	}
	return d2.Root(), nil
}

// guard runs f and converts a panic into an error string with the site.
func guard(f func() error) (err error, panicked string) {
	defer func() {
		if r := recover(); r != nil {
			panicked = fmt.Sprintf("%v @%s", r, core.PanicSite(stackNow()))
		}
	}()
	return f(), ""
}

func init() {
	Register(&Check{
		ID:     "C10",
		Engine: "lattice",
		Rule: "full product of plaintext length 0..65 (+1000, 4095, 4096, 4097, 65537) x content patterns x block cipher {AES-128/192/256-CBC, 3DES-CBC, AES-128-GCM} x key transport {direct, OAEP-mgf1p with SHA-1/256/512/RIPEMD-160, xmlenc11 OAEP SHA-256/512, PKCS1v1.5} x RSA key {1024, 2048} x nonce {supplied, nil (GCM)}; " +
			"oracles: package round trip, an independent W3C implementation (engine/xenc) decrypts the package's output and vice versa, repository sample files; wrong-size direct keys 0..33 must be errors. non-trivial = every case except the (len 1, zeros, AES-128-CBC, direct) one",
		Bounds: func(tier string) string {
			if tier == "thorough" {
				return "all 10 patterns on every transport, RSA-1024 and RSA-2048, all lengths"
			}
			return "all 10 patterns on direct keys; 3 patterns on RSA transports; RSA-1024 and RSA-2048; all lengths 0..65 + 5 long"
		},
		Assumptions: []string{"engine/xenc is the independent implementation (Go standard library AES/3DES/GCM, hand-rolled EME-OAEP with separate label and MGF hashes)", "all byte contents / all keys are represented by the listed patterns only"},
		Run:         runC10,
		CapQuick:    6 * time.Minute,
		CapThorough: 20 * time.Minute,
	})
}

func runC10(c *core.Ctx) {
	g := harness.Pin(samlgen.T0)
	defer g.Restore()
	blocks := c10Blocks()
	trans := c10Transports()
	pats := c10Patterns()
	lengths := []int{}
	for i := 0; i <= 65; i++ {
		lengths = append(lengths, i)
	}
	lengths = append(lengths, 1000, 4095, 4096, 4097, 65537)
	rsaKeys := []string{"sp1024", "sp2048", "sp2047", "sp2044", "sp1031"} // the last three have moduli that are not a whole number of bytes

	for _, blk := range blocks {
		for _, tr := range trans {
			keyNames := []string{"-"}
			if tr.mk != nil {
				keyNames = rsaKeys
			}
			for _, kn := range keyNames {
				for _, n := range lengths {
					for pi, pat := range pats {
						if (kn == "sp2047" || kn == "sp2044" || kn == "sp1031") && !(pi == 0 && (n == 0 || n == 1 || n == 16 || n == 33)) {
							continue
						}
						if tr.mk != nil && !c.Thorough() && pi%4 != 0 && !(n <= 1 || n == 16) {
							continue
						}
						if n > 70 && pi != 2 && pi != 9 {
							continue
						}
						nonces := []string{"supplied"}
						if blk.name == "aes128-gcm" {
							nonces = []string{"supplied", "nil"}
						}
						for _, nn := range nonces {
							blk, tr, kn, n, pat, nn := blk, tr, kn, n, pat, nn
							key := fmt.Sprintf("rt/%s/%s/%s/len=%d/%s/nonce=%s", blk.name, tr.name, kn, n, pat.name, nn)
							c.Group("roundtrip+interop")
							c.Case(key, func(t *core.T) { c10Case(t, blk, tr, kn, n, pat, nn, key) })
						}
					}
				}
			}
		}
	}

	// results of successive calls are independent values: a plaintext returned by one Decrypt is not altered by the next call,
	// an element returned by one Encrypt is not altered by the next, and Encrypt leaves its input alone
	c.Group("results-independent-across-calls")
	seqLens := []int{0, 1, 15, 16, 17, 32, 100}
	for _, blk := range blocks {
		for _, l1 := range seqLens {
			for _, l2 := range seqLens {
				for _, l3 := range []int{-1, 16} {
					blk, l1, l2, l3 := blk, l1, l2, l3
					key := fmt.Sprintf("sequence/%s/len=%d,%d,%d", blk.name, l1, l2, l3)
					c.Case(key, func(t *core.T) {
						t.NonTrivial()
						k := detKey(blk.lib.KeySize(), "seq"+blk.name)
						k0 := append([]byte{}, k...)
						var lens []int
						for _, l := range []int{l1, l2, l3} {
							if l >= 0 {
								lens = append(lens, l)
							}
						}
						var pts, gotPts, elDocs [][]byte
						var els []*etree.Element
						_, p := guard(func() error {
							for i, l := range lens {
								pt := bytes.Repeat([]byte{byte('A' + i)}, l)
								in := append([]byte{}, pt...)
								el, err := blk.lib.Encrypt(k, in, nil)
								t.Impl(1)
								if err != nil {
									return err
								}
								if !bytes.Equal(in, pt) {
									t.Fail("C10/sequence/"+blk.name+"/encrypt-alters-its-input", "%s: Encrypt changed the caller's plaintext buffer", key)
								}
								pts, els, elDocs = append(pts, pt), append(els, el), append(elDocs, samlgen.Doc(el.Copy()))
							}
							for _, el := range els {
								got, err := blk.lib.Decrypt(k, el)
								t.Impl(1)
								if err != nil {
									return err
								}
								gotPts = append(gotPts, got)
							}
							return nil
						})
						t.Compared()
						if !bytes.Equal(k, k0) {
							t.Fail("C10/sequence/"+blk.name+"/call-alters-the-callers-key", "%s: after the calls the caller's key slice reads %x.., it was %x..", key, trunc(k, 8), trunc(k0, 8))
						}
						if p != "" || len(gotPts) != len(lens) {
							t.Outcome("error-in-sequence")
							if blk.name != "aes128-gcm" { // (GCM encryption is a recorded finding of the round-trip group)
								t.Fail("C10/sequence/"+blk.name+"/valid-call-fails-after-earlier-calls", "%s: every call of the sequence is valid on its own, yet the sequence stops with an error or panic after %d decrypts (%s)", key, len(gotPts), p)
							}
							return
						}
						for i := range lens {
							if !bytes.Equal(gotPts[i], pts[i]) {
								t.Fail("C10/sequence/"+blk.name+"/earlier-plaintext-altered-by-later-call", "%s: the plaintext returned by call %d (%q...) reads %q... after the later calls", key, i+1, trunc(pts[i], 12), trunc(gotPts[i], 12))
							}
							if !bytes.Equal(samlgen.Doc(els[i].Copy()), elDocs[i]) {
								t.Fail("C10/sequence/"+blk.name+"/earlier-element-altered-by-later-call", "%s: the element returned by Encrypt call %d changed after the later calls", key, i+1)
							}
						}
						t.Outcome("independent")
					})
				}
			}
		}
	}

	// wrong-size direct keys must be errors in both directions
	c.Group("wrong-key-size")
	for _, blk := range blocks {
		for ks := 0; ks <= 33; ks++ {
			if ks == blk.lib.KeySize() {
				continue
			}
			blk, ks := blk, ks
			key := fmt.Sprintf("keysize/%s/%d", blk.name, ks)
			c.Case(key, func(t *core.T) {
				t.NonTrivial()
				k := bytes.Repeat([]byte{7}, ks)
				var el *etree.Element
				err, p := guard(func() error {
					var e error
					el, e = blk.lib.Encrypt(k, []byte("hello world"), []byte("123456789012"))
					return e
				})
				t.Impl(1)
				if p != "" {
					t.Fail("C10/keysize/"+blk.name+"/encrypt-panic", "Encrypt with %d-byte key panicked: %s", ks, p)
				} else if err == nil {
					t.Fail("C10/keysize/"+blk.name+"/encrypt-accepts-wrong-size", "Encrypt accepted a %d-byte key (KeySize %d): %v", ks, blk.lib.KeySize(), el != nil)
				}
				// decrypt a valid element with the wrong-size key
				good := bytes.Repeat([]byte{7}, blk.lib.KeySize())
				if ge, gerr := safeEncrypt(blk, good); gerr == nil {
					err, p = guard(func() error { _, e := xmlenc.Decrypt(k, ge); return e })
					t.Impl(1)
					if p != "" {
						t.Fail("C10/keysize/"+blk.name+"/decrypt-panic", "Decrypt with %d-byte key panicked: %s", ks, p)
					} else if err == nil {
						t.Fail("C10/keysize/"+blk.name+"/decrypt-accepts-wrong-size", "Decrypt accepted a %d-byte key", ks)
					}
				}
				t.Compared()
			})
		}
	}

	// repository sample files under both implementations
	c.Group("repo-samples")
	for _, s := range []struct{ in, key, want string }{
		{"input.xml", "key.pem", "plaintext.xml"},
		{"input_gcm.xml", "cert.key", ""}, // the repository test only requires this one to decrypt; no plaintext is pinned for it
	} {
		s := s
		c.Case("sample/"+s.in, func(t *core.T) {
			t.NonTrivial()
			dir := repoDir() + "/xmlenc/testdata/"
			in, err1 := os.ReadFile(dir + s.in)
			kb, err2 := os.ReadFile(dir + s.key)
			var want []byte
			var err3 error
			if s.want != "" {
				want, err3 = os.ReadFile(dir + s.want)
			}
			if err1 != nil || err2 != nil || err3 != nil {
				t.Outcome("sample-missing")
				return // fixture files moved: nothing to compare
			}
			priv := parseRSAPEM(kb)
			if priv == nil {
				t.Outcome("sample-key-unparsed")
				return
			}
			doc := etree.NewDocument()
			if doc.ReadFromBytes(in) != nil {
				return
			}
			el := doc.Root()
			if el.Tag != "EncryptedData" {
				el = doc.FindElement("//EncryptedData")
			}
			var got []byte
			err, p := guard(func() error { var e error; got, e = xmlenc.Decrypt(priv, el); return e })
			t.Impl(1)
			if p != "" || err != nil {
				t.Fail("C10/sample/lib-decrypt", "package cannot decrypt %s: %v %s", s.in, err, p)
			} else if s.want != "" && !bytes.Equal(bytes.TrimSpace(got), bytes.TrimSpace(want)) {
				t.Fail("C10/sample/lib-plaintext", "package plaintext for %s differs from %s", s.in, s.want)
			}
			rgot, rerr := xenc.DecryptElement(priv, el)
			if rerr != nil {
				t.Fail("C10/sample/ref-decrypt", "reference cannot decrypt %s: %v", s.in, rerr)
			} else if err == nil && !bytes.Equal(rgot, got) {
				t.Fail("C10/sample/ref-vs-lib", "reference and package disagree on %s", s.in)
			}
			t.Compared()
			t.Outcome("sample-ok")
		})
	}
}

func safeEncrypt(blk c10Block, key []byte) (el *etree.Element, err error) {
	defer func() {
		if r := recover(); r != nil {
			err = fmt.Errorf("panic %v", r)
		}
	}()
	return blk.lib.Encrypt(key, []byte("hello world"), []byte("123456789012"))
}

func c10Case(t *core.T, blk c10Block, tr c10Transport, kn string, n int, pat c10Pattern, nn string, key string) {
	if !(blk.name == "aes128-cbc" && tr.mk == nil && n == 1 && pat.name == "zeros") {
		t.NonTrivial()
	}
	pt := pat.f(n, blk.bs)
	var nonce []byte
	if nn == "supplied" {
		nonce = []byte("NONCE0123456")
	}
	fk := func(oracle, kind string) string {
		return fmt.Sprintf("C10/%s/%s/%s/%s/%s", oracle, blk.name, tr.class, lenClass(n, blk.bs), kind)
	}
	var priv *rsa.PrivateKey
	var kp *samlgen.KeyPair
	var encKey, decKey interface{}
	direct := bytes.Repeat([]byte{0}, blk.lib.KeySize())
	harness.NewCtr("directkey" + blk.name).Read(direct)
	// every key of the right size is a key: a few lengths use structured keys instead of the pseudo-random one
	switch n {
	case 2:
		direct = bytes.Repeat([]byte{0}, blk.lib.KeySize()) // all zero
	case 3:
		direct = bytes.Repeat([]byte{0xFF}, blk.lib.KeySize())
	case 4:
		copy(direct[8:16], direct[0:8]) // first two 8-byte parts equal (for 3DES: K1 == K2)
	case 5:
		if len(direct) >= 24 {
			copy(direct[16:24], direct[8:16]) // K2 == K3
		}
	case 6:
		for i := range direct {
			direct[i] = byte(i) // ascending bytes (weak parity patterns for DES)
		}
	case 7:
		if len(direct) >= 24 {
			copy(direct[16:24], direct[0:8]) // two-key 3DES: K1 || K2 || K1
		}
	}
	var enc xmlenc.Encrypter = blk.lib
	if tr.mk != nil {
		kp = samlgen.Key(kn)
		priv = kp.Key.(*rsa.PrivateKey)
		e := tr.mk()
		e.BlockCipher = blk.lib
		enc = e
		encKey, decKey = kp.Cert, priv
		// feasibility: OAEP needs k - 2h - 2 >= key size
		if tr.hlen > 0 && priv.Size()-2*tr.hlen-2 < blk.lib.KeySize() {
			t.Outcome("infeasible-oaep-size")
			t.Modelled(core.DontCare)
			return
		}
	} else {
		encKey, decKey = direct, direct
	}
	t.Input("plaintext_hex", fmt.Sprintf("%x", trunc(pt, 200)))

	// (a) package encrypts, package decrypts
	var el *etree.Element
	err, p := guard(func() error { var e error; el, e = enc.Encrypt(encKey, pt, nonce); return e })
	t.Impl(1)
	libEnc := false
	switch {
	case p != "":
		t.Fail(fk("roundtrip", "encrypt-panic"), "Encrypt panicked: %s", p)
	case err != nil:
		t.Fail(fk("roundtrip", "encrypt-error"), "Encrypt failed: %v", err)
	default:
		libEnc = true
		wire, werr := rewire(el)
		if werr != nil {
			t.Fail(fk("roundtrip", "not-serialisable"), "emitted element does not survive serialisation: %v", werr)
			return
		}
		var got []byte
		err, p = guard(func() error { var e error; got, e = xmlenc.Decrypt(decKey, wire); return e })
		t.Impl(1)
		switch {
		case p != "":
			t.Fail(fk("roundtrip", "decrypt-panic"), "Decrypt of own output panicked: %s", p)
		case err != nil:
			t.Fail(fk("roundtrip", "decrypt-error"), "Decrypt of own output failed: %v", err)
		case !bytes.Equal(got, pt):
			t.Fail(fk("roundtrip", "mismatch"), "round trip changed the plaintext: got %d bytes %x.., want %d bytes", len(got), trunc(got, 32), len(pt))
		}
		// (b1) independent implementation decrypts the package's output
		var rgot []byte
		var rerr error
		if priv != nil {
			rgot, rerr = xenc.DecryptElement(priv, wire)
		} else {
			rk := direct
			rgot, rerr = xenc.DecryptElement(rk, wire)
		}
		if rerr != nil {
			t.Fail(fk("ref-decrypts-lib", "error"), "independent implementation cannot decrypt the package's output: %v", rerr)
		} else if !bytes.Equal(rgot, pt) {
			t.Fail(fk("ref-decrypts-lib", "mismatch"), "independent implementation recovers different plaintext (%d bytes vs %d)", len(rgot), len(pt))
		}
	}
	_ = libEnc

	// (b2) package decrypts the independent implementation's output
	var refEl *etree.Element
	var rerr error
	rnd := harness.NewCtr("ref" + key)
	refKey := direct
	if blk.alg == xenc.TDESCBC && tr.mk == nil {
		refKey = make([]byte, 24) // the specification's 3DES key size
		harness.NewCtr("3deskey").Read(refKey)
	}
	if priv != nil {
		refEl, rerr = xenc.Encrypt(blk.alg, tr.ref, &priv.PublicKey, kp.CertB64, rnd, pt)
	} else {
		ivLen := blk.bs
		if blk.alg == xenc.AES128GCM {
			ivLen = 12
		}
		iv := make([]byte, ivLen)
		rnd.Read(iv)
		var data []byte
		data, rerr = xenc.EncryptBlock(blk.alg, refKey, iv, pt, 0xA5) // arbitrary padding fill, as the specification allows
		if rerr == nil {
			refEl = xenc.EncryptedDataEl(blk.alg, nil, data)
		}
	}
	if rerr != nil {
		t.Fail("C10/harness/ref-encrypt", "reference encryptor failed: %v", rerr)
		return
	}
	wire2, _ := rewire(refEl)
	var got2 []byte
	var dk interface{} = refKey
	if priv != nil {
		dk = priv
	}
	err, p = guard(func() error { var e error; got2, e = xmlenc.Decrypt(dk, wire2); return e })
	t.Impl(1)
	switch {
	case p != "":
		t.Fail(fk("lib-decrypts-ref", "panic"), "Decrypt of the independent implementation's output panicked: %s", p)
	case err != nil:
		t.Fail(fk("lib-decrypts-ref", "error"), "Decrypt of the independent implementation's output failed: %v", err)
	case !bytes.Equal(got2, pt):
		t.Fail(fk("lib-decrypts-ref", "mismatch"), "Decrypt of the independent implementation's output gave different plaintext")
	}
	// (b3) the same reference ciphertext with its base64 written as other encoders write it: wrapped at 76 / 64 / 60 columns (LF or CRLF),
	// indented; xsd:base64Binary allows white space anywhere
	if err == nil && p == "" && (n <= 1 || n == 16 || n == 33 || n == 65 || n == 1000) {
		for _, wr := range []struct {
			name string
			col  int
			nl   string
		}{{"76-LF", 76, "\n"}, {"64-LF", 64, "\n"}, {"60-CRLF", 60, "\r\n"}, {"4-LF", 4, "\n"}} { // (blanks or tabs inside the value - indentation - are legal base64Binary too, but the statement does not reach that far: C11 records them as DONT_CARE)
			w := refEl.Copy()
			for _, cv := range findNS(w, xenc.NSXenc, "CipherValue") {
				txt := strings.Join(strings.Fields(cv.Text()), "")
				var sb strings.Builder
				sb.WriteString(wr.nl)
				for i := 0; i < len(txt); i += wr.col {
					j := i + wr.col
					if j > len(txt) {
						j = len(txt)
					}
					sb.WriteString(txt[i:j] + wr.nl)
				}
				cv.SetText(sb.String())
			}
			ww, _ := rewire(w)
			var got3 []byte
			e3, p3 := guard(func() error { var e error; got3, e = xmlenc.Decrypt(dk, ww); return e })
			t.Impl(1)
			switch {
			case p3 != "":
				t.Fail(fk("lib-decrypts-ref", "panic-on-wrapped-base64"), "Decrypt panicked on base64 wrapped %s: %s", wr.name, p3)
			case e3 != nil:
				t.Fail(fk("lib-decrypts-ref", "error-on-wrapped-base64"), "the same ciphertext with its base64 wrapped %s is refused: %v", wr.name, e3)
			case !bytes.Equal(got3, pt):
				t.Fail(fk("lib-decrypts-ref", "mismatch-on-wrapped-base64"), "base64 wrapped %s decrypts to different plaintext", wr.name)
			}
		}
	}
	// (b4) the same reference ciphertext written with other namespace prefixes (default namespace, e:/dsig:, enc:) - the names are
	// what they are by their namespace, not by their prefix
	if err == nil && p == "" && (n <= 1 || n == 16 || n == 33) {
		for _, style := range []string{"other-prefixes", "default-namespace-on-KeyInfo", "all-default-namespaces"} {
			w := refEl.Copy()
			reprefix(w, style)
			ww, werr := rewire(w)
			if werr != nil {
				continue
			}
			var got4 []byte
			e4, p4 := guard(func() error { var e error; got4, e = xmlenc.Decrypt(dk, ww); return e })
			t.Impl(1)
			switch {
			case p4 != "":
				t.Fail(fk("lib-decrypts-ref", "panic-on-other-prefixes"), "Decrypt panicked on the ciphertext written with %s: %s", style, p4)
			case e4 != nil:
				t.Fail(fk("lib-decrypts-ref", "error-on-other-prefixes"), "the same ciphertext written with %s is refused: %v", style, e4)
			case !bytes.Equal(got4, pt):
				t.Fail(fk("lib-decrypts-ref", "mismatch-on-other-prefixes"), "ciphertext written with %s decrypts to different plaintext", style)
			}
		}
	}
	// (b5) the same reference ciphertext with parts the XML-Encryption schema makes optional and another producer may write: the
	// KeySize child of EncryptionMethod (in bits), Id / MimeType / Encoding / Recipient attributes, a KeyName beside the wrapped key,
	// CarriedKeyName, trailing EncryptionProperties
	if err == nil && p == "" && (n <= 1 || n == 16 || n == 33) {
		for _, opt := range []string{"KeySize-in-bits", "Id-attributes", "MimeType+Encoding", "KeyName-after-the-key", "Recipient+CarriedKeyName", "EncryptionProperties", "all-of-them"} {
			w := refEl.Copy()
			all := opt == "all-of-them"
			ems := findNS(w, xenc.NSXenc, "EncryptionMethod")
			eks := findNS(w, xenc.NSXenc, "EncryptedKey")
			if opt == "KeySize-in-bits" || all {
				for _, em := range ems {
					if em.Parent() == w {
						ks := etree.NewElement("xenc:KeySize")
						bits := 8 * xenc.KeySize(blk.alg)
						if blk.alg == xenc.TDESCBC {
							bits = 192
						}
						ks.SetText(fmt.Sprint(bits))
						em.InsertChildAt(0, ks)
					}
				}
			}
			if opt == "Id-attributes" || all {
				w.CreateAttr("Id", "_ed1")
				for _, ek := range eks {
					ek.CreateAttr("Id", "_ek1")
				}
			}
			if opt == "MimeType+Encoding" || all {
				w.CreateAttr("MimeType", "text/xml")
				w.CreateAttr("Encoding", "http://www.w3.org/2000/09/xmldsig#base64")
			}
			if (opt == "KeyName-after-the-key" || all) && len(eks) > 0 {
				kn := etree.NewElement("ds:KeyName")
				kn.CreateAttr("xmlns:ds", xenc.NSDsig)
				kn.SetText("sp-key-2024")
				eks[0].Parent().AddChild(kn)
			}
			if (opt == "Recipient+CarriedKeyName" || all) && len(eks) > 0 {
				eks[0].CreateAttr("Recipient", "https://sp.example.com/metadata")
				eks[0].CreateElement("xenc:CarriedKeyName").SetText("session-key")
			}
			if opt == "EncryptionProperties" || all {
				ep := w.CreateElement("xenc:EncryptionProperties").CreateElement("xenc:EncryptionProperty")
				ep.CreateAttr("Target", "#_ed1")
				ep.SetText("made-by other-producer/1.0")
			}
			if len(eks) == 0 && (opt == "KeyName-after-the-key" || opt == "Recipient+CarriedKeyName") {
				continue
			}
			ww, werr := rewire(w)
			if werr != nil {
				continue
			}
			var got5 []byte
			e5, p5 := guard(func() error { var e error; got5, e = xmlenc.Decrypt(dk, ww); return e })
			t.Impl(1)
			switch {
			case p5 != "":
				t.Fail(fk("lib-decrypts-ref", "panic-on-optional-schema-parts"), "Decrypt panicked on the ciphertext written with %s: %s", opt, p5)
			case e5 != nil:
				t.Fail(fk("lib-decrypts-ref", "error-on-optional-schema-parts"), "the same ciphertext written with %s is refused: %v", opt, e5)
				t.Input("element-"+opt, string(ww.Tag))
			case !bytes.Equal(got5, pt):
				t.Fail(fk("lib-decrypts-ref", "mismatch-on-optional-schema-parts"), "ciphertext written with %s decrypts to different plaintext", opt)
			}
		}
	}
	t.Compared()
	if t.Failed() {
		t.Outcome("fails")
		if el != nil {
			t.Input("lib_element", string(samlgen.Doc(el.Copy())))
		}
		t.Input("ref_element", string(samlgen.Doc(refEl.Copy())))
	} else {
		t.Outcome("ok")
	}
	t.Sample(map[string]interface{}{"case": key, "ok": !t.Failed()})
}

func trunc(b []byte, n int) []byte {
	if len(b) > n {
		return b[:n]
	}
	return b
}

// reprefix rewrites the namespace prefixes of an xmlenc element tree without changing any expanded name.
func reprefix(root *etree.Element, style string) {
	nsOf := map[string]string{"xenc": xenc.NSXenc, "ds": xenc.NSDsig, "xenc11": "http://www.w3.org/2009/xmlenc11#"}
	newPfx := map[string]string{"xenc": "e", "ds": "dsig", "xenc11": "e11"}
	var walkEl func(el *etree.Element)
	walkEl = func(el *etree.Element) {
		old := el.Space
		uri, known := nsOf[old]
		// drop prefix declarations; they are re-declared where used
		var keep []etree.Attr
		for _, a := range el.Attr {
			if a.Space == "xmlns" || (a.Space == "" && a.Key == "xmlns") {
				continue
			}
			keep = append(keep, a)
		}
		el.Attr = keep
		if known {
			switch {
			case style == "other-prefixes":
				el.Space = newPfx[old]
				el.CreateAttr("xmlns:"+newPfx[old], uri)
			case style == "all-default-namespaces", style == "default-namespace-on-KeyInfo" && uri == xenc.NSDsig:
				el.Space = ""
				el.CreateAttr("xmlns", uri)
			default:
				el.CreateAttr("xmlns:"+old, uri)
			}
		}
		for _, ch := range el.ChildElements() {
			walkEl(ch)
		}
	}
	walkEl(root)
}
