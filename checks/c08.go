package checks

import (
	"bytes"
	"crypto/rsa"
	"encoding/base64"
	"encoding/xml"
	"errors"
	"fmt"
	"html"
	"io"
	"net/http/httptest"
	"strings"
	"time"

	"github.com/beevik/etree"
	"github.com/crewjam/saml"
	"github.com/crewjam/saml/xmlenc"

	"verif/engine/core"
	"verif/engine/harness"
	"verif/engine/htmlform"
	"verif/engine/samlgen"
	"verif/engine/sched"
	"verif/engine/xenc"
)

// C08 — assertions for SPs that publish an encryption key never leave the IdP in clear;
// on the SP side a decrypted assertion gets exactly the checks a plaintext one gets.

type c08KD struct {
	use     string
	cert    string // "" = X509Certificate element with empty text
	noCert  bool   // no X509Certificate element at all
	methods []string
	more    []string // further X509Certificate elements in the same X509Data (a published chain): the first one is the key holder's
}

type c08Layout struct {
	name       string
	kds        []c08KD
	advertises bool     // some descriptor advertises a usable-looking encryption key
	mustFail   bool     // advertised key is unusable: an error reply is the only acceptable outcome
	errorOK    bool     // advertised key is usable but an implementation may refuse it: error reply or encrypted response
	dontCare   bool     // statement does not decide
	decryptors []string // key fixtures allowed to recover the content
}

func c08Layouts() []c08Layout {
	sp, other, ec := samlgen.Key("sp2048").CertB64, samlgen.Key("spother").CertB64, samlgen.Key("spec256").CertB64
	ws := "\n    " + sp[:64] + "\n    " + sp[64:200] + "\r\n\t" + sp[200:] + "\n  "
	all := []string{"http://www.w3.org/2001/04/xmlenc#aes128-cbc", "http://www.w3.org/2001/04/xmlenc#aes256-cbc", "http://www.w3.org/2001/04/xmlenc#rsa-oaep-mgf1p"}
	return []c08Layout{
		{name: "enc", kds: []c08KD{{use: "encryption", cert: sp}}, advertises: true, decryptors: []string{"sp2048"}},
		{name: "enc+methods", kds: []c08KD{{use: "encryption", cert: sp, methods: all}}, advertises: true, decryptors: []string{"sp2048"}},
		{name: "enc+methods-without-aes128", kds: []c08KD{{use: "encryption", cert: sp, methods: all[1:]}}, advertises: true, decryptors: []string{"sp2048"}},
		{name: "enc+methods-only-gcm", kds: []c08KD{{use: "encryption", cert: sp, methods: []string{"http://www.w3.org/2009/xmlenc11#aes128-gcm"}}}, advertises: true, decryptors: []string{"sp2048"}},
		{name: "nouse", kds: []c08KD{{use: "", cert: sp}}, advertises: true, decryptors: []string{"sp2048"}},
		// a usable RSA certificate whose keyUsage extension does not mention encipherment: the SP advertised it for encryption all the same;
		// encrypting to it or refusing are both fine, sending the assertion in clear is not
		{name: "enc-keyusage-signature-only", kds: []c08KD{{use: "encryption", cert: samlgen.Key("sp2048kusig").CertB64}}, advertises: true, errorOK: true, decryptors: []string{"sp2048"}},
		{name: "enc-keyusage-signature+contentcommitment", kds: []c08KD{{use: "encryption", cert: samlgen.Key("sp2048kusigcc").CertB64}}, advertises: true, errorOK: true, decryptors: []string{"sp2048"}},
		{name: "nouse-keyusage-keyagreement", kds: []c08KD{{use: "", cert: samlgen.Key("sp2048kuagree").CertB64}}, advertises: true, errorOK: true, decryptors: []string{"sp2048"}},
		{name: "nouse+chain", kds: []c08KD{{use: "", cert: sp, more: []string{other}}}, advertises: true, decryptors: []string{"sp2048"}},
		{name: "enc+chain", kds: []c08KD{{use: "encryption", cert: sp, more: []string{other, samlgen.Key("spother2").CertB64}}}, advertises: true, decryptors: []string{"sp2048"}},
		{name: "nouse+chain-with-empty-first", kds: []c08KD{{use: "", cert: "", more: []string{sp, other}}}, dontCare: true},
		{name: "signing-only", kds: []c08KD{{use: "signing", cert: sp}}},
		{name: "none"},
		{name: "enc+signing", kds: []c08KD{{use: "encryption", cert: sp}, {use: "signing", cert: other}}, advertises: true, decryptors: []string{"sp2048"}},
		{name: "signing+enc", kds: []c08KD{{use: "signing", cert: other}, {use: "encryption", cert: sp}}, advertises: true, decryptors: []string{"sp2048"}},
		{name: "signing+nouse", kds: []c08KD{{use: "signing", cert: other}, {use: "", cert: sp}}, advertises: true, decryptors: []string{"sp2048"}},
		{name: "two-enc", kds: []c08KD{{use: "encryption", cert: sp}, {use: "encryption", cert: other}}, advertises: true, decryptors: []string{"sp2048", "spother"}},
		{name: "nouse+enc", kds: []c08KD{{use: "", cert: other}, {use: "encryption", cert: sp}}, advertises: true, decryptors: []string{"sp2048", "spother"}},
		{name: "enc-ws-wrapped", kds: []c08KD{{use: "encryption", cert: ws}}, advertises: true, decryptors: []string{"sp2048"}},
		{name: "enc-malformed-base64", kds: []c08KD{{use: "encryption", cert: "!!!not base64!!!"}}, advertises: true, mustFail: true},
		{name: "enc-truncated-cert", kds: []c08KD{{use: "encryption", cert: sp[:len(sp)/2]}}, advertises: true, mustFail: true},
		{name: "enc-garbage-der", kds: []c08KD{{use: "encryption", cert: base64.StdEncoding.EncodeToString([]byte("this is not a certificate"))}}, advertises: true, mustFail: true},
		{name: "enc-ec-cert", kds: []c08KD{{use: "encryption", cert: ec}}, advertises: true, mustFail: true},
		{name: "nouse-malformed", kds: []c08KD{{use: "", cert: "@@@@"}}, advertises: true, mustFail: true},
		{name: "enc-malformed+signing", kds: []c08KD{{use: "encryption", cert: "%%%"}, {use: "signing", cert: sp}}, advertises: true, mustFail: true},
		{name: "enc-no-x509certificate", kds: []c08KD{{use: "encryption", noCert: true}}, advertises: true, mustFail: true},
		{name: "enc-empty-cert", kds: []c08KD{{use: "encryption", cert: ""}}, dontCare: true},
		{name: "enc-empty-cert+nouse", kds: []c08KD{{use: "encryption", cert: ""}, {use: "", cert: sp}}, advertises: true, decryptors: []string{"sp2048"}},
		{name: "nouse-empty", kds: []c08KD{{use: "", cert: ""}}, dontCare: true},
		{name: "nouse-empty+nouse", kds: []c08KD{{use: "", cert: ""}, {use: "", cert: sp}}, advertises: true, decryptors: []string{"sp2048"}},
		{name: "signing+nouse-empty+nouse", kds: []c08KD{{use: "signing", cert: other}, {use: "", cert: ""}, {use: "", cert: sp}}, advertises: true, decryptors: []string{"sp2048"}},
		{name: "enc-empty+enc", kds: []c08KD{{use: "encryption", cert: ""}, {use: "encryption", cert: sp}}, advertises: true, decryptors: []string{"sp2048"}},
	}
}

// c08Roles: how the SP's role descriptors are laid out around the one that holds the POST ACS endpoint and the key descriptors.
var c08Roles = []string{"single", "lead-artifact-only-descriptor", "post-acs-in-second-position", "trail-artifact-only-descriptor", "lead-and-second-position",
	// a second role descriptor with a POST endpoint of its own (another Location) and no key descriptors: the keys that count are those of
	// the descriptor whose endpoint the response goes to
	"trail-keyless-post-descriptor", "lead-keyless-post-descriptor"}

func (l c08Layout) metadata(firstCertOverride string) *saml.EntityDescriptor {
	return l.metadataRoles(firstCertOverride, "single")
}

func (l c08Layout) metadataRoles(firstCertOverride, roles string) *saml.EntityDescriptor {
	proto := saml.SSODescriptor{RoleDescriptor: saml.RoleDescriptor{ProtocolSupportEnumeration: "urn:oasis:names:tc:SAML:2.0:protocol"}}
	art := saml.IndexedEndpoint{Binding: saml.HTTPArtifactBinding, Location: "https://sp.example.com/saml/artifact", Index: 7}
	sd := saml.SPSSODescriptor{SSODescriptor: proto,
		AssertionConsumerServices: []saml.IndexedEndpoint{{Binding: saml.HTTPPostBinding, Location: samlgen.SPAcs, Index: 1}}}
	if roles == "post-acs-in-second-position" || roles == "lead-and-second-position" {
		sd.AssertionConsumerServices = append([]saml.IndexedEndpoint{art}, sd.AssertionConsumerServices...)
	}
	for i, k := range l.kds {
		kd := saml.KeyDescriptor{Use: k.use}
		if !k.noCert {
			c := k.cert
			if i == 0 && firstCertOverride != "" {
				c = firstCertOverride
			}
			kd.KeyInfo.X509Data.X509Certificates = []saml.X509Certificate{{Data: c}}
			for _, m := range k.more {
				kd.KeyInfo.X509Data.X509Certificates = append(kd.KeyInfo.X509Data.X509Certificates, saml.X509Certificate{Data: m})
			}
		}
		for _, m := range k.methods {
			kd.EncryptionMethods = append(kd.EncryptionMethods, saml.EncryptionMethod{Algorithm: m})
		}
		sd.KeyDescriptors = append(sd.KeyDescriptors, kd)
	}
	ed := &saml.EntityDescriptor{EntityID: samlgen.SPEntity, SPSSODescriptors: []saml.SPSSODescriptor{sd}}
	bare := saml.SPSSODescriptor{SSODescriptor: proto, AssertionConsumerServices: []saml.IndexedEndpoint{art}}
	switch roles {
	case "lead-artifact-only-descriptor", "lead-and-second-position":
		ed.SPSSODescriptors = []saml.SPSSODescriptor{bare, sd}
	case "trail-artifact-only-descriptor":
		ed.SPSSODescriptors = []saml.SPSSODescriptor{sd, bare}
	case "trail-keyless-post-descriptor", "lead-keyless-post-descriptor":
		legacy := saml.SPSSODescriptor{SSODescriptor: proto, AssertionConsumerServices: []saml.IndexedEndpoint{{Binding: saml.HTTPPostBinding, Location: "https://sp.example.com/legacy/acs", Index: 2}}}
		if roles == "trail-keyless-post-descriptor" {
			ed.SPSSODescriptors = []saml.SPSSODescriptor{sd, legacy}
		} else {
			ed.SPSSODescriptors = []saml.SPSSODescriptor{legacy, sd}
		}
	}
	b, err := xml.Marshal(ed)
	if err != nil {
		panic(err)
	}
	var out saml.EntityDescriptor
	if err := xml.Unmarshal(b, &out); err != nil {
		panic(err)
	}
	return &out
}

func markerForms(s string) []string {
	forms := []string{s, html.EscapeString(s)}
	for off := 0; off < 3; off++ {
		// base64 of the marker at any of the three byte alignments (without the boundary-dependent first/last characters)
		pad := strings.Repeat("x", off)
		enc := base64.StdEncoding.EncodeToString([]byte(pad + s))
		if len(enc) > 12 {
			forms = append(forms, enc[4:len(enc)-4])
		}
	}
	return forms
}

func init() {
	Register(&Check{
		ID:     "C08",
		Engine: "lattice",
		Rule: "IdP side: 23 key-descriptor layouts (use=encryption / omitted / signing-only / none / several descriptors in both orders / EncryptionMethod lists / white-space-wrapped, malformed, truncated, garbage, EC, empty and missing certificates) x 5 marker sessions x {SP-initiated, IdP-initiated} x 3 consecutive responses with a recording random source, plus re-registration of the same entity ID with another certificate between responses; " +
			"oracle: an advertised key means error reply or a Response without any plaintext Assertion and without any marker string outside CipherValue, recoverable with an advertised key only, content keys and IVs fresh and drawn from the configured reader. " +
			"SP side: for every assertion variant (valid, expired, wrong audience/recipient/issuer/InResponseTo, unsigned, attacker-signed, tampered, missing parts, comment-injected) x signing layout the verdict on the plaintext form equals the verdict on the harness-encrypted form; every ciphertext fault (every truncation length, every single-byte flip of IV/first/last blocks, EncryptedKey removed/duplicated/re-wrapped/sibling, EncryptedData duplicated, empty / comment-only / two-root / junk plaintexts) is an InvalidResponseError. non-trivial = all but the plain 'enc' layout first response",
		Bounds: func(tier string) string {
			return "all layouts x sessions x launch kinds x 3 responses; all variants x layouts; CipherValue truncations 0..4 blocks+1 and byte flips over IV + first two + last two blocks"
		},
		Assumptions: []string{"chosen-ciphertext (padding-oracle) side channels are a timing property, not a reachability one", "use=encryption with an empty certificate is treated as 'no key advertised' (DONT_CARE)"},
		Run:         runC08,
		CapQuick:    6 * time.Minute,
		CapThorough: 15 * time.Minute,
	})
}

func runC08(c *core.Ctx) {
	g := harness.Pin(samlgen.T0)
	defer g.Restore()
	layouts := c08Layouts()
	sessions := c06Sessions("MRK8")

	c.Group("idp-side")
	for _, l := range layouts {
		for si, ss := range sessions {
			for _, kind := range []string{"sp-initiated", "idp-initiated", "sp-initiated-naming-no-endpoint"} {
				for _, roles := range c08Roles {
					if roles != "single" && si > 1 {
						continue // the role-descriptor arrangements with the first two sessions
					}
					if roles == "lead-keyless-post-descriptor" && kind != "sp-initiated" {
						continue // (without a named endpoint the response goes to the keyless descriptor's own endpoint: nothing to encrypt to)
					}
					l, ss, kind, si, roles := l, ss, kind, si, roles
					key := fmt.Sprintf("idp/%s/session=%s/%s", l.name, ss.name, kind)
					if roles != "single" {
						key += "/roles=" + roles
					}
					c.Case(key, func(t *core.T) {
						if !(l.name == "enc" && si == 0 && kind == "sp-initiated") {
							t.NonTrivial()
						}
						md := l.metadataRoles("", roles)
						sess := ss.s
						idp := harness.ReuseIDP("idp1", harness.SPRegistry{md.EntityID: md}, &sess) // one IdentityProvider value for the whole worker
						rec := harness.NewCtr("c08" + key)
						xmlenc.RandReader = rec
						type obs struct{ cek, iv []byte }
						var seen []obs
						for round := 0; round < 3; round++ {
							before := len(rec.Drawn)
							body, p := c08Serve(idp, kind, round)
							t.Impl(1)
							if p != "" {
								t.Fail("C08/idp/panic@"+p[strings.LastIndex(p, "@")+1:], "IdP panicked for key-descriptor layout %s: %s", l.name, p)
								return
							}
							drawn := rec.Drawn[before:]
							o, ok := c08CheckEmitted(t, l, &sess, body, drawn, key)
							if !ok {
								return
							}
							if o != nil {
								for _, prev := range seen {
									if bytes.Equal(prev.cek, o[0]) {
										t.Fail("C08/idp/content-key-reused", "the content-encryption key of response %d equals that of an earlier response", round+1)
									}
									if bytes.Equal(prev.iv, o[1]) {
										t.Fail("C08/idp/iv-reused", "the IV of response %d equals that of an earlier response", round+1)
									}
								}
								seen = append(seen, obs{o[0], o[1]})
							}
						}
						t.Compared()
					})
				}
			}
		}
	}

	// re-registration of the same entity ID with another certificate between responses
	c.Group("idp-side-reregistration")
	for _, l := range layouts {
		if !l.advertises || l.mustFail || len(l.decryptors) != 1 || len(l.kds) == 0 || l.kds[0].use == "signing" || l.kds[0].cert == "" {
			continue // re-registration swaps the certificate of the first descriptor: use layouts whose first descriptor is the encryption key
		}
		for _, order := range [][]string{{"sp2048", "spother"}, {"spother", "sp2048"}, {"sp2048", "spother", "sp2048"}, {"sp2048", "spother2", "spother"}} {
			for _, how := range []string{"replace-entry", "mutate-in-place"} {
				l, order, how := l, order, how
				key := fmt.Sprintf("rereg/%s/%s/%s", l.name, strings.Join(order, ">"), how)
				c.Case(key, func(t *core.T) {
					t.NonTrivial()
					sess := sessions[0].s
					reg := harness.SPRegistry{}
					idp := harness.NewIDP("idp1", reg, &sess)
					xmlenc.RandReader = harness.NewCtr("c08" + key)
					for step, kn := range order {
						md := l.metadata(wrapLike(l, samlgen.Key(kn).CertB64))
						if how == "mutate-in-place" && reg[md.EntityID] != nil {
							*reg[md.EntityID] = *md
						} else {
							reg[md.EntityID] = md
						}
						body, p := c08Serve(idp, "sp-initiated", step)
						t.Impl(1)
						if p != "" {
							t.Fail("C08/rereg/panic@"+p[strings.LastIndex(p, "@")+1:], "panicked: %s", p)
							return
						}
						ll := l
						ll.decryptors = []string{kn}
						if _, ok := c08CheckEmitted(t, ll, &sess, body, nil, fmt.Sprintf("%s step %d (registered key %s)", key, step+1, kn)); !ok {
							return
						}
					}
					t.Compared()
				})
			}
		}
	}

	c08Retry(c, layouts, sessions)
	c08HandBuilt(c, layouts, sessions)
	c08ShortReads(c, layouts, sessions)
	c08Overlap(c, layouts, sessions)
	c08SPSide(c)
}

// failAt is a random source that fails its k-th Read once and serves from inner otherwise.
type failAt struct {
	inner io.Reader
	k, n  int
}

func (f *failAt) Read(p []byte) (int, error) {
	f.n++
	if f.n-1 == f.k {
		return 0, errors.New("entropy source unavailable")
	}
	return f.inner.Read(p)
}

// c08Retry: the response is built on ONE IdpAuthnRequest whose first attempt fails inside the encryption step (the k-th draw from
// the random source fails, k = 0..5; or the advertised certificate is unusable) and is then attempted again, as an application
// retrying WriteResponse would. Whatever the second attempt emits is held to the same oracle.
func c08Retry(c *core.Ctx, layouts []c08Layout, sessions []c06Session) {
	c.Group("idp-side-retry-after-failed-encryption")
	for _, l := range layouts {
		if !l.advertises {
			continue
		}
		for k := 0; k < 6; k++ {
			l, k := l, k
			key := fmt.Sprintf("retry/%s/fail-draw=%d", l.name, k)
			c.Case(key, func(t *core.T) {
				t.NonTrivial()
				md := l.metadata("")
				sess := sessions[0].s
				idp := harness.NewIDP("idp1", harness.SPRegistry{md.EntityID: md}, &sess)
				doc := authnRequestXML(samlgen.S(samlgen.SPEntity), samlgen.S(samlgen.IDPSSO), samlgen.S("2.0"), samlgen.S(samlgen.TS(samlgen.T0)), samlgen.S(samlgen.SPAcs), nil, "id-req-c08-retry")
				var bodies [][]byte
				_, p := guard(func() error {
					req, err := saml.NewIdpAuthnRequest(idp, idpRequest("POST", doc, "relay"))
					if err != nil {
						return err
					}
					if err := req.Validate(); err != nil {
						return err
					}
					if err := (saml.DefaultAssertionMaker{}).MakeAssertion(req, &sess); err != nil {
						return err
					}
					xmlenc.RandReader = &failAt{inner: harness.NewCtr("c08" + key), k: k}
					for attempt := 0; attempt < 3; attempt++ {
						w := httptest.NewRecorder()
						err := req.WriteResponse(w)
						t.Impl(1)
						if err == nil {
							bodies = append(bodies, w.Body.Bytes())
						} else if w.Body.Len() > 0 {
							bodies = append(bodies, w.Body.Bytes()) // something was written although an error is reported
						}
					}
					return nil
				})
				if p != "" {
					t.Fail("C08/retry/panic@"+p[strings.LastIndex(p, "@")+1:], "panicked: %s", p)
					return
				}
				t.Outcome(fmt.Sprintf("emitted=%d", len(bodies)))
				for i, b := range bodies {
					if _, ok := c08CheckEmitted(t, l, &sess, b, nil, fmt.Sprintf("%s, emission %d", key, i+1)); !ok {
						return
					}
				}
				t.Compared()
			})
		}
	}
}

// shortReader hands out at most max octets per Read call, without an error - as io.Reader allows (a block-wise DRBG, an HSM wrapper).
type shortReader struct {
	inner io.Reader
	max   int
}

func (c shortReader) Read(p []byte) (int, error) {
	if len(p) > c.max {
		p = p[:c.max]
	}
	return c.inner.Read(p)
}

// c08ShortReads: the configured random source answers each Read with at most n octets. Keys and IVs are still whole and fresh.
func c08ShortReads(c *core.Ctx, layouts []c08Layout, sessions []c06Session) {
	c.Group("idp-side-random-source-with-short-reads")
	for _, l := range layouts {
		if !l.advertises || l.mustFail || l.errorOK {
			continue
		}
		for _, max := range c08ChunkSizes {
			for _, kind := range []string{"sp-initiated", "idp-initiated"} {
				l, max, kind := l, max, kind
				key := fmt.Sprintf("short-reads/%s/at-most-%d-octets-per-read/%s", l.name, max, kind)
				c.Case(key, func(t *core.T) {
					t.NonTrivial()
					md := l.metadata("")
					sess := sessions[0].s
					idp := harness.NewIDP("idp1", harness.SPRegistry{md.EntityID: md}, &sess)
					rec := harness.NewCtr("c08" + key)
					xmlenc.RandReader = shortReader{rec, max}
					defer func() { xmlenc.RandReader = rec }()
					var seen [][][]byte
					for round := 0; round < 3; round++ {
						body, p := c08Serve(idp, kind, round)
						t.Impl(1)
						if p != "" {
							t.Fail("C08/idp/panic@"+p[strings.LastIndex(p, "@")+1:], "IdP panicked: %s", p)
							return
						}
						o, ok := c08CheckEmitted(t, l, &sess, body, nil, key)
						if !ok {
							return
						}
						if o != nil {
							for _, prev := range seen {
								if bytes.Equal(prev[0], o[0]) {
									t.Fail("C08/idp/content-key-reused", "[%s] the content-encryption key of response %d equals that of an earlier response", key, round+1)
								}
								if bytes.Equal(prev[1], o[1]) {
									t.Fail("C08/idp/iv-reused", "[%s] the IV of response %d equals that of an earlier response", key, round+1)
								}
							}
							seen = append(seen, o)
						}
					}
					t.Compared()
				})
			}
		}
	}
}

// c08ChunkSizes: the per-Read limits of the short-read group.
var c08ChunkSizes = []int{1, 7, 8, 15, 16, 17, 24, 31, 32}

// c08HandBuilt: an IdpAuthnRequest the application put together itself (an own launch flow, an own AssertionMaker) from the exported
// fields - the SP's registered metadata, the endpoint, the assertion - with one of the fields the library's own flows always fill left
// out. Stopping (an error, a panic: nothing is written) is fine; what is never fine is an answer with the assertion in clear for an SP
// whose registered metadata publishes an encryption key.
func c08HandBuilt(c *core.Ctx, layouts []c08Layout, sessions []c06Session) {
	c.Group("idp-side-hand-built-requests")
	for _, l := range layouts {
		if !l.advertises {
			continue
		}
		for _, left := range []string{"nothing", "SPSSODescriptor", "HTTPRequest", "RequestBuffer+Request.ID", "Now"} {
			for _, via := range []string{"WriteResponse", "PostBinding", "MakeAssertionEl+MakeResponse"} {
				l, left, via := l, left, via
				key := fmt.Sprintf("hand-built/%s/left-out=%s/%s", l.name, left, via)
				c.Case(key, func(t *core.T) {
					t.NonTrivial()
					md := l.metadata("")
					sess := sessions[0].s
					idp := harness.NewIDP("idp1", harness.SPRegistry{md.EntityID: md}, &sess)
					doc := authnRequestXML(samlgen.S(samlgen.SPEntity), samlgen.S(samlgen.IDPSSO), samlgen.S("2.0"), samlgen.S(samlgen.TS(samlgen.T0)), samlgen.S(samlgen.SPAcs), nil, "id-req-c08-hand")
					xmlenc.RandReader = harness.NewCtr("c08" + key)
					var emitted [][]byte
					_, p := guard(func() error {
						full, err := saml.NewIdpAuthnRequest(idp, idpRequest("POST", doc, "relay"))
						if err != nil {
							return err
						}
						if err := full.Validate(); err != nil {
							return err
						}
						if err := (saml.DefaultAssertionMaker{}).MakeAssertion(full, &sess); err != nil {
							return err
						}
						req := &saml.IdpAuthnRequest{IDP: idp, HTTPRequest: full.HTTPRequest, RelayState: "relay", RequestBuffer: full.RequestBuffer, Request: full.Request,
							ServiceProviderMetadata: full.ServiceProviderMetadata, SPSSODescriptor: full.SPSSODescriptor, ACSEndpoint: full.ACSEndpoint, Assertion: full.Assertion, Now: full.Now}
						switch left {
						case "SPSSODescriptor":
							req.SPSSODescriptor = nil
						case "HTTPRequest":
							req.HTTPRequest = nil
						case "RequestBuffer+Request.ID":
							req.RequestBuffer, req.Request.ID = nil, ""
						case "Now":
							req.Now = time.Time{}
						}
						t.Impl(1)
						switch via {
						case "WriteResponse":
							w := httptest.NewRecorder()
							_ = req.WriteResponse(w)
							if w.Body.Len() > 0 {
								emitted = append(emitted, w.Body.Bytes())
							}
						case "PostBinding":
							if f, err := req.PostBinding(); err == nil {
								if raw, derr := base64.StdEncoding.DecodeString(f.SAMLResponse); derr == nil {
									emitted = append(emitted, raw)
								}
							}
						default:
							if err := req.MakeAssertionEl(); err != nil {
								return nil
							}
							if err := req.MakeResponse(); err == nil && req.ResponseEl != nil {
								emitted = append(emitted, samlgen.Doc(req.ResponseEl.Copy()))
							}
						}
						return nil
					})
					t.Compared()
					if p != "" && len(emitted) == 0 {
						t.Outcome("stopped-without-output")
						return
					}
					t.Outcome(fmt.Sprintf("emitted=%d", len(emitted)))
					for _, b := range emitted {
						xmlBytes := b
						if strings.Contains(string(b), "name=\"SAMLResponse\"") {
							if f, err := htmlform.Parse(b); err == nil {
								if raw, derr := base64.StdEncoding.DecodeString(f.Fields["SAMLResponse"]); derr == nil {
									xmlBytes = raw
								}
							}
						}
						clear := false
						if el := samlgen.Parse(xmlBytes); el != nil {
							for _, a := range findNS(el, samlgen.NSAssertion, "Assertion") {
								_ = a
								clear = true
							}
						}
						for m := range sessionStrings(&sess) {
							if m != "" && strings.Contains(string(xmlBytes), m) {
								clear = true
							}
						}
						if clear {
							t.Fail("C08/idp/hand-built-request-answered-in-clear", "[%s] the SP's registered metadata (layout %s) publishes an encryption key, the request was built by hand with %s left out, and what came out shows the assertion in clear", key, l.name, left)
							t.Input("emitted", string(trunc(xmlBytes, 4000)))
							return
						}
					}
				})
			}
		}
	}
}

// gateReader makes every draw of key material a scheduling point of the controlled scheduler (single-byte probes of crypto/rsa are not).
type gateReader struct{ inner io.Reader }

func (g gateReader) Read(p []byte) (int, error) {
	if h := sched.Hook(); h != nil && len(p) > 1 {
		h.Store(fmt.Sprintf("draw %d random bytes", len(p)))
	}
	return g.inner.Read(p)
}

// c08Overlap: two responses for two users are built by two threads on one IdentityProvider; every interleaving of their draws from the
// random source is explored (controlled scheduler; quick: at most 2 preemptions, thorough: all interleavings). Each emitted response is held to the single-response oracle,
// and the two content keys and IVs must differ and must not be degenerate.
func c08Overlap(c *core.Ctx, layouts []c08Layout, sessions []c06Session) {
	c.Group("idp-side-overlapping-responses")
	for _, l := range layouts {
		if !l.advertises || l.mustFail || len(l.decryptors) != 1 {
			continue
		}
		if !c.Thorough() && l.name != "enc" && l.name != "nouse+chain" && l.name != "signing+enc" {
			continue // quick: three layouts (the draws do not depend on the layout); thorough: all
		}
		for _, kinds := range [][2]string{{"sp-initiated", "sp-initiated"}, {"sp-initiated", "idp-initiated"}} {
			l, kinds := l, kinds
			key := fmt.Sprintf("overlap/%s/%s+%s", l.name, kinds[0], kinds[1])
			c.Case(key, func(t *core.T) {
				t.NonTrivial()
				md := l.metadata("")
				s0, s1 := sessions[0].s, sessions[1].s
				var out [2][]byte
				var pan [2]string
				mk := func() []func() {
					xmlenc.RandReader = gateReader{harness.NewCtr("c08" + key)}
					out, pan = [2][]byte{}, [2]string{}
					var bodies []func()
					for i, ss := range []*saml.Session{&s0, &s1} {
						i, ss := i, ss
						idp := harness.NewIDP("idp1", harness.SPRegistry{md.EntityID: md}, ss)
						bodies = append(bodies, func() { out[i], pan[i] = c08Serve(idp, kinds[i], i) })
					}
					return bodies
				}
				failed := false
				pb := 2 // quick: at most two preemptions; thorough: every interleaving
				if c.Thorough() {
					pb = -1
				}
				st := sched.Explore(mk, pb, 20000, func(x *sched.Execution, choices []int) bool {
					if failed {
						return false
					}
					before := t.Failed()
					var keys [2][][]byte
					for i, ss := range []*saml.Session{&s0, &s1} {
						if pan[i] != "" || len(x.Panics) > 0 || x.Deadlock {
							t.Fail("C08/overlap/panic-or-deadlock", "schedule %v: %s %v %s", choices, pan[i], x.Panics, x.DeadlockMsg)
							failed = true
							return false
						}
						o, ok := c08CheckEmitted(t, l, ss, out[i], nil, fmt.Sprintf("%s, response %d, schedule %v (%s)", key, i+1, choices, strings.Join(x.Trace, " -> ")))
						if !ok || o == nil {
							failed = t.Failed() && !before
							return !failed
						}
						keys[i] = o
					}
					zero := make([]byte, 32)
					for i := 0; i < 2; i++ {
						if bytes.Equal(keys[i][0], zero[:len(keys[i][0])]) {
							t.Fail("C08/overlap/degenerate-content-key", "%s schedule %v (%s): response %d is encrypted under an all-zero content key", key, choices, strings.Join(x.Trace, " -> "), i+1)
						}
					}
					if bytes.Equal(keys[0][0], keys[1][0]) {
						t.Fail("C08/overlap/content-key-shared", "%s schedule %v (%s): both responses use the same content-encryption key", key, choices, strings.Join(x.Trace, " -> "))
					}
					if bytes.Equal(keys[0][1], keys[1][1]) {
						t.Fail("C08/overlap/iv-shared", "%s schedule %v: both responses use the same IV", key, choices)
					}
					failed = t.Failed() && !before
					return !failed
				})
				t.Evals(st.Executions)
				t.Impl(st.Executions * 2)
				t.Outcome(fmt.Sprintf("schedules=%d", st.Executions))
				t.Sample(map[string]interface{}{"case": key, "schedules": st.Executions, "max_points": st.MaxPoints, "capped": st.Capped})
				t.Compared()
			})
		}
	}
}

func wrapLike(l c08Layout, cert string) string {
	if l.name == "enc-ws-wrapped" {
		return "\n  " + cert[:70] + "\n  " + cert[70:] + "\n"
	}
	return cert
}

func c08Serve(idp *saml.IdentityProvider, kind string, round int) ([]byte, string) {
	var body []byte
	_, p := guard(func() error {
		w := httptest.NewRecorder()
		if kind == "idp-initiated" {
			idp.ServeIDPInitiated(w, httptest.NewRequest("GET", "https://idp.example.com/login/x", nil), samlgen.SPEntity, "relay")
		} else {
			acs := samlgen.S(samlgen.SPAcs)
			if kind == "sp-initiated-naming-no-endpoint" {
				acs = nil
			}
			doc := authnRequestXML(samlgen.S(samlgen.SPEntity), samlgen.S(samlgen.IDPSSO), samlgen.S("2.0"), samlgen.S(samlgen.TS(samlgen.T0)), acs, nil, fmt.Sprintf("id-req-c08-%d", round))
			idp.ServeSSO(w, idpRequest("POST", doc, "relay"))
		}
		body = w.Body.Bytes()
		return nil
	})
	return body, p
}

// c08CheckEmitted applies the IdP-side oracle to one reply. Returns {cek, iv} when an encrypted assertion was recovered.
func c08CheckEmitted(t *core.T, l c08Layout, sess *saml.Session, body []byte, drawn []byte, ctx string) ([][]byte, bool) {
	hasForm := strings.Contains(string(body), "name=\"SAMLResponse\"")
	fail := func(k, f string, a ...interface{}) {
		t.Fail("C08/idp/"+k, "[%s] "+f, append([]interface{}{ctx}, a...)...)
		t.Input("page", string(trunc(body, 8000)))
	}
	// the error page must not leak either
	markers := sessionStrings(sess)
	markers[sess.Index] = true
	if !hasForm {
		t.Outcome("error-reply")
		for m := range markers {
			if strings.Contains(string(body), m) {
				fail("marker-in-error-reply", "error reply contains user data %q", m)
			}
		}
		if l.advertises && !l.mustFail && !l.errorOK {
			fail("no-response-although-key-usable", "layout %s advertises a usable encryption certificate but no response was produced: %s", l.name, trunc(body, 120))
			return nil, false
		}
		return nil, true
	}
	d, err := decodeIDPForm(body, nil, samlgen.Key("idp1").Cert, samlgen.T0)
	if err != nil && d.Resp == nil {
		fail("undecodable", "%v", err)
		return nil, false
	}
	if !l.advertises {
		t.Outcome("plaintext-expected")
		if l.dontCare {
			t.Outcome("dont-care")
		}
		return nil, true
	}
	if l.mustFail {
		if d.NAssertions > 0 {
			fail("plaintext-downgrade", "layout %s advertises an encryption key that cannot be used, yet the assertion was sent in clear", l.name)
		} else {
			fail("response-with-unusable-key", "layout %s: certificate unusable but a response was produced", l.name)
		}
		return nil, false
	}
	t.Outcome("encrypted")
	if d.NAssertions != 0 || len(findNS(d.Resp, samlgen.NSAssertion, "Assertion")) != 0 {
		fail("plaintext-downgrade", "layout %s advertises an encryption key but the Response contains a plaintext Assertion", l.name)
		return nil, false
	}
	if d.NEncrypted != 1 {
		fail("encrypted-assertion-count", "%d EncryptedAssertion elements", d.NEncrypted)
		return nil, false
	}
	// no marker anywhere outside CipherValue
	scrub := d.Resp.Copy()
	for _, cv := range findNS(scrub, xenc.NSXenc, "CipherValue") {
		cv.SetText("")
	}
	outside := string(samlgen.Doc(scrub)) + "\n" + pageWithoutField(body)
	for m := range markers {
		for _, f := range markerForms(m) {
			if f != "" && strings.Contains(outside, f) {
				fail("marker-outside-ciphertext", "user data %q (form %q) appears in the emitted page outside CipherValue", m, f)
			}
		}
	}
	// recoverable with an advertised key and with no other
	eds := findNS(d.EncEl, xenc.NSXenc, "EncryptedData")
	if len(eds) != 1 {
		fail("encrypteddata-count", "%d EncryptedData", len(eds))
		return nil, false
	}
	var pt []byte
	opened := ""
	for _, kn := range []string{"sp2048", "spother", "spother2", "sp4096", "idp1"} {
		got, err := xenc.DecryptElement(samlgen.Key(kn).Key, eds[0])
		allowed := false
		for _, a := range l.decryptors {
			if a == kn {
				allowed = true
			}
		}
		if err == nil && !allowed {
			fail("decryptable-with-wrong-key", "content decrypts with key %s, advertised keys are %v", kn, l.decryptors)
		}
		if err == nil && allowed {
			pt, opened = got, kn
		}
	}
	if opened == "" {
		fail("not-recoverable", "content cannot be recovered (independent implementation) with the SP key(s) %v", l.decryptors)
		return nil, false
	}
	pd := etree.NewDocument()
	if err := pd.ReadFromBytes(pt); err != nil || pd.Root() == nil || pd.Root().Tag != "Assertion" {
		fail("plaintext-not-an-assertion", "decrypted content is not an Assertion: %v", err)
		return nil, false
	}
	nid := pd.Root().FindElement("./Subject/NameID")
	if nid == nil || nid.Text() != sess.NameID {
		fail("wrong-content", "decrypted assertion NameID differs from the session's")
	}
	if n, ok, _, _, e := verifyEnveloped(pd.Root(), nil2certs("idp1"), samlgen.T0); !ok {
		fail("decrypted-assertion-signature", "decrypted assertion: %d signatures, %s", n, e)
	}
	// fresh key and IV, drawn from the configured reader
	ek := eds[0].FindElement("./KeyInfo/EncryptedKey")
	if ek == nil {
		fail("no-encryptedkey", "EncryptedData carries no EncryptedKey")
		return nil, false
	}
	kt, _ := xenc.ParseKeyTransport(ek)
	wrapped, _ := base64.StdEncoding.DecodeString(strings.Join(strings.Fields(ek.FindElement("./CipherData/CipherValue").Text()), ""))
	cek, err := xenc.UnwrapKey(kt, samlgen.Key(opened).Key.(*rsa.PrivateKey), wrapped)
	if err != nil {
		fail("unwrap", "%v", err)
		return nil, false
	}
	data, _ := base64.StdEncoding.DecodeString(strings.Join(strings.Fields(eds[0].FindElement("./CipherData/CipherValue").Text()), ""))
	if len(data) < 32 {
		fail("short-ciphertext", "%d bytes", len(data))
		return nil, false
	}
	iv := data[:16]
	if len(cek) < 16 {
		fail("short-key", "content key of %d bytes", len(cek))
	}
	if bytes.Equal(cek, make([]byte, len(cek))) {
		fail("degenerate-content-key", "the content-encryption key is all zero: anybody can read the assertion")
	}
	if bytes.Equal(iv, make([]byte, len(iv))) {
		fail("degenerate-iv", "the IV is all zero")
	} else if bytes.Equal(iv[8:], make([]byte, 8)) {
		fail("degenerate-iv", "the last 8 octets of the IV are zero: it was not fully drawn")
	}
	if len(cek) >= 16 && !bytes.Equal(cek, make([]byte, len(cek))) && bytes.Equal(cek[len(cek)-8:], make([]byte, 8)) {
		fail("degenerate-content-key", "the last 8 octets of the content-encryption key are zero: it was not fully drawn")
	}
	if drawn != nil {
		// provenance from xmlenc.RandReader is recorded as an outcome only: the statement asks for fresh keys and IVs,
		// which the pairwise-distinct check over consecutive responses decides
		if bytes.Contains(drawn, cek) && bytes.Contains(drawn, iv) {
			t.Outcome("encrypted/key-and-iv-from-RandReader")
		} else {
			t.Outcome("encrypted/key-or-iv-not-from-RandReader")
		}
		if bytes.Equal(cek, iv[:min(len(iv), len(cek))]) {
			fail("iv-equals-key", "IV equals the content key")
		}
	}
	return [][]byte{cek, iv}, true
}

func nil2certs(n string) []*x509Cert { return []*x509Cert{samlgen.Key(n).Cert} }

// pageWithoutField returns the HTML page with the SAMLResponse field value removed.
func pageWithoutField(body []byte) string {
	s := string(body)
	i := strings.Index(s, "name=\"SAMLResponse\" value=\"")
	if i < 0 {
		return s
	}
	j := strings.Index(s[i+27:], "\"")
	if j < 0 {
		return s[:i]
	}
	return s[:i+27] + s[i+27+j:]
}

// ---------- SP side ----------

type c08Variant struct {
	name string
	mk   func() (*samlgen.Assertion, func(el *etree.Element), string) // spec, post-sign mutation, signer key ("" = unsigned)
}

func c08Variants() []c08Variant {
	std := func(f func(a *samlgen.Assertion)) func() (*samlgen.Assertion, func(*etree.Element), string) {
		return func() (*samlgen.Assertion, func(*etree.Element), string) {
			a := samlgen.DefaultAssertion()
			f(a)
			return a, nil, "idp1"
		}
	}
	post := func(m func(el *etree.Element)) func() (*samlgen.Assertion, func(*etree.Element), string) {
		return func() (*samlgen.Assertion, func(*etree.Element), string) {
			return samlgen.DefaultAssertion(), m, "idp1"
		}
	}
	signer := func(k string) func() (*samlgen.Assertion, func(*etree.Element), string) {
		return func() (*samlgen.Assertion, func(*etree.Element), string) { return samlgen.DefaultAssertion(), nil, k }
	}
	far := samlgen.TS(samlgen.T0.Add(-24 * time.Hour))
	return []c08Variant{
		{"valid", std(func(a *samlgen.Assertion) {})},
		{"expired-conditions", std(func(a *samlgen.Assertion) { a.NotOnOrAfter = samlgen.S(far) })},
		{"expired-confirmation", std(func(a *samlgen.Assertion) { a.Confirmations[0].NotOnOrAfter = samlgen.S(far) })},
		{"not-yet-valid", std(func(a *samlgen.Assertion) { a.NotBefore = samlgen.S(samlgen.TS(samlgen.T0.Add(24 * time.Hour))) })},
		{"stale-issueinstant", std(func(a *samlgen.Assertion) { a.IssueInstant = samlgen.S(far) })},
		{"wrong-audience", std(func(a *samlgen.Assertion) { a.Audiences = [][]string{{"https://other.example.org/"}} })},
		{"wrong-recipient", std(func(a *samlgen.Assertion) { a.Confirmations[0].Recipient = samlgen.S(samlgen.SPAcs + "/") })},
		{"wrong-issuer", std(func(a *samlgen.Assertion) { a.Issuer = samlgen.S("https://evil-idp.example.net/") })},
		{"wrong-inresponseto", std(func(a *samlgen.Assertion) { a.Confirmations[0].InResponseTo = samlgen.S("id-other") })},
		{"no-subject", std(func(a *samlgen.Assertion) { a.NoSubject = true })},
		{"no-conditions", std(func(a *samlgen.Assertion) { a.NoConditions = true })},
		{"no-confirmation-data", std(func(a *samlgen.Assertion) { a.Confirmations[0].NoData = true })},
		{"second-confirmation-wrong-recipient", std(func(a *samlgen.Assertion) {
			c2 := a.Confirmations[0]
			c2.Recipient = samlgen.S("https://evil.example.net/acs")
			a.Confirmations = append(a.Confirmations, c2)
		})},
		{"unsigned", signer("")},
		{"signed-by-attacker", signer("attacker")},
		{"signed-by-encryption-use-key", signer("idpenc")},
		{"tampered-nameid-after-signing", post(func(el *etree.Element) { el.FindElement("./Subject/NameID").SetText("admin@example.com") })},
		{"tampered-attribute-after-signing", post(func(el *etree.Element) {
			el.FindElement("./AttributeStatement/Attribute/AttributeValue").SetText("admin")
		})},
		{"comment-in-nameid", post(func(el *etree.Element) {
			n := el.FindElement("./Subject/NameID")
			tx := n.Text()
			n.Child = nil
			n.CreateText(tx[:5])
			n.CreateComment("x")
			n.CreateText(tx[5:])
		})},
		{"signature-removed", post(func(el *etree.Element) {
			if s := firstSig(el); s != nil {
				el.RemoveChild(s)
			}
		})},
		{"keyinfo-removed", post(func(el *etree.Element) {
			if s := firstSig(el); s != nil {
				if ki := s.FindElement("./KeyInfo"); ki != nil {
					s.RemoveChild(ki)
				}
			}
		})},
		{"evil-assertion-inside-advice", post(func(el *etree.Element) {
			e := samlgen.DefaultAssertion()
			e.ID, e.NameID = "id-evil", samlgen.S("admin@example.com")
			el.CreateElement("saml:Advice").AddChild(e.Element())
		})},
	}
}

func c08SPSide(c *core.Ctx) {
	sp := harness.NewSP(harness.SPOpt{Trust: "meta2"})
	ids := []string{samlgen.ReqID}
	c.Group("sp-side-differential")
	for _, v := range c08Variants() {
		for _, respSigned := range []bool{false, true} {
			for _, wrap := range []string{"", "leading-comment", "trailing-comment", "xml-decl", "leading-ws"} {
				v, respSigned, wrap := v, respSigned, wrap
				key := fmt.Sprintf("spdiff/%s/respSigned=%v/plaintext-framing=%s", v.name, respSigned, wrap)
				c.Case(key, func(t *core.T) {
					t.NonTrivial()
					spec, mut, signer := v.mk()
					build := func(encrypt bool) []byte {
						rel := samlgen.DefaultResponse().Element()
						ael := spec.Element()
						rel.AddChild(ael)
						if signer != "" {
							samlgen.Sign(ael, samlgen.Key(signer), "")
						}
						if mut != nil {
							mut(ael)
						}
						if encrypt {
							pt := string(samlgen.Doc(ael))
							switch wrap {
							case "leading-comment":
								pt = "<!-- c -->" + pt
							case "trailing-comment":
								pt = pt + "<!-- c -->"
							case "xml-decl":
								pt = "<?xml version=\"1.0\" encoding=\"UTF-8\"?>" + pt
							case "leading-ws":
								pt = "\n  " + pt + "\n"
							}
							rel.RemoveChild(ael)
							rel.AddChild(harness.EncryptAssertionEl([]byte(pt), spKey(), key))
						}
						if respSigned {
							samlgen.Sign(rel, idp1(), "")
						}
						return samlgen.Doc(rel)
					}
					plain, enc := build(false), build(true)
					var ap, ae *saml.Assertion
					var ep, ee error
					_, p := guard(func() error { ap, ep = parseXML(sp, plain, ids); ae, ee = parseXML(sp, enc, ids); return nil })
					t.Impl(2)
					if p != "" {
						t.Fail("C08/sp/panic@"+p[strings.LastIndex(p, "@")+1:], "panicked: %s", p)
						return
					}
					t.Compared()
					t.Outcome(fmt.Sprintf("plain=%v enc=%v", ep == nil, ee == nil))
					if (ep == nil) != (ee == nil) {
						t.Fail("C08/sp/plaintext-and-encrypted-verdicts-differ", "variant %s: plaintext form %s, encrypted form %s", v.name, verdictStr(ep), verdictStr(ee))
						t.Input("plain_xml", string(plain))
						t.Input("encrypted_xml", string(enc))
					} else if ep == nil && assertionFP(ap) != assertionFP(ae) {
						t.Fail("C08/sp/plaintext-and-encrypted-content-differ", "variant %s: both accepted but with different content", v.name)
					}
					checkAPIContract(t, ae, ee)
					if v.name == "valid" && ee != nil {
						t.Fail("C08/sp/rejects-valid-encrypted", "a valid encrypted assertion is rejected: %s", privErr(ee))
					}
				})
			}
		}
	}

	// ciphertext faults
	c.Group("sp-side-ciphertext-faults")
	goodA := samlgen.DefaultAssertion().Element()
	samlgen.Sign(goodA, idp1(), "")
	goodPT := samlgen.Doc(goodA)
	mkResp := func(ea *etree.Element) []byte {
		rel := samlgen.DefaultResponse().Element()
		rel.AddChild(ea)
		return samlgen.Doc(rel)
	}
	mustReject := func(t *core.T, fam string, doc []byte) {
		var a *saml.Assertion
		var err error
		_, p := guard(func() error { a, err = parseXML(sp, doc, ids); return nil })
		t.Impl(1)
		if p != "" {
			t.Fail("C08/sp/"+fam+"/panic@"+p[strings.LastIndex(p, "@")+1:], "panicked: %s", p)
			t.Input("response_xml", string(doc))
			return
		}
		t.Modelled(core.MustReject)
		checkAPIContract(t, a, err)
		t.Outcome(harness.ErrClass(err))
		if err == nil {
			t.Fail("C08/sp/"+fam+"/accepted", "malformed ciphertext accepted (NameID %q)", nameIDOf(a))
			t.Input("response_xml", string(doc))
		}
	}
	base := harness.EncryptAssertionEl(goodPT, spKey(), "faults")
	cv := func(ea *etree.Element) *etree.Element {
		return ea.FindElement("./EncryptedData/CipherData/CipherValue")
	}
	full, _ := base64.StdEncoding.DecodeString(cv(base).Text())
	for n := 0; n <= 16*4+1; n++ {
		n := n
		c.Case(fmt.Sprintf("spfault/truncate/%d", n), func(t *core.T) {
			t.NonTrivial()
			ea := base.Copy()
			cv(ea).SetText(base64.StdEncoding.EncodeToString(full[:n]))
			mustReject(t, "truncated-ciphervalue", mkResp(ea))
		})
		c.Case(fmt.Sprintf("spfault/truncate-tail/%d", n), func(t *core.T) {
			t.NonTrivial()
			if n == 0 {
				return
			}
			ea := base.Copy()
			cv(ea).SetText(base64.StdEncoding.EncodeToString(full[:len(full)-n]))
			mustReject(t, "truncated-ciphervalue", mkResp(ea))
		})
	}
	// octets appended after the intact ciphertext (a partial or a whole surplus block), and characters that are not base64 inserted into
	// otherwise intact CipherValue text (of the data and of the wrapped key): malformed, whatever a lenient decoder could make of it
	for _, n := range []int{1, 3, 8, 15, 16, 17, 32} {
		n := n
		c.Case(fmt.Sprintf("spfault/surplus-octets/%d", n), func(t *core.T) {
			t.NonTrivial()
			ea := base.Copy()
			cv(ea).SetText(base64.StdEncoding.EncodeToString(append(append([]byte{}, full...), bytes.Repeat([]byte{0xa5}, n)...)))
			mustReject(t, "surplus-octets-after-the-ciphertext", mkResp(ea))
		})
	}
	for _, which := range []string{"data", "key"} {
		for fi, foreign := range []string{"*!*", "(.)", "%%", "\u00e9", "-", "_", "\x00", "&#x2a;", "=", "====", "\u200b"} {
			for _, at := range []string{"start", "middle", "before-padding"} {
				which, foreign, at, fi := which, foreign, at, fi
				c.Case(fmt.Sprintf("spfault/foreign-characters-in-base64/%s/%d/%s", which, fi, at), func(t *core.T) {
					t.NonTrivial()
					ea := base.Copy()
					x := cv(ea)
					if which == "key" {
						x = ea.FindElement("./EncryptedData/KeyInfo/EncryptedKey/CipherData/CipherValue")
					}
					txt := x.Text()
					pos := 0
					switch at {
					case "middle":
						pos = len(txt) / 2
					case "before-padding":
						pos = len(strings.TrimRight(txt, "="))
					}
					x.SetText(txt[:pos] + foreign + txt[pos:])
					mustReject(t, "foreign-characters-in-base64", mkResp(ea))
				})
			}
		}
	}
	var positions []int
	for i := 0; i < 48 && i < len(full); i++ {
		positions = append(positions, i)
	}
	for i := len(full) - 32; i < len(full); i++ {
		positions = append(positions, i)
	}
	for _, pos := range positions {
		for _, mask := range []byte{0x01, 0x80, 0xff} {
			pos, mask := pos, mask
			c.Case(fmt.Sprintf("spfault/flip/%d/%02x", pos, mask), func(t *core.T) {
				t.NonTrivial()
				ea := base.Copy()
				d := append([]byte{}, full...)
				d[pos] ^= mask
				cv(ea).SetText(base64.StdEncoding.EncodeToString(d))
				doc := mkResp(ea)
				var a *saml.Assertion
				var err error
				_, p := guard(func() error { a, err = parseXML(sp, doc, ids); return nil })
				t.Impl(1)
				if p != "" {
					t.Fail("C08/sp/byte-flip/panic@"+p[strings.LastIndex(p, "@")+1:], "panicked: %s", p)
					return
				}
				checkAPIContract(t, a, err)
				t.Compared()
				// a flip may leave the signed content intact (e.g. inside white space or the signature's own KeyInfo); what may never happen is acceptance of different content
				if err == nil && assertionFP(a) != fpMust(goodA) {
					t.Fail("C08/sp/byte-flip/accepted-altered-content", "a flipped ciphertext byte at %d was accepted with altered content", pos)
				}
				t.Outcome(harness.ErrClass(err))
			})
		}
	}
	type sop struct {
		name string
		f    func(ea *etree.Element)
	}
	other := samlgen.Key("spother")
	sops := []sop{
		{"encryptedkey-removed", func(ea *etree.Element) {
			k := ea.FindElement("./EncryptedData/KeyInfo/EncryptedKey")
			k.Parent().RemoveChild(k)
		}},
		{"keyinfo-removed", func(ea *etree.Element) { k := ea.FindElement("./EncryptedData/KeyInfo"); k.Parent().RemoveChild(k) }},
		{"encryptedkey-wrapped-to-other-cert", func(ea *etree.Element) {
			k := ea.FindElement("./EncryptedData/KeyInfo/EncryptedKey")
			w, _ := xenc.WrapKey(xenc.KeyTransport{Alg: xenc.OAEPMGF1P, DigestURI: "http://www.w3.org/2000/09/xmldsig#sha1"}, &other.Key.(*rsa.PrivateKey).PublicKey, harness.NewCtr("o"), make([]byte, 16))
			k.FindElement("./CipherData/CipherValue").SetText(base64.StdEncoding.EncodeToString(w))
		}},
		{"encryptedkey-cert-of-other", func(ea *etree.Element) {
			ea.FindElement("./EncryptedData/KeyInfo/EncryptedKey/KeyInfo/X509Data/X509Certificate").SetText(other.CertB64)
		}},
		{"encrypteddata-removed", func(ea *etree.Element) { k := ea.FindElement("./EncryptedData"); ea.RemoveChild(k) }},
		{"encrypteddata-duplicated", func(ea *etree.Element) { ea.AddChild(ea.FindElement("./EncryptedData").Copy()) }},
		{"ciphervalue-not-base64", func(ea *etree.Element) { cv(ea).SetText("***") }},
		{"cipherdata-removed", func(ea *etree.Element) { k := ea.FindElement("./EncryptedData/CipherData"); k.Parent().RemoveChild(k) }},
		{"method-unknown", func(ea *etree.Element) {
			ea.FindElement("./EncryptedData/EncryptionMethod").CreateAttr("Algorithm", "urn:x")
		}},
		{"method-removed", func(ea *etree.Element) {
			k := ea.FindElement("./EncryptedData/EncryptionMethod")
			k.Parent().RemoveChild(k)
		}},
		{"encryptedassertion-empty", func(ea *etree.Element) { ea.Child = nil }},
	}
	// the key-transport ciphertext with octets added around it: an RSA ciphertext is exactly as long as the modulus
	for _, z := range []struct {
		name      string
		pre, post []byte
	}{{"1-leading-zero", []byte{0}, nil}, {"2-leading-zeros", []byte{0, 0}, nil}, {"16-leading-zeros", make([]byte, 16), nil}, {"1-leading-nonzero", []byte{1}, nil},
		{"1-trailing-zero", nil, []byte{0}}, {"modulus-length-of-leading-zeros", make([]byte, 256), nil}} {
		z := z
		sops = append(sops, sop{"encryptedkey-ciphervalue/" + z.name, func(ea *etree.Element) {
			x := ea.FindElement("./EncryptedData/KeyInfo/EncryptedKey/CipherData/CipherValue")
			raw, _ := base64.StdEncoding.DecodeString(x.Text())
			x.SetText(base64.StdEncoding.EncodeToString(append(append(append([]byte{}, z.pre...), raw...), z.post...)))
		}})
	}
	// data encrypted under one block cipher and declared as another: the declared algorithm fixes the key length, a transported key of
	// another length is a malformed message (whichever AES variant would happen to fit it)
	for _, realAlg := range []string{xenc.AES128CBC, xenc.AES192CBC, xenc.AES256CBC, xenc.TDESCBC} {
		for _, declared := range []string{xenc.AES128CBC, xenc.AES192CBC, xenc.AES256CBC, xenc.TDESCBC, xenc.AES128GCM} {
			if realAlg == declared || xenc.KeySize(realAlg) == xenc.KeySize(declared) {
				continue
			}
			realAlg, declared := realAlg, declared
			short := func(a string) string { return a[strings.LastIndex(a, "#")+1:] }
			c.Case("spfault/declared-cipher-does-not-fit-the-transported-key/"+short(realAlg)+"-declared-as-"+short(declared), func(t *core.T) {
				t.NonTrivial()
				pub := spKey().Cert.PublicKey.(*rsa.PublicKey)
				ed, err := xenc.Encrypt(realAlg, xenc.KeyTransport{Alg: xenc.OAEPMGF1P, DigestURI: "http://www.w3.org/2000/09/xmldsig#sha1"}, pub, spKey().CertB64, harness.NewCtr("mislabel"), goodPT)
				if err != nil {
					t.Fail("C08/harness/encrypt", "%v", err)
					return
				}
				ed.FindElement("./EncryptionMethod").CreateAttr("Algorithm", declared)
				ea := etree.NewElement("saml:EncryptedAssertion")
				ea.CreateAttr("xmlns:saml", samlgen.NSAssertion)
				ea.AddChild(ed)
				mustReject(t, "declared-cipher-mismatch", mkResp(ea))
			})
		}
	}
	for _, o := range sops {
		o := o
		c.Case("spfault/structure/"+o.name, func(t *core.T) {
			t.NonTrivial()
			ea := base.Copy()
			o.f(ea)
			mustReject(t, "structure", mkResp(ea))
		})
	}
	evil := samlgen.DefaultAssertion()
	evil.NameID = samlgen.S("admin@example.com")
	evilXML := string(samlgen.Doc(evil.Element()))
	pts := map[string]string{"empty": "", "whitespace": " \n ", "comment-only": "<!-- c -->", "pi-only": "<?xml version=\"1.0\"?>", "text-only": "hello", "two-roots-evil-first": evilXML + string(goodPT),
		"two-roots-evil-last": string(goodPT) + evilXML, "junk-after-root-x::y": string(goodPT) + "<x::y/>", "leading-colon-element": "<:a/>" + string(goodPT), "unsigned-evil": evilXML,
		"not-an-assertion": "<saml:Response xmlns:saml=\"urn:oasis:names:tc:SAML:2.0:assertion\"/>", "unclosed": "<saml:Assertion xmlns:saml=\"urn:oasis:names:tc:SAML:2.0:assertion\">", "nul-byte": "\x00", "doctype": "<!DOCTYPE a [<!ENTITY x \"y\">]>" + string(goodPT)}
	// decrypted content that is not well-formed XML although a tolerant tokenizer would read it, under a signature on the Response
	// (the IdP's signature covers the ciphertext, so the plaintext itself carries no signature): a validation failure like any other
	// malformed ciphertext, exactly as the same bytes would be refused in a plaintext Response
	plain := string(samlgen.Doc(samlgen.DefaultAssertion().Element()))
	malformed := map[string]string{
		"well-formed-control":     plain,
		"undefined-entity":        strings.Replace(plain, "alice@example.com", "alice@example.com&nbsp;", 1),
		"bare-ampersand":          strings.Replace(plain, "alice@example.com", "alice&bob@example.com", 1),
		"unquoted-attribute":      strings.Replace(plain, `Version="2.0"`, `Version=2.0`, 1),
		"attribute-without-value": strings.Replace(plain, `Version="2.0"`, `Version="2.0" checked`, 1),
		"mismatched-end-tag-case": strings.Replace(plain, "</saml:Issuer>", "</saml:ISSUER>", 1),
		"unterminated-comment":    strings.Replace(plain, "<saml:Subject>", "<!-- <saml:Subject>", 1),
		"stray-lt-in-text":        strings.Replace(plain, "alice@example.com", "alice<example.com", 1),
		"duplicate-attribute":     strings.Replace(plain, `Version="2.0"`, `Version="2.0" Version="2.0"`, 1),
		"undeclared-prefix":       strings.Replace(plain, "<saml:Subject>", "<undeclared:x/><saml:Subject>", 1),
		"nul-in-text":             strings.Replace(plain, "alice@example.com", "alice\x00@example.com", 1),
	}
	for name, pt := range malformed {
		name, pt := name, pt
		c.Case("spfault/malformed-plaintext-under-signed-response/"+name, func(t *core.T) {
			t.NonTrivial()
			ea := harness.EncryptAssertionEl([]byte(pt), spKey(), "mal"+name)
			rel := samlgen.DefaultResponse().Element()
			rel.AddChild(ea)
			samlgen.Sign(rel, idp1(), "")
			doc := samlgen.Doc(rel)
			if name == "well-formed-control" {
				a, err := parseXML(sp, doc, ids)
				t.Impl(1)
				t.Compared()
				if err != nil || a == nil {
					t.Fail("C08/sp/malformed-plaintext/control-rejected", "the well-formed control (signed Response around an encrypted unsigned assertion) is refused: %s", privErr(err))
				}
				return
			}
			if name == "undeclared-prefix" || name == "duplicate-attribute" {
				// namespace well-formedness / attribute uniqueness: a verdict either way is tolerated here, only a panic is not
				_, p := guard(func() error { _, err := parseXML(sp, doc, ids); return err })
				t.Impl(1)
				t.Compared()
				if p != "" {
					t.Fail("C08/sp/malformed-plaintext/panic@"+p[strings.LastIndex(p, "@")+1:], "panicked: %s", p)
				}
				return
			}
			mustReject(t, "malformed-plaintext/"+name, doc)
		})
	}

	for name, pt := range pts {
		for _, place := range []string{"inside", "sibling"} {
			name, pt, place := name, pt, place
			c.Case("spfault/plaintext/"+name+"/"+place, func(t *core.T) {
				t.NonTrivial()
				ea := harness.EncryptAssertionEl([]byte(pt), spKey(), name)
				if place == "sibling" {
					k := ea.FindElement("./EncryptedData/KeyInfo/EncryptedKey")
					k.Parent().RemoveChild(k)
					ea.AddChild(k)
				}
				doc := mkResp(ea)
				fam := "plaintext-" + name
				if name == "empty" || name == "whitespace" || name == "comment-only" || name == "pi-only" {
					fam = "empty-decrypted-plaintext"
				}
				if name == "two-roots-evil-last" || name == "junk-after-root-x::y" || name == "doctype" {
					// either verdict is acceptable as long as the returned content is the genuine one
					var a *saml.Assertion
					var err error
					_, p := guard(func() error { a, err = parseXML(sp, doc, ids); return nil })
					t.Impl(1)
					if p != "" {
						t.Fail("C08/sp/"+fam+"/panic@"+p[strings.LastIndex(p, "@")+1:], "panicked: %s", p)
						return
					}
					t.Compared()
					if err == nil && assertionFP(a) != fpMust(goodA) {
						t.Fail("C08/sp/"+fam+"/accepted-unsigned-content", "returned content is not the signed assertion's")
					}
					return
				}
				mustReject(t, fam, doc)
			})
		}
	}
}

func fpMust(el *etree.Element) string {
	fp, err := fpOfElement(el)
	if err != nil {
		panic(err)
	}
	return fp
}

func verdictStr(err error) string {
	if err == nil {
		return "accepted"
	}
	return "rejected (" + privErr(err) + ")"
}
