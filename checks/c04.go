package checks

import (
	"errors"
	"fmt"
	"net/http"
	"net/http/httptest"
	"net/url"
	"strings"
	"time"

	"github.com/beevik/etree"
	"github.com/crewjam/saml"
	"github.com/crewjam/saml/samlsp"

	"verif/engine/core"
	"verif/engine/harness"
	"verif/engine/samlgen"
)

// C04 — SP accepts only responses to requests it has outstanding.
//
// Full product (no deviation bound) of outstanding-ID sets x InResponseTo at the
// Response and at 1-2 subject confirmations x AllowIDPInitiated x custom
// validator x entry point x signing layout, plus the artifact path driven
// end-to-end through ParseResponse with an in-memory resolver.

type irtVal struct {
	name string
	val  *string
}

func c04IRTs() []irtVal {
	id := samlgen.ReqID
	return []irtVal{
		{"id", samlgen.S(id)},
		{"other", samlgen.S("id-other-request")},
		{"empty", samlgen.S("")},
		{"absent", nil},
		{"prefix", samlgen.S(id[:len(id)-4])},
		{"idx", samlgen.S(id + "x")},
	}
}

type idSet struct {
	name string
	ids  []string
}

func c04Sets() []idSet {
	id := samlgen.ReqID
	return []idSet{
		{"none", nil},
		{"id", []string{id}},
		{"id+other2", []string{"id-unrelated", id}},
		{"emptystr", []string{""}},
		{"id+emptystr", []string{id, ""}},
		{"prefix", []string{id[:len(id)-4]}},
		{"idx", []string{id + "x"}},
		{"upper", []string{strings.ToUpper(id)}},
	}
}

func inSet(v *string, ids []string) bool {
	s := ""
	if v != nil {
		s = *v
	}
	for _, i := range ids {
		if i == s {
			return true
		}
	}
	return false
}

func init() {
	Register(&Check{
		ID:     "C04",
		Engine: "lattice",
		Rule: "full cross product of {8 outstanding-ID sets} x {6 InResponseTo values} at Response, confirmation 1 and optional confirmation 2 x AllowIDPInitiated x custom validator x {XML, POST form} x signing layout, " +
			"plus the artifact entry point driven through ParseResponse with a resolver that answers the ArtifactResolve ID actually generated; each case is a harness-signed message pushed through the public API and compared with a three-valued reference model. " +
			"non-trivial = reference verdict is MUST_ACCEPT or MUST_REJECT and the case differs from the all-default one; distinct = distinct coordinate tuple",
		Bounds: func(tier string) string {
			return "full product, no deviation bound (quick = thorough); artifact path: 6 ArtifactResponse.InResponseTo x 8 sets x 6 x 6 x 3 layouts x AllowIDPInitiated + 4 SOAP look-alike envelopes"
		},
		Assumptions: []string{"harness-signed messages built with goxmldsig and keys in /verif/keys", "clock pinned through saml.TimeNow/saml.Clock", "reference model written from the property statement (absent InResponseTo == empty string)"},
		Run:         runC04,
		CapQuick:    5 * time.Minute,
		CapThorough: 10 * time.Minute,
	})
}

func runC04(c *core.Ctx) {
	g := harness.Pin(samlgen.T0)
	defer g.Restore()
	irts := c04IRTs()
	sets := c04Sets()
	docCache := map[string][]byte{}
	spCache := map[string]*saml.ServiceProvider{}

	getSP := func(idpInit bool, validator string) *saml.ServiceProvider {
		k := fmt.Sprint(idpInit, validator)
		if sp, ok := spCache[k]; ok {
			return sp
		}
		sp := harness.NewSP(harness.SPOpt{AllowIDPInit: idpInit})
		switch validator {
		case "accept":
			sp.ValidateRequestID = func(saml.Response, []string) error { return nil }
		case "reject":
			sp.ValidateRequestID = func(saml.Response, []string) error { return errors.New("validator says no") }
		}
		spCache[k] = sp
		return sp
	}
	noDestination := false // set per case: an assertion-only signature with the Response's Destination absent
	buildDoc := func(r irtVal, c1 irtVal, c2 *irtVal, lay harness.Layout) []byte {
		k := fmt.Sprint(r.name, c1.name, c2 != nil, lay, noDestination)
		if c2 != nil {
			k += c2.name
		}
		if d, ok := docCache[k]; ok {
			return d
		}
		resp := samlgen.DefaultResponse()
		resp.InResponseTo = r.val
		if noDestination {
			resp.Destination = nil
		}
		a := samlgen.DefaultAssertion()
		a.Confirmations[0].InResponseTo = c1.val
		if c1.name == "no-confirmation" {
			a.Confirmations = nil // a Subject with a NameID only: nothing at the confirmation level can refuse the response
		} else if c2 != nil {
			cc := a.Confirmations[0]
			cc.InResponseTo = c2.val
			a.Confirmations = append(a.Confirmations, cc)
		}
		d := samlgen.Doc(harness.BuildResponse(resp, []*samlgen.Assertion{a}, lay, idp1(), spKey()))
		docCache[k] = d
		return d
	}

	layouts := []harness.Layout{{SignResponse: true}, {SignAssertion: true}}
	c.Group("xml+form")
	for _, set := range sets {
		for _, r := range irts {
			for _, c1 := range append(append([]irtVal{}, irts...), irtVal{"no-confirmation", nil}) {
				for ci := -1; ci < len(irts); ci++ {
					if c1.name == "no-confirmation" && ci >= 0 {
						continue
					}
					var c2 *irtVal
					c2n := "none"
					if ci >= 0 {
						c2 = &irts[ci]
						c2n = c2.name
					}
					for _, idpInit := range []bool{false, true} {
						for _, val := range []string{"nil", "accept", "reject"} {
							for _, entry := range []string{"xml", "form"} {
								for li, lay := range append(append([]harness.Layout{}, layouts...), harness.Layout{SignAssertion: true}) {
									nd := li == 2 // third entry: assertion-only signature and no Destination on the Response
									key := fmt.Sprintf("set=%s/resp=%s/c1=%s/c2=%s/idpinit=%v/validator=%s/entry=%s/lay=%s", set.name, r.name, c1.name, c2n, idpInit, val, entry, lay)
									if nd {
										key += "/no-Destination"
									}
									set, r, c1, c2, idpInit, val, entry, lay, nd := set, r, c1, c2, idpInit, val, entry, lay, nd
									c.Case(key, func(t *core.T) {
										noDestination = nd
										doc := buildDoc(r, c1, c2, lay)
										noDestination = false
										sp := getSP(idpInit, val)
										var a *saml.Assertion
										var err error
										if entry == "xml" {
											a, err = parseXML(sp, doc, set.ids)
										} else {
											a, err = parseForm(sp, doc, set.ids)
										}
										t.Impl(1)
										checkAPIContract(t, a, err)
										confOK := inSet(c1.val, set.ids) && (c2 == nil || inSet(c2.val, set.ids))
										if c1.name == "no-confirmation" {
											confOK = true
										}
										respOK := inSet(r.val, set.ids)
										v := core.DontCare
										switch {
										case val == "reject":
											v = core.MustReject
										case respOK && confOK && c1.name == "no-confirmation":
											v = core.DontCare // an assertion without any SubjectConfirmation need not be accepted
										case respOK && confOK:
											v = core.MustAccept
										case idpInit || val == "accept":
											v = core.DontCare // statement is silent once IdP-initiated is allowed / a custom validator decides
										default:
											v = core.MustReject
										}
										if v != core.DontCare && !(set.name == "id" && r.name == "id" && c1.name == "id" && c2 == nil) {
											t.NonTrivial()
										}
										t.Outcome(harness.ErrClass(err))
										judge(t, v, err, "C04/"+entry, key)
										if t.Failed() {
											t.Input("response_xml", string(doc))
											t.Input("possibleRequestIDs", fmt.Sprintf("%q", set.ids))
										}
										t.Sample(map[string]interface{}{"case": key, "model": v.String(), "impl": harness.ErrClass(err)})
									})
								}
							}
						}
					}
				}
			}
		}
	}

	// artifact path, end to end
	c.Group("artifact")
	type artIRT struct {
		name string
		f    func(gen string) string
	}
	arts := []artIRT{
		{"generated", func(g string) string { return g }},
		{"other", func(g string) string { return "id-some-other-resolve" }},
		{"empty", func(g string) string { return "" }},
		{"absent", func(g string) string { return "\x00absent" }},
		{"prefix", func(g string) string {
			if len(g) > 4 {
				return g[:len(g)-4]
			}
			return g
		}},
		{"genx", func(g string) string { return g + "x" }},
	}
	type artLay struct {
		name   string
		inner  harness.Layout
		signAR bool
	}
	alays := []artLay{
		{"innerR", harness.Layout{SignResponse: true}, false},
		{"innerA", harness.Layout{SignAssertion: true}, false},
		{"outerAR", harness.Layout{}, true},
	}
	// on this path there is one more ID the message can quote: that of the ArtifactResolve the SP has just sent (never an ID the caller
	// declared outstanding)
	const resolveMark = "\x00the-artifact-resolve-id"
	irtsArt := append(append([]irtVal{}, irts...), irtVal{"artifact-resolve-id", samlgen.S(resolveMark)})
	subst := func(v irtVal, resolveID string) irtVal {
		if v.val != nil && *v.val == resolveMark {
			return irtVal{v.name, samlgen.S(resolveID)}
		}
		return v
	}
	for _, art := range arts {
		for _, set := range sets {
			for _, r := range irtsArt {
				for _, c1 := range irtsArt {
					for _, al := range alays {
						for _, idpInit := range []bool{false, true} {
							key := fmt.Sprintf("artifact/art=%s/set=%s/resp=%s/c1=%s/lay=%s/idpinit=%v", art.name, set.name, r.name, c1.name, al.name, idpInit)
							art, set, r, c1, al, idpInit := art, set, r, c1, al, idpInit
							c.Case(key, func(t *core.T) {
								sp := getSP(idpInit, "nil")
								var sent []byte
								genID := ""
								a, err := parseArtifact(sp, set.ids, func(resolveID string, body []byte) (*http.Response, error) {
									genID = resolveID
									inner := buildDoc(subst(r, resolveID), subst(c1, resolveID), nil, al.inner)
									ar := harness.ArtifactResponseEl("id-artresp-1", art.f(resolveID), samlgen.TS(samlgen.T0), samlgen.S(samlgen.IDPEntity), samlgen.StatusOK, samlgen.Parse(inner))
									env := harness.SoapEnvelope(ar)
									if al.signAR {
										samlgen.Sign(ar, idp1(), "")
									}
									sent = samlgen.Doc(env)
									return httpOK(sent)
								})
								t.Impl(1)
								checkAPIContract(t, a, err)
								if genID == "" {
									t.Fail("C04/artifact/no-resolve-id", "the SP did not send an ArtifactResolve with an ID")
								}
								bound := art.name == "generated"
								ok := inSet(r.val, set.ids) && inSet(c1.val, set.ids)
								v := core.DontCare
								switch {
								case !bound:
									v = core.MustReject
								case ok:
									v = core.MustAccept
								case idpInit:
									v = core.DontCare
								default:
									v = core.MustReject
								}
								t.NonTrivial()
								t.Outcome(harness.ErrClass(err))
								judge(t, v, err, "C04/artifact", key)
								if t.Failed() {
									t.Input("soap_reply", string(sent))
									t.Input("possibleRequestIDs", fmt.Sprintf("%q", set.ids))
								}
								t.Sample(map[string]interface{}{"case": key, "model": v.String(), "impl": harness.ErrClass(err), "generated_resolve_id": genID})
							})
						}
					}
				}
			}
		}
	}

	// SOAP look-alike envelopes: schema-permitted foreign-namespace siblings must not break a valid reply.
	c.Group("artifact-lookalike")
	for _, shape := range []string{"plain", "header", "foreign-body-sibling", "foreign-artifactresponse-sibling", "foreign-response-sibling"} {
		shape := shape
		key := "artifact-lookalike/" + shape
		c.Case(key, func(t *core.T) {
			sp := getSP(false, "nil")
			irts := c04IRTs()
			inner := buildDoc(irts[0], irts[0], nil, harness.Layout{SignResponse: true})
			var sent []byte
			a, err := parseArtifact(sp, []string{samlgen.ReqID}, func(resolveID string, body []byte) (*http.Response, error) {
				ar := harness.ArtifactResponseEl("id-artresp-1", resolveID, samlgen.TS(samlgen.T0), samlgen.S(samlgen.IDPEntity), samlgen.StatusOK, samlgen.Parse(inner))
				env := harness.SoapEnvelope(ar)
				bodyEl := env.ChildElements()[0]
				switch shape {
				case "header":
					h := etree.NewElement("soap:Header")
					env.InsertChildAt(0, h)
				case "foreign-body-sibling":
					x := etree.NewElement("x:Body")
					x.CreateAttr("xmlns:x", "urn:example:foreign")
					env.InsertChildAt(0, x)
				case "foreign-artifactresponse-sibling":
					x := etree.NewElement("x:ArtifactResponse")
					x.CreateAttr("xmlns:x", "urn:example:foreign")
					bodyEl.InsertChildAt(0, x)
				case "foreign-response-sibling":
					x := etree.NewElement("x:Response")
					x.CreateAttr("xmlns:x", "urn:example:foreign")
					ar.InsertChildAt(ar.ChildElements()[len(ar.ChildElements())-1].Index(), x)
				}
				sent = samlgen.Doc(env)
				return httpOK(sent)
			})
			t.Impl(1)
			t.NonTrivial()
			checkAPIContract(t, a, err)
			t.Outcome(harness.ErrClass(err))
			judge(t, core.MustAccept, err, "C04/artifact-lookalike", key)
			if t.Failed() {
				t.Input("soap_reply", string(sent))
			}
		})
	}

	// the samlsp middleware: the outstanding IDs are those of the tracking cookies the browser presents.
	// nTracked flows are started through the real middleware; every InResponseTo choice (per started flow, foreign, empty, absent, prefix)
	// at the Response and at the confirmation x presented-cookie subset x AllowIDPInitiated is POSTed to /saml/acs.
	// confirmations that are not bearer confirmations answer the request like any other ("every subject confirmation of the accepted assertion")
	c.Group("non-bearer-confirmations")
	for _, method := range []string{"urn:oasis:names:tc:SAML:2.0:cm:holder-of-key", "urn:oasis:names:tc:SAML:2.0:cm:sender-vouches", "", "URN:OASIS:NAMES:TC:SAML:2.0:CM:BEARER", "urn:example:unknown-method"} {
		for _, ci := range irts {
			for _, where := range []string{"only", "after-a-correct-bearer", "before-a-correct-bearer"} {
				for _, lay := range layouts {
					method, ci, where, lay := method, ci, where, lay
					key := fmt.Sprintf("nonbearer/method=%q/irt=%s/%s/lay=%s", method, ci.name, where, lay)
					c.Case(key, func(t *core.T) {
						t.NonTrivial()
						resp := samlgen.DefaultResponse()
						a := samlgen.DefaultAssertion()
						good := a.Confirmations[0]
						odd := a.Confirmations[0]
						odd.Method, odd.InResponseTo = method, ci.val
						switch where {
						case "only":
							a.Confirmations = []samlgen.Confirmation{odd}
						case "after-a-correct-bearer":
							a.Confirmations = []samlgen.Confirmation{good, odd}
						default:
							a.Confirmations = []samlgen.Confirmation{odd, good}
						}
						doc := samlgen.Doc(harness.BuildResponse(resp, []*samlgen.Assertion{a}, lay, idp1(), spKey()))
						sp := getSP(false, "nil")
						got, err := parseXML(sp, doc, []string{samlgen.ReqID})
						t.Impl(1)
						checkAPIContract(t, got, err)
						v := core.DontCare // all confirmations answer the request: accepting non-bearer confirmations is not demanded
						if !inSet(ci.val, []string{samlgen.ReqID}) {
							v = core.MustReject
						}
						t.Outcome(harness.ErrClass(err))
						judge(t, v, err, "C04/non-bearer-confirmation", key)
						if t.Failed() {
							t.Input("response_xml", string(doc))
						}
					})
				}
			}
		}
	}

	c04ManyPending(c)
	c04TrackedLifetime(c)
	c04AllPendingComplete(c)
	c.Group("middleware-acs")
	// (spKey "spec256" is the configuration that sets its own landing page, Options.DefaultRedirectURI: where untracked logins would land
	// says nothing about whether they are allowed. AllowIDPInitiated is what samlsp.New made of Options unless the case turns it on.)
	for _, mwKey := range []string{"sp2048", "spec256"} {
		for _, idpInit := range []bool{false, true} {
			for nTracked := 0; nTracked <= 2; nTracked++ {
				idpInit, nTracked, mwKey := idpInit, nTracked, mwKey
				type mwIRT struct {
					name string
					f    func(ids []string) *string
				}
				mwIRTs := []mwIRT{
					{"flow0", func(ids []string) *string {
						if len(ids) > 0 {
							return samlgen.S(ids[0])
						}
						return samlgen.S("id-never-issued")
					}},
					{"flow1", func(ids []string) *string {
						if len(ids) > 1 {
							return samlgen.S(ids[1])
						}
						return samlgen.S("id-never-issued-1")
					}},
					{"foreign", func([]string) *string { return samlgen.S("id-foreign-request") }},
					{"empty", func([]string) *string { return samlgen.S("") }},
					{"absent", func([]string) *string { return nil }},
					{"prefix", func(ids []string) *string {
						if len(ids) > 0 {
							return samlgen.S(ids[0][:len(ids[0])-3])
						}
						return samlgen.S("id-")
					}},
				}
				for ri := range mwIRTs {
					for ci := range mwIRTs {
						for present := 0; present < 1<<uint(nTracked); present++ {
							for _, layDecoy := range []struct {
								lay   harness.Layout
								decoy string
							}{{layouts[0], ""}, {layouts[1], ""}, {layouts[0], "session-token-under-tracking-name"}, {layouts[0], "garbage-under-tracking-name"},
								{layouts[0], "tracking-token-of-a-sibling-app/other-audience"}, {layouts[0], "tracking-token-of-a-sibling-app/other-issuer"}, {layouts[0], "tracking-token-of-a-sibling-app/other-both"}} {
								lay, decoy := layDecoy.lay, layDecoy.decoy
								ri, ci, present := ri, ci, present
								key := fmt.Sprintf("middleware/idpinit=%v/tracked=%d/presented=%02b/resp=%s/conf=%s/lay=%s", idpInit, nTracked, present, mwIRTs[ri].name, mwIRTs[ci].name, lay)
								if mwKey != "sp2048" {
									key += "/own-landing-page"
								}
								if decoy != "" {
									key += "/decoy-cookie=" + decoy
								}
								c.Case(key, func(t *core.T) {
									w := newC17World(c17Cfg{binding: "redirect", scheme: "https", key: mwKey, rsf: "nil"})
									if idpInit {
										w.m.ServiceProvider.AllowIDPInitiated = true
									}
									st := &c17State{jar: map[string]c17Cookie{}, ever: map[string]string{}}
									for k := 0; k < nTracked; k++ {
										st.flows = append(st.flows, c17Flow{url: w.urls[k], user: w.users[k]})
									}
									var ids []string
									for k := 0; k < nTracked; k++ {
										if bad := c17Start(w, st, k); len(bad) > 0 {
											t.Fail("C04/middleware/start-failed", "%v", bad)
											return
										}
										ids = append(ids, st.flows[k].reqID)
									}
									cookies := map[string]string{}
									var presentedIDs []string
									for k := 0; k < nTracked; k++ {
										if present&(1<<uint(k)) != 0 {
											cookies["saml_"+st.flows[k].index] = st.flows[k].cookieVal
											presentedIDs = append(presentedIDs, ids[k])
										}
									}
									switch decoy {
									case "session-token-under-tracking-name":
										// a session token of this very middleware presented under a tracking-cookie name: it tracks no request
										rec := httptest.NewRecorder()
										as := c16Assertion()
										as.Subject.NameID.Value = "alice" // a subject that can be a cookie-name suffix
										if err := w.m.Session.CreateSession(rec, httptest.NewRequest("POST", w.root+"/saml/acs", nil), as); err == nil {
											for _, ck := range rec.Result().Cookies() {
												if ck.Name == "token" {
													cookies["saml_alice"] = ck.Value
													cookies["saml_x"] = ck.Value
												}
											}
										}
									case "garbage-under-tracking-name":
										cookies["saml_x"] = "not.a.token"
									case "tracking-token-of-a-sibling-app/other-audience", "tracking-token-of-a-sibling-app/other-issuer", "tracking-token-of-a-sibling-app/other-both":
										// a tracking token minted under the same key by another application (another audience and / or issuer) for ITS
										// request "id-foreign-request": that request is not outstanding here
										if tr, ok := w.m.RequestTracker.(samlsp.CookieRequestTracker); ok {
											if cd, ok := tr.Codec.(samlsp.JWTTrackedRequestCodec); ok {
												if decoy != "tracking-token-of-a-sibling-app/other-issuer" {
													cd.Audience = "https://sibling.example.com"
												}
												if decoy != "tracking-token-of-a-sibling-app/other-audience" {
													cd.Issuer = "https://sibling.example.com"
												}
												if tok, err := cd.Encode(samlsp.TrackedRequest{Index: "sibling", SAMLRequestID: "id-foreign-request", URI: "/sibling"}); err == nil {
													cookies["saml_sibling"] = tok
												}
											}
										}
									}
									resp := samlgen.DefaultResponse()
									resp.InResponseTo = mwIRTs[ri].f(ids)
									resp.Destination = samlgen.S(w.root + "/saml/acs")
									a := samlgen.DefaultAssertion()
									a.Confirmations[0].InResponseTo = mwIRTs[ci].f(ids)
									a.Confirmations[0].Recipient = samlgen.S(w.root + "/saml/acs")
									a.Audiences = [][]string{{w.root + "/saml/metadata"}}
									doc := samlgen.Doc(harness.BuildResponse(resp, []*samlgen.Assertion{a}, lay, idp1(), nil))
									form := url.Values{"SAMLResponse": {b64(doc)}}
									// RelayState names the flow the Response answers, when that flow's cookie is presented
									for k := 0; k < nTracked; k++ {
										if resp.InResponseTo != nil && *resp.InResponseTo == ids[k] {
											form.Set("RelayState", st.flows[k].index)
										}
									}
									if _, ok := cookies["saml_sibling"]; ok && resp.InResponseTo != nil && *resp.InResponseTo == "id-foreign-request" {
										form.Set("RelayState", "sibling")
									}
									rep := w.do(0, "POST", "/saml/acs", cookies, form, "c04mw")
									t.Impl(w.impl)
									if rep.panic != "" {
										t.Fail("C04/middleware/panic/"+core.PanicSite(rep.panic), "%s", rep.panic)
										return
									}
									session := false
									for _, ck := range rep.cookies {
										if ck.Name == "token" && ck.Value != "" {
											session = true
										}
									}
									v := core.MustReject
									if inSet(resp.InResponseTo, presentedIDs) && inSet(a.Confirmations[0].InResponseTo, presentedIDs) {
										v = core.MustAccept
										if form.Get("RelayState") == "" || cookies["saml_"+form.Get("RelayState")] == "" {
											v = core.DontCare
										}
									} else if idpInit {
										v = core.DontCare
									}
									t.Modelled(v)
									t.Compared()
									t.NonTrivial()
									t.Outcome(fmt.Sprintf("status=%d session=%v", rep.code, session))
									switch {
									case v == core.MustReject && session:
										t.Fail("C04/middleware/session-for-unanswered-request", "%s: a session was established although InResponseTo (Response %s, confirmation %s) is not among the request IDs of the presented tracking cookies %q (status %d)", key, mwIRTs[ri].name, mwIRTs[ci].name, presentedIDs, rep.code)
									case v == core.MustAccept && !session:
										t.Fail("C04/middleware/valid-answer-refused", "%s: the response answers a tracked request whose cookie is presented, yet no session was established (status %d)", key, rep.code)
									}
									if t.Failed() {
										t.Input("response_xml", string(doc))
										t.Input("cookies", fmt.Sprint(cookies))
									}
									t.Sample(map[string]interface{}{"case": key, "model": v.String(), "session": session, "status": rep.code})
								})
							}
						}
					}
				}
			}
		}
	}
}

// c04TrackedLifetime: through the middleware a request is outstanding for as long as its tracking token lives, not longer. One flow is
// started, the clock is moved to each of four positions around the tracking lifetime, the IdP answers at that moment (a fresh, valid
// Response) and the browser delivers it with the authentic cookie.
func c04TrackedLifetime(c *core.Ctx) {
	c.Group("middleware-request-outstanding-for-the-tracking-lifetime-only")
	for _, cf := range []c17Cfg{{binding: "redirect", scheme: "https", key: "sp2048", rsf: "nil"}, {binding: "post", scheme: "http", key: "spec256", rsf: "nil"},
		// (with a relay-state function of the application's: the index is its choice, the request is outstanding all the same)
		{binding: "redirect", scheme: "https", key: "sp2048", rsf: "fixed"}, {binding: "post", scheme: "https", key: "spec256", rsf: "fixed"}} {
		for notch := 0; notch < 4; notch++ {
			for _, idpInit := range []bool{false, true} {
				cf, notch, idpInit := cf, notch, idpInit
				key := fmt.Sprintf("tracked-lifetime/%s/answered-and-delivered-at-notch=%d/idpinit=%v", cf, notch, idpInit)
				c.Case(key, func(t *core.T) {
					t.NonTrivial()
					w := newC17World(cf)
					w.m.ServiceProvider.AllowIDPInitiated = idpInit
					st := &c17State{jar: map[string]c17Cookie{}, ever: map[string]string{}}
					st.flows = append(st.flows, c17Flow{url: w.urls[0], user: w.users[0]})
					if bad := c17Start(w, st, 0); len(bad) > 0 {
						t.Fail("C04/middleware/start-failed", "%v", bad)
						return
					}
					f := &st.flows[0]
					cookies := map[string]string{"saml_" + f.index: f.cookieVal}
					st.notch = notch
					c17Answer(w, st, 0)
					form := w.responseForm(f.response)
					form.Set("RelayState", f.index)
					rep := w.acs(notch, cookies, form, "c04life")
					t.Impl(w.impl)
					if rep.panic != "" {
						t.Fail("C04/middleware/panic/"+core.PanicSite(rep.panic), "%s", rep.panic)
						return
					}
					session := false
					for _, ck := range rep.cookies {
						if ck.Name == "token" && ck.Value != "" {
							session = true
						}
					}
					v := core.MustAccept
					if !w.tokenLive(f, notch) {
						v = core.MustReject
						if idpInit {
							v = core.DontCare // the deployment accepts unsolicited responses anyway
						}
					}
					t.Modelled(v)
					t.Compared()
					t.Outcome(fmt.Sprintf("live=%v session=%v", w.tokenLive(f, notch), session))
					if v == core.MustReject && session {
						t.Fail("C04/middleware/session-for-a-request-no-longer-outstanding", "%s: the tracking token of the request expired %s before the response was delivered, yet a session was established", key, w.notchT[notch].Sub(w.notchT[0].Add(w.delay)))
					}
					if v == core.MustAccept && !session {
						t.Fail("C04/middleware/valid-answer-refused", "%s: answer to a live tracked request refused (status %d)", key, rep.code)
					}
				})
			}
		}
	}
}

// c04AllPendingComplete: two or three logins pending in one browser; the IdP answers them one after the other, in every order, and the
// browser applies the cookies each answer sets before delivering the next. Every one of them was outstanding when it was answered: each is
// accepted.
func c04AllPendingComplete(c *core.Ctx) {
	c.Group("middleware-every-pending-login-completes")
	for _, cf := range []c17Cfg{{binding: "redirect", scheme: "https", key: "sp2048", rsf: "nil"}, {binding: "post", scheme: "http", key: "spec256", rsf: "fixed"}} {
		for _, n := range []int{2, 3} {
			perm(n, func(order []int) {
				cf, n, order := cf, n, append([]int{}, order...)
				key := fmt.Sprintf("all-pending-complete/%s/flows=%d/answered-in-order=%v", cf, n, order)
				c.Case(key, func(t *core.T) {
					t.NonTrivial()
					w := newC17World(cf)
					st := &c17State{jar: map[string]c17Cookie{}, ever: map[string]string{}}
					for k := 0; k < n; k++ {
						st.flows = append(st.flows, c17Flow{url: w.urls[k], user: w.users[k]})
					}
					var bad []string
					for k := 0; k < n && len(bad) == 0; k++ {
						bad = append(bad, c17Start(w, st, k)...)
					}
					for _, k := range order {
						if len(bad) > 0 {
							break
						}
						bad = append(bad, c17Answer(w, st, k)...)
						bad = append(bad, c17Deliver(w, st, k, st.flows[k].index, "own", w.view(st, "/saml/acs"), "jar")...)
					}
					t.Impl(w.impl)
					t.Compared()
					t.Outcome(fmt.Sprintf("owner=%q", st.owner))
					for _, b := range bad {
						f, d, _ := strings.Cut(b, "|")
						t.Fail("C04/middleware/all-pending/"+f, "%s: %s", key, d)
					}
				})
			})
		}
	}
}

// c04ManyPending: a browser with N login attempts pending (N tracking cookies); the IdP answers the k-th. Every one of them is an
// outstanding request: its answer is accepted, an answer to a request that was never made is not.
func c04ManyPending(c *core.Ctx) {
	c.Group("middleware-many-pending-requests")
	for _, n := range []int{1, 2, 3, 5, 8, 9, 10, 12, 16, 17, 20, 33} {
		for _, which := range []string{"first", "last", "middle", "never-issued"} {
			n, which := n, which
			key := fmt.Sprintf("pending=%d/answered=%s", n, which)
			c.Case(key, func(t *core.T) {
				t.NonTrivial()
				w := newC17World(c17Cfg{binding: "redirect", scheme: "https", key: "sp2048", rsf: "nil"})
				st := &c17State{jar: map[string]c17Cookie{}, ever: map[string]string{}}
				for k := 0; k < n; k++ {
					st.flows = append(st.flows, c17Flow{url: fmt.Sprintf("/app/page%d", k), user: "alice"})
				}
				cookies := map[string]string{}
				for k := 0; k < n; k++ {
					st.jar = map[string]c17Cookie{} // each start is seen without the others' cookies only by the harness; all are presented at the ACS
					if bad := c17Start(w, st, k); len(bad) > 0 {
						t.Fail("C04/middleware/start-failed", "%v", bad)
						return
					}
					cookies["saml_"+st.flows[k].index] = st.flows[k].cookieVal
				}
				k := map[string]int{"first": 0, "last": n - 1, "middle": n / 2, "never-issued": 0}[which]
				irt := st.flows[k].reqID
				if which == "never-issued" {
					irt = "id-never-issued-by-this-sp"
				}
				resp := samlgen.DefaultResponse()
				resp.InResponseTo = samlgen.S(irt)
				resp.Destination = samlgen.S(w.root + "/saml/acs")
				a := samlgen.DefaultAssertion()
				a.Confirmations[0].InResponseTo = samlgen.S(irt)
				a.Confirmations[0].Recipient = samlgen.S(w.root + "/saml/acs")
				a.Audiences = [][]string{{w.root + "/saml/metadata"}}
				doc := samlgen.Doc(harness.BuildResponse(resp, []*samlgen.Assertion{a}, harness.Layout{SignResponse: true}, idp1(), nil))
				form := url.Values{"SAMLResponse": {b64(doc)}, "RelayState": {st.flows[k].index}}
				rep := w.do(0, "POST", "/saml/acs", cookies, form, "c04many")
				t.Impl(w.impl)
				t.Compared()
				if rep.panic != "" {
					t.Fail("C04/middleware/panic/"+core.PanicSite(rep.panic), "%s", rep.panic)
					return
				}
				session := false
				for _, ck := range rep.cookies {
					if ck.Name == "token" && ck.Value != "" {
						session = true
					}
				}
				t.Outcome(fmt.Sprintf("session=%v", session))
				if which == "never-issued" && session {
					t.Fail("C04/middleware/session-for-unanswered-request", "%s: a session for a response to a request this SP never made", key)
				}
				if which != "never-issued" && !session {
					t.Fail("C04/middleware/valid-answer-refused/many-pending", "%s: %d logins are pending in this browser, the IdP answered the %s one (its tracking cookie is presented) and the response is refused (status %d)", key, n, which, rep.code)
				}
			})
		}
	}
}
