package checks

import (
	"crypto"
	"encoding/xml"
	"errors"
	"fmt"
	"io"
	"net/http/httptest"
	"strings"
	"time"

	"github.com/crewjam/saml"
	dsig "github.com/russellhaering/goxmldsig"

	"verif/engine/core"
	"verif/engine/harness"
	"verif/engine/lattice"
	"verif/engine/samlgen"
)

// C06 — every response the IdP emits is signed and scoped to one SP, request and moment.

const locL3reg = "https://sp.example.com/acs/three"

type c06Session struct {
	name string
	s    saml.Session
}

func c06Sessions(prefix string) []c06Session {
	base := saml.Session{ID: prefix + "-sid", Index: prefix + "-index", CreateTime: samlgen.T0.Add(-time.Minute), ExpireTime: samlgen.T0.Add(time.Hour), NameID: prefix + "-nameid"}
	all := base
	all.UserName, all.UserEmail, all.UserCommonName, all.UserSurname, all.UserGivenName, all.UserScopedAffiliation = prefix+"-user", prefix+"-mail@example.com", prefix+"-Common Name", prefix+"-sur", prefix+"-given", prefix+"-staff@example.com"
	all.EduPersonPrincipalName, all.SubjectID = prefix+"-eppn@example.com", prefix+"-subject-id"
	grp := base
	grp.UserName = prefix + "-user"
	grp.Groups = []string{prefix + "-g1", prefix + "-g2", prefix + "-g3"}
	cust := base
	cust.CustomAttributes = []saml.Attribute{
		{Name: "urn:custom:a", FriendlyName: "ca", NameFormat: "urn:oasis:names:tc:SAML:2.0:attrname-format:uri", Values: []saml.AttributeValue{{Type: "xs:string", Value: prefix + "-custom-1"}, {Type: "xs:string", Value: prefix + "-custom-2"}}},
		{Name: "urn:custom:b", Values: []saml.AttributeValue{{Type: "xs:string", Value: prefix + "-custom-3"}}},
	}
	// a session about to end, and one that carries no end at all: when the session ends says nothing about how long the bearer may take
	soon := all
	soon.ExpireTime = samlgen.T0.Add(20 * time.Second)
	open := grp
	open.ExpireTime = time.Time{}
	nf := all
	nf.NameIDFormat = "urn:oasis:names:tc:SAML:1.1:nameid-format:emailAddress"
	nf.NameID = prefix + "-mail@example.com"
	return []c06Session{{"all-fields", all}, {"minimal", base}, {"groups", grp}, {"custom-attrs", cust}, {"nameid-format", nf}, {"expires-in-20s", soon}, {"no-expiry+groups", open}}
}

// sessionStrings lists every string of a session that may legitimately appear as NameID / attribute value.
func sessionStrings(s *saml.Session) map[string]bool {
	m := map[string]bool{}
	for _, v := range []string{s.NameID, s.UserName, s.UserEmail, s.UserCommonName, s.UserSurname, s.UserGivenName, s.UserScopedAffiliation, s.EduPersonPrincipalName, s.SubjectID} {
		if v != "" {
			m[v] = true
		}
	}
	for _, g := range s.Groups {
		m[g] = true
	}
	for _, a := range s.CustomAttributes {
		for _, v := range a.Values {
			m[v.Value] = true
		}
	}
	return m
}

type c06Shape struct {
	name    string
	nACS    int
	attrSvc int // 0 absent, 1 non-default, 2 default
	enc     bool
	respLoc bool // every ACS endpoint also carries a ResponseLocation (which plays no part in Web SSO)
	// what the SP's descriptor says it wants: "" = nothing said, else AuthnRequestsSigned/WantAssertionsSigned as "t"/"f" each. The IdP's
	// obligations (both signatures, encryption when a key is published) do not depend on it
	wants string
}

func c06Shapes() []c06Shape {
	var out []c06Shape
	for _, n := range []int{2, 1, 3} {
		for as := 0; as < 3; as++ {
			for _, e := range []bool{false, true} {
				out = append(out, c06Shape{fmt.Sprintf("acs%d/attrsvc%d/enc=%v", n, as, e), n, as, e, false, ""})
			}
		}
	}
	for _, n := range []int{1, 3} {
		out = append(out, c06Shape{fmt.Sprintf("acs%d/attrsvc0/enc=%v/with-ResponseLocation", n, n == 3), n, 0, n == 3, true, ""})
	}
	for _, e := range []bool{true, false} {
		for _, w := range []string{"ff", "tt", "tf"} {
			out = append(out, c06Shape{fmt.Sprintf("acs2/attrsvc0/enc=%v/wants=%s", e, w), 2, 0, e, false, w})
		}
	}
	return out
}

func (s c06Shape) metadata() *saml.EntityDescriptor {
	tr := true
	sd := saml.SPSSODescriptor{SSODescriptor: saml.SSODescriptor{RoleDescriptor: saml.RoleDescriptor{ProtocolSupportEnumeration: "urn:oasis:names:tc:SAML:2.0:protocol"}}}
	sd.AssertionConsumerServices = []saml.IndexedEndpoint{{Binding: saml.HTTPPostBinding, Location: locL1, Index: 1}}
	if s.nACS >= 2 {
		sd.AssertionConsumerServices = append(sd.AssertionConsumerServices, saml.IndexedEndpoint{Binding: saml.HTTPPostBinding, Location: locL2, Index: 2, IsDefault: &tr})
	}
	if s.nACS >= 3 {
		sd.AssertionConsumerServices = append(sd.AssertionConsumerServices, saml.IndexedEndpoint{Binding: saml.HTTPArtifactBinding, Location: locL3reg, Index: 3})
	}
	if s.respLoc {
		for i := range sd.AssertionConsumerServices {
			rl := fmt.Sprintf("https://sp.example.com/saml/elsewhere%d", i)
			sd.AssertionConsumerServices[i].ResponseLocation = &rl
		}
	}
	if s.attrSvc > 0 {
		as := saml.AttributeConsumingService{Index: 1, RequestedAttributes: []saml.RequestedAttribute{
			{Attribute: saml.Attribute{Name: "email", FriendlyName: "req-mail", NameFormat: "urn:oasis:names:tc:SAML:2.0:attrname-format:basic"}},
			{Attribute: saml.Attribute{Name: "first_name", NameFormat: "urn:oasis:names:tc:SAML:2.0:attrname-format:unspecified"}},
			{Attribute: saml.Attribute{Name: "urn:oid:2.5.4.4", NameFormat: "urn:oasis:names:tc:SAML:2.0:attrname-format:uri"}},
			// (a RequestedAttribute may list the values the SP is interested in: they are the SP's wish, never the user's)
			{Attribute: saml.Attribute{Name: "uid", NameFormat: "urn:oasis:names:tc:SAML:2.0:attrname-format:basic", Values: []saml.AttributeValue{{Type: "xs:string", Value: "REQUESTED-admin"}, {Type: "xs:string", Value: "REQUESTED-root"}}}},
			{Attribute: saml.Attribute{Name: "surname", NameFormat: "urn:oasis:names:tc:SAML:2.0:attrname-format:basic", Values: []saml.AttributeValue{{Type: "xs:string", Value: "REQUESTED-surname"}}}},
			{Attribute: saml.Attribute{Name: "givenName", NameFormat: "urn:oasis:names:tc:SAML:2.0:attrname-format:unspecified", Values: []saml.AttributeValue{{Type: "xs:string", Value: "REQUESTED-given"}}}},
		}}
		if s.attrSvc == 2 {
			as.IsDefault = &tr
		}
		sd.AttributeConsumingServices = []saml.AttributeConsumingService{as}
	}
	if s.enc {
		sd.KeyDescriptors = []saml.KeyDescriptor{{Use: "encryption", KeyInfo: saml.KeyInfo{X509Data: saml.X509Data{X509Certificates: []saml.X509Certificate{{Data: spKey().CertB64}}}}}}
	}
	if s.wants != "" {
		ars, was := s.wants[0] == 't', s.wants[1] == 't'
		sd.AuthnRequestsSigned, sd.WantAssertionsSigned = &ars, &was
	}
	ed := &saml.EntityDescriptor{EntityID: samlgen.SPEntity, SPSSODescriptors: []saml.SPSSODescriptor{sd}}
	b, _ := xml.Marshal(ed)
	var out saml.EntityDescriptor
	if err := xml.Unmarshal(b, &out); err != nil {
		panic(err)
	}
	return &out
}

var c06Methods = []string{"", dsig.RSASHA256SignatureMethod, dsig.RSASHA1SignatureMethod, dsig.RSASHA384SignatureMethod, dsig.RSASHA512SignatureMethod,
	dsig.ECDSASHA256SignatureMethod, dsig.ECDSASHA1SignatureMethod, dsig.ECDSASHA384SignatureMethod, dsig.ECDSASHA512SignatureMethod}

func init() {
	Register(&Check{
		ID:     "C06",
		Engine: "lattice",
		Rule: "deviation-bounded product over {request kind: ACS by URL / by index / index and a different registered URL / neither / IdP-initiated / URL or index of a registered non-POST endpoint} x 5 session shapes x 18 SP metadata shapes (1-3 ACS endpoints, AttributeConsumingService absent/non-default/default, with/without encryption key) x IdP configuration {Key RSA, Signer RSA, Signer ECDSA, Signer RSA with a stale Key left in place} x 9 signature methods x intermediates x clock position relative to the request's IssueInstant x tolerance settings; " +
			"every emitted page is decoded by an independent decoder (HTML tokenizer, base64, etree, own field extraction, own decryption) and both signatures are verified with a fresh goxmldsig context rooted in the IdP certificate only; a second response for a decoy session is issued first on the same IdP object. non-trivial = at least one axis off default",
		Bounds: func(tier string) string {
			if tier == "thorough" {
				return "full product (145,800 configurations)"
			}
			return "all points with <= 4 axes off default"
		},
		Assumptions: []string{"custom AssertionMakers are out of scope", "the statement does not fix Conditions.NotOnOrAfter, so it is not checked"},
		Run:         runC06,
		CapQuick:    6 * time.Minute,
		CapThorough: 25 * time.Minute,
	})
}

func runC06(c *core.Ctx) {
	g := harness.Pin(samlgen.T0)
	defer g.Restore()
	sessions := c06Sessions("S1")
	decoys := c06Sessions("DECOY")
	shapes := c06Shapes()
	reqKinds := []string{"by-url", "by-index", "index-and-other-url", "neither", "idp-initiated", "by-url-of-non-post-endpoint", "by-index-of-non-post-endpoint",
		// the request also states the binding it wants the answer over: that narrows nothing about which registered URL was named
		"by-url-of-second-endpoint+ProtocolBinding", "by-unregistered-url+ProtocolBinding"}
	idpConfs := []string{"key-rsa", "signer-rsa", "signer-ecdsa", "signer-rsa+stale-key"}
	clocks := []time.Duration{0, 60 * time.Second, -30 * time.Second} // now - request IssueInstant
	tols := []tol{{"default", 90 * time.Second, 180 * time.Second}, {"d30s-s5s", 30 * time.Second, 5 * time.Second}}
	fields := []lattice.Field{
		{Name: "req", N: len(reqKinds)}, {Name: "session", N: len(sessions)}, {Name: "shape", N: len(shapes)}, {Name: "idp", N: len(idpConfs)},
		{Name: "method", N: len(c06Methods)}, {Name: "intermediates", N: 2}, {Name: "clock", N: len(clocks)}, {Name: "tol", N: len(tols)},
		{Name: "reqextra", N: len(c06ReqExtras)},
		{Name: "issueinstant-form", N: 3},
	}
	k := 4
	if c.Thorough() {
		k = -1
	}
	mdCache := map[int]*saml.EntityDescriptor{}
	lattice.Enumerate(fields, k, func(idx []int, dev int) {
		if c.Stopped() {
			return // past the cap: the rest of the product is not even named (naming tens of millions of points takes minutes)
		}
		pt := append([]int{}, idx...)
		key := fmt.Sprintf("req=%s/session=%s/shape=%s/idp=%s/method=%s/inter=%d/clock=%v/tol=%s", reqKinds[pt[0]], sessions[pt[1]].name, shapes[pt[2]].name, idpConfs[pt[3]],
			shortAlg(c06Methods[pt[4]]), pt[5], clocks[pt[6]], tols[pt[7]].name)
		if pt[8] != 0 {
			key += "/reqextra=" + c06ReqExtras[pt[8]].name
		}
		if pt[9] != 0 {
			key += "/request-IssueInstant-written-with-offset=" + []string{"Z", "-05:00", "+02:00"}[pt[9]]
		}
		c.Case(key, func(t *core.T) {
			if dev > 0 {
				t.NonTrivial()
			}
			tl := tols[pt[7]]
			saml.MaxIssueDelay, saml.MaxClockSkew = tl.delay, tl.skew
			now := samlgen.T0
			md := mdCache[pt[2]]
			if md == nil {
				md = shapes[pt[2]].metadata()
				mdCache[pt[2]] = md
			}
			sess := sessions[pt[1]].s
			decoy := decoys[pt[1]].s
			sp := &harness.FixedSession{S: &decoy}
			var idpKey string
			idp := harness.ReuseIDP("idp1", harness.SPRegistry{md.EntityID: md}, nil) // one IdentityProvider value for the whole worker, reconfigured per case
			switch idpConfs[pt[3]] {
			case "key-rsa":
				idpKey = "idp1"
			case "signer-rsa":
				idpKey = "idp1"
				idp.Signer, idp.Key = samlgen.Key("idp1").Key, nil
			case "signer-rsa+stale-key": // an external signer is configured and an old private key was left in Key: the signer signs
				idpKey = "idp1"
				idp.Signer, idp.Key = samlgen.Key("idp1").Key, samlgen.Key("idp2").Key
			case "signer-ecdsa":
				idpKey = "idpec"
				idp.Certificate = samlgen.Key("idpec").Cert
				idp.Signer, idp.Key = samlgen.Key("idpec").Key, nil
			}
			idp.SessionProvider = sp
			idp.SignatureMethod = c06Methods[pt[4]]
			if pt[5] == 1 {
				idp.Intermediates = append(idp.Intermediates, samlgen.Key("idp2").Cert)
			}
			idpCert := samlgen.Key(idpKey).Cert
			rsaKey := idpKey == "idp1"
			method := c06Methods[pt[4]]
			methodRSA := method == "" || strings.Contains(method, "rsa-")
			consistent := rsaKey == methodRSA

			// the request
			reqID := "id-req-c06"
			issued := now.Add(-clocks[pt[6]])
			eps := flatEPs(md)
			var url, index *string
			switch reqKinds[pt[0]] {
			case "by-url":
				url = samlgen.S(locL1)
			case "by-index":
				index = samlgen.S(fmt.Sprint(len(eps)))
				if len(eps) == 3 {
					index = samlgen.S("2")
				}
			case "by-url-of-non-post-endpoint": // registered only in the 3-endpoint shapes (HTTP-Artifact); unregistered elsewhere
				url = samlgen.S(locL3reg)
			case "by-index-of-non-post-endpoint":
				index = samlgen.S("3")
			case "by-url-of-second-endpoint+ProtocolBinding":
				url = samlgen.S(locL1)
				if len(eps) >= 2 {
					url = samlgen.S(locL2)
				}
			case "by-unregistered-url+ProtocolBinding":
				url = samlgen.S("https://sp.example.com/saml/not-registered")
			case "index-and-other-url":
				index = samlgen.S("1")
				if len(eps) >= 2 {
					url = samlgen.S(locL2)
				} else {
					url = samlgen.S(locL1)
				}
			}
			idpInit := reqKinds[pt[0]] == "idp-initiated"
			var want *saml.IndexedEndpoint
			if idpInit {
				for i := range eps {
					if eps[i].Binding == saml.HTTPPostBinding {
						want = &eps[i]
						break
					}
				}
			} else {
				ru, ri := "", ""
				if url != nil {
					ru = *url
				}
				if index != nil {
					ri = *index
				}
				want, _ = c05Select(eps, ru, ri)
			}
			issuedText := samlgen.TS(issued)
			switch pt[9] { // the same instant, written by the SP in its local zone
			case 1:
				issuedText = issued.In(time.FixedZone("", -5*3600)).Format("2006-01-02T15:04:05.000-07:00")
			case 2:
				issuedText = issued.In(time.FixedZone("", 2*3600)).Format("2006-01-02T15:04:05.000-07:00")
			}
			if strings.HasSuffix(reqKinds[pt[0]], "+ProtocolBinding") {
				authnProtocolBinding = samlgen.S(saml.HTTPPostBinding)
			}
			plainDoc := authnRequestXML(samlgen.S(samlgen.SPEntity), samlgen.S(samlgen.IDPSSO), samlgen.S("2.0"), samlgen.S(issuedText), url, index, reqID)
			authnProtocolBinding = nil
			doc := plainDoc
			if x := c06ReqExtras[pt[8]]; x.xml != "" && !idpInit {
				// optional request content naming identities / formats: the emitted identity must not depend on it
				doc = []byte(strings.Replace(string(plainDoc), "</saml:Issuer>", "</saml:Issuer>"+x.xml, 1))
			}
			serve := func() []byte {
				w := httptest.NewRecorder()
				if idpInit {
					idp.ServeIDPInitiated(w, httptest.NewRequest("GET", "https://idp.example.com/login/sp", nil), samlgen.SPEntity, "relay-c06")
				} else {
					idp.ServeSSO(w, idpRequest("POST", doc, "relay-c06"))
				}
				return w.Body.Bytes()
			}
			var body []byte
			_, p := guard(func() error {
				serve() // decoy session first, on the same IdP object
				sp.S = &sess
				body = serve()
				return nil
			})
			t.Impl(2)
			if p != "" {
				t.Fail("C06/panic@"+p[strings.LastIndex(p, "@")+1:], "IdP panicked: %s", p)
				return
			}
			hasForm := strings.Contains(string(body), "name=\"SAMLResponse\"")
			t.Compared()
			if !hasForm {
				t.Outcome("error-reply")
				stale := !idpInit && clocks[pt[6]] > tl.delay
				if consistent && !stale && want != nil && want.Binding == saml.HTTPPostBinding {
					t.Fail("C06/no-response-for-valid-request", "valid request, consistent configuration, POST endpoint %s selectable, but no response form was written: %s", want.Location, trunc(body, 200))
				}
				return
			}
			t.Outcome("form")
			d, err := decodeIDPForm(body, spKey(), idpCert, now)
			fail := func(k, f string, a ...interface{}) {
				t.Fail("C06/"+k, f, a...)
				t.Input("page", string(trunc(body, 12000)))
			}
			if err != nil {
				fail("undecodable-response", "independent decoder: %v", err)
				return
			}
			if !consistent {
				fail("response-with-mismatched-method", "signature method %q does not fit the %s key but a response was emitted", method, idpKey)
			}
			if want == nil || want.Binding != saml.HTTPPostBinding {
				fail("form-for-non-post-endpoint", "no HTTP-POST endpoint is selectable (selected %v) but a form was written", want)
				return
			}
			if d.Form.NForms != 1 || len(d.Form.Dup) > 0 {
				fail("form-structure", "%d forms, duplicate fields %v", d.Form.NForms, d.Form.Dup)
			}
			if d.Form.Fields["RelayState"] != "relay-c06" {
				fail("relay-state", "RelayState field %q", d.Form.Fields["RelayState"])
			}
			if d.Form.Action != want.Location || d.Destination != want.Location {
				fail("destination-not-selected-endpoint", "form action %q, Destination %q, selected registered endpoint %q", d.Form.Action, d.Destination, want.Location)
			}
			bearer := 0
			for _, cf := range d.Confs {
				if cf.Method != "urn:oasis:names:tc:SAML:2.0:cm:bearer" {
					continue
				}
				bearer++
				if cf.Recipient != want.Location {
					fail("recipient-not-selected-endpoint", "bearer Recipient %q, selected registered endpoint %q", cf.Recipient, want.Location)
				}
				irt := ""
				if cf.InResponseTo != nil {
					irt = *cf.InResponseTo
				}
				if (!idpInit && irt != reqID) || (idpInit && irt != "") {
					fail("confirmation-inresponseto", "bearer InResponseTo %q (request ID %q, idp-initiated=%v)", irt, reqID, idpInit)
				}
				nooa, perr := parseTS(cf.NotOnOrAfter)
				if perr != nil || !nooa.Equal(now.Add(tl.delay)) {
					fail("bearer-expiry", "bearer NotOnOrAfter %q, issuance %s + MaxIssueDelay %s = %s", cf.NotOnOrAfter, samlgen.TS(now), tl.delay, samlgen.TS(now.Add(tl.delay)))
				}
			}
			if bearer != 1 {
				fail("bearer-count", "%d bearer confirmations", bearer)
			}
			rirt := ""
			if d.InResponseTo != nil {
				rirt = *d.InResponseTo
			}
			if (!idpInit && rirt != reqID) || (idpInit && rirt != "") {
				fail("response-inresponseto", "Response InResponseTo %q (request ID %q, idp-initiated=%v)", rirt, reqID, idpInit)
			}
			if len(d.Audiences) != 1 || d.Audiences[0] != md.EntityID {
				fail("audience", "audiences %v, registered entity ID %q", d.Audiences, md.EntityID)
			}
			if d.RespIssuer != samlgen.IDPEntity || d.AssIssuer != samlgen.IDPEntity {
				fail("issuer", "Response issuer %q, Assertion issuer %q, IdP entity ID %q", d.RespIssuer, d.AssIssuer, samlgen.IDPEntity)
			}
			if d.StatusCode != samlgen.StatusOK {
				fail("status", "status %q", d.StatusCode)
			}
			nb, perr := parseTS(d.NotBefore)
			if perr != nil || nb.Before(now.Add(-tl.skew)) {
				fail("conditions-open-too-early", "Conditions NotBefore %q is earlier than issuance %s - MaxClockSkew %s", d.NotBefore, samlgen.TS(now), tl.skew)
			}
			if d.Encrypted != shapes[pt[2]].enc {
				fail("encryption-mismatch", "assertion encrypted=%v, SP advertises encryption key=%v", d.Encrypted, shapes[pt[2]].enc)
			}
			// identity
			if d.NameID != sess.NameID {
				fail("nameid", "NameID %q, session NameID %q", d.NameID, sess.NameID)
			}
			if sess.NameIDFormat != "" && d.NameIDFormat != sess.NameIDFormat {
				fail("nameid-format", "NameID Format %q, session %q", d.NameIDFormat, sess.NameIDFormat)
			}
			own := sessionStrings(&sess)
			seen := map[string]bool{d.NameID: true}
			for _, at := range d.Attrs {
				for _, v := range at.Values {
					seen[v] = true
					if !own[v] && v != "" {
						fail("foreign-attribute-value", "attribute %q carries %q which is not a string of the authenticated session", at.Name, v)
					}
				}
			}
			// an attribute whose name has a fixed meaning states that field of the session, not another one
			{
				var as []saml.Attribute
				for _, at := range d.Attrs {
					a := saml.Attribute{Name: at.Name, FriendlyName: at.FriendlyName, NameFormat: at.NameFormat}
					for _, v := range at.Values {
						a.Values = append(a.Values, saml.AttributeValue{Value: v})
					}
					as = append(as, a)
				}
				for _, bad := range attrMeaning(as, &sess) {
					fail("attribute-states-another-field-of-the-session", "%s", bad)
				}
			}
			// (which session fields are emitted as attributes is the assertion maker's choice; C07 checks exactness of the round trip.
			// Here only "nothing foreign" is demanded, as the statement says "of the authenticated session only".)
			_ = seen
			page := string(body) + string(d.Raw) + string(d.Plain)
			if strings.Contains(page, "DECOY-") { // "-" cannot occur inside base64 blobs
				fail("decoy-session-leaked", "strings of the previous (decoy) session appear in the response for the authenticated session")
			}
			// signatures
			wantAlg := method // "" = no method configured: any method the key supports is acceptable
			if !d.RespSigOK {
				fail("response-signature", "Response: %d signatures, verification under the IdP certificate: %s", d.RespSigs, d.RespSigErr)
			}
			if !d.AssSigOK {
				fail("assertion-signature", "Assertion: %d signatures, verification under the IdP certificate: %s", d.AssSigs, d.AssSigErr)
			}
			if wantAlg != "" && (d.RespSigOK && d.RespSigAlg != wantAlg || d.AssSigOK && d.AssSigAlg != wantAlg) {
				fail("signature-method", "SignatureMethod response=%q assertion=%q, configured %q", d.RespSigAlg, d.AssSigAlg, wantAlg)
			}
			certB64 := samlgen.Key(idpKey).CertB64
			if len(d.RespSigCerts) == 0 || d.RespSigCerts[0] != certB64 || len(d.AssSigCerts) == 0 || d.AssSigCerts[0] != certB64 {
				fail("keyinfo-certificate", "the first KeyInfo certificate is not the IdP certificate")
			}
			if string(doc) != string(plainDoc) {
				// non-interference: the same session answered for the same request without the optional content carries the same identity
				var body0 []byte
				doc = plainDoc
				guard(func() error { body0 = serve(); return nil })
				t.Impl(1)
				if d0, err0 := decodeIDPForm(body0, spKey(), idpCert, now); err0 != nil {
					fail("request-content-changes-outcome", "with %s the request is answered, without it the answer is undecodable: %v", c06ReqExtras[pt[8]].name, err0)
				} else {
					id := func(x *decodedResponse) string {
						s := fmt.Sprintf("NameID=%q Format=%q", x.NameID, x.NameIDFormat)
						for _, at := range x.Attrs {
							s += fmt.Sprintf(" %s/%s=%q", at.Name, at.NameFormat, at.Values)
						}
						return s
					}
					if id(d) != id(d0) {
						fail("identity-depends-on-request-content", "request content (%s) changed the asserted identity of the same session: with: %s; without: %s", c06ReqExtras[pt[8]].name, id(d), id(d0))
					}
				}
			}
			t.Sample(map[string]interface{}{"case": key, "action": d.Form.Action, "encrypted": d.Encrypted, "sig_alg": d.RespSigAlg})
		})
	})
	c06SignerHiccup(c, shapes, sessions)
}

// hiccupSigner is a crypto.Signer (an HSM, a KMS client) whose k-th Sign call fails once.
type hiccupSigner struct {
	inner crypto.Signer
	k, n  int
}

func (h *hiccupSigner) Public() crypto.PublicKey { return h.inner.Public() }
func (h *hiccupSigner) Sign(r io.Reader, digest []byte, o crypto.SignerOpts) ([]byte, error) {
	h.n++
	if h.n == h.k {
		return nil, errors.New("signer: temporarily unavailable")
	}
	return h.inner.Sign(r, digest, o)
}

// c06SignerHiccup: the external signer fails on its k-th call; the caller tries WriteResponse again on the same request (up to three
// times). Whatever is emitted - at any attempt - carries both signatures, valid; an error is fine, a half-signed response is not.
func c06SignerHiccup(c *core.Ctx, shapes []c06Shape, sessions []c06Session) {
	c.Group("retry-after-a-failed-signature")
	for _, kn := range []string{"idp1", "idpec"} {
		for si, sh := range shapes {
			if si > 3 {
				continue
			}
			for k := 1; k <= 5; k++ {
				kn, sh, k := kn, sh, k
				key := fmt.Sprintf("signer-hiccup/key=%s/shape=%s/failing-sign-call=%d", kn, sh.name, k)
				c.Case(key, func(t *core.T) {
					t.NonTrivial()
					md := sh.metadata()
					sess := sessions[0].s
					idp := harness.NewIDP(kn, harness.SPRegistry{md.EntityID: md}, &sess)
					kp := samlgen.Key(kn)
					idp.Key, idp.Signer = nil, &hiccupSigner{inner: kp.Key, k: k}
					if kn == "idpec" {
						idp.SignatureMethod = dsig.ECDSASHA256SignatureMethod
					}
					doc := authnRequestXML(samlgen.S(samlgen.SPEntity), samlgen.S(samlgen.IDPSSO), samlgen.S("2.0"), samlgen.S(samlgen.TS(samlgen.T0)), nil, nil, "id-req-c06-hiccup")
					var bodies [][]byte
					var errs []string
					_, p := guard(func() error {
						req, err := saml.NewIdpAuthnRequest(idp, idpRequest("POST", doc, "relay"))
						if err != nil {
							return err
						}
						if err := req.Validate(); err != nil {
							return err
						}
						if err := (saml.DefaultAssertionMaker{}).MakeAssertion(req, &sess); err != nil {
							return err
						}
						for attempt := 0; attempt < 3; attempt++ {
							w := httptest.NewRecorder()
							err := req.WriteResponse(w)
							t.Impl(1)
							if err != nil {
								errs = append(errs, err.Error())
							}
							if w.Body.Len() > 0 {
								bodies = append(bodies, w.Body.Bytes())
							}
						}
						return nil
					})
					if p != "" {
						t.Fail("C06/signer-hiccup/panic@"+p[strings.LastIndex(p, "@")+1:], "panicked: %s", p)
						return
					}
					t.Compared()
					t.Outcome(fmt.Sprintf("emitted=%d errors=%d", len(bodies), len(errs)))
					for i, b := range bodies {
						d, err := decodeIDPForm(b, spKey(), kp.Cert, samlgen.T0)
						if err != nil {
							t.Fail("C06/signer-hiccup/undecodable", "%s, emission %d: %v", key, i+1, err)
							return
						}
						if !d.RespSigOK || !d.AssSigOK {
							t.Fail("C06/signer-hiccup/half-signed-response", "%s, emission %d (signer errors so far: %v): Response signatures=%d valid=%v (%s); Assertion signatures=%d valid=%v (%s)", key, i+1, errs, d.RespSigs, d.RespSigOK, d.RespSigErr, d.AssSigs, d.AssSigOK, d.AssSigErr)
							t.Input("page", string(trunc(b, 3000)))
							return
						}
					}
				})
			}
		}
	}
}

// optional AuthnRequest content (schema order: after Issuer) that names identities or formats
var c06ReqExtras = []struct{ name, xml string }{
	{"none", ""},
	// conditions the requester would like to see in the assertion: the scoping of the answer is the IdP's business
	{"conditions-audience-another-sp", `<saml:Conditions><saml:AudienceRestriction><saml:Audience>https://other-sp.example.org/metadata</saml:Audience></saml:AudienceRestriction></saml:Conditions>`},
	{"conditions-far-future-window", `<saml:Conditions NotBefore="2000-01-01T00:00:00Z" NotOnOrAfter="2999-01-01T00:00:00Z"><saml:OneTimeUse/></saml:Conditions>`},
	{"scoping+requesterid", `<samlp:Scoping ProxyCount="5"><samlp:RequesterID>https://other-sp.example.org/metadata</samlp:RequesterID></samlp:Scoping>`},
	{"nameidpolicy-emailAddress", `<samlp:NameIDPolicy Format="urn:oasis:names:tc:SAML:1.1:nameid-format:emailAddress" AllowCreate="true"/>`},
	{"nameidpolicy-persistent-spnamequalifier", `<samlp:NameIDPolicy Format="urn:oasis:names:tc:SAML:2.0:nameid-format:persistent" SPNameQualifier="https://other-sp.example.net/"/>`},
	{"subject-names-another-principal", `<saml:Subject><saml:NameID Format="urn:oasis:names:tc:SAML:1.1:nameid-format:emailAddress">admin@example.com</saml:NameID></saml:Subject><samlp:NameIDPolicy AllowCreate="true"/>`},
}

func shortAlg(a string) string {
	if a == "" {
		return "default"
	}
	return a[strings.LastIndexAny(a, "#/")+1:]
}
