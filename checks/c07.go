package checks

import (
	"crypto/x509"
	"encoding/xml"
	"fmt"
	"net/http"
	"net/http/httptest"
	"net/url"
	"sort"
	"strings"
	"time"

	"github.com/crewjam/saml"
	dsig "github.com/russellhaering/goxmldsig"

	"verif/engine/core"
	"verif/engine/harness"
	"verif/engine/htmlform"
	"verif/engine/samlgen"
)

// C07 — the IdP-to-SP round trip preserves the authenticated identity exactly.

var c07Tokens = []string{"a", "<", ">", "&", "\"", "'", "\r", "\n", "\t", " ", "]]>", "<!--", "-->", "&amp;", "&#13;", "\u0085", " ", "é", "\U0001F600", "�", "<![CDATA[", " "}

var c07Positions = []string{"NameID", "UserName", "UserEmail", "CommonName", "Surname", "GivenName", "ScopedAffiliation", "Group", "CustomValue", "CustomName", "CustomFriendlyName", "SessionIndex", "PrincipalName", "SubjectID"}

func c07Session(pos map[int]string) *saml.Session {
	get := func(i int, dflt string) string {
		if v, ok := pos[i]; ok {
			return v
		}
		return dflt
	}
	s := &saml.Session{ID: "sid", CreateTime: samlgen.T0.Add(-time.Minute), ExpireTime: samlgen.T0.Add(time.Hour)}
	s.NameID = get(0, "alice-nameid")
	s.UserName = get(1, "alice")
	s.UserEmail = get(2, "alice@example.com")
	s.UserCommonName = get(3, "Alice Liddell")
	s.UserSurname = get(4, "Liddell")
	s.UserGivenName = get(5, "Alice")
	s.UserScopedAffiliation = get(6, "staff@example.com")
	s.Groups = []string{"Users", get(7, "Staff"), "Wonderland"}
	s.CustomAttributes = []saml.Attribute{{Name: get(9, "urn:custom:attr"), FriendlyName: get(10, "custom"), NameFormat: "urn:oasis:names:tc:SAML:2.0:attrname-format:uri",
		Values: []saml.AttributeValue{{Type: "xs:string", Value: "first"}, {Type: "xs:string", Value: get(8, "second")}}},
		// an attribute that is a bare flag: a name, no value (valid SAML) - and one whose only value is the empty string
		{Name: "urn:example:mfa-done", FriendlyName: "mfa", NameFormat: "urn:oasis:names:tc:SAML:2.0:attrname-format:uri"},
		{Name: "urn:example:empty-valued", NameFormat: "urn:oasis:names:tc:SAML:2.0:attrname-format:uri", Values: []saml.AttributeValue{{Type: "xs:string", Value: ""}}},
		// an attribute whose value is a name identifier with every optional part stated (eduPersonTargetedID)
		{Name: "urn:oid:1.3.6.1.4.1.5923.1.1.1.10", FriendlyName: "eduPersonTargetedID", NameFormat: "urn:oasis:names:tc:SAML:2.0:attrname-format:uri", Values: []saml.AttributeValue{{NameID: &saml.NameID{
			Format: "urn:oasis:names:tc:SAML:2.0:nameid-format:persistent", NameQualifier: "https://idp.example.com/nq", SPNameQualifier: "https://sp.example.com/spnq", SPProvidedID: "acct-4711", Value: "targeted-0f3a"}}}}}
	s.Index = get(11, "session-index-1")
	s.EduPersonPrincipalName = get(12, "alice-principal@idm.example.com") // set next to a different UserEmail
	s.SubjectID = get(13, "subject-0001@example.com")
	s.NameIDFormat = get(14, "") // "" = the IdP's default (transient)
	return s
}

type c07Cfg struct {
	enc       bool
	entitySet bool
	spKey     string
	binding   string // redirect / post
	signReq   bool
	idpMethod string
	idpKey    string
	// the SP's names: an entity ID / metadata URL of another lexical shape (trailing slash, query, URN, upper-case host, port), "" = the usual
	spName string
	// the metadata registered at the IdP carries an AttributeConsumingService asking for every attribute name the IdP knows how to fill
	reqAttrs bool
	// the login happens this long after SP and IdP exchanged metadata (nothing else changes: same keys, same certificates)
	aged time.Duration
}

func (c c07Cfg) String() string {
	s := fmt.Sprintf("enc=%v/entity=%v/spkey=%s/binding=%s/signreq=%v/idp=%s:%s", c.enc, c.entitySet, c.spKey, c.binding, c.signReq, c.idpKey, shortAlg(c.idpMethod))
	if c.spName != "" {
		s += "/spname=" + c.spName
	}
	if c.reqAttrs {
		s += "/requested-attributes"
	}
	if c.aged != 0 {
		s += "/login-" + c.aged.String() + "-after-the-metadata-exchange"
	}
	return s
}

// c07SPNames: entity ID and metadata URL per lexical shape.
var c07SPNames = map[string][2]string{
	"trailing-slash":  {"https://sp.example.com/", "https://sp.example.com/saml/"},
	"path-slash":      {"https://sp.example.com/saml2/", "https://sp.example.com/saml2/metadata/"},
	"query":           {"https://sp.example.com/entity?tenant=a&x=%2F", "https://sp.example.com/saml/metadata?tenant=a"},
	"urn":             {"urn:example:sp:one", "https://sp.example.com/saml/metadata"},
	"upper-host+port": {"https://SP.Example.COM:8443/Entity", "https://SP.Example.COM:8443/saml/metadata"},
	"fragment+blank":  {"https://sp.example.com/entity#frag ment", "https://sp.example.com/saml/metadata#x"},
	"non-ascii":       {"https://sp.example.com/entité/", "https://sp.example.com/méta/"},
}

// c07Requested: requested attribute names (basic / unspecified name formats) the IdP fills from the session, and the field each stands for.
var c07Requested = []struct {
	name, format string
	field        func(*saml.Session) string
}{
	{"email", "basic", func(s *saml.Session) string { return s.UserEmail }}, {"email_address", "unspecified", func(s *saml.Session) string { return s.UserEmail }},
	{"name", "basic", func(s *saml.Session) string { return s.UserCommonName }}, {"full-name", "basic", func(s *saml.Session) string { return s.UserCommonName }}, {"cn", "unspecified", func(s *saml.Session) string { return s.UserCommonName }},
	{"given_name", "basic", func(s *saml.Session) string { return s.UserGivenName }}, {"first_name", "unspecified", func(s *saml.Session) string { return s.UserGivenName }},
	{"surname", "basic", func(s *saml.Session) string { return s.UserSurname }}, {"last_name", "basic", func(s *saml.Session) string { return s.UserSurname }}, {"family-name", "unspecified", func(s *saml.Session) string { return s.UserSurname }},
	{"uid", "basic", func(s *saml.Session) string { return s.UserName }}, {"user", "unspecified", func(s *saml.Session) string { return s.UserName }}, {"user_id", "basic", func(s *saml.Session) string { return s.UserName }},
}

// c07WellKnown: attribute names with a fixed meaning and the session field that meaning is.
var c07WellKnown = map[string]func(*saml.Session) []string{
	"urn:oid:0.9.2342.19200300.100.1.1": func(s *saml.Session) []string { return []string{s.UserName} },
	"urn:oid:0.9.2342.19200300.100.1.3": func(s *saml.Session) []string { return []string{s.UserEmail} },
	"urn:oid:1.3.6.1.4.1.5923.1.1.1.6": func(s *saml.Session) []string {
		if s.EduPersonPrincipalName != "" {
			return []string{s.EduPersonPrincipalName}
		}
		return []string{s.UserEmail} // the documented legacy fallback
	},
	"urn:oid:2.5.4.4":                              func(s *saml.Session) []string { return []string{s.UserSurname} },
	"urn:oid:2.5.4.42":                             func(s *saml.Session) []string { return []string{s.UserGivenName} },
	"urn:oid:2.5.4.3":                              func(s *saml.Session) []string { return []string{s.UserCommonName} },
	"urn:oid:1.3.6.1.4.1.5923.1.1.1.9":             func(s *saml.Session) []string { return []string{s.UserScopedAffiliation} },
	"urn:oid:1.3.6.1.4.1.5923.1.1.1.1":             func(s *saml.Session) []string { return s.Groups },
	"urn:oasis:names:tc:SAML:attribute:subject-id": func(s *saml.Session) []string { return []string{s.SubjectID} },
}

// attrMeaning reports attributes whose name has a fixed meaning but whose values are not that field of the session (a value of another
// field, or of no field at all, under that name). names of requested attributes are matched as the IdP normalises them.
func attrMeaning(attrs []saml.Attribute, sess *saml.Session) []string {
	var out []string
	vals := func(a saml.Attribute) []string {
		var v []string
		for _, x := range a.Values {
			v = append(v, x.Value)
		}
		return v
	}
	for _, a := range attrs {
		var want []string
		if f, ok := c07WellKnown[a.Name]; ok && a.NameFormat == "urn:oasis:names:tc:SAML:2.0:attrname-format:uri" {
			want = f(sess)
		} else {
			for _, r := range c07Requested {
				if r.name == a.Name && strings.HasSuffix(a.NameFormat, ":"+r.format) {
					want = []string{r.field(sess)}
				}
			}
		}
		if want == nil {
			continue
		}
		if got := vals(a); strings.Join(got, "\x00") != strings.Join(want, "\x00") {
			out = append(out, fmt.Sprintf("attribute %q (%s) carries %+q, the session's value for it is %+q", a.Name, a.FriendlyName, got, want))
		}
	}
	return out
}

type c07World struct {
	sp  *saml.ServiceProvider
	idp *saml.IdentityProvider
	fs  *harness.FixedSession
	err error
}

// newWorld wires SP and IdP to each other ONLY through their published metadata, serialised and re-parsed.
func newWorld(cf c07Cfg) *c07World {
	w := &c07World{fs: &harness.FixedSession{}}
	kp := samlgen.Key(cf.idpKey)
	idp := &saml.IdentityProvider{Key: kp.Key, Certificate: kp.Cert, Logger: harness.NullLogger{}, MetadataURL: harness.MustURL(samlgen.IDPEntity), SSOURL: harness.MustURL(samlgen.IDPSSO),
		SessionProvider: w.fs, SignatureMethod: cf.idpMethod}
	if cf.idpKey == "idpec" {
		idp.Signer, idp.Key = kp.Key, nil
	}
	ib, err := xml.Marshal(idp.Metadata())
	if err != nil {
		w.err = err
		return w
	}
	var idpMD saml.EntityDescriptor
	if err := xml.Unmarshal(ib, &idpMD); err != nil {
		w.err = fmt.Errorf("IdP metadata does not re-parse: %w", err)
		return w
	}
	skp := samlgen.Key(cf.spKey)
	sp := &saml.ServiceProvider{EntityID: samlgen.SPEntity, Key: skp.Key, Certificate: skp.Cert, MetadataURL: harness.MustURL(samlgen.SPMetaURL), AcsURL: harness.MustURL(samlgen.SPAcs),
		SloURL: harness.MustURL(samlgen.SPSlo), IDPMetadata: &idpMD}
	if cf.spName != "" {
		n := c07SPNames[cf.spName]
		sp.EntityID, sp.MetadataURL = n[0], harness.MustURL(n[1])
	}
	if !cf.entitySet {
		sp.EntityID = ""
	}
	if !cf.enc {
		sp.Certificate = nil // no certificate published => no encryption key descriptor
	}
	if cf.signReq {
		sp.Certificate = skp.Cert
		if cf.spKey == "spec256" {
			sp.SignatureMethod = dsig.ECDSASHA256SignatureMethod
		} else {
			sp.SignatureMethod = dsig.RSASHA256SignatureMethod
		}
	}
	sb, err := xml.Marshal(sp.Metadata())
	if err != nil {
		w.err = err
		return w
	}
	var spMD saml.EntityDescriptor
	if err := xml.Unmarshal(sb, &spMD); err != nil {
		w.err = fmt.Errorf("SP metadata does not re-parse: %w", err)
		return w
	}
	if cf.reqAttrs && len(spMD.SPSSODescriptors) > 0 {
		tr := true
		acs := saml.AttributeConsumingService{Index: 1, IsDefault: &tr, ServiceNames: []saml.LocalizedName{{Lang: "en", Value: "sp"}}}
		for _, r := range c07Requested {
			acs.RequestedAttributes = append(acs.RequestedAttributes, saml.RequestedAttribute{Attribute: saml.Attribute{Name: r.name, FriendlyName: "requested-" + r.name, NameFormat: "urn:oasis:names:tc:SAML:2.0:attrname-format:" + r.format}})
		}
		spMD.SPSSODescriptors[0].AttributeConsumingServices = []saml.AttributeConsumingService{acs}
	}
	idp.ServiceProviderProvider = harness.SPRegistry{spMD.EntityID: &spMD}
	w.sp, w.idp = sp, idp
	return w
}

// roundTrip: SP emits a request, IdP answers for sess, SP parses. Returns the IdP's in-memory assertion and the SP's parsed one.
func (w *c07World) roundTrip(cf c07Cfg, sess *saml.Session) (sent *saml.Assertion, got *saml.Assertion, stage string, err error) {
	w.fs.S = sess
	if cf.aged != 0 {
		harness.SetNow(samlgen.T0.Add(cf.aged))
		defer harness.SetNow(samlgen.T0)
	}
	var hr *http.Request
	var reqID string
	if cf.binding == "redirect" {
		ar, err := w.sp.MakeAuthenticationRequest(w.sp.GetSSOBindingLocation(saml.HTTPRedirectBinding), saml.HTTPRedirectBinding, saml.HTTPPostBinding)
		if err != nil {
			return nil, nil, "sp-make-request", err
		}
		reqID = ar.ID
		u, err := ar.Redirect("relay", w.sp)
		if err != nil {
			return nil, nil, "sp-redirect", err
		}
		hr = httptest.NewRequest("GET", u.String(), nil)
	} else {
		ar, err := w.sp.MakeAuthenticationRequest(w.sp.GetSSOBindingLocation(saml.HTTPPostBinding), saml.HTTPPostBinding, saml.HTTPPostBinding)
		if err != nil {
			return nil, nil, "sp-make-request", err
		}
		reqID = ar.ID
		f, err := htmlform.Parse(ar.Post("relay"))
		if err != nil {
			return nil, nil, "sp-post-form", err
		}
		hr = httptest.NewRequest("POST", f.Action, strings.NewReader(url.Values{"SAMLRequest": {f.Fields["SAMLRequest"]}, "RelayState": {f.Fields["RelayState"]}}.Encode()))
		hr.Header.Set("Content-Type", "application/x-www-form-urlencoded")
	}
	req, err := saml.NewIdpAuthnRequest(w.idp, hr)
	if err != nil {
		return nil, nil, "idp-decode-request", err
	}
	if err := req.Validate(); err != nil {
		return nil, nil, "idp-validate-request", err
	}
	if err := (saml.DefaultAssertionMaker{}).MakeAssertion(req, sess); err != nil {
		return nil, nil, "idp-make-assertion", err
	}
	sent = req.Assertion
	rec := httptest.NewRecorder()
	if err := req.WriteResponse(rec); err != nil {
		return sent, nil, "idp-write-response", err
	}
	f, err := htmlform.Parse(rec.Body.Bytes())
	if err != nil {
		return sent, nil, "idp-form", err
	}
	acs := formRequest(f.Action, url.Values{"SAMLResponse": {f.Fields["SAMLResponse"]}, "RelayState": {f.Fields["RelayState"]}})
	pending := []string{reqID}
	if cf.binding == "post" || cf.enc {
		// other logins are pending in the same browser (two more tabs): the answered request is neither first nor last in the list
		pending = []string{"id-pending-earlier", reqID, "id-pending-later"}
	}
	got, err = w.sp.ParseResponse(acs, pending)
	if err != nil {
		return sent, nil, "sp-parse-response", err
	}
	return sent, got, "ok", nil
}

func attrList(a *saml.Assertion) []string {
	var out []string
	for _, st := range a.AttributeStatements {
		for _, at := range st.Attributes {
			var vs []string
			for _, v := range at.Values {
				vs = append(vs, v.Value)
				if n := v.NameID; n != nil { // a value that is itself a name identifier (eduPersonTargetedID): all of it
					vs = append(vs, fmt.Sprintf("NameID{%q fmt=%q nq=%q spnq=%q spid=%q}", n.Value, n.Format, n.NameQualifier, n.SPNameQualifier, n.SPProvidedID))
				}
			}
			out = append(out, fmt.Sprintf("%q/%q/%q=%q", at.Name, at.FriendlyName, at.NameFormat, vs))
		}
	}
	return out
}

func init() {
	Register(&Check{
		ID:     "C07",
		Engine: "lattice",
		Rule: "session strings over an XML-1.0 token alphabet (markup characters, quotes, CR/LF/TAB, white space, CDATA/comment look-alikes, character references, NEL/LS, non-BMP, U+FFFD): every string of <=2 tokens (thorough <=3) in each of 12 positions one at a time, all pairs of positions with single tokens, and a length ladder 0..48 of the NameID (every cipher-block alignment), " +
			"crossed with encryption on/off and SP/IdP configuration axes (EntityID set/unset, RSA/ECDSA SP key, redirect/POST request binding, signed/unsigned requests, IdP key and signature method); SP and IdP know each other only through their published metadata serialised and re-parsed, and the IdP answers the request the SP actually emitted. " +
			"Oracle: ParseResponse accepts and returns exactly the NameID and the ordered attribute names/values of the assertion the IdP built, which in turn carries every session string. non-trivial = any non-default string or configuration",
		Bounds: func(tier string) string {
			if tier == "thorough" {
				return "strings of <= 3 tokens in 12 positions; all position pairs; 24 configurations"
			}
			return "strings of <= 2 tokens in 12 positions x {plain, encrypted}; all position pairs x single tokens; length ladder; configuration axes one at a time"
		},
		Assumptions: []string{"characters XML 1.0 cannot represent (NUL etc.) are outside the statement"},
		Run:         runC07,
		CapQuick:    8 * time.Minute,
		CapThorough: 25 * time.Minute,
	})
}

func runC07(c *core.Ctx) {
	g := harness.Pin(samlgen.T0)
	defer g.Restore()
	base := c07Cfg{enc: false, entitySet: true, spKey: "sp2048", binding: "redirect", idpKey: "idp1"}
	encCfg := base
	encCfg.enc = true
	worlds := map[string]*c07World{}
	world := func(cf c07Cfg) *c07World {
		k := cf.String()
		if w, ok := worlds[k]; ok {
			return w
		}
		w := newWorld(cf)
		worlds[k] = w
		return w
	}
	cls := func(s string) string {
		var parts []string
		for _, tk := range c07Tokens {
			if strings.Contains(s, tk) && tk != "a" {
				parts = append(parts, fmt.Sprintf("%+q", tk))
			}
		}
		return strings.Join(parts, "+")
	}
	var runWorld func(t *core.T, w *c07World, cf c07Cfg, pos map[int]string, key string)
	run := func(t *core.T, cf c07Cfg, pos map[int]string, key string) { runWorld(t, world(cf), cf, pos, key) }
	runWorld = func(t *core.T, w *c07World, cf c07Cfg, pos map[int]string, key string) {
		if w.err != nil {
			t.Fail("C07/metadata-exchange/"+w.err.Error()[:20], "%s: %v", cf, w.err)
			return
		}
		sess := c07Session(pos)
		var sent, got *saml.Assertion
		var stage string
		var err error
		_, p := guard(func() error { sent, got, stage, err = w.roundTrip(cf, sess); return nil })
		t.Impl(3)
		t.Compared()
		var charClass string
		for i, v := range pos {
			if i >= len(c07Positions) {
				continue // (NameIDFormat: not one of the string positions)
			}
			charClass += c07Positions[i] + ":" + cls(v) + " "
		}
		t.Input("session", fmt.Sprintf("%+q", pos))
		t.Input("config", cf.String())
		if p != "" {
			t.Fail("C07/panic@"+p[strings.LastIndex(p, "@")+1:], "round trip panicked: %s", p)
			return
		}
		if err != nil {
			t.Outcome("fail:" + stage)
			fk := "C07/roundtrip-fails/" + stage + crClass(pos)
			t.Fail(fk, "stage %s failed for session strings %s (%s): %s", stage, charClass, cf, privErr(err))
			return
		}
		t.Outcome("ok")
		gotName := ""
		if got.Subject != nil && got.Subject.NameID != nil {
			gotName = got.Subject.NameID.Value
		}
		if gotName != sess.NameID {
			fk := "C07/nameid-altered" + crClass(pos)
			t.Fail(fk, "NameID %+q came back as %+q (%s)", sess.NameID, gotName, cf)
		}
		if sess.NameIDFormat != "" && got.Subject != nil && got.Subject.NameID != nil && got.Subject.NameID.Format != sess.NameIDFormat {
			t.Fail("C07/nameid-format-altered", "NameID format %q came back as %q (%s)", sess.NameIDFormat, got.Subject.NameID.Format, cf)
		}
		sl, gl := attrList(sent), attrList(got)
		if strings.Join(sl, "\n") != strings.Join(gl, "\n") {
			fk := "C07/attributes-altered" + crClass(pos)
			t.Fail(fk, "attributes differ after the round trip (%s):\nsent %q\ngot  %q", cf, sl, gl)
		}
		var gotAttrs []saml.Attribute
		for _, st := range got.AttributeStatements {
			gotAttrs = append(gotAttrs, st.Attributes...)
		}
		for _, bad := range attrMeaning(gotAttrs, sess) {
			t.Fail("C07/attribute-states-another-value"+crClass(pos), "%s (%s)", bad, cf)
		}
		if cf.reqAttrs {
			names := map[string]bool{}
			for _, a := range gotAttrs {
				names[a.Name] = true
			}
			for _, r := range c07Requested {
				if !names[r.name] {
					t.Fail("C07/requested-attribute-not-delivered", "requested attribute %q did not arrive (%s)", r.name, cf)
				}
			}
		}
		if len(got.AuthnStatements) != 1 || got.AuthnStatements[0].SessionIndex != sess.Index {
			fk := "C07/session-index-altered" + crClass(pos)
			t.Fail(fk, "session index %+q came back as %+v", sess.Index, got.AuthnStatements)
		}
		// the assertion the IdP built must carry every session string (so "equal to sent" is not vacuous)
		have := strings.Join(sl, "\n")
		for s := range sessionStrings(sess) {
			if s != sess.NameID && !strings.Contains(have, fmt.Sprintf("%q", s)) {
				t.Fail("C07/session-string-not-emitted", "session string %+q is not in the IdP's assertion", s)
			}
		}
		t.Sample(map[string]interface{}{"case": key, "strings": fmt.Sprintf("%+q", pos)})
	}

	// strings of <= n tokens
	var strs []string
	var gen func(prefix string, depth int)
	maxTok := 2
	if c.Thorough() {
		maxTok = 3
	}
	gen = func(prefix string, depth int) {
		strs = append(strs, prefix)
		if depth == maxTok {
			return
		}
		for _, tk := range c07Tokens {
			gen(prefix+tk, depth+1)
		}
	}
	gen("", 0)

	c.Group("one-position")
	for pi := range c07Positions {
		for si, s := range strs {
			for _, cf := range []c07Cfg{base, encCfg} {
				pi, s, cf := pi, s, cf
				key := fmt.Sprintf("pos=%s/str#%d=%+q/%s", c07Positions[pi], si, s, cf)
				c.Case(key, func(t *core.T) {
					t.NonTrivial()
					run(t, cf, map[int]string{pi: s}, key)
				})
			}
		}
	}
	c.Group("position-pairs")
	for p1 := range c07Positions {
		for p2 := p1 + 1; p2 < len(c07Positions); p2++ {
			for _, t1 := range c07Tokens[1:] {
				for _, t2 := range c07Tokens[1:] {
					if !c.Thorough() && t1 != t2 && (p1+p2)%3 != 0 {
						continue // quick: equal tokens for all pairs, all token pairs for a third of the position pairs
					}
					p1, p2, t1, t2 := p1, p2, t1, t2
					key := fmt.Sprintf("pair/%s=%+q/%s=%+q", c07Positions[p1], t1, c07Positions[p2], t2)
					c.Case(key, func(t *core.T) {
						t.NonTrivial()
						run(t, encCfg, map[int]string{p1: "x" + t1 + "y", p2: t2}, key)
					})
				}
			}
		}
	}
	c.Group("length-ladder")
	for n := 0; n <= 48; n++ {
		for _, cf := range []c07Cfg{base, encCfg} {
			n, cf := n, cf
			key := fmt.Sprintf("ladder/nameid-len=%d/%s", n, cf)
			c.Case(key, func(t *core.T) {
				t.NonTrivial()
				run(t, cf, map[int]string{0: strings.Repeat("n", n), 7: strings.Repeat("g", (n*7)%23)}, key)
			})
		}
	}
	// key rollover: every sequence of <= 3 re-keyings of the IdP (same entity ID, the SP object kept and handed the re-published metadata)
	// or of the SP (the IdP object kept, registration replaced); after every step a fresh login must round-trip exactly.
	c.Group("rollover-sequences")
	idpKeys := []struct{ k, m string }{{"idp1", dsig.RSASHA256SignatureMethod}, {"idp2", ""}, {"idpec", dsig.ECDSASHA256SignatureMethod}}
	spKeys := []string{"sp2048", "sp4096", "sp3072"}
	for _, who := range []string{"idp", "sp"} {
		for _, enc := range []bool{false, true} {
			if who == "sp" && !enc {
				continue // without a published certificate the SP key plays no part
			}
			for n := 0; n < 27; n++ {
				seq := []int{n % 3, (n / 3) % 3, n / 9}
				who, enc, seq := who, enc, seq
				key := fmt.Sprintf("rollover/%s/enc=%v/seq=%v", who, enc, seq)
				c.Case(key, func(t *core.T) {
					t.NonTrivial()
					cf := base
					cf.enc = enc
					w := newWorld(cf) // a private world: this case mutates it
					if w.err != nil {
						t.Fail("C07/metadata-exchange/rollover", "%v", w.err)
						return
					}
					for step, ki := range seq {
						var err error
						if who == "idp" {
							err = w.rekeyIDP(idpKeys[ki].k, idpKeys[ki].m)
						} else {
							err = w.rekeySP(spKeys[ki])
						}
						if err != nil {
							t.Fail("C07/rollover/metadata", "step %d: %v", step, err)
							return
						}
						sess := c07Session(map[int]string{0: fmt.Sprintf("user-step%d@example.com", step)})
						var sent, got *saml.Assertion
						var stage string
						_, p := guard(func() error { sent, got, stage, err = w.roundTrip(cf, sess); return nil })
						t.Impl(3)
						t.Compared()
						if p != "" {
							t.Fail("C07/panic@"+p[strings.LastIndex(p, "@")+1:], "round trip panicked: %s", p)
							return
						}
						if err != nil {
							t.Outcome("fail:" + stage)
							t.Fail("C07/rollover/roundtrip-fails-after-"+who+"-rekey/"+stage, "%s: after re-keying step %d (sequence %v) a fresh login fails at %s: %s", key, step, seq, stage, privErr(err))
							return
						}
						if got.Subject == nil || got.Subject.NameID == nil || got.Subject.NameID.Value != sess.NameID || strings.Join(attrList(sent), "\n") != strings.Join(attrList(got), "\n") {
							t.Fail("C07/rollover/identity-altered", "%s: step %d returned a different identity", key, step)
						}
					}
					t.Outcome("ok")
				})
			}
		}
	}

	// several attributes sharing a Name: a custom attribute named like one of the built-in ones, or two custom attributes with one Name.
	// Each is an attribute of the session: all of them arrive, in order, with their own values.
	c.Group("duplicate-attribute-names")
	builtin := []string{"urn:oid:0.9.2342.19200300.100.1.1", "urn:oid:0.9.2342.19200300.100.1.3", "urn:oid:2.5.4.3", "urn:oid:2.5.4.4", "urn:oid:2.5.4.42", "urn:oid:1.3.6.1.4.1.5923.1.1.1.9", "urn:oid:1.3.6.1.4.1.5923.1.1.1.1", "urn:oid:1.3.6.1.4.1.5923.1.1.1.6", "urn:custom:attr", "uid", "mail"}
	for _, cf := range []c07Cfg{base, encCfg} {
		for _, name := range builtin {
			for _, how := range []string{"custom-named-like-this", "two-customs-with-this-name", "three-customs-two-with-this-name"} {
				cf, name, how := cf, name, how
				key := fmt.Sprintf("dupattr/%s/%s/%s", how, name, cf)
				c.Case(key, func(t *core.T) {
					t.NonTrivial()
					w := world(cf)
					if w.err != nil {
						t.Fail("C07/metadata-exchange/dupattr", "%v", w.err)
						return
					}
					sess := c07Session(map[int]string{})
					mk := func(n string, vals ...string) saml.Attribute {
						a := saml.Attribute{Name: n, NameFormat: "urn:oasis:names:tc:SAML:2.0:attrname-format:uri"}
						for _, v := range vals {
							a.Values = append(a.Values, saml.AttributeValue{Type: "xs:string", Value: v})
						}
						return a
					}
					switch how {
					case "custom-named-like-this":
						sess.CustomAttributes = []saml.Attribute{mk(name, "custom-value-1")}
					case "two-customs-with-this-name":
						sess.CustomAttributes = []saml.Attribute{mk(name, "custom-value-1"), mk(name, "custom-value-2", "custom-value-3")}
					default:
						sess.CustomAttributes = []saml.Attribute{mk(name, "custom-value-1"), mk("urn:custom:other", "custom-value-4"), mk(name, "custom-value-2")}
					}
					var sent, got *saml.Assertion
					var stage string
					var err error
					_, p := guard(func() error { sent, got, stage, err = w.roundTrip(cf, sess); return nil })
					t.Impl(3)
					t.Compared()
					if p != "" {
						t.Fail("C07/panic@"+p[strings.LastIndex(p, "@")+1:], "round trip panicked: %s", p)
						return
					}
					if err != nil {
						t.Fail("C07/roundtrip-fails/"+stage+"/duplicate-attribute-names", "%s: stage %s: %s", key, stage, privErr(err))
						return
					}
					_ = sent
					gl := attrList(got)
					// the custom attributes, in session order, with exactly their values
					pos := 0
					for _, ca := range sess.CustomAttributes {
						var vs []string
						for _, v := range ca.Values {
							vs = append(vs, v.Value)
						}
						want := fmt.Sprintf("%q/%q/%q=%q", ca.Name, ca.FriendlyName, ca.NameFormat, vs)
						found := false
						for pos < len(gl) {
							pos++
							if gl[pos-1] == want {
								found = true
								break
							}
						}
						if !found {
							t.Fail("C07/attributes-altered/duplicate-names", "%s: custom attribute %s is missing (or out of order) in what the SP returned: %q", key, want, gl)
							return
						}
					}
					have := strings.Join(gl, "\n")
					for sv := range sessionStrings(sess) {
						if sv != sess.NameID && !strings.Contains(have, fmt.Sprintf("%q", sv)) {
							t.Fail("C07/attributes-altered/duplicate-names/value-lost", "%s: session string %+q did not arrive at the SP", key, sv)
						}
					}
				})
			}
		}
	}

	// an IdP that lists intermediate certificates: the SP trusts only the published leaf
	c.Group("idp-intermediates")
	for _, cf := range []c07Cfg{base, encCfg} {
		for n := 1; n <= 2; n++ {
			for pi, pr := range []map[int]string{{}, {0: "a&b<c>", 7: " "}} {
				cf, n, pr, pi := cf, n, pr, pi
				key := fmt.Sprintf("intermediates=%d/%s/probe=%d", n, cf, pi)
				c.Case(key, func(t *core.T) {
					t.NonTrivial()
					w := newWorld(cf)
					if w.err != nil {
						t.Fail("C07/metadata-exchange/intermediates", "%v", w.err)
						return
					}
					w.idp.Intermediates = []*x509.Certificate{samlgen.Key("idp2").Cert, samlgen.Key("idpenc").Cert}[:n]
					worlds[cf.String()+fmt.Sprint("/intermediates=", n)] = w
					cf2 := cf
					runWorld(t, w, cf2, pr, key)
				})
			}
		}
	}

	c.Group("configurations")
	var cfgs []c07Cfg
	for _, enc := range []bool{false, true} {
		for _, es := range []bool{true, false} {
			for _, sk := range []string{"sp2048", "spec256", "sp1024", "sp4096"} {
				for _, b := range []string{"redirect", "post"} {
					for _, sr := range []bool{false, true} {
						for _, im := range []struct{ k, m string }{{"idp1", ""}, {"idp1", dsig.RSASHA256SignatureMethod}, {"idp1", dsig.RSASHA512SignatureMethod}, {"idpec", dsig.ECDSASHA256SignatureMethod}, {"idpec", dsig.ECDSASHA384SignatureMethod}} {
							cfgs = append(cfgs, c07Cfg{enc: enc, entitySet: es, spKey: sk, binding: b, signReq: sr, idpMethod: im.m, idpKey: im.k})
						}
					}
				}
			}
		}
	}
	// the SP's names in other lexical shapes, and an SP that asks for attributes by name
	var spNames []string
	for n := range c07SPNames {
		spNames = append(spNames, n)
	}
	sort.Strings(spNames)
	for _, n := range spNames {
		for _, es := range []bool{true, false} {
			for _, enc := range []bool{false, true} {
				for _, b := range []string{"redirect", "post"} {
					cfgs = append(cfgs, c07Cfg{enc: enc, entitySet: es, spKey: "sp2048", binding: b, idpKey: "idp1", spName: n})
				}
			}
		}
	}
	for _, enc := range []bool{false, true} {
		for _, b := range []string{"redirect", "post"} {
			cfgs = append(cfgs, c07Cfg{enc: enc, entitySet: true, spKey: "sp2048", binding: b, idpKey: "idp1", reqAttrs: true}, c07Cfg{enc: enc, entitySet: false, spKey: "spec256", binding: b, idpKey: "idpec", idpMethod: dsig.ECDSASHA256SignatureMethod, reqAttrs: true, spName: "trailing-slash"})
		}
	}
	for _, aged := range []time.Duration{49 * time.Hour, 30 * 24 * time.Hour, 400 * 24 * time.Hour} {
		for _, enc := range []bool{false, true} {
			cfgs = append(cfgs, c07Cfg{enc: enc, entitySet: true, spKey: "sp2048", binding: "redirect", idpKey: "idp1", aged: aged}, c07Cfg{enc: enc, entitySet: true, spKey: "spec256", binding: "post", signReq: true, idpKey: "idpec", idpMethod: dsig.ECDSASHA256SignatureMethod, aged: aged})
		}
	}
	probes := []map[int]string{{}, {0: "a&b<c>\"d'", 8: " lead and trail ", 7: "\n"}, {0: "\U0001F600é", 3: "]]><!--", 9: "urn:x:&<>"},
		// name identifiers in each format, spelt with capitals: the spelling is the IdP's user's, not the IdP's to normalise
		{0: "Alice.Liddell@Example.COM", 14: "urn:oasis:names:tc:SAML:1.1:nameid-format:emailAddress", 2: "Alice.Liddell@Example.COM"},
		{0: "MiXeD-Case-Opaque-ID", 14: "urn:oasis:names:tc:SAML:2.0:nameid-format:persistent"},
		{0: "CN=Alice Liddell,OU=Wonderland,O=Example,C=GB", 14: "urn:oasis:names:tc:SAML:1.1:nameid-format:X509SubjectName"},
		{0: "EXAMPLE\\Alice", 14: "urn:oasis:names:tc:SAML:1.1:nameid-format:WindowsDomainQualifiedName"},
		{0: "Ünï@Ünï.Example", 14: "urn:oasis:names:tc:SAML:1.1:nameid-format:unspecified"},
		// values that repeat: a group the session lists twice, a custom attribute whose two values are equal, several fields with one text
		{7: "Users"}, {7: "Wonderland"}, {8: "first"}, {7: "Users", 8: "first"}, {1: "same", 2: "same", 3: "same", 4: "same", 5: "same", 6: "same", 7: "same", 12: "same", 13: "same"}}
	for _, cf := range cfgs {
		for pi, pr := range probes {
			cf, pr, pi := cf, pr, pi
			key := fmt.Sprintf("config/%s/probe=%d", cf, pi)
			c.Case(key, func(t *core.T) {
				t.NonTrivial()
				run(t, cf, pr, key)
			})
		}
	}
}

// rekeyIDP gives the world's IdP a new key pair (same entity ID) and hands the SAME ServiceProvider object the re-published metadata.
func (w *c07World) rekeyIDP(key, method string) error {
	kp := samlgen.Key(key)
	w.idp.Key, w.idp.Signer, w.idp.Certificate, w.idp.SignatureMethod = kp.Key, nil, kp.Cert, method
	if key == "idpec" {
		w.idp.Signer, w.idp.Key = kp.Key, nil
	}
	ib, err := xml.Marshal(w.idp.Metadata())
	if err != nil {
		return err
	}
	var idpMD saml.EntityDescriptor
	if err := xml.Unmarshal(ib, &idpMD); err != nil {
		return err
	}
	w.sp.IDPMetadata = &idpMD
	return nil
}

// rekeySP gives the SP a new key pair and re-registers its re-published metadata with the SAME IdentityProvider object.
func (w *c07World) rekeySP(key string) error {
	kp := samlgen.Key(key)
	w.sp.Key, w.sp.Certificate = kp.Key, kp.Cert
	sb, err := xml.Marshal(w.sp.Metadata())
	if err != nil {
		return err
	}
	var spMD saml.EntityDescriptor
	if err := xml.Unmarshal(sb, &spMD); err != nil {
		return err
	}
	w.idp.ServiceProviderProvider = harness.SPRegistry{spMD.EntityID: &spMD}
	return nil
}

// crClass classifies a session by where a carriage return occurs: in a string serialised as element
// text, in one serialised as an XML attribute value (custom attribute Name / FriendlyName, SessionIndex), or nowhere.
func crClass(pos map[int]string) string {
	text, attr := false, false
	for i, v := range pos {
		if strings.Contains(v, "\r") {
			if i == 9 || i == 10 || i == 11 {
				attr = true
			} else {
				text = true
			}
		}
	}
	switch {
	case attr:
		return "/cr-in-attribute-value"
	case text:
		return "/cr-in-text"
	}
	return ""
}
