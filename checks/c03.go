package checks

import (
	"errors"
	"fmt"
	"net/url"
	"strings"
	"time"

	"github.com/crewjam/saml"

	"verif/engine/core"
	"verif/engine/harness"
	"verif/engine/lattice"
	"verif/engine/samlgen"
)

// C03 — only assertions addressed to this SP by its configured IdP.

// near-miss alphabet for a correct string s: index 0 is correct.
// 1 wrong, 2 upper-case, 3 trailing slash, 4 added query, 5 strict prefix, 6 superstring, 7 empty, 8 absent
var nmNames = []string{"ok", "wrong", "upper", "slash", "query", "prefix", "super", "empty", "absent"}

func nearMiss(s string, i int) *string {
	switch i {
	case 0:
		return samlgen.S(s)
	case 1:
		return samlgen.S("https://evil.example.net/other")
	case 2:
		return samlgen.S(strings.ToUpper(s))
	case 3:
		return samlgen.S(s + "/")
	case 4:
		return samlgen.S(s + "?x=1")
	case 5:
		return samlgen.S(s[:len(s)-1])
	case 6:
		return samlgen.S(s + "x")
	case 7:
		return samlgen.S("")
	}
	return nil
}

const otherCurrent = samlgen.SPAcs + "?received=here"

// Destination domain: 0 ACS, 1 the alternative received-at URL, 2.. near-misses of ACS (wrong.. absent)
var destNames = []string{"acs", "altcur", "wrong", "upper", "slash", "query", "prefix", "super", "empty", "absent"}

func destVal(i int) *string {
	switch i {
	case 0:
		return samlgen.S(samlgen.SPAcs)
	case 1:
		return samlgen.S(otherCurrent)
	}
	return nearMiss(samlgen.SPAcs, i-1)
}

// audience alphabet: 0 the SP identifier for the configuration, 1 the *other* identifier, 2 wrong, 3 upper, 4 slash, 5 prefix, 6 super, 7 empty
var audNames = []string{"sp", "otherid", "wrong", "upper", "slash", "prefix", "super", "empty"}

func audVal(i int, entitySet bool) string {
	id, other := samlgen.SPEntity, samlgen.SPMetaURL
	if !entitySet {
		id, other = samlgen.SPMetaURL, samlgen.SPEntity
	}
	switch i {
	case 0:
		return id
	case 1:
		return other
	case 2:
		return "https://other-sp.example.org/metadata"
	case 3:
		return strings.ToUpper(id)
	case 4:
		return id + "/"
	case 5:
		return id[:len(id)-1]
	case 6:
		return id + "x"
	}
	return ""
}

// audience sequences of length 0..3; index 0 = [sp]
var audSeqs = func() [][]int {
	seqs := [][]int{{0}}
	seqs = append(seqs, []int{})
	for l := 1; l <= 3; l++ {
		n := 1
		for i := 0; i < l; i++ {
			n *= 8
		}
		for x := 0; x < n; x++ {
			s := make([]int, l)
			y := x
			for i := 0; i < l; i++ {
				s[i] = y % 8
				y /= 8
			}
			if l == 1 && s[0] == 0 {
				continue
			}
			seqs = append(seqs, s)
		}
	}
	return seqs
}()

// audSeqIndex finds a sequence's index in audSeqs.
var audSeqIndex = func() map[string]int {
	m := map[string]int{}
	for i, s := range audSeqs {
		m[fmt.Sprint(s)] = i
	}
	return m
}()

func audWeight(i int) int {
	if i == 0 {
		return 0
	}
	w := 0
	for _, a := range audSeqs[i] {
		if a != 0 {
			w++
		}
	}
	if w == 0 {
		w = 1
	}
	return w
}

func audLabel(i int) string {
	var p []string
	for _, a := range audSeqs[i] {
		p = append(p, audNames[a])
	}
	return "[" + strings.Join(p, ",") + "]"
}

// status domain
type statusV struct {
	name       string
	noStatus   bool
	noCode     bool
	code       *string
	sub        string
	topSuccess bool
}

var statusVals = []statusV{
	{name: "success", code: samlgen.S(samlgen.StatusOK), topSuccess: true},
	{name: "requester", code: samlgen.S("urn:oasis:names:tc:SAML:2.0:status:Requester")},
	{name: "responder+nested-success", code: samlgen.S("urn:oasis:names:tc:SAML:2.0:status:Responder"), sub: samlgen.StatusOK},
	{name: "requester+authnfailed", code: samlgen.S("urn:oasis:names:tc:SAML:2.0:status:Requester"), sub: "urn:oasis:names:tc:SAML:2.0:status:AuthnFailed"},
	{name: "success-uppercase", code: samlgen.S(strings.ToUpper(samlgen.StatusOK))},
	{name: "success-suffix", code: samlgen.S(samlgen.StatusOK + "x")},
	{name: "empty", code: samlgen.S("")},
	{name: "no-value-attr", code: nil},
	{name: "no-statuscode", noCode: true},
	{name: "no-status", noStatus: true},
}

// Format attribute of the Response and Assertion Issuer elements: whatever it says, the value must be the IdP's entity ID.
var c03IssuerFormats = []struct {
	name   string
	rf, af *string
}{
	{"entity", nil, nil},
	{"no-format", samlgen.S(""), samlgen.S("")},
	{"resp-unspecified", samlgen.S("urn:oasis:names:tc:SAML:1.1:nameid-format:unspecified"), nil},
	{"resp-persistent", samlgen.S("urn:oasis:names:tc:SAML:2.0:nameid-format:persistent"), nil},
	{"assertion-unspecified", nil, samlgen.S("urn:oasis:names:tc:SAML:1.1:nameid-format:unspecified")},
	{"both-arbitrary", samlgen.S("urn:example:whatever"), samlgen.S("urn:example:whatever")},
}

type c03cfg struct {
	lay       harness.Layout
	entitySet bool
	validator string // nil, accept, reject
	curIsACS  bool
	entry     string
	idpInit   bool
}

func (c c03cfg) String() string {
	return fmt.Sprintf("lay=%s/entity=%v/validator=%s/curIsACS=%v/entry=%s", c.lay, c.entitySet, c.validator, c.curIsACS, c.entry)
}

func init() {
	Register(&Check{
		ID:     "C03",
		Engine: "lattice",
		Rule: "deviation-bounded product: every point with at most k multi-valued fields (Response Issuer, Assertion Issuer, Recipient of confirmation 1 and optional 2, Destination, audience sequences of length 0..3 over 8 values, StatusCode) away from correct, " +
			"crossed with the full product of the configuration axes (signing layout R/A/RA, EntityID set/unset, audience validator nil/accept/reject, received-at URL equal/unequal ACS, XML/POST entry); artifact-level Issuer/Status product. " +
			"Each point is a harness-signed message through the public API against a three-valued reference model. non-trivial = deviation >= 1 and model verdict decided",
		Bounds: func(tier string) string {
			if tier == "thorough" {
				return "k <= 3 deviations x 72 configurations (time cap 25 min)"
			}
			return "k <= 2 deviations x 36 configurations through ParseXMLResponse; the POST-form entry point for k <= 1"
		},
		Assumptions: []string{"near-miss alphabet: case, trailing slash, added query, strict prefix, superstring, empty, absent", "clock pinned; harness-signed messages"},
		Run:         runC03,
		CapQuick:    8 * time.Minute,
		CapThorough: 25 * time.Minute,
	})
}

func runC03(c *core.Ctx) {
	g := harness.Pin(samlgen.T0)
	defer g.Restore()

	fields := []lattice.Field{
		{Name: "respIssuer", N: 9, Label: func(i int) string { return nmNames[i] }},
		{Name: "assIssuer", N: 9, Label: func(i int) string { return nmNames[i] }},
		{Name: "rec1", N: 9, Label: func(i int) string { return nmNames[i] }},
		{Name: "rec2", N: 10, Label: func(i int) string { // 0 = no second confirmation, 1.. = nearMiss index i-1
			if i == 0 {
				return "none"
			}
			return nmNames[i-1]
		}},
		{Name: "dest", N: 10, Label: func(i int) string { return destNames[i] }},
		{Name: "aud", N: len(audSeqs), Weight: audWeight, Label: audLabel},
		{Name: "status", N: len(statusVals), Label: func(i int) string { return statusVals[i].name }},
		// options / attributes that must not matter for the addressing checks
		{Name: "method", N: 4, Label: func(i int) string {
			return []string{"bearer", "conf1-holder-of-key", "conf2-sender-vouches", "all-holder-of-key"}[i]
		}},
		{Name: "idpinit", N: 2, Label: func(i int) string { return []string{"off", "AllowIDPInitiated"}[i] }},
		{Name: "issuerFormat", N: len(c03IssuerFormats), Label: func(i int) string { return c03IssuerFormats[i].name }},
		{Name: "irt", N: 2, Label: func(i int) string { return []string{"answers-request", "InResponseTo-absent-everywhere"}[i] }},
		// other conditions next to the audience restrictions: whom the assertion may be proxied to says nothing about whom it is for
		{Name: "proxy", N: 4, Label: func(i int) string {
			return []string{"none", "ProxyRestriction-naming-this-SP", "ProxyRestriction-Count=0-naming-this-SP", "OneTimeUse+ProxyRestriction-naming-another"}[i]
		}},
	}
	k := 2
	if c.Thorough() {
		k = 3
	}

	var cfgs []c03cfg
	for _, lay := range []harness.Layout{{SignResponse: true}, {SignAssertion: true}, {SignResponse: true, SignAssertion: true}} {
		for _, es := range []bool{true, false} {
			for _, v := range []string{"nil", "accept", "reject"} {
				for _, cur := range []bool{true, false} {
					for _, e := range []string{"xml", "form"} {
						cfgs = append(cfgs, c03cfg{lay: lay, entitySet: es, validator: v, curIsACS: cur, entry: e})
					}
				}
			}
		}
	}
	spCache := map[string]*saml.ServiceProvider{}
	getSP := func(cf c03cfg) *saml.ServiceProvider {
		key := fmt.Sprint(cf.entitySet, cf.validator, cf.idpInit)
		if sp, ok := spCache[key]; ok {
			return sp
		}
		sp := harness.NewSP(harness.SPOpt{NoEntityID: !cf.entitySet, AllowIDPInit: cf.idpInit})
		switch cf.validator {
		case "accept":
			sp.ValidateAudienceRestriction = func(*saml.Assertion) error { return nil }
		case "reject":
			sp.ValidateAudienceRestriction = func(*saml.Assertion) error { return errors.New("audience validator says no") }
		}
		spCache[key] = sp
		return sp
	}

	type point struct {
		idx []int
	}
	buildDoc := func(idx []int, lay harness.Layout, entitySet bool) []byte {
		resp := samlgen.DefaultResponse()
		resp.Issuer = nearMiss(samlgen.IDPEntity, idx[0])
		a := samlgen.DefaultAssertion()
		a.Issuer = nearMiss(samlgen.IDPEntity, idx[1])
		a.Confirmations[0].Recipient = nearMiss(samlgen.SPAcs, idx[2])
		if idx[3] > 0 {
			c2 := a.Confirmations[0]
			c2.Recipient = nearMiss(samlgen.SPAcs, idx[3]-1)
			a.Confirmations = append(a.Confirmations, c2)
		}
		hok, sv := "urn:oasis:names:tc:SAML:2.0:cm:holder-of-key", "urn:oasis:names:tc:SAML:2.0:cm:sender-vouches"
		switch idx[7] {
		case 1:
			a.Confirmations[0].Method = hok
		case 2:
			if len(a.Confirmations) > 1 {
				a.Confirmations[1].Method = sv
			} else {
				a.Confirmations[0].Method = sv
			}
		case 3:
			for i := range a.Confirmations {
				a.Confirmations[i].Method = hok
			}
		}
		resp.IssuerFormat, a.IssuerFormat = c03IssuerFormats[idx[9]].rf, c03IssuerFormats[idx[9]].af
		if idx[10] == 1 { // an unsolicited response: acceptable only where IdP-initiated login is allowed
			resp.InResponseTo = nil
			for i := range a.Confirmations {
				a.Confirmations[i].InResponseTo = nil
			}
		}
		switch idx[11] {
		case 1:
			a.HasProxy, a.ProxyAudiences = true, []string{audVal(0, entitySet)}
		case 2:
			a.HasProxy, a.ProxyCount, a.ProxyAudiences = true, samlgen.S("0"), []string{audVal(0, entitySet)}
		case 3:
			a.OneTimeUse, a.HasProxy, a.ProxyAudiences = true, true, []string{"https://other-sp.example.org/metadata"}
		}
		resp.Destination = destVal(idx[4])
		a.Audiences = nil
		for _, ai := range audSeqs[idx[5]] {
			a.Audiences = append(a.Audiences, []string{audVal(ai, entitySet)})
		}
		st := statusVals[idx[6]]
		resp.NoStatus, resp.NoStatusCode, resp.StatusCode, resp.SubStatus = st.noStatus, st.noCode, st.code, st.sub
		return samlgen.Doc(harness.BuildResponse(resp, []*samlgen.Assertion{a}, lay, idp1(), spKey()))
	}

	model := func(idx []int, cf c03cfg) (core.Verdict, bool) {
		reject, dc := false, false
		if idx[0] != 0 && idx[0] != 8 { // present and not equal
			reject = true
		}
		if idx[1] != 0 {
			reject = true
		}
		if idx[2] != 0 {
			reject = true
		}
		if idx[3] > 1 { // second confirmation with a non-matching recipient
			reject = true
		}
		signed := cf.lay.SignResponse
		switch destNames[idx[4]] {
		case "acs":
		case "altcur":
			if cf.curIsACS {
				reject = true
			}
		case "absent":
			if signed {
				reject = true
			}
		case "empty":
			if signed {
				reject = true
			} else {
				dc = true
			}
		default:
			reject = true
		}
		seq := audSeqs[idx[5]]
		switch cf.validator {
		case "accept":
		case "reject":
			if len(seq) > 0 {
				reject = true
			} else {
				dc = true
			}
		default:
			if len(seq) > 0 {
				good := 0
				for _, a := range seq {
					if a == 0 {
						good++
					}
				}
				if good == 0 {
					reject = true
				} else if good < len(seq) {
					dc = true
				}
			}
		}
		st := statusVals[idx[6]]
		statusOnly := false
		if !st.topSuccess {
			statusOnly = !reject && !dc && idx[7] == 0 && idx[9] == 0 && idx[10] == 0 && idx[11] == 0
			reject = true
		}
		switch {
		case reject:
			return core.MustReject, statusOnly
		case dc:
			return core.DontCare, false
		}
		if idx[7] != 0 {
			return core.DontCare, false // no obligation to accept assertions whose confirmations are not all bearer
		}
		if idx[9] != 0 {
			return core.DontCare, false // no obligation to accept issuers declared in a non-entity format
		}
		if idx[10] == 1 {
			return core.DontCare, false // unsolicited: C04's subject; here only "never accept what is addressed elsewhere" matters
		}
		return core.MustAccept, false
	}

	docCache := map[string][]byte{}
	c.Group("fields-x-config")
	npoints := 0
	keyPrefix := ""
	visit := func(idx []int, dev int) {
		pt := append([]int{}, idx...)
		c.Affinity(npoints)
		npoints++
		var lab []string
		for i, f := range fields {
			if pt[i] != 0 {
				lab = append(lab, f.Name+"="+f.Label(pt[i]))
			}
		}
		plabel := strings.Join(lab, ",")
		if plabel == "" {
			plabel = "all-correct"
		}
		for _, cf := range cfgs {
			cf := cf
			cf.idpInit = pt[8] == 1
			if cf.entry == "form" && dev > 1 && !c.Thorough() {
				continue // quick: the POST-form entry point only for <= 1 deviation
			}
			key := keyPrefix + plabel + "|" + cf.String()
			c.Case(key, func(t *core.T) {
				dk := fmt.Sprint(pt[:8], pt[9:], cf.lay, cf.entitySet)
				doc, ok := docCache[dk]
				if !ok {
					if len(docCache) > 20000 {
						docCache = map[string][]byte{}
					}
					doc = buildDoc(pt, cf.lay, cf.entitySet)
					docCache[dk] = doc
				}
				sp := getSP(cf)
				cur := samlgen.SPAcs
				if !cf.curIsACS {
					cur = otherCurrent
				}
				var a *saml.Assertion
				var err error
				if cf.entry == "xml" {
					a, err = sp.ParseXMLResponse(doc, []string{samlgen.ReqID}, harness.MustURL(cur))
				} else {
					req := formRequest(cur, url.Values{"SAMLResponse": {b64(doc)}})
					a, err = sp.ParseResponse(req, []string{samlgen.ReqID})
				}
				t.Impl(1)
				checkAPIContract(t, a, err)
				v, statusOnly := model(pt, cf)
				if dev > 0 && v != core.DontCare {
					t.NonTrivial()
				}
				t.Outcome(harness.ErrClass(err))
				judge(t, v, err, "C03/"+cf.entry, key)
				// several AudienceRestrictions of which some name this SP: whether that suffices is not settled by the statement, but the
				// answer cannot depend on the order in which the IdP wrote them
				if seq := audSeqs[pt[5]]; len(seq) > 1 && cf.entry == "xml" {
					rev := make([]int, len(seq))
					for i := range seq {
						rev[len(seq)-1-i] = seq[i]
					}
					if ri, ok := audSeqIndex[fmt.Sprint(rev)]; ok && ri != pt[5] {
						pt2 := append([]int{}, pt...)
						pt2[5] = ri
						doc2 := buildDoc(pt2, cf.lay, cf.entitySet)
						_, err2 := sp.ParseXMLResponse(doc2, []string{samlgen.ReqID}, harness.MustURL(cur))
						t.Impl(1)
						if (err == nil) != (err2 == nil) {
							t.Fail("C03/audience-order-decides", "audience restrictions %s: accepted=%v; the same restrictions in reverse order: accepted=%v", audLabel(pt[5]), err == nil, err2 == nil)
							t.Input("response_xml", string(doc))
						}
					}
				}
				if statusOnly && err != nil {
					// a non-Success status on an otherwise valid response must be reported as such
					st := statusVals[pt[6]]
					var bs saml.ErrBadStatus
					ire, _ := err.(*saml.InvalidResponseError)
					if ire == nil || !errors.As(ire.PrivateErr, &bs) {
						t.Fail("C03/bad-status-not-reported", "status %s on an otherwise valid response: PrivateErr is %T (%v), want ErrBadStatus", st.name, privOf(err), privErr(err))
					} else if st.code != nil && !st.noCode && !st.noStatus && bs.Status != *st.code {
						t.Fail("C03/bad-status-wrong-code", "ErrBadStatus.Status=%q, top-level code is %q", bs.Status, *st.code)
					}
				}
				if t.Failed() {
					t.Input("response_xml", string(doc))
					t.Input("received_at", cur)
				}
				t.Sample(map[string]interface{}{"case": key, "deviations": dev, "model": v.String(), "impl": harness.ErrClass(err)})
			})
		}
	}
	lattice.Enumerate(fields, k, visit)

	// second pass: the full product of the four option fields (confirmation method, AllowIDPInitiated, Issuer Format, unsolicited)
	// with at most one addressing field away from correct, on the XML entry point with the default audience handling
	c.Group("options-product-x-single-deviation")
	keyPrefix = "opt|"
	optFields := append([]lattice.Field{}, fields...)
	for i := 7; i <= 10; i++ { // (the proxy field stays an ordinary deviation here)
		optFields[i].Weight = func(int) int { return 0 }
	}
	allCfgs := cfgs
	cfgs = nil
	for _, cf := range allCfgs {
		if cf.entry == "xml" && cf.validator == "nil" && cf.entitySet {
			cfgs = append(cfgs, cf)
		}
	}
	lattice.Enumerate(optFields, 1, func(idx []int, dev int) {
		opts := 0
		for i := 7; i <= 10; i++ {
			if idx[i] != 0 {
				opts++
			}
		}
		if opts+dev <= k {
			return // already visited by the first pass
		}
		visit(idx, dev+opts)
	})
	cfgs = allCfgs

	c.Affinity(-1)
	c03Authority(c)
	c03Reconfigured(c)
	// what an IdP really sends when a login fails: a non-Success status and no assertion (or one that is of no use). It must come back
	// as ErrBadStatus carrying that status, not as a complaint about the missing assertion.
	c.Group("failure-responses")
	{
		fsp := harness.NewSP(harness.SPOpt{})
		for si, st := range statusVals {
			if st.code == nil || st.noCode || st.noStatus || *st.code == samlgen.StatusOK {
				continue
			}
			for _, lay := range []harness.Layout{{}, {SignResponse: true}} {
				for _, content := range []string{"no-assertion", "expired-assertion", "unsigned-assertion-for-another-sp"} {
					for _, entry := range []string{"xml", "form", "artifact"} {
						si, st, lay, content, entry := si, st, lay, content, entry
						key := fmt.Sprintf("failure/status=%s/lay=%s/%s/%s", statusVals[si].name, lay, content, entry)
						c.Case(key, func(t *core.T) {
							t.NonTrivial()
							resp := samlgen.DefaultResponse()
							resp.StatusCode, resp.SubStatus = st.code, st.sub
							var as []*samlgen.Assertion
							switch content {
							case "expired-assertion":
								a := samlgen.DefaultAssertion()
								a.NotOnOrAfter = samlgen.S(samlgen.TS(samlgen.T0.Add(-time.Hour)))
								a.Confirmations[0].NotOnOrAfter = a.NotOnOrAfter
								as = append(as, a)
							case "unsigned-assertion-for-another-sp":
								a := samlgen.DefaultAssertion()
								a.Audiences = [][]string{{"https://other-sp.example.org/metadata"}}
								as = append(as, a)
							}
							rel := harness.BuildResponse(resp, as, lay, idp1(), spKey())
							doc := samlgen.Doc(rel)
							var a *saml.Assertion
							var err error
							switch entry {
							case "xml":
								a, err = fsp.ParseXMLResponse(doc, []string{samlgen.ReqID}, harness.MustURL(samlgen.SPAcs))
							case "form":
								a, err = fsp.ParseResponse(formRequest(samlgen.SPAcs, url.Values{"SAMLResponse": {b64(doc)}}), []string{samlgen.ReqID})
							default:
								ar := harness.ArtifactResponseEl("id-artresp-1", "id-resolve-1", samlgen.TS(samlgen.T0), samlgen.S(samlgen.IDPEntity), samlgen.StatusOK, rel)
								samlgen.Sign(ar, idp1(), "")
								a, err = fsp.ParseXMLArtifactResponse(samlgen.Doc(harness.SoapEnvelope(ar)), []string{samlgen.ReqID}, "id-resolve-1", harness.MustURL(samlgen.SPAcs))
							}
							t.Impl(1)
							checkAPIContract(t, a, err)
							t.Modelled(core.MustReject)
							t.Compared()
							t.Outcome(harness.ErrClass(err))
							if err == nil {
								t.Fail("C03/failure-response-accepted", "a Response with status %s was accepted", *st.code)
								return
							}
							var bs saml.ErrBadStatus
							ire, _ := err.(*saml.InvalidResponseError)
							if ire == nil || !errors.As(ire.PrivateErr, &bs) {
								t.Fail("C03/bad-status-not-reported/failure-response", "status %s, %s: PrivateErr is %T (%v), want ErrBadStatus", *st.code, content, privOf(err), privErr(err))
							} else if bs.Status != *st.code {
								t.Fail("C03/bad-status-wrong-code", "ErrBadStatus.Status=%q, top-level code is %q", bs.Status, *st.code)
							}
							if t.Failed() {
								t.Input("response_xml", string(doc))
							}
						})
					}
				}
			}
		}
	}

	// artifact level: Issuer x Status on the ArtifactResponse itself
	c.Group("artifact-level")
	sp := harness.NewSP(harness.SPOpt{})
	for ii := 0; ii < 9; ii++ {
		for si := range statusVals {
			for _, outer := range []bool{true, false} {
				for inner := 0; inner < 4; inner++ { // 0 none, 1 inner resp issuer wrong, 2 inner recipient wrong, 3 inner audience wrong
					ii, si, outer, inner := ii, si, outer, inner
					key := fmt.Sprintf("artifact/issuer=%s/status=%s/outerSigned=%v/innerdev=%d", nmNames[ii], statusVals[si].name, outer, inner)
					c.Case(key, func(t *core.T) {
						resp := samlgen.DefaultResponse()
						a := samlgen.DefaultAssertion()
						switch inner {
						case 1:
							resp.Issuer = samlgen.S("https://evil.example.net/other")
						case 2:
							a.Confirmations[0].Recipient = samlgen.S(samlgen.SPAcs + "/")
						case 3:
							a.Audiences = [][]string{{samlgen.SPEntity + "x"}}
						}
						in := harness.BuildResponse(resp, []*samlgen.Assertion{a}, harness.Layout{SignResponse: !outer}, idp1(), spKey())
						st := statusVals[si]
						code := "absent"
						if st.code != nil {
							code = *st.code
						}
						ar := harness.ArtifactResponseEl("id-artresp-1", "id-resolve-1", samlgen.TS(samlgen.T0), nearMiss(samlgen.IDPEntity, ii), code, in)
						stEl := ar.FindElement("./Status")
						if st.noStatus {
							ar.RemoveChild(stEl)
						} else if st.noCode {
							stEl.RemoveChild(stEl.ChildElements()[0])
						} else if st.code == nil {
							stEl.ChildElements()[0].RemoveAttr("Value")
						} else if st.sub != "" {
							stEl.ChildElements()[0].CreateElement("samlp:StatusCode").CreateAttr("Value", st.sub)
						}
						if outer {
							samlgen.Sign(ar, idp1(), "")
						}
						doc := samlgen.Doc(harness.SoapEnvelope(ar))
						got, err := sp.ParseXMLArtifactResponse(doc, []string{samlgen.ReqID}, "id-resolve-1", acsURL)
						t.Impl(1)
						checkAPIContract(t, got, err)
						v := core.MustAccept
						if (ii != 0 && ii != 8) || !st.topSuccess || inner != 0 {
							v = core.MustReject
						}
						t.NonTrivial()
						t.Outcome(harness.ErrClass(err))
						judge(t, v, err, "C03/artifact", key)
						if t.Failed() {
							t.Input("soap_xml", string(doc))
						}
					})
				}
			}
		}
	}
}

func privOf(err error) error {
	if ire, ok := err.(*saml.InvalidResponseError); ok {
		return ire.PrivateErr
	}
	return err
}

// c03Reconfigured: ONE ServiceProvider value (and a struct copy of it, as per-tenant templates are made) whose own ACS URL, entity ID
// and IdP entity ID are changed between responses. After every change, responses addressed to each combination of old and new values
// are presented: exactly the one matching the configuration in force is accepted.
func c03Reconfigured(c *core.Ctx) {
	c.Group("reconfigured-sp-sequences")
	acs := []string{samlgen.SPAcs, "https://sp.example.com/tenant-b/acs"}
	ent := []string{samlgen.SPEntity, "https://sp.example.com/tenant-b"}
	idpE := []string{samlgen.IDPEntity, "https://idp-b.example.com/metadata"}
	type conf [3]int
	var confs []conf
	for a := 0; a < 2; a++ {
		for e := 0; e < 2; e++ {
			for i := 0; i < 2; i++ {
				confs = append(confs, conf{a, e, i})
			}
		}
	}
	docFor := map[conf][]byte{}
	for _, cf := range confs {
		resp := samlgen.DefaultResponse()
		resp.Issuer = samlgen.S(idpE[cf[2]])
		resp.Destination = samlgen.S(acs[cf[0]])
		a := samlgen.DefaultAssertion()
		a.Issuer = samlgen.S(idpE[cf[2]])
		a.Confirmations[0].Recipient = samlgen.S(acs[cf[0]])
		a.Audiences = [][]string{{ent[cf[1]]}}
		docFor[cf] = samlgen.Doc(harness.BuildResponse(resp, []*samlgen.Assertion{a}, harness.Layout{SignAssertion: true}, idp1(), spKey()))
	}
	for _, how := range []string{"in-place", "struct-copy"} {
		for i1, c1 := range confs {
			for i2, c2 := range confs {
				if i1 == i2 {
					continue
				}
				how, c1, c2 := how, c1, c2
				key := fmt.Sprintf("reconfigure/%s/%v->%v", how, c1, c2)
				c.Case(key, func(t *core.T) {
					t.NonTrivial()
					sp := harness.NewSP(harness.SPOpt{})
					apply := func(sp *saml.ServiceProvider, cf conf) {
						sp.AcsURL = harness.MustURL(acs[cf[0]])
						sp.EntityID = ent[cf[1]]
						md := *sp.IDPMetadata
						md.EntityID = idpE[cf[2]]
						sp.IDPMetadata = &md
					}
					for step, cf := range []conf{c1, c2, c1} {
						if how == "struct-copy" && step > 0 {
							cp := *sp
							sp = &cp
						}
						apply(sp, cf)
						for _, dc := range confs {
							doc := docFor[dc]
							a, err := sp.ParseXMLResponse(doc, []string{samlgen.ReqID}, harness.MustURL(acs[dc[0]]))
							t.Impl(1)
							checkAPIContract(t, a, err)
							if dc == cf && err != nil {
								t.Fail("C03/reconfigured/rejects-response-for-current-configuration", "%s step %d: the SP is now ACS=%s entity=%s IdP=%s, a response addressed exactly so is refused: %s", key, step+1, acs[cf[0]], ent[cf[1]], idpE[cf[2]], privErr(err))
							}
							if dc != cf && err == nil {
								t.Fail("C03/reconfigured/accepts-response-for-another-configuration", "%s step %d: the SP is now ACS=%s entity=%s IdP=%s, yet a response for ACS=%s audience=%s issuer=%s is accepted", key, step+1, acs[cf[0]], ent[cf[1]], idpE[cf[2]], acs[dc[0]], ent[dc[1]], idpE[dc[2]])
							}
						}
					}
					t.Compared()
					t.Outcome("reconfigured")
				})
			}
		}
	}
}

// c03Authority: URL-shaped near misses that differ from the right value only inside the authority or by a URL equivalence, in the
// Recipient, the Destination and the audience, one at a time; and the received-at URL in the server-side relative form.
func c03Authority(c *core.Ctx) {
	c.Group("url-authority-near-misses")
	acs := samlgen.SPAcs // https://sp.example.com/saml/acs
	host := "sp.example.com"
	rep := func(newAuthority string) string { return strings.Replace(acs, host, newAuthority, 1) }
	type nm struct {
		name string
		v    string
		same bool // an equivalent spelling of the same URL (either verdict is fine); otherwise a different origin / resource: must be refused
	}
	variants := []nm{
		{"other-port-8443", rep(host + ":8443"), false}, {"other-port-444", rep(host + ":444"), false}, {"port-80", rep(host + ":80"), false},
		{"explicit-default-port-443", rep(host + ":443"), true}, {"uppercase-host", rep("SP.EXAMPLE.COM"), true}, {"trailing-dot-host", rep(host + "."), true},
		{"userinfo", rep("sp.example.com@evil.example.net"), false}, {"userinfo-before", rep("evil.example.net@" + host), false}, {"host-suffix", rep(host + ".evil.example.net"), false},
		{"host-prefix", rep("evil-" + host), false}, {"scheme-http", strings.Replace(acs, "https://", "http://", 1), false}, {"scheme-uppercase", strings.Replace(acs, "https://", "HTTPS://", 1), true},
		{"percent-encoded-path-char", strings.Replace(acs, "/saml/acs", "/saml/%61cs", 1), true}, {"double-slash-path", strings.Replace(acs, "/saml/acs", "//saml/acs", 1), false},
		{"dot-segment", strings.Replace(acs, "/saml/acs", "/saml/./acs", 1), true}, {"fragment", acs + "#f", false}, {"empty-port", rep(host + ":"), true}, {"ipv6-literal", rep("[::1]"), false},
		{"punycode-lookalike", rep("sp.examp1e.com"), false}, {"backslash", strings.Replace(acs, "/saml/acs", "\\saml\\acs", 1), false},
	}
	sps := map[bool]*saml.ServiceProvider{false: harness.NewSP(harness.SPOpt{}), true: harness.NewSP(harness.SPOpt{AllowIDPInit: true})}
	for _, field := range []string{"recipient", "destination", "audience", "recipient-of-second-confirmation"} {
		for _, vr := range variants {
			for _, lay := range []harness.Layout{{SignResponse: true}, {SignAssertion: true}} {
				for _, idpInit := range []bool{false, true} {
					field, vr, lay, idpInit := field, vr, lay, idpInit
					key := fmt.Sprintf("authority/%s=%s/lay=%s/idpinit=%v", field, vr.name, lay, idpInit)
					c.Case(key, func(t *core.T) {
						t.NonTrivial()
						resp := samlgen.DefaultResponse()
						a := samlgen.DefaultAssertion()
						val := vr.v
						switch field {
						case "recipient":
							a.Confirmations[0].Recipient = samlgen.S(val)
						case "recipient-of-second-confirmation":
							c2 := a.Confirmations[0]
							c2.Recipient = samlgen.S(val)
							a.Confirmations = append(a.Confirmations, c2)
						case "destination":
							resp.Destination = samlgen.S(val)
						case "audience":
							val = strings.Replace(vr.v, acs, samlgen.SPEntity, 1)
							if val == vr.v { // the variant did not contain the ACS URL verbatim: derive it from the entity ID instead
								val = strings.Replace(strings.Replace(vr.v, "/saml/acs", "", 1), "https://"+host, samlgen.SPEntity, 1)
							}
							a.Audiences = [][]string{{strings.Replace(vr.v, "/saml/acs", "/entity", 1)}}
						}
						doc := samlgen.Doc(harness.BuildResponse(resp, []*samlgen.Assertion{a}, lay, idp1(), spKey()))
						got, err := parseXML(sps[idpInit], doc, []string{samlgen.ReqID})
						t.Impl(1)
						checkAPIContract(t, got, err)
						v := core.MustReject
						if vr.same {
							v = core.DontCare
						}
						t.Outcome(harness.ErrClass(err))
						judge(t, v, err, "C03/authority/"+field, key)
						if t.Failed() {
							t.Input("response_xml", string(doc))
						}
					})
				}
			}
		}
	}
	// the URL the response was received at, as a server sees it (no scheme, no host): it can vouch for a Destination only if that
	// Destination is this SP's
	c.Group("relative-received-at-url")
	for _, cur := range []string{"/saml/acs", "/saml/acs?x=1", "//sp.example.com/saml/acs", "saml/acs", ""} {
		for _, dest := range []struct {
			name string
			v    string
			v3   core.Verdict
		}{{"acs", acs, core.MustAccept}, {"foreign-host-same-path", "https://login.partner.example/saml/acs", core.MustReject}, {"foreign-host-same-path-and-query", "https://login.partner.example/saml/acs?x=1", core.MustReject},
			{"relative-same-as-received", "/saml/acs", core.MustReject}, {"other-scheme-same-host", "http://sp.example.com/saml/acs", core.MustReject}} {
			for _, lay := range []harness.Layout{{SignResponse: true}, {SignAssertion: true}} {
				cur, dest, lay := cur, dest, lay
				key := fmt.Sprintf("relative-current/%+q/dest=%s/lay=%s", cur, dest.name, lay)
				c.Case(key, func(t *core.T) {
					t.NonTrivial()
					resp := samlgen.DefaultResponse()
					resp.Destination = samlgen.S(dest.v)
					doc := samlgen.Doc(harness.BuildResponse(resp, []*samlgen.Assertion{samlgen.DefaultAssertion()}, lay, idp1(), spKey()))
					u, perr := url.Parse(cur)
					if perr != nil {
						t.Outcome("unparseable-current")
						return
					}
					sp := harness.NewSP(harness.SPOpt{})
					got, err := sp.ParseXMLResponse(doc, []string{samlgen.ReqID}, *u)
					t.Impl(1)
					checkAPIContract(t, got, err)
					t.Outcome(harness.ErrClass(err))
					v3 := dest.v3
					if dest.v == cur {
						v3 = core.DontCare // the statement admits a Destination equal to the URL the response was received at, whatever its form
					}
					judge(t, v3, err, "C03/relative-current", key)
					if t.Failed() {
						t.Input("response_xml", string(doc))
						t.Input("received_at", cur)
					}
				})
			}
		}
	}
}
