package checks

import (
	"bytes"
	"compress/flate"
	"errors"
	"fmt"
	dsig "github.com/russellhaering/goxmldsig"
	"math"
	"net/http"
	"net/http/httptest"
	"net/url"
	"strings"
	"time"

	"github.com/beevik/etree"
	"github.com/crewjam/saml"

	"verif/engine/core"
	"verif/engine/harness"
	"verif/engine/samlgen"
)

// C18 — logout responses are valid only if IdP-signed, fresh and addressed to this SP.
//
// The library takes "now" for this path from the process clock (time.Now), so
// instants are computed immediately before each call and the lattice stays 5 s
// away from the freshness boundary.

type c18Status struct {
	name     string
	noStatus bool
	noCode   bool
	code     string
	sub      string
	v        core.Verdict // verdict contribution: MustAccept = fine, MustReject, DontCare
}

var c18Statuses = []c18Status{
	{name: "success", code: samlgen.StatusOK, v: core.MustAccept},
	{name: "requester", code: "urn:oasis:names:tc:SAML:2.0:status:Requester", v: core.MustReject},
	{name: "responder+nested-success", code: "urn:oasis:names:tc:SAML:2.0:status:Responder", sub: samlgen.StatusOK, v: core.MustReject},
	{name: "responder+nested-partiallogout", code: "urn:oasis:names:tc:SAML:2.0:status:Responder", sub: "urn:oasis:names:tc:SAML:2.0:status:PartialLogout", v: core.MustReject},
	{name: "requester+nested-partiallogout", code: "urn:oasis:names:tc:SAML:2.0:status:Requester", sub: "urn:oasis:names:tc:SAML:2.0:status:PartialLogout", v: core.MustReject},
	{name: "versionmismatch+nested-authnfailed", code: "urn:oasis:names:tc:SAML:2.0:status:VersionMismatch", sub: "urn:oasis:names:tc:SAML:2.0:status:AuthnFailed", v: core.MustReject},
	{name: "success+nested-partiallogout", code: samlgen.StatusOK, sub: "urn:oasis:names:tc:SAML:2.0:status:PartialLogout", v: core.DontCare},
	{name: "empty-code", code: "", v: core.MustReject},
	{name: "no-statuscode", noCode: true, v: core.MustReject},
	{name: "no-status", noStatus: true, v: core.MustReject},
}

type c18II struct {
	name string
	off  func(delay, skew time.Duration) (time.Duration, bool) // offset from now; false = attribute absent
	v    core.Verdict
	zone *time.Location // the zone the instant is written in (nil: UTC, "Z")
}

// c18Zone is the zone c18Build writes the IssueInstant in (set around the call by the field-product cases).
var c18Zone *time.Location

var c18IIs = []c18II{
	{"30s-ago", func(d, s time.Duration) (time.Duration, bool) {
		if d < 35*time.Second {
			return -d / 3, true
		}
		return -30 * time.Second, true
	}, core.MustAccept, nil},
	{"delay-5s", func(d, s time.Duration) (time.Duration, bool) { return -d + 5*time.Second, true }, core.MustAccept, nil},
	{"delay+5s", func(d, s time.Duration) (time.Duration, bool) { return -d - 5*time.Second, true }, core.MustReject, nil},
	{"delay+skew-5s", func(d, s time.Duration) (time.Duration, bool) { return -d - s + 5*time.Second, true }, core.MustReject, nil},
	{"delay+half-skew", func(d, s time.Duration) (time.Duration, bool) { return -d - s/2, true }, core.MustReject, nil},
	{"1h-ago", func(d, s time.Duration) (time.Duration, bool) { return -time.Hour - d, true }, core.MustReject, nil},
	{"future-30s", func(d, s time.Duration) (time.Duration, bool) { return 30 * time.Second, true }, core.DontCare, nil},
	{"absent", func(d, s time.Duration) (time.Duration, bool) { return 0, false }, core.MustReject, nil},
	// instants so far back that their distance from now does not fit a time.Duration (about 292 years): still stale
	{"year-1700", func(d, s time.Duration) (time.Duration, bool) { return c18Year(1700), true }, core.MustReject, nil},
	{"year-1500", func(d, s time.Duration) (time.Duration, bool) { return c18Year(1500), true }, core.MustReject, nil},
	{"year-1446", func(d, s time.Duration) (time.Duration, bool) { return c18Year(1446), true }, core.MustReject, nil},
	{"year-1000", func(d, s time.Duration) (time.Duration, bool) { return c18Year(1000), true }, core.MustReject, nil},
	{"year-0001", func(d, s time.Duration) (time.Duration, bool) { return c18Year(1), true }, core.MustReject, nil},
	{"year-9999", func(d, s time.Duration) (time.Duration, bool) { return c18Year(9999), true }, core.DontCare, nil},
	// the same instants written with a zone offset: the offset is part of the value
	{"30s-ago-written-with-+02:00", func(d, s time.Duration) (time.Duration, bool) { return -d / 3, true }, core.MustAccept, time.FixedZone("", 2*3600)},
	{"30s-ago-written-with--05:00", func(d, s time.Duration) (time.Duration, bool) { return -d / 3, true }, core.MustAccept, time.FixedZone("", -5*3600)},
	{"2h-ago-written-with-+02:00", func(d, s time.Duration) (time.Duration, bool) { return -2*time.Hour - d/3, true }, core.MustReject, time.FixedZone("", 2*3600)},
	{"5h30m-ago-written-with-+05:30", func(d, s time.Duration) (time.Duration, bool) { return -5*time.Hour - 30*time.Minute - d/3, true }, core.MustReject, time.FixedZone("", 5*3600+1800)},
	{"14h-ago-written-with-+14:00", func(d, s time.Duration) (time.Duration, bool) { return -14*time.Hour - d/3, true }, core.MustReject, time.FixedZone("", 14*3600)},
}

// c18Regular is the number of c18IIs entries that are offsets from now; the rest name a calendar year (see c18Year).
const c18Regular = 8

// c18Year encodes "1 June of that year" as an offset value no real offset takes.
func c18Year(y int) time.Duration { return time.Duration(math.MinInt64) + time.Duration(y) }

var c18Dests = []struct {
	name string
	v    *string
	ok   bool
}{
	{"slo", samlgen.S(samlgen.SPSlo), true}, {"acs", samlgen.S(samlgen.SPAcs), false}, {"slo-slash", samlgen.S(samlgen.SPSlo + "/"), false}, {"slo-upper", samlgen.S(strings.ToUpper(samlgen.SPSlo)), false},
	{"slo-query", samlgen.S(samlgen.SPSlo + "?x=1"), false}, {"slo-prefix", samlgen.S(samlgen.SPSlo[:len(samlgen.SPSlo)-1]), false}, {"other", samlgen.S("https://evil.example.net/slo"), false},
	{"empty", samlgen.S(""), false}, {"absent", nil, false},
}

var c18Issuers = []struct {
	name string
	v    *string
	ok   bool
}{
	{"idp", samlgen.S(samlgen.IDPEntity), true}, {"other", samlgen.S("https://evil-idp.example.net/metadata"), false}, {"idp-slash", samlgen.S(samlgen.IDPEntity + "/"), false},
	{"idp-upper", samlgen.S(strings.ToUpper(samlgen.IDPEntity)), false}, {"idp-prefix", samlgen.S(samlgen.IDPEntity[:len(samlgen.IDPEntity)-2]), false}, {"empty", samlgen.S(""), false}, {"absent", nil, false},
	// an Issuer element with a Format attribute (value, NUL, format): the format changes nothing about who the issuer has to be
	{"idp+format-entity", samlgen.S(samlgen.IDPEntity + "\x00urn:oasis:names:tc:SAML:2.0:nameid-format:entity"), true},
	{"other+format-entity", samlgen.S("https://idp.example.com/saml/metadata/other\x00urn:oasis:names:tc:SAML:2.0:nameid-format:entity"), false},
	{"other+format-unspecified", samlgen.S("https://idp.example.com/saml/metadata/other\x00urn:oasis:names:tc:SAML:1.1:nameid-format:unspecified"), false},
	{"other+format-persistent", samlgen.S("https://evil-idp.example.net/metadata\x00urn:oasis:names:tc:SAML:2.0:nameid-format:persistent"), false},
	{"other+format-misspelt-entity", samlgen.S("https://evil-idp.example.net/metadata\x00urn:oasis:names:tc:SAML:2.0:nameid-format:Entity"), false},
	{"other+format-empty", samlgen.S("https://evil-idp.example.net/metadata\x00"), false},
	// another entity whose ID merely starts with the configured one (a second tenant behind the same key)
	{"idp+tenant-suffix", samlgen.S(samlgen.IDPEntity + "/tenant-b"), false},
}

var c18Sigs = []string{"valid", "valid-no-keyinfo", "absent", "untrusted-key", "lookalike-certificate-key", "encryption-use-key", "edited-after/destination", "edited-after/issuer", "edited-after/status", "edited-after/issueinstant",
	"valid+comment-splits-issuer-text", "valid+cdata-splits-issuer-text", "valid+comment-before-issuer-text",
	"valid-keyinfo-names-the-subject-only", "valid-keyinfo-issuer-serial-only", "valid-keyinfo-keyname-only",
	"other-root/samlp:Response", "other-root/samlp:ArtifactResponse", "other-root/samlp:LogoutRequest", "other-root/foreign:LogoutResponse", "other-root/saml:LogoutResponse", "other-root/samlp:logoutresponse",
	"relocated-under-status", "wrapped-in-unsigned", "duplicated", "attacker-signed+trusted-cert-appended", "attacker-signed+trusted-cert-first", "signature-value-truncated", "foreign-ns-signature-lookalike"}

func c18Build(dest, issuer *string, st c18Status, iiOff time.Duration, iiPresent bool, sig string, trustKey *samlgen.KeyPair) []byte {
	now := time.Now().UTC()
	mk := func(dest, issuer *string, st c18Status, ii time.Time, iiPresent bool) *etree.Element {
		el := etree.NewElement("samlp:LogoutResponse")
		el.CreateAttr("xmlns:samlp", samlgen.NSProtocol)
		el.CreateAttr("xmlns:saml", samlgen.NSAssertion)
		el.CreateAttr("ID", "id-logout-response-1")
		el.CreateAttr("Version", "2.0")
		if iiPresent {
			if c18Zone != nil {
				el.CreateAttr("IssueInstant", ii.In(c18Zone).Format("2006-01-02T15:04:05.000Z07:00"))
			} else {
				el.CreateAttr("IssueInstant", samlgen.TS(ii))
			}
		}
		if dest != nil {
			el.CreateAttr("Destination", *dest)
		}
		el.CreateAttr("InResponseTo", "id-logout-request-1")
		if issuer != nil {
			is := el.CreateElement("saml:Issuer")
			if v, f, ok := strings.Cut(*issuer, "\x00"); ok {
				is.CreateAttr("Format", f)
				is.SetText(v)
			} else {
				is.SetText(*issuer)
			}
		}
		if !st.noStatus {
			s := el.CreateElement("samlp:Status")
			if !st.noCode {
				sc := s.CreateElement("samlp:StatusCode")
				sc.CreateAttr("Value", st.code)
				if st.sub != "" {
					sc.CreateElement("samlp:StatusCode").CreateAttr("Value", st.sub)
				}
			}
		}
		return el
	}
	ii := now.Add(iiOff)
	if iiOff < time.Duration(math.MinInt64)+20000 {
		ii = time.Date(int(iiOff-time.Duration(math.MinInt64)), 6, 1, 12, 0, 0, 0, time.UTC)
	}
	el := mk(dest, issuer, st, ii, iiPresent)
	switch {
	case strings.HasPrefix(sig, "other-root/"):
		// a message of another type (or a LogoutResponse look-alike in another namespace) that the IdP genuinely signed, with the same
		// attributes and children: it is not a logout response
		q := strings.TrimPrefix(sig, "other-root/")
		pfx, tag, _ := strings.Cut(q, ":")
		el.Space, el.Tag = pfx, tag
		if pfx == "foreign" {
			el.CreateAttr("xmlns:foreign", "urn:example:not-saml")
		}
		samlgen.Sign(el, trustKey, "")
	case sig == "valid":
		samlgen.Sign(el, trustKey, "")
	case sig == "valid-no-keyinfo":
		s := samlgen.Sign(el, trustKey, "")
		if ki := s.FindElement("./KeyInfo"); ki != nil {
			s.RemoveChild(ki)
		}
	case strings.HasPrefix(sig, "valid+"):
		// edits that canonicalisation erases (the signature stays valid): a comment or a CDATA boundary inside the Issuer's text, placed
		// right after the configured entity ID when the text goes on, else in its middle. The issuer is still the whole text.
		samlgen.Sign(el, trustKey, "")
		if is := el.FindElement("./Issuer"); is != nil {
			txt := is.Text()
			cut := len(txt) / 2
			if strings.HasPrefix(txt, samlgen.IDPEntity) && len(txt) > len(samlgen.IDPEntity) {
				cut = len(samlgen.IDPEntity)
			}
			attrs := is.Attr
			is.Child = nil
			is.Attr = attrs
			switch sig {
			case "valid+comment-splits-issuer-text":
				is.CreateText(txt[:cut])
				is.CreateComment(" c ")
				is.CreateText(txt[cut:])
			case "valid+cdata-splits-issuer-text":
				is.CreateText(txt[:cut])
				is.CreateCData(txt[cut:])
			default:
				is.CreateComment(" c ")
				is.CreateText(txt)
			}
		}
	case strings.HasPrefix(sig, "valid-keyinfo-"):
		// a genuine signature whose KeyInfo only hints at the key (it carries no certificate): still the trusted IdP's signature
		s := samlgen.Sign(el, trustKey, "")
		if ki := s.FindElement("./KeyInfo"); ki != nil {
			ki.Child = nil
			switch sig {
			case "valid-keyinfo-names-the-subject-only":
				ki.CreateElement("ds:X509Data").CreateElement("ds:X509SubjectName").SetText("CN=idp1.verif.example")
			case "valid-keyinfo-issuer-serial-only":
				is := ki.CreateElement("ds:X509Data").CreateElement("ds:X509IssuerSerial")
				is.CreateElement("ds:X509IssuerName").SetText("CN=idp1.verif.example")
				is.CreateElement("ds:X509SerialNumber").SetText("1")
			default:
				ki.CreateElement("ds:KeyName").SetText("idp1")
			}
		}
	case sig == "absent":
	case sig == "untrusted-key":
		samlgen.Sign(el, samlgen.Key("attacker"), "")
	case sig == "lookalike-certificate-key": // attacker key under a certificate copying the IdP certificate's subject, serial and key identifiers
		samlgen.Sign(el, samlgen.Key("lookalike1"), "")
	case sig == "encryption-use-key":
		samlgen.Sign(el, samlgen.Key("idpenc"), "")
	case strings.HasPrefix(sig, "edited-after/"):
		// sign a response whose one field is wrong, then edit that field to the right value
		wrong := mk(dest, issuer, st, ii, iiPresent)
		switch strings.TrimPrefix(sig, "edited-after/") {
		case "destination":
			wrong.CreateAttr("Destination", "https://evil.example.net/slo")
		case "issuer":
			if is := wrong.FindElement("./Issuer"); is != nil {
				is.SetText("https://evil-idp.example.net/")
			}
		case "status":
			if sc := wrong.FindElement("./Status/StatusCode"); sc != nil {
				sc.CreateAttr("Value", "urn:oasis:names:tc:SAML:2.0:status:Requester")
			}
		case "issueinstant":
			wrong.CreateAttr("IssueInstant", samlgen.TS(now.Add(-24*time.Hour)))
		}
		s := samlgen.Sign(wrong, trustKey, "")
		samlgen.InsertSignature(el, s.Copy())
	case sig == "relocated-under-status":
		s := samlgen.Sign(el, trustKey, "")
		el.RemoveChild(s)
		if stEl := el.FindElement("./Status"); stEl != nil {
			stEl.AddChild(s)
		} else {
			el.CreateElement("samlp:Extensions").AddChild(s)
		}
	case sig == "wrapped-in-unsigned":
		samlgen.Sign(el, trustKey, "")
		outer := mk(dest, issuer, st, ii, iiPresent)
		outer.CreateAttr("ID", "id-evil-logout-response")
		ext := etree.NewElement("samlp:Extensions")
		ext.AddChild(el)
		outer.InsertChildAt(1, ext)
		el = outer
	case sig == "duplicated":
		s := samlgen.Sign(el, trustKey, "")
		el.InsertChildAt(s.Index(), s.Copy())
	case sig == "attacker-signed+trusted-cert-appended":
		s := samlgen.Sign(el, samlgen.Key("attacker"), "")
		s.FindElement("./KeyInfo/X509Data").CreateElement("ds:X509Certificate").SetText(trustKey.CertB64)
	case sig == "attacker-signed+trusted-cert-first":
		s := samlgen.Sign(el, samlgen.Key("attacker"), "")
		c := etree.NewElement("ds:X509Certificate")
		c.SetText(trustKey.CertB64)
		s.FindElement("./KeyInfo/X509Data").InsertChildAt(0, c)
	case sig == "signature-value-truncated":
		s := samlgen.Sign(el, trustKey, "")
		sv := s.FindElement("./SignatureValue")
		sv.SetText(sv.Text()[:len(sv.Text())-8])
	case sig == "foreign-ns-signature-lookalike":
		s := samlgen.Sign(el, samlgen.Key("attacker"), "")
		d := etree.NewElement("decoy:Signature")
		d.CreateAttr("xmlns:decoy", "urn:example:decoy")
		d.CreateElement("decoy:KeyInfo").CreateElement("decoy:X509Data").CreateElement("decoy:X509Certificate").SetText(trustKey.CertB64)
		el.InsertChildAt(s.Index(), d)
	}
	return samlgen.Doc(el)
}

func init() {
	Register(&Check{
		ID:     "C18",
		Engine: "lattice",
		Rule: "full product of Destination (9 values incl. near-misses) x Issuer (13, six of them with a Format attribute) x Status (7) x IssueInstant (8 positions relative to the process clock, >= 5 s from the freshness boundary) with a valid signature, x {POST form, redirect (deflate)} x tolerance settings x trust configuration {metadata, fingerprint, pinned}; " +
			"16 signature treatments (absent, untrusted key, encryption-use key, each field edited after signing, relocated, wrapped in an unsigned response, duplicated, attacker-signed with the trusted certificate appended/first, truncated value, foreign-namespace look-alike) on otherwise valid responses and with one deviating field; dispatch through ValidateLogoutResponseRequest by GET query and POST body. " +
			"Oracle: nil error iff trusted signature, Destination = SLO URL, fresh, Issuer = IdP, Status Success. non-trivial = all but the single fully valid response",
		Bounds: func(tier string) string {
			return "full field product for valid signatures; signature treatments x (all-correct + every single-field deviation)"
		},
		Assumptions: []string{"freshness is judged by the process clock (time.Now) on this path: instants are built immediately before each call and stay 5 s from the boundary, so the exact boundary is not decided", "redirect-binding detached query signatures are not implemented by the library and not part of the statement"},
		Run:         runC18,
		CapQuick:    6 * time.Minute,
		CapThorough: 15 * time.Minute,
	})
}

func runC18(c *core.Ctx) {
	delay0, skew0 := saml.MaxIssueDelay, saml.MaxClockSkew
	defer func() { saml.MaxIssueDelay, saml.MaxClockSkew = delay0, skew0 }()
	tols := []tol{{"default", 90 * time.Second, 180 * time.Second}, {"d20s-s40s", 20 * time.Second, 40 * time.Second}}
	trusts := []string{"meta1", "fingerprint", "pinned"}
	sps := map[string]*saml.ServiceProvider{}
	for _, tr := range append(append([]string{}, trusts...), "metaenconly", "metaemptysign") {
		sps[tr] = harness.NewSP(harness.SPOpt{Trust: tr})
	}
	call := func(sp *saml.ServiceProvider, enc string, doc []byte) (err error, pan string) {
		_, pan = guard(func() error {
			switch enc {
			case "form":
				err = sp.ValidateLogoutResponseForm(b64(doc))
			case "redirect":
				err = sp.ValidateLogoutResponseRedirect(b64(deflate(doc)))
			case "request-get":
				r := httptest.NewRequest("GET", samlgen.SPSlo+"?"+url.Values{"SAMLResponse": {b64(deflate(doc))}, "RelayState": {"x"}}.Encode(), nil)
				err = sp.ValidateLogoutResponseRequest(r)
			case "request-post":
				r := httptest.NewRequest("POST", samlgen.SPSlo, strings.NewReader(url.Values{"SAMLResponse": {b64(doc)}}.Encode()))
				r.Header.Set("Content-Type", "application/x-www-form-urlencoded")
				err = sp.ValidateLogoutResponseRequest(r)
			}
			return nil
		})
		return
	}
	one := func(t *core.T, key string, tl tol, tr string, di, ii, si, iii int, sig, enc string) {
		saml.MaxIssueDelay, saml.MaxClockSkew = tl.delay, tl.skew
		off, present := c18IIs[iii].off(tl.delay, tl.skew)
		c18Zone = c18IIs[iii].zone
		doc := c18Build(c18Dests[di].v, c18Issuers[ii].v, c18Statuses[si], off, present, sig, idp1())
		c18Zone = nil
		err, pan := call(sps[tr], enc, doc)
		t.Impl(1)
		if pan != "" {
			t.Fail("C18/"+enc+"/panic@"+pan[strings.LastIndex(pan, "@")+1:], "panicked: %s", pan)
			t.Input("logout_response", string(doc))
			return
		}
		v := core.MustAccept
		dc := false
		if !c18Dests[di].ok || !c18Issuers[ii].ok {
			v = core.MustReject
		}
		for _, x := range []core.Verdict{c18Statuses[si].v, c18IIs[iii].v} {
			if x == core.MustReject {
				v = core.MustReject
			} else if x == core.DontCare {
				dc = true
			}
		}
		switch sig {
		case "valid", "valid+comment-splits-issuer-text", "valid+cdata-splits-issuer-text", "valid+comment-before-issuer-text":
		case "valid-no-keyinfo":
			dc = true
		case "valid-keyinfo-names-the-subject-only", "valid-keyinfo-issuer-serial-only", "valid-keyinfo-keyname-only":
			dc = tr == "meta2" // with two trusted certificates and no certificate in the message, which one to try is the verifier's business
			if tr == "fingerprint" {
				v = core.MustReject // only a fingerprint is configured: without a certificate in the message there is nothing to check it against
			}
		default:
			v = core.MustReject
		}
		if tr == "metaenconly" || tr == "metaemptysign" {
			v, dc = core.MustReject, false // the IdP publishes no signing key: no signature can be trusted
		}
		if v == core.MustAccept && dc {
			v = core.DontCare
		}
		t.Modelled(v)
		t.Outcome(fmt.Sprint(err == nil))
		if v == core.MustReject && err == nil {
			t.Fail("C18/"+enc+"/reports-valid/"+c18Class(di, ii, si, iii, sig), "a logout response that must be refused was reported valid (%s)", key)
			t.Input("logout_response", string(doc))
		}
		if v == core.MustAccept && err != nil {
			t.Fail("C18/"+enc+"/rejects-valid", "a well-formed, trusted, fresh, correctly addressed Success response is refused (%s): %s", key, privErr(err))
			t.Input("logout_response", string(doc))
		}
		t.Sample(map[string]interface{}{"case": key, "model": v.String(), "valid": err == nil})
	}

	c.Group("field-product-valid-signature")
	for _, tl := range tols {
		for _, tr := range trusts {
			if tr == "pinned" && !c.Thorough() {
				continue
			}
			for di := range c18Dests {
				for ii := range c18Issuers {
					for si := range c18Statuses {
						for iii := range c18IIs {
							for _, enc := range []string{"form", "redirect"} {
								if iii >= c18Regular && di+ii+si > 0 {
									continue // the calendar-year instants only next to otherwise valid fields
								}
								tl, tr, di, ii, si, iii, enc := tl, tr, di, ii, si, iii, enc
								key := fmt.Sprintf("tol=%s/trust=%s/dest=%s/issuer=%s/status=%s/ii=%s/sig=valid/%s", tl.name, tr, c18Dests[di].name, c18Issuers[ii].name, c18Statuses[si].name, c18IIs[iii].name, enc)
								c.Case(key, func(t *core.T) {
									if di+ii+si+iii > 0 {
										t.NonTrivial()
									}
									one(t, key, tl, tr, di, ii, si, iii, "valid", enc)
								})
							}
						}
					}
				}
			}
		}
	}

	c.Group("signature-treatments")
	type dev struct{ di, ii, si, iii int }
	devs := []dev{{0, 0, 0, 0}}
	for i := 1; i < len(c18Dests); i++ {
		devs = append(devs, dev{i, 0, 0, 0})
	}
	for i := 1; i < len(c18Issuers); i++ {
		devs = append(devs, dev{0, i, 0, 0})
	}
	for i := 1; i < len(c18Statuses); i++ {
		devs = append(devs, dev{0, 0, i, 0})
	}
	for i := 1; i < len(c18IIs); i++ {
		devs = append(devs, dev{0, 0, 0, i})
	}
	for _, sig := range c18Sigs[1:] {
		for _, d := range devs {
			for _, tr := range trusts {
				for _, enc := range []string{"form", "redirect", "request-get", "request-post"} {
					sig, d, tr, enc := sig, d, tr, enc
					key := fmt.Sprintf("trust=%s/dest=%s/issuer=%s/status=%s/ii=%s/sig=%s/%s", tr, c18Dests[d.di].name, c18Issuers[d.ii].name, c18Statuses[d.si].name, c18IIs[d.iii].name, sig, enc)
					c.Case(key, func(t *core.T) {
						t.NonTrivial()
						one(t, key, tols[0], tr, d.di, d.ii, d.si, d.iii, sig, enc)
					})
				}
			}
		}
	}
	// IdP metadata without any usable signing key (encryption key only / empty signing descriptor): nothing verifies
	c.Group("no-signing-key-published")
	for _, tr := range []string{"metaenconly", "metaemptysign"} {
		for _, sig := range []string{"valid", "valid-no-keyinfo", "encryption-use-key", "untrusted-key", "attacker-signed+trusted-cert-appended", "absent"} {
			for _, enc := range []string{"form", "redirect", "request-get", "request-post"} {
				tr, sig, enc := tr, sig, enc
				key := fmt.Sprintf("trust=%s/all-fields-correct/sig=%s/%s", tr, sig, enc)
				c.Case(key, func(t *core.T) {
					t.NonTrivial()
					one(t, key, tols[0], tr, 0, 0, 0, 0, sig, enc)
				})
			}
		}
	}

	// a custom SignatureVerifier: what it refuses is refused, what it accepts (by running the default validation) is accepted
	c.Group("custom-signature-verifier")
	for _, vn := range []string{"rejecting", "delegating"} {
		for _, sig := range []string{"valid", "untrusted-key", "edited-after/destination", "absent", "encryption-use-key", "signature-value-truncated"} {
			for _, enc := range []string{"form", "redirect", "request-get", "request-post"} {
				vn, sig, enc := vn, sig, enc
				key := fmt.Sprintf("verifier=%s/all-fields-correct/sig=%s/%s", vn, sig, enc)
				c.Case(key, func(t *core.T) {
					t.NonTrivial()
					sp := harness.NewSP(harness.SPOpt{Trust: "meta1"})
					sp.SignatureVerifier = c18Verifier{reject: vn == "rejecting"}
					saml.MaxIssueDelay, saml.MaxClockSkew = tols[0].delay, tols[0].skew
					off, present := c18IIs[0].off(tols[0].delay, tols[0].skew)
					doc := c18Build(c18Dests[0].v, c18Issuers[0].v, c18Statuses[0], off, present, sig, idp1())
					err, pan := call(sp, enc, doc)
					t.Impl(1)
					t.Compared()
					if pan != "" {
						t.Fail("C18/"+enc+"/panic@"+pan[strings.LastIndex(pan, "@")+1:], "panicked: %s", pan)
						return
					}
					v := core.MustReject
					if vn == "delegating" && sig == "valid" {
						v = core.MustAccept
					}
					t.Modelled(v)
					t.Outcome(fmt.Sprint(err == nil))
					if v == core.MustReject && err == nil {
						t.Fail("C18/"+enc+"/reports-valid/custom-verifier-refused", "%s: the configured SignatureVerifier refuses this message, yet it is reported valid", key)
						t.Input("logout_response", string(doc))
					}
					if v == core.MustAccept && err != nil {
						t.Fail("C18/"+enc+"/rejects-valid/custom-verifier", "%s: %s", key, privErr(err))
					}
				})
			}
		}
	}

	// key rotation: ONE ServiceProvider whose IdP metadata is replaced between validations; validity follows the metadata in force
	c.Group("trust-rotation")
	rotKeys := []string{"idp1", "idp2"}
	for n := 0; n < 8; n++ {
		seq := []int{n & 1, (n >> 1) & 1, (n >> 2) & 1}
		for _, how := range []string{"replace-metadata", "edit-descriptor-in-place"} {
			for _, enc := range []string{"form", "redirect"} {
				seq, how, enc := seq, how, enc
				key := fmt.Sprintf("rotation/%v/%s/%s", seq, how, enc)
				c.Case(key, func(t *core.T) {
					t.NonTrivial()
					sp := harness.NewSP(harness.SPOpt{Trust: "meta1"})
					saml.MaxIssueDelay, saml.MaxClockSkew = tols[0].delay, tols[0].skew
					off, present := c18IIs[0].off(tols[0].delay, tols[0].skew)
					for step, ki := range seq {
						md := harness.IDPMetadata("meta1", "", "")
						md.IDPSSODescriptors[0].KeyDescriptors[0].KeyInfo.X509Data.X509Certificates[0].Data = samlgen.Key(rotKeys[ki]).CertB64
						if how == "replace-metadata" {
							sp.IDPMetadata = md
						} else {
							sp.IDPMetadata.IDPSSODescriptors[0].KeyDescriptors[0].KeyInfo.X509Data.X509Certificates[0].Data = samlgen.Key(rotKeys[ki]).CertB64
						}
						for si, signer := range rotKeys {
							doc := c18Build(c18Dests[0].v, c18Issuers[0].v, c18Statuses[0], off, present, "valid", samlgen.Key(signer))
							err, pan := call(sp, enc, doc)
							t.Impl(1)
							if pan != "" {
								t.Fail("C18/"+enc+"/panic@"+pan[strings.LastIndex(pan, "@")+1:], "panicked: %s", pan)
								return
							}
							if si == ki && err != nil {
								t.Fail("C18/"+enc+"/rotation/rejects-currently-trusted-signer", "%s step %d: a response signed by %s, the key in the metadata in force, is refused: %s", key, step+1, signer, privErr(err))
							}
							if si != ki && err == nil {
								t.Fail("C18/"+enc+"/rotation/accepts-signer-no-longer-trusted", "%s step %d: a response signed by %s is reported valid although the metadata in force lists only %s", key, step+1, signer, rotKeys[ki])
							}
						}
					}
					t.Compared()
				})
			}
		}
	}

	// metadata that lists several signing certificates (a rollover in progress): a response signed by the key of ANY listed certificate is
	// valid, whatever else the certificates have in common (idp1twin: another key under idp1's subject name and serial number, as
	// fixed-serial tooling produces; the same certificate listed twice; a leaf next to its CA), and a key not listed stays refused
	c.Group("metadata-listing-several-signing-certificates")
	for _, listed := range [][]string{{"idp1", "idp1twin"}, {"idp1twin", "idp1"}, {"idp1", "idp1", "idp1twin"}, {"idp1", "idp2", "idp1twin"}, {"idp1twin"}, {"idp1", "idp1"}, {"idp2", "idpenc", "idp1"}, {"idpcaleaf", "idpca", "idp1twin"}} {
		for _, signer := range []string{"idp1", "idp1twin", "idp2", "idpenc", "idpcaleaf", "attacker"} {
			for _, enc := range []string{"form", "redirect", "request-post"} {
				listed, signer, enc := listed, signer, enc
				key := fmt.Sprintf("trust=metacerts:%s/signed-by=%s/%s", strings.Join(listed, ","), signer, enc)
				c.Case(key, func(t *core.T) {
					t.NonTrivial()
					sp := harness.NewSP(harness.SPOpt{Trust: "metacerts:" + strings.Join(listed, ",")})
					saml.MaxIssueDelay, saml.MaxClockSkew = tols[0].delay, tols[0].skew
					off, present := c18IIs[0].off(tols[0].delay, tols[0].skew)
					doc := c18Build(c18Dests[0].v, c18Issuers[0].v, c18Statuses[0], off, present, "valid", samlgen.Key(signer))
					err, pan := call(sp, enc, doc)
					t.Impl(1)
					t.Compared()
					if pan != "" {
						t.Fail("C18/"+enc+"/panic@"+pan[strings.LastIndex(pan, "@")+1:], "panicked: %s", pan)
						return
					}
					isListed := false
					for _, l := range listed {
						isListed = isListed || l == signer
					}
					t.Outcome(fmt.Sprint(err == nil))
					if isListed {
						t.Modelled(core.MustAccept)
						if err != nil {
							t.Fail("C18/"+enc+"/rejects-valid/signer-is-one-of-several-listed-certificates", "%s: the metadata lists a signing certificate for %s's key, the response it signed is refused: %s", key, signer, privErr(err))
						}
					} else {
						t.Modelled(core.MustReject)
						if err == nil {
							t.Fail("C18/"+enc+"/reports-valid/signer-is-not-among-the-listed-certificates", "%s: signed by %s, which the metadata does not list, and reported valid", key, signer)
						}
					}
				})
			}
		}
	}

	// the pinned certificate is the only trust anchor: IDPCertificate names idp2 while the metadata lists idp1
	c.Group("pinned-certificate-differs-from-metadata")
	for _, signer := range []string{"idp1", "idp2", "attacker"} {
		for _, enc := range []string{"form", "redirect", "request-get", "request-post"} {
			signer, enc := signer, enc
			key := fmt.Sprintf("trust=pinned-idp2-metadata-idp1/signed-by=%s/%s", signer, enc)
			c.Case(key, func(t *core.T) {
				t.NonTrivial()
				sp := harness.NewSP(harness.SPOpt{Trust: "meta1"})
				pin := samlgen.Key("idp2").CertB64
				sp.IDPCertificate = &pin
				saml.MaxIssueDelay, saml.MaxClockSkew = tols[0].delay, tols[0].skew
				off, present := c18IIs[0].off(tols[0].delay, tols[0].skew)
				doc := c18Build(c18Dests[0].v, c18Issuers[0].v, c18Statuses[0], off, present, "valid", samlgen.Key(signer))
				err, pan := call(sp, enc, doc)
				t.Impl(1)
				t.Compared()
				if pan != "" {
					t.Fail("C18/"+enc+"/panic@"+pan[strings.LastIndex(pan, "@")+1:], "panicked: %s", pan)
					return
				}
				t.Outcome(fmt.Sprint(err == nil))
				if signer == "idp2" && err != nil {
					t.Fail("C18/"+enc+"/rejects-valid/pinned", "%s: signed by the pinned certificate's key, refused: %s", key, privErr(err))
				}
				if signer != "idp2" && err == nil {
					t.Fail("C18/"+enc+"/reports-valid/signer-is-not-the-pinned-certificate", "%s: IDPCertificate pins idp2, the response is signed by %s and reported valid", key, signer)
				}
			})
		}
	}

	// redirect encoding, sequences of inputs on one process: what an earlier (failing) input left behind must not leak into the next
	c.Group("redirect-input-sequences")
	{
		saml.MaxIssueDelay, saml.MaxClockSkew = tols[0].delay, tols[0].skew
		type inp struct {
			name  string
			mk    func() string
			valid bool
		}
		off, present := c18IIs[0].off(tols[0].delay, tols[0].skew)
		genuine := func() []byte {
			return c18Build(c18Dests[0].v, c18Issuers[0].v, c18Statuses[0], off, present, "valid", idp1())
		}
		forged := func() []byte {
			return c18Build(c18Dests[0].v, c18Issuers[0].v, c18Statuses[0], off, present, "absent", idp1())
		}
		noFinal := func(b []byte) []byte { // a deflate stream that produces all its output and then lacks the final block
			var buf bytes.Buffer
			w, _ := flate.NewWriter(&buf, flate.BestSpeed)
			w.Write(b)
			w.Flush()
			return buf.Bytes()
		}
		inputs := []inp{
			{"valid", func() string { return b64(deflate(genuine())) }, true},
			{"unsigned-forged", func() string { return b64(deflate(forged())) }, false},
			{"genuine-stream-without-final-block", func() string { return b64(noFinal(genuine())) }, false},
			{"genuine-stream-cut-in-half", func() string { d := deflate(genuine()); return b64(d[:len(d)/2]) }, false},
			{"junk-root-stream-without-final-block", func() string { return b64(noFinal([]byte("<x>"))) }, false},
			{"not-deflated", func() string { return b64(genuine()) }, false},
			{"eleven-megabytes", func() string { return b64(paddedDeflate("<!--", "-->", 11*1024*1024)) }, false},
		}
		var seqs [][]int
		for a := range inputs {
			for b := range inputs {
				seqs = append(seqs, []int{a, b})
				for d := range inputs[:3] {
					seqs = append(seqs, []int{a, b, d})
				}
			}
		}
		for _, sq := range seqs {
			sq := sq
			var names []string
			for _, i := range sq {
				names = append(names, inputs[i].name)
			}
			key := "redirect-seq/" + strings.Join(names, " ; ")
			c.Case(key, func(t *core.T) {
				t.NonTrivial()
				sp := sps["meta1"]
				for rep := 0; rep < 3; rep++ { // a pooled buffer may or may not come back: repeat the sequence
					for step, i := range sq {
						in := inputs[i]
						v := in.mk()
						var err error
						_, pan := guard(func() error { err = sp.ValidateLogoutResponseRedirect(v); return nil })
						t.Impl(1)
						if pan != "" {
							t.Fail("C18/redirect/panic@"+pan[strings.LastIndex(pan, "@")+1:], "panicked: %s", pan)
							return
						}
						if in.valid && err != nil {
							t.Fail("C18/redirect/sequence/rejects-valid-after-earlier-input", "%s (repetition %d, step %d): the valid response is refused after the earlier inputs: %s", key, rep+1, step+1, privErr(err))
							return
						}
						if !in.valid && err == nil {
							t.Fail("C18/redirect/sequence/reports-valid-after-earlier-input", "%s (repetition %d, step %d): input %q is reported valid", key, rep+1, step+1, in.name)
							return
						}
					}
				}
				t.Compared()
				t.Outcome("sequence")
			})
		}
	}

	// dispatch wrappers with a valid signature
	c.Group("request-dispatch")
	for _, d := range devs {
		for _, enc := range []string{"request-get", "request-post"} {
			d, enc := d, enc
			key := fmt.Sprintf("dispatch/dest=%s/issuer=%s/status=%s/ii=%s/%s", c18Dests[d.di].name, c18Issuers[d.ii].name, c18Statuses[d.si].name, c18IIs[d.iii].name, enc)
			c.Case(key, func(t *core.T) {
				t.NonTrivial()
				one(t, key, tols[0], "meta1", d.di, d.ii, d.si, d.iii, "valid", enc)
			})
		}
	}
	// requests that carry no logout response at all: nothing to validate is not "valid"
	c.Group("requests-without-a-logout-response")
	type bare struct {
		name, method, query, body string
	}
	for _, b := range []bare{{"bare-GET", "GET", "", ""}, {"GET-empty-SAMLResponse", "GET", "SAMLResponse=", ""}, {"GET-RelayState-only", "GET", "RelayState=x", ""}, {"GET-SAMLRequest-only", "GET", "SAMLRequest=abc", ""},
		{"empty-POST", "POST", "", ""}, {"POST-empty-SAMLResponse", "POST", "", "SAMLResponse="}, {"POST-RelayState-only", "POST", "", "RelayState=x"}, {"POST-SAMLRequest-only", "POST", "", "SAMLRequest=abc"},
		{"POST-blank-SAMLResponse", "POST", "", "SAMLResponse=+"}, {"POST-body-empty-query-empty-SAMLResponse", "POST", "SAMLResponse=", "x=y"}, {"HEAD", "HEAD", "", ""}, {"PUT-empty", "PUT", "", ""}} {
		for _, tr := range trusts {
			b, tr := b, tr
			c.Case("no-response/"+b.name+"/trust="+tr, func(t *core.T) {
				t.NonTrivial()
				target := samlgen.SPSlo
				if b.query != "" {
					target += "?" + b.query
				}
				r := httptest.NewRequest(b.method, target, strings.NewReader(b.body))
				if b.method == "POST" || b.method == "PUT" {
					r.Header.Set("Content-Type", "application/x-www-form-urlencoded")
				}
				var err error
				_, p := guard(func() error { err = sps[tr].ValidateLogoutResponseRequest(r); return nil })
				t.Impl(1)
				if p != "" {
					t.Fail("C18/request/panic@"+p[strings.LastIndex(p, "@")+1:], "panicked: %s", p)
					return
				}
				t.Modelled(core.MustReject)
				t.Compared()
				t.Outcome(fmt.Sprint(err == nil))
				if err == nil {
					t.Fail("C18/request/reports-valid/no-logout-response-in-the-request", "%s %s (body %q) carries no logout response and was reported valid", b.method, target, b.body)
				}
			})
		}
	}
	_ = http.MethodGet
}

func c18Class(di, ii, si, iii int, sig string) string {
	var parts []string
	if sig != "valid" {
		parts = append(parts, "sig="+sig)
	}
	if !c18Dests[di].ok {
		parts = append(parts, "dest="+c18Dests[di].name)
	}
	if !c18Issuers[ii].ok {
		parts = append(parts, "issuer="+c18Issuers[ii].name)
	}
	if c18Statuses[si].v == core.MustReject {
		parts = append(parts, "status="+c18Statuses[si].name)
	}
	if c18IIs[iii].v == core.MustReject {
		parts = append(parts, "ii="+c18IIs[iii].name)
	}
	if len(parts) > 2 {
		parts = parts[:2]
	}
	return strings.Join(parts, "+")
}

// c18Verifier is an application-supplied SignatureVerifier: it either refuses everything or runs the default validation.
type c18Verifier struct{ reject bool }

func (v c18Verifier) VerifySignature(ctx *dsig.ValidationContext, el *etree.Element) error {
	if v.reject {
		return errors.New("the application's verifier refuses this signature")
	}
	_, err := ctx.Validate(el)
	return err
}
