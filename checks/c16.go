package checks

import (
	"crypto/rsa"
	"crypto/x509"
	"encoding/base64"
	"encoding/json"
	"encoding/pem"
	"fmt"
	"net/http"
	"net/http/httptest"
	"reflect"
	"sort"
	"strings"
	"time"

	"github.com/crewjam/saml"
	"github.com/crewjam/saml/samlsp"
	"github.com/golang-jwt/jwt/v4"

	"verif/engine/core"
	"verif/engine/harness"
	"verif/engine/samlgen"
)

// C16 — only session tokens minted by this SP, unexpired, authenticate a request.

const c16URL = "https://sp.example.com"

type c16Dep struct {
	key, cookie string
	maxAge      time.Duration
}

func (d c16Dep) String() string {
	return fmt.Sprintf("key=%s/cookie=%s/maxage=%s", d.key, d.cookie, d.maxAge)
}

func c16Middleware(d c16Dep, rootURL string) *samlsp.Middleware {
	kp := samlgen.Key(d.key)
	m, err := samlsp.New(samlsp.Options{URL: harness.MustURL(rootURL), Key: kp.Key, Certificate: kp.Cert, IDPMetadata: harness.IDPMetadata("meta1", "", ""), CookieName: d.cookie})
	if err != nil {
		panic(err)
	}
	if d.maxAge != 0 {
		sp := m.Session.(samlsp.CookieSessionProvider)
		sp.MaxAge = d.maxAge
		codec := sp.Codec.(samlsp.JWTSessionCodec)
		codec.MaxAge = d.maxAge
		sp.Codec = codec
		m.Session = sp
	}
	return m
}

func pinAll(now time.Time) {
	harness.SetNow(now)
	jwt.TimeFunc = func() time.Time { return now }
}

func b64u(b []byte) string { return base64.RawURLEncoding.EncodeToString(b) }

func unb64u(s string) []byte {
	b, err := base64.RawURLEncoding.DecodeString(s)
	if err != nil {
		panic(err)
	}
	return b
}

// resign builds header.claims.signature with the given alg and key.
func resign(header, claims map[string]interface{}, alg string, key interface{}) (string, error) {
	hb, _ := json.Marshal(header)
	cb, _ := json.Marshal(claims)
	ss := b64u(hb) + "." + b64u(cb)
	if strings.EqualFold(alg, "none") {
		return ss + ".", nil
	}
	m := jwt.GetSigningMethod(alg)
	if m == nil {
		return "", fmt.Errorf("no signing method %s", alg)
	}
	sig, err := m.Sign(ss, key)
	if err != nil {
		return "", err
	}
	return ss + "." + sig, nil
}

func cloneMap(m map[string]interface{}) map[string]interface{} {
	o := map[string]interface{}{}
	for k, v := range m {
		o[k] = v
	}
	return o
}

type c16Tok struct {
	name  string
	value string
	v     core.Verdict
}

func init() {
	Register(&Check{
		ID:     "C16",
		Engine: "lattice",
		Rule: "valid session and tracking tokens are minted through the real codecs for 2 key families x default/custom lifetime and cookie name; then the full catalogue of structure-aware edits: alg substitution (none/None/HS256-512 keyed with the public key in 3 encodings, RS/PS/ES 256-512) re-signed with the SP's own key, another key of the family and a key of the other family; header extras; every claim removed / altered / wrong JSON type / aud as array; " +
			"marker swap (tracking token as session and vice versa); tokens of other deployments (same key other URL, other key same URL, only issuer or only audience differing); every single-byte flip and every truncation of the signature; 1..4 segments; padding/alphabet variants - each crossed with 7 clock positions around issue and expiry; plus attribute exposure and RequireAttribute over assertion shapes. " +
			"Oracle: the wrapped handler runs iff the token is one the session codec minted and nbf <= now < exp. non-trivial = every token other than the minted one at issue time",
		Bounds: func(tier string) string {
			return "full catalogue x 7 clock positions x 4 deployments (quick: 2 deployments for the byte-level signature edits)"
		},
		Assumptions: []string{"custom SessionCodecs are out of scope", "the exact expiry second is DONT_CARE"},
		Run:         runC16,
		CapQuick:    5 * time.Minute,
		CapThorough: 15 * time.Minute,
	})
}

func runC16(c *core.Ctx) {
	g := harness.Pin(samlgen.T0)
	defer g.Restore()
	oldTF := jwt.TimeFunc
	defer func() { jwt.TimeFunc = oldTF }()
	t0 := samlgen.T0
	deps := []c16Dep{{"sp2048", "", 0}, {"spec256", "", 0}, {"sp2048", "mysession", 10 * time.Minute}, {"spec256", "sess2", 3 * time.Hour}}

	assertionFor := c16Assertion
	// present a cookie to a RequireAccount-wrapped handler; report whether the handler ran
	present := func(m *samlsp.Middleware, cookieName, value string, extra ...*http.Cookie) (ran bool, code int, sess samlsp.Session) {
		h := m.RequireAccount(http.HandlerFunc(func(w http.ResponseWriter, r *http.Request) {
			ran = true
			sess = samlsp.SessionFromContext(r.Context())
			w.WriteHeader(204)
		}))
		r := httptest.NewRequest(c16Shape.method, c16URL+c16Shape.path, nil)
		r.AddCookie(&http.Cookie{Name: cookieName, Value: value})
		for _, e := range extra {
			r.AddCookie(e)
		}
		for k, v := range c16Shape.hdr {
			r.Header.Set(k, v)
		}
		w := httptest.NewRecorder()
		h.ServeHTTP(w, r)
		return ran, w.Code, sess
	}

	for di, dep := range deps {
		dep, di := dep, di
		cookieName := dep.cookie
		if cookieName == "" {
			cookieName = "token"
		}
		maxAge := dep.maxAge
		if maxAge == 0 {
			maxAge = time.Hour
		}
		kp := samlgen.Key(dep.key)
		isRSA := dep.key == "sp2048"
		ownAlg := "RS256"
		otherSame, otherFam := samlgen.Key("spother"), samlgen.Key("spec256")
		if !isRSA {
			ownAlg = "ES256"
			otherSame, otherFam = samlgen.Key("spec384"), samlgen.Key("sp2048")
		}

		// mint the genuine tokens (deterministic clock)
		pinAll(t0)
		m := c16Middleware(dep, c16URL)
		rec := httptest.NewRecorder()
		if err := m.Session.CreateSession(rec, httptest.NewRequest("POST", c16URL+"/saml/acs", nil), assertionFor()); err != nil {
			panic(err)
		}
		var minted string
		for _, ck := range rec.Result().Cookies() {
			if ck.Name == cookieName {
				minted = ck.Value
			}
		}
		rec2 := httptest.NewRecorder()
		if _, err := m.RequestTracker.TrackRequest(rec2, httptest.NewRequest("GET", c16URL+"/protected", nil), "id-req-1"); err != nil {
			panic(err)
		}
		var tracking string
		for _, ck := range rec2.Result().Cookies() {
			if strings.HasPrefix(ck.Name, "saml_") {
				tracking = ck.Value
			}
		}
		segs := strings.Split(minted, ".")
		var header, claims map[string]interface{}
		json.Unmarshal(unb64u(segs[0]), &header)
		json.Unmarshal(unb64u(segs[1]), &claims)
		exp := t0.Add(maxAge)

		var toks []c16Tok
		add := func(name, value string, v core.Verdict) { toks = append(toks, c16Tok{name, value, v}) }
		add("minted", minted, core.MustAccept)
		add("tracking-token-as-session", tracking, core.MustReject)
		add("empty", "", core.MustReject)
		add("garbage", "not.a.token", core.MustReject)

		// algorithm substitution
		pubDER, _ := x509.MarshalPKIXPublicKey(kp.Key.Public())
		hmacKeys := map[string][]byte{"pkix-der": pubDER, "pem": pem.EncodeToMemory(&pem.Block{Type: "PUBLIC KEY", Bytes: pubDER}), "cert-der": kp.Cert.Raw, "empty": {}}
		if rk, ok := kp.Key.Public().(*rsa.PublicKey); ok {
			hmacKeys["pkcs1-der"] = x509.MarshalPKCS1PublicKey(rk)
		}
		for _, alg := range []string{"none", "None", "NONE", "nOnE"} {
			h := cloneMap(header)
			h["alg"] = alg
			tk, _ := resign(h, claims, "none", nil)
			add("alg="+alg, tk, core.MustReject)
			add("alg="+alg+"+minted-signature", strings.TrimSuffix(tk, ".")+"."+segs[2], core.MustReject)
		}
		for _, alg := range []string{"HS256", "HS384", "HS512"} {
			for kn, hk := range hmacKeys {
				h := cloneMap(header)
				h["alg"] = alg
				if tk, err := resign(h, claims, alg, hk); err == nil {
					add("alg="+alg+"/hmac-key="+kn, tk, core.MustReject)
				}
			}
		}
		for _, alg := range []string{"RS256", "RS384", "RS512", "PS256", "PS384", "PS512", "ES256", "ES384", "ES512"} {
			for who, k := range map[string]*samlgen.KeyPair{"own": kp, "other-same-family": otherSame, "other-family": otherFam} {
				h := cloneMap(header)
				h["alg"] = alg
				tk, err := resign(h, claims, alg, k.Key)
				if err != nil {
					continue // method does not fit that key type
				}
				v := core.MustReject
				if who == "own" && alg == ownAlg {
					v = core.DontCare // a token this SP's key signs with the right algorithm and unchanged claims is as good as minted
				}
				add("alg="+alg+"/signed-by="+who, tk, v)
			}
		}
		// header extras re-signed by the own key (benign) and by the attacker
		for _, extra := range []string{"kid", "jwk", "typ", "x5c", "crit"} {
			h := cloneMap(header)
			h[extra] = "x"
			if extra == "jwk" {
				h[extra] = map[string]string{"kty": "oct", "k": "AAAA"}
			}
			tk, _ := resign(h, claims, ownAlg, otherSame.Key)
			add("header+"+extra+"/signed-by=other", tk, core.MustReject)
			tk2 := b64u(mustJSON(h)) + "." + segs[1] + "." + segs[2]
			add("header+"+extra+"/minted-signature", tk2, core.MustReject)
		}
		// claim edits, correctly signed by the SP's own key (isolates the claim checks from the signature check)
		for _, cl := range []string{"aud", "iss", "exp", "nbf", "iat", "sub", "attr", "saml-session"} {
			for _, edit := range []string{"removed", "altered", "wrong-type", "null"} {
				cm := cloneMap(claims)
				v := core.MustReject
				switch edit {
				case "removed":
					delete(cm, cl)
				case "altered":
					switch cl {
					case "aud", "iss":
						cm[cl] = c16URL + ".evil.example.net"
					case "exp":
						cm[cl] = t0.Add(-time.Hour).Unix()
					case "nbf":
						cm[cl] = t0.Add(365 * 24 * time.Hour).Unix()
					case "iat":
						cm[cl] = t0.Add(-time.Hour).Unix()
					case "sub":
						cm[cl] = "mallory"
					case "attr":
						cm[cl] = map[string][]string{"groups": {"admins"}}
					case "saml-session":
						cm[cl] = false
					}
				case "wrong-type":
					cm[cl] = []int{1, 2}
					if cl == "saml-session" {
						cm[cl] = "true"
					}
				case "null":
					cm[cl] = nil
				}
				// which of these does the statement decide?
				switch {
				case cl == "iat", cl == "sub", cl == "attr":
					v = core.DontCare // signed by the SP's key, still a session token for this audience/issuer within its lifetime
				case cl == "exp" && (edit == "removed" || edit == "null"):
					v = core.DontCare
				case cl == "nbf" && edit != "altered":
					v = core.DontCare
				}
				tk, err := resign(header, cm, ownAlg, kp.Key)
				if err != nil {
					continue
				}
				add("claim="+cl+"/"+edit+"/signed-by=own", tk, v)
			}
		}
		for _, aud := range []interface{}{[]string{c16URL}, []string{"https://other.example.org", c16URL}, []string{"https://other.example.org"}, []string{}, c16URL + "/", strings.ToUpper(c16URL)} {
			cm := cloneMap(claims)
			cm["aud"] = aud
			tk, _ := resign(header, cm, ownAlg, kp.Key)
			v := core.MustReject
			if s, ok := aud.([]string); ok {
				for _, a := range s {
					if a == c16URL {
						v = core.DontCare
					}
				}
			}
			add(fmt.Sprintf("claim=aud/%v/signed-by=own", aud), tk, v)
		}
		// tracking token with the session marker forged, and session token presented under tracking semantics is C17's subject
		{
			var th, tc map[string]interface{}
			ts := strings.Split(tracking, ".")
			json.Unmarshal(unb64u(ts[0]), &th)
			json.Unmarshal(unb64u(ts[1]), &tc)
			tc["saml-session"] = true
			tk, _ := resign(th, tc, ownAlg, otherSame.Key)
			add("tracking-token+forged-session-marker/signed-by=other", tk, core.MustReject)
			add("tracking-token+forged-session-marker/minted-signature", ts[0]+"."+b64u(mustJSON(tc))+"."+ts[2], core.MustReject)
		}
		// other deployments
		for name, od := range map[string]struct {
			url string
			key string
		}{"same-key-other-url": {"https://other-app.example.com", dep.key}, "other-key-same-url": {c16URL, map[bool]string{true: "spother", false: "spec384"}[isRSA]}} {
			pinAll(t0)
			om := c16Middleware(c16Dep{od.key, dep.cookie, dep.maxAge}, od.url)
			if od.key == "spec384" {
				// samlsp picks ES256 for every ECDSA key; P-384 with ES256 cannot sign - use the other P-256 fixture instead
				continue
			}
			r := httptest.NewRecorder()
			if err := om.Session.CreateSession(r, httptest.NewRequest("POST", od.url+"/saml/acs", nil), assertionFor()); err == nil {
				for _, ck := range r.Result().Cookies() {
					if ck.Name == cookieName {
						add("deployment/"+name, ck.Value, core.MustReject)
					}
				}
			}
		}
		for _, which := range []string{"aud", "iss"} {
			cm := cloneMap(claims)
			cm[which] = "https://sibling-app.example.com"
			tk, _ := resign(header, cm, ownAlg, kp.Key)
			add("deployment/same-key-only-"+which+"-differs", tk, core.MustReject)
		}
		// segment count and encoding variants
		add("segments=1", segs[0], core.MustReject)
		add("segments=2", segs[0]+"."+segs[1], core.MustReject)
		add("segments=2+dot", segs[0]+"."+segs[1]+".", core.MustReject)
		add("segments=4", minted+"."+segs[2], core.MustReject)
		add("padded-signature", minted+"==", core.DontCare)
		add("std-alphabet-signature", segs[0]+"."+segs[1]+"."+strings.NewReplacer("-", "+", "_", "/").Replace(segs[2]), core.DontCare)
		add("leading-space", " "+minted, core.DontCare)
		add("claims-swapped-with-header", segs[1]+"."+segs[0]+"."+segs[2], core.MustReject)
		add("other-claims-minted-signature", segs[0]+"."+b64u(mustJSON(map[string]interface{}{"aud": c16URL, "iss": c16URL, "exp": exp.Unix() + 999999, "saml-session": true, "sub": "admin"}))+"."+segs[2], core.MustReject)

		clocks := []struct {
			name string
			at   time.Time
			ok   core.Verdict
		}{{"issue", t0, core.MustAccept}, {"issue-1s", t0.Add(-time.Second), core.MustReject}, {"issue+1s", t0.Add(time.Second), core.MustAccept}, {"exp-1s", exp.Add(-time.Second), core.MustAccept},
			{"exp", exp, core.DontCare}, {"exp+1s", exp.Add(time.Second), core.MustReject}, {"far-future", exp.Add(1000 * time.Hour), core.MustReject}, {"far-past", t0.Add(-1000 * time.Hour), core.MustReject}}

		c.Group("token-catalogue")
		for _, tk := range toks {
			for _, ck := range clocks {
				tk, ck := tk, ck
				key := fmt.Sprintf("dep#%d[%s]/token=%s/clock=%s", di, dep, tk.name, ck.name)
				c.Case(key, func(t *core.T) {
					if !(tk.name == "minted" && ck.name == "issue") {
						t.NonTrivial()
					}
					pinAll(ck.at)
					defer pinAll(t0)
					var ran bool
					var code int
					_, p := guard(func() error { ran, code, _ = present(m, cookieName, tk.value); return nil })
					t.Impl(1)
					if p != "" {
						t.Fail("C16/panic@"+p[strings.LastIndex(p, "@")+1:], "middleware panicked on token %s: %s", tk.name, p)
						return
					}
					v := tk.v
					if tk.v == core.MustAccept {
						v = ck.ok
					} else if tk.v == core.DontCare && ck.ok == core.MustReject {
						v = core.MustReject // even a benign re-sign must not outlive the lifetime
						if strings.HasPrefix(tk.name, "claim=exp") || strings.HasPrefix(tk.name, "claim=nbf") || strings.HasPrefix(tk.name, "claim=iat") {
							v = core.DontCare
						}
					}
					t.Modelled(v)
					t.Outcome(fmt.Sprintf("ran=%v/%d", ran, code))
					if v == core.MustReject && ran {
						t.Fail("C16/authenticates/"+tokClass(tk.name)+"@"+clockClass(ck.name), "token %q at clock %s was accepted as a session (handler ran)", tk.name, ck.name)
						t.Input("token", tk.value)
					}
					if v == core.MustAccept && !ran {
						t.Fail("C16/minted-token-refused@"+ck.name, "the token the SP minted is refused at clock %s (status %d)", ck.name, code)
					}
					t.Sample(map[string]interface{}{"case": key, "handler_ran": ran, "status": code, "model": v.String()})
				})
			}
		}

		// the same tokens presented with requests of other shapes: method, path and headers decide nothing; whether the handler runs is what
		// it is for the plain GET
		c.Group("token-catalogue-x-request-shapes")
		for _, tk := range toks {
			for _, ck := range clocks {
				if ck.name != "issue" && ck.ok != core.MustReject {
					continue
				}
				for si, sh := range c16Shapes {
					if !c.Thorough() && di >= 2 && si%3 != 0 {
						continue
					}
					tk, ck, sh := tk, ck, sh
					key := fmt.Sprintf("dep#%d[%s]/token=%s/clock=%s/request=%s", di, dep, tk.name, ck.name, sh.name)
					c.Case(key, func(t *core.T) {
						t.NonTrivial()
						pinAll(ck.at)
						defer pinAll(t0)
						var ran, ranGET bool
						_, p := guard(func() error {
							ranGET, _, _ = present(m, cookieName, tk.value)
							c16Shape = sh
							defer func() { c16Shape = c16Shapes[0] }()
							ran, _, _ = present(m, cookieName, tk.value)
							return nil
						})
						t.Impl(2)
						if p != "" {
							t.Fail("C16/panic@"+p[strings.LastIndex(p, "@")+1:], "middleware panicked on token %s with a %s request: %s", tk.name, sh.name, p)
							return
						}
						t.Compared()
						t.Outcome(fmt.Sprintf("ran=%v", ran))
						if ran != ranGET {
							t.Fail("C16/request-shape-decides/"+sh.name, "token %q at clock %s: handler ran=%v for a %s request, %v for a plain GET", tk.name, ck.name, ran, sh.name, ranGET)
							t.Input("token", tk.value)
						}
					})
				}
			}
		}

		// byte-level signature edits at issue time
		if di < 2 || c.Thorough() {
			c.Group("signature-bytes")
			sig := unb64u(segs[2])
			const blk = 16
			for lo := 0; lo < len(sig); lo += blk {
				lo := lo
				c.Case(fmt.Sprintf("dep#%d/sigflip/%d", di, lo), func(t *core.T) {
					t.NonTrivial()
					pinAll(t0)
					n := 0
					for i := lo; i < lo+blk && i < len(sig); i++ {
						for _, mask := range []byte{0x01, 0x80} {
							s2 := append([]byte{}, sig...)
							s2[i] ^= mask
							ran, _, _ := present(m, cookieName, segs[0]+"."+segs[1]+"."+b64u(s2))
							n++
							if ran {
								t.Fail("C16/authenticates/altered-signature", "signature byte %d flipped (%02x) still authenticates", i, mask)
							}
						}
					}
					for l := lo; l < lo+blk && l < len(sig); l++ {
						ran, _, _ := present(m, cookieName, segs[0]+"."+segs[1]+"."+b64u(sig[:l]))
						n++
						if ran {
							t.Fail("C16/authenticates/truncated-signature", "signature truncated to %d bytes still authenticates", l)
						}
					}
					t.Evals(n)
					t.Impl(n)
					t.Modelled(core.MustReject)
				})
			}
			// every truncation of the whole token string
			c.Case(fmt.Sprintf("dep#%d/token-prefixes", di), func(t *core.T) {
				t.NonTrivial()
				pinAll(t0)
				n := 0
				for l := 0; l < len(minted); l++ {
					ran, _, _ := present(m, cookieName, minted[:l])
					n++
					if ran {
						t.Fail("C16/authenticates/truncated-token", "the first %d characters of the token authenticate", l)
						break
					}
				}
				t.Evals(n)
				t.Impl(n)
				t.Modelled(core.MustReject)
			})
		}
	}

	c16Attributes(c, present)
	c16SessionBounds(c, present)
	c16CrossDeployment(c, present)
	pinAll(t0)
}

func mustJSON(v interface{}) []byte {
	b, err := json.Marshal(v)
	if err != nil {
		panic(err)
	}
	return b
}

func tokClass(name string) string {
	if i := strings.Index(name, "/hmac-key="); i >= 0 {
		return name[:i] + "/hmac-with-public-key"
	}
	return name
}

func clockClass(c string) string {
	switch c {
	case "issue", "issue+1s", "exp-1s":
		return "within-lifetime"
	}
	return c
}

// ---------- attribute exposure and gatekeeping ----------

func c16Attributes(c *core.Ctx, present func(m *samlsp.Middleware, cookieName, value string, extra ...*http.Cookie) (bool, int, samlsp.Session)) {
	c.Group("attributes")
	t0 := samlgen.T0
	type shape struct {
		name string
		a    *saml.Assertion
	}
	av := func(vs ...string) []saml.AttributeValue {
		var o []saml.AttributeValue
		for _, v := range vs {
			o = append(o, saml.AttributeValue{Value: v})
		}
		return o
	}
	sub := &saml.Subject{NameID: &saml.NameID{Value: "alice@example.com"}}
	shapes := []shape{
		{"friendly+unnamed", &saml.Assertion{Subject: sub, AttributeStatements: []saml.AttributeStatement{{Attributes: []saml.Attribute{{Name: "urn:oid:1", FriendlyName: "uid", Values: av("alice")}, {Name: "groups", Values: av("users", "admins")}}}}}},
		{"repeated-name", &saml.Assertion{Subject: sub, AttributeStatements: []saml.AttributeStatement{{Attributes: []saml.Attribute{{Name: "groups", Values: av("users")}, {Name: "role", Values: av("dev")}, {Name: "groups", Values: av("admins")}}}}}},
		{"repeated-across-statements", &saml.Assertion{Subject: sub, AttributeStatements: []saml.AttributeStatement{{Attributes: []saml.Attribute{{Name: "groups", Values: av("users")}}}, {Attributes: []saml.Attribute{{Name: "groups", Values: av("admins", "ops")}}}}}},
		{"friendly-collides-with-name", &saml.Assertion{Subject: sub, AttributeStatements: []saml.AttributeStatement{{Attributes: []saml.Attribute{{Name: "role", Values: av("owner")}, {Name: "urn:oid:9", FriendlyName: "role", Values: av("viewer")}}}}}},
		{"no-subject", &saml.Assertion{AttributeStatements: []saml.AttributeStatement{{Attributes: []saml.Attribute{{Name: "groups", Values: av("users")}}}}}},
		{"empty-valued", &saml.Assertion{Subject: sub, AttributeStatements: []saml.AttributeStatement{{Attributes: []saml.Attribute{{Name: "groups", Values: av("")}, {Name: "novalues"}}}}}},
		{"no-attributes", &saml.Assertion{Subject: sub}},
		// an attribute without Name and FriendlyName (after a named one, and first): its values are nobody else's; values that contain the
		// characters applications use as list separators are single values
		{"nameless-attribute-after-named", &saml.Assertion{Subject: sub, AttributeStatements: []saml.AttributeStatement{{Attributes: []saml.Attribute{{Name: "groups", Values: av("users")}, {Values: av("admins")}, {Name: "role", Values: av("dev")}}}}}},
		{"nameless-attribute-first", &saml.Assertion{Subject: sub, AttributeStatements: []saml.AttributeStatement{{Attributes: []saml.Attribute{{Values: av("admins")}, {Name: "groups", Values: av("users")}}}}}},
		{"values-with-separators", &saml.Assertion{Subject: sub, AttributeStatements: []saml.AttributeStatement{{Attributes: []saml.Attribute{{Name: "groups", Values: av("users;admins", "ops|owner", "a b", "x\ty")}, {Name: "role", Values: av("dev:owner", "viewer/owner")}}}}}},
		// a Subject that carries no identifier of its own: the NameID inside a SubjectConfirmation names the confirming party, not the subject
		{"subject-without-nameid+confirmation-nameid", &saml.Assertion{Subject: &saml.Subject{SubjectConfirmations: []saml.SubjectConfirmation{{Method: "urn:oasis:names:tc:SAML:2.0:cm:sender-vouches", NameID: &saml.NameID{Value: "https://gateway.example.com/attesting-entity"}}}}, AttributeStatements: []saml.AttributeStatement{{Attributes: []saml.Attribute{{Name: "groups", Values: av("users")}}}}}},
		{"subject-nameid+confirmation-nameid", &saml.Assertion{Subject: &saml.Subject{NameID: &saml.NameID{Value: "alice@example.com"}, SubjectConfirmations: []saml.SubjectConfirmation{{Method: "urn:oasis:names:tc:SAML:2.0:cm:bearer", NameID: &saml.NameID{Value: "mallory@example.com"}}}}}},
		{"subject-empty", &saml.Assertion{Subject: &saml.Subject{}, AttributeStatements: []saml.AttributeStatement{{Attributes: []saml.Attribute{{Name: "uid", Values: av("bob")}, {Name: "sub", Values: av("mallory")}, {Name: "subject", Values: av("mallory")}}}}}},
		{"subject-nameid-empty-value", &saml.Assertion{Subject: &saml.Subject{NameID: &saml.NameID{Value: "", SPProvidedID: "carol", NameQualifier: "dave"}}, Issuer: saml.Issuer{Value: "https://idp.example.com/saml/metadata"}}},
		{"subject-nameid-qualifiers", &saml.Assertion{Subject: &saml.Subject{NameID: &saml.NameID{Value: "alice@example.com", SPProvidedID: "carol", NameQualifier: "dave", SPNameQualifier: "erin", Format: "urn:oasis:names:tc:SAML:2.0:nameid-format:persistent"}}}},
		{"two-authn-statements", &saml.Assertion{Subject: sub, AuthnStatements: []saml.AuthnStatement{{SessionIndex: "i1"}, {SessionIndex: "i2"}}, AttributeStatements: []saml.AttributeStatement{{Attributes: []saml.Attribute{{Name: "groups", Values: av("users")}}}}}},
	}
	gates := []struct{ n, v string }{{"groups", "admins"}, {"groups", "users"}, {"groups", "ops"}, {"groups", ""}, {"role", "owner"}, {"role", "viewer"}, {"uid", "alice"}, {"urn:oid:1", "alice"}, {"missing", "x"}, {"groups", "admin"}, {"SessionIndex", "i2"},
		// near misses of values the assertions do carry: letter case, surrounding blanks, prefixes, a separator-joined list
		{"groups", "Admins"}, {"groups", "ADMINS"}, {"groups", "admins "}, {"groups", " admins"}, {"groups", "users,admins"}, {"groups", "user"}, {"Groups", "admins"}, {"GROUPS", "users"},
		{"role", "Owner"}, {"uid", "Alice"}, {"uid", "ALICE"}, {"sessionindex", "i2"},
		// pieces of values that contain a separator character, and the whole values
		{"groups", "users;admins"}, {"groups", "ops|owner"}, {"groups", "ops"}, {"groups", "owner"}, {"groups", "a"}, {"groups", "b"}, {"groups", "x"}, {"role", "dev"}, {"role", "dev:owner"}, {"role", "viewer"}, {"", "admins"}}
	for _, kn := range []string{"sp2048", "spec256"} {
		for _, sh := range shapes {
			kn, sh := kn, sh
			key := fmt.Sprintf("attrs/key=%s/%s", kn, sh.name)
			c.Case(key, func(t *core.T) {
				t.NonTrivial()
				pinAll(t0)
				m := c16Middleware(c16Dep{kn, "", 0}, c16URL)
				rec := httptest.NewRecorder()
				if err := m.Session.CreateSession(rec, httptest.NewRequest("POST", c16URL+"/saml/acs", nil), sh.a); err != nil {
					t.Fail("C16/attrs/create-session", "%v", err)
					return
				}
				var tok string
				for _, ck := range rec.Result().Cookies() {
					if ck.Name == "token" {
						tok = ck.Value
						if !ck.HttpOnly {
							t.Fail("C16/attrs/cookie-not-httponly", "session cookie is not HttpOnly")
						}
					}
				}
				ran, _, sess := present(m, "token", tok)
				t.Impl(2)
				if !ran {
					t.Fail("C16/attrs/fresh-session-refused", "the session just created does not authenticate")
					return
				}
				want := map[string][]string{}
				for _, st := range sh.a.AttributeStatements {
					for _, at := range st.Attributes {
						n := at.FriendlyName
						if n == "" {
							n = at.Name
						}
						for _, v := range at.Values {
							want[n] = append(want[n], v.Value)
						}
					}
				}
				swa, ok := sess.(samlsp.SessionWithAttributes)
				if !ok {
					t.Fail("C16/attrs/no-attributes-interface", "session %T exposes no attributes", sess)
					return
				}
				got := map[string][]string{}
				for k, v := range swa.GetAttributes() {
					if k != "SessionIndex" {
						got[k] = v
					}
				}
				if !reflect.DeepEqual(normAttrs(got), normAttrs(want)) {
					t.Fail("C16/attrs/exposed-attributes-differ", "application sees %v, the assertion carries %v", got, want)
				}
				var idx []string
				for _, as := range sh.a.AuthnStatements {
					idx = append(idx, as.SessionIndex)
				}
				if gi := swa.GetAttributes()["SessionIndex"]; !reflect.DeepEqual(append([]string{}, gi...), append([]string{}, idx...)) && !(len(gi) == 0 && len(idx) == 0) {
					t.Fail("C16/attrs/session-index-differs", "SessionIndex %v, assertion has %v", gi, idx)
				}
				if jc, ok := sess.(samlsp.JWTSessionClaims); ok {
					wantSub := ""
					if sh.a.Subject != nil && sh.a.Subject.NameID != nil {
						wantSub = sh.a.Subject.NameID.Value
					}
					if jc.Subject != wantSub {
						t.Fail("C16/attrs/subject-differs", "subject %q, assertion NameID %q", jc.Subject, wantSub)
					}
				}
				// gatekeeping
				all := map[string][]string{}
				for k, v := range want {
					all[k] = v
				}
				all["SessionIndex"] = idx
				for _, gt := range gates {
					admitted := false
					inner := http.HandlerFunc(func(w http.ResponseWriter, r *http.Request) { admitted = true })
					h := m.RequireAccount(samlsp.RequireAttribute(gt.n, gt.v)(inner))
					r := httptest.NewRequest("GET", c16URL+"/admin", nil)
					r.AddCookie(&http.Cookie{Name: "token", Value: tok})
					h.ServeHTTP(httptest.NewRecorder(), r)
					t.Impl(1)
					should := false
					for _, v := range all[gt.n] {
						if v == gt.v {
							should = true
						}
					}
					if admitted != should {
						t.Fail("C16/attrs/require-attribute", "RequireAttribute(%q,%q) admitted=%v but the assertion's %q values are %v", gt.n, gt.v, admitted, gt.n, all[gt.n])
					}
					// and without any session the gate must not open
					admitted = false
					samlsp.RequireAttribute(gt.n, gt.v)(inner).ServeHTTP(httptest.NewRecorder(), httptest.NewRequest("GET", c16URL+"/admin", nil))
					if admitted {
						t.Fail("C16/attrs/require-attribute-without-session", "RequireAttribute(%q,%q) admitted a request without a session", gt.n, gt.v)
					}
				}
				t.Compared()
			})
		}
	}

	// lifetimes set by hand on the codec and provider (not through samlsp.New), including zero and negative ones: a session is
	// honoured only while it is no older than the lifetime, whatever the lifetime is
	c.Group("hand-set-lifetimes")
	for _, kn := range []string{"sp2048", "spec256"} {
		for _, life := range []time.Duration{0, -time.Hour, -time.Nanosecond, time.Nanosecond, time.Second, 90 * time.Second, 25 * time.Hour} {
			for _, where := range []string{"codec+provider", "codec-only"} {
				for _, age := range []time.Duration{0, time.Second, 2 * time.Second, 89 * time.Second, 92 * time.Second, time.Hour + time.Second, 24 * time.Hour, 26 * time.Hour, 365 * 24 * time.Hour} {
					kn, life, where, age := kn, life, where, age
					key := fmt.Sprintf("lifetime/key=%s/maxage=%s/%s/age=%s", kn, life, where, age)
					c.Case(key, func(t *core.T) {
						t.NonTrivial()
						pinAll(t0)
						m := c16Middleware(c16Dep{kn, "", 0}, c16URL)
						sp := m.Session.(samlsp.CookieSessionProvider)
						codec := sp.Codec.(samlsp.JWTSessionCodec)
						codec.MaxAge = life
						sp.Codec = codec
						if where == "codec+provider" {
							sp.MaxAge = life
						}
						m.Session = sp
						rec := httptest.NewRecorder()
						var minted string
						_, p := guard(func() error {
							return m.Session.CreateSession(rec, httptest.NewRequest("POST", c16URL+"/saml/acs", nil), c16Assertion())
						})
						t.Impl(1)
						if p != "" {
							t.Outcome("create-panics")
							return
						}
						for _, ck := range rec.Result().Cookies() {
							if ck.Name == "token" {
								minted = ck.Value
							}
						}
						if minted == "" {
							t.Outcome("no-session-cookie")
							return
						}
						pinAll(t0.Add(age))
						ran, code, _ := present(m, "token", minted)
						pinAll(t0)
						t.Impl(1)
						t.Compared()
						v := core.DontCare
						switch {
						case age > life+time.Second:
							v = core.MustReject
						case life >= time.Second && age < life-time.Second:
							v = core.MustAccept
						}
						t.Modelled(v)
						t.Outcome(fmt.Sprintf("ran=%v", ran))
						if v == core.MustReject && ran {
							t.Fail("C16/lifetime/session-honoured-after-its-lifetime", "%s: a session created %s ago is honoured although the configured lifetime is %s (status %d)", key, age, life, code)
						}
						if v == core.MustAccept && !ran {
							t.Fail("C16/lifetime/session-refused-within-its-lifetime", "%s: a session created %s ago is refused although the configured lifetime is %s (status %d)", key, age, life, code)
						}
					})
				}
			}
		}
	}
}

// c16SessionBounds: the IdP's own session bound (AuthnStatement SessionNotOnOrAfter) inside and far beyond the SP's session lifetime:
// whatever it says, the SP's session is not honoured longer than the configured lifetime.
func c16SessionBounds(c *core.Ctx, present func(m *samlsp.Middleware, cookieName, value string, extra ...*http.Cookie) (bool, int, samlsp.Session)) {
	c.Group("idp-session-bound-vs-lifetime")
	t0 := samlgen.T0
	for _, kn := range []string{"sp2048", "spec256"} {
		for _, life := range []time.Duration{0, 2 * time.Hour} { // 0 = the default of samlsp.New (1 h)
			for _, bound := range []time.Duration{-1, 30 * time.Minute, 10 * time.Hour, 100 * 24 * time.Hour} {
				for _, nstmt := range []int{1, 2} {
					for _, age := range []time.Duration{time.Minute, 29 * time.Minute, 31 * time.Minute, 59 * time.Minute, 61 * time.Minute, 119 * time.Minute, 121 * time.Minute, 9 * time.Hour, 11 * time.Hour, 99 * 24 * time.Hour} {
						kn, life, bound, nstmt, age := kn, life, bound, nstmt, age
						key := fmt.Sprintf("sessionbound/key=%s/maxage=%s/SessionNotOnOrAfter=%s/authnstatements=%d/age=%s", kn, life, bound, nstmt, age)
						c.Case(key, func(t *core.T) {
							t.NonTrivial()
							pinAll(t0)
							m := c16Middleware(c16Dep{kn, "", life}, c16URL)
							eff := life
							if eff == 0 {
								eff = time.Hour
							}
							as := c16Assertion()
							if bound >= 0 {
								b := t0.Add(bound)
								as.AuthnStatements[0].SessionNotOnOrAfter = &b
							}
							if nstmt == 2 {
								far := t0.Add(200 * 24 * time.Hour)
								as.AuthnStatements = append(as.AuthnStatements, saml.AuthnStatement{SessionIndex: "idx-2", SessionNotOnOrAfter: &far})
							}
							rec := httptest.NewRecorder()
							if err := m.Session.CreateSession(rec, httptest.NewRequest("POST", c16URL+"/saml/acs", nil), as); err != nil {
								t.Outcome("create-fails")
								return
							}
							minted := ""
							for _, ck := range rec.Result().Cookies() {
								if ck.Name == "token" {
									minted = ck.Value
								}
							}
							pinAll(t0.Add(age))
							ran, code, _ := present(m, "token", minted)
							pinAll(t0)
							t.Impl(2)
							t.Compared()
							v := core.DontCare
							switch {
							case age > eff+time.Second:
								v = core.MustReject
							case age < eff-time.Second && (bound < 0 || age < bound-time.Second) && nstmt == 1:
								v = core.MustAccept
							}
							t.Modelled(v)
							t.Outcome(fmt.Sprintf("ran=%v", ran))
							if v == core.MustReject && ran {
								t.Fail("C16/lifetime/session-honoured-after-its-lifetime/idp-session-bound", "%s: honoured %s after creation although the session lifetime is %s (status %d)", key, age, eff, code)
							}
							if v == core.MustAccept && !ran {
								t.Fail("C16/lifetime/session-refused-within-its-lifetime", "%s: refused %s after creation although the lifetime is %s (status %d)", key, age, eff, code)
							}
						})
					}
				}
			}
		}
	}
}

// c16CrossDeployment: several SP deployments in ONE process (tenants, or a middleware rebuilt after a configuration change). Every
// sequence of <= 3 presentations of each deployment's own session token and tracking token to any of the deployments, in one case body:
// a deployment honours its own session token only, whatever was presented where before.
func c16CrossDeployment(c *core.Ctx, present func(m *samlsp.Middleware, cookieName, value string, extra ...*http.Cookie) (bool, int, samlsp.Session)) {
	c.Group("cross-deployment-sequences")
	t0 := samlgen.T0
	type depl struct {
		name, key, url string
	}
	sets := [][]depl{
		{{"A", "sp2048", c16URL}, {"B-other-key-same-url", "spother", c16URL}, {"C-same-key-other-url", "sp2048", "https://other-app.example.com"}},
		{{"A", "spec256", c16URL}, {"B-other-family-same-url", "sp2048", c16URL}, {"C-same-key-other-url", "spec256", "https://other-app.example.com"}},
		// one host, one key pair, deployments that differ only in the path (or port) of their root URL
		{{"A-path-hr", "spec256", "https://sso.example.com/hr/"}, {"B-same-key-path-wiki", "spec256", "https://sso.example.com/wiki/"}, {"C-same-key-other-port", "spec256", "https://sso.example.com:8443/hr/"}},
	}
	for si, set := range sets {
		n := len(set)
		// a step = (token of deployment i, kind) presented to deployment j
		type step struct{ tok, kind, to int }
		var steps []step
		for i := 0; i < n; i++ {
			for k := 0; k < 2; k++ {
				for j := 0; j < n; j++ {
					steps = append(steps, step{i, k, j})
				}
			}
		}
		maxLen := 3
		var seqs [][]int
		var gen func(cur []int)
		gen = func(cur []int) {
			if len(cur) > 0 {
				seqs = append(seqs, append([]int{}, cur...))
			}
			if len(cur) == maxLen {
				return
			}
			for i := range steps {
				gen(append(cur, i))
			}
		}
		gen(nil)
		// group sequences by their first step into one case each (5832 sequences per set are cheap: no RSA signing after minting)
		for first := range steps {
			si, set, first := si, set, first
			c.Case(fmt.Sprintf("crossdep/set=%d/first=token-of-%s-kind%d-to-%s", si, set[steps[first].tok].name, steps[first].kind, set[steps[first].to].name), func(t *core.T) {
				t.NonTrivial()
				pinAll(t0)
				nrun := 0
				reported := map[string]bool{}
				for _, sq := range seqs {
					if sq[0] != first || len(sq) < 2 {
						continue
					}
					// fresh deployments and tokens for every sequence
					var ms []*samlsp.Middleware
					var toks [][2]string
					for _, d := range set {
						m := c16Middleware(c16Dep{d.key, "", 0}, d.url)
						ms = append(ms, m)
						rec := httptest.NewRecorder()
						var pair [2]string
						if err := m.Session.CreateSession(rec, httptest.NewRequest("POST", d.url+"/saml/acs", nil), c16Assertion()); err == nil {
							for _, ck := range rec.Result().Cookies() {
								if ck.Name == "token" {
									pair[0] = ck.Value
								}
							}
						}
						rec2 := httptest.NewRecorder()
						if _, err := m.RequestTracker.TrackRequest(rec2, httptest.NewRequest("GET", d.url+"/protected", nil), "id-req-1"); err == nil {
							for _, ck := range rec2.Result().Cookies() {
								if strings.HasPrefix(ck.Name, "saml_") {
									pair[1] = ck.Value
								}
							}
						}
						toks = append(toks, pair)
					}
					var path []string
					for _, si := range sq {
						st := steps[si]
						path = append(path, fmt.Sprintf("%s's %s -> %s", set[st.tok].name, []string{"session-token", "tracking-token"}[st.kind], set[st.to].name))
						ran, _, _ := present(ms[st.to], "token", toks[st.tok][st.kind])
						nrun++
						should := st.tok == st.to && st.kind == 0
						if ran != should {
							f := "C16/cross-deployment/honours-foreign-or-wrong-token"
							if should {
								f = "C16/cross-deployment/refuses-own-session-token"
							}
							if !reported[f] {
								reported[f] = true
								t.Fail(f, "deployments %v in one process, history: %s: the last presentation ran the protected handler=%v, expected %v", []string{set[0].name, set[1].name, set[2].name}, strings.Join(path, " ; "), ran, should)
							}
						}
					}
				}
				t.Evals(nrun)
				t.Impl(nrun)
				t.Compared()
				t.Outcome("cross-deployment")
			})
		}
	}
}

// c16ReqShape is the HTTP request a token is presented with.
type c16ReqShape struct {
	name, method, path string
	hdr                map[string]string
}

var c16Shapes = []c16ReqShape{{"GET", "GET", "/protected", nil}, {"OPTIONS", "OPTIONS", "/protected", nil}, {"HEAD", "HEAD", "/protected", nil}, {"POST", "POST", "/protected", nil},
	{"PUT", "PUT", "/protected", nil}, {"DELETE", "DELETE", "/protected", nil}, {"PATCH", "PATCH", "/protected", nil}, {"TRACE", "TRACE", "/protected", nil},
	{"OPTIONS-preflight", "OPTIONS", "/protected", map[string]string{"Origin": "https://app.example.org", "Access-Control-Request-Method": "POST"}},
	{"GET-root", "GET", "/", nil}, {"GET-query", "GET", "/protected?SAMLResponse=x&RelayState=y", nil}, {"GET-xhr", "GET", "/protected", map[string]string{"X-Requested-With": "XMLHttpRequest", "Accept": "application/json"}},
	{"GET-upgrade", "GET", "/protected", map[string]string{"Connection": "Upgrade", "Upgrade": "websocket"}}, {"GET-bearer", "GET", "/protected", map[string]string{"Authorization": "Bearer x"}},
	{"GET-forwarded", "GET", "/protected", map[string]string{"X-Forwarded-For": "127.0.0.1", "X-Forwarded-User": "admin", "X-Remote-User": "admin"}},
	// paths that are the SP's own endpoints (the application may be mounted over everything)
	{"GET-slo-path", "GET", "/saml/slo", nil}, {"POST-slo-path", "POST", "/saml/slo", nil}, {"GET-metadata-path", "GET", "/saml/metadata", nil}, {"POST-slo-path-with-query", "POST", "/saml/slo?SAMLRequest=x", nil}}

var c16Shape = c16Shapes[0]

func c16Assertion() *saml.Assertion {
	return &saml.Assertion{Subject: &saml.Subject{NameID: &saml.NameID{Value: "alice@example.com"}},
		AttributeStatements: []saml.AttributeStatement{{Attributes: []saml.Attribute{{Name: "urn:oid:uid", FriendlyName: "uid", Values: []saml.AttributeValue{{Value: "alice"}}},
			{Name: "groups", Values: []saml.AttributeValue{{Value: "users"}, {Value: "admins"}}}}}},
		AuthnStatements: []saml.AuthnStatement{{SessionIndex: "idx-1"}}}
}

func normAttrs(m map[string][]string) map[string][]string {
	o := map[string][]string{}
	for k, v := range m {
		if len(v) > 0 {
			o[k] = append([]string{}, v...)
		}
	}
	keys := make([]string, 0, len(o))
	for k := range o {
		keys = append(keys, k)
	}
	sort.Strings(keys)
	return o
}
