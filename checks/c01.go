package checks

import (
	"crypto/x509"
	"encoding/xml"
	"fmt"
	"sort"
	"strings"
	"time"

	"github.com/beevik/etree"
	"github.com/crewjam/saml"
	dsig "github.com/russellhaering/goxmldsig"
	"github.com/russellhaering/goxmldsig/etreeutils"

	"verif/engine/core"
	"verif/engine/harness"
	"verif/engine/samlgen"
	"verif/engine/xenc"
)

// C01 — the SP returns an assertion only if a trusted IdP key signed its content.
//
// Explicit-state search over documents: initial states are genuinely signed
// messages; transitions are mutation operators an attacker without the IdP key
// can apply; every reachable document (to a depth bound) is presented to the real
// API under several trust configurations and entry points.

// ---------- content fingerprint (identity-bearing content of an assertion) ----------

func assertionFP(a *saml.Assertion) string {
	var sb strings.Builder
	fmt.Fprintf(&sb, "issuer=%q\n", a.Issuer.Value)
	if a.Subject != nil {
		if a.Subject.NameID != nil {
			n := a.Subject.NameID
			fmt.Fprintf(&sb, "nameid=%q fmt=%q nq=%q spnq=%q\n", n.Value, n.Format, n.NameQualifier, n.SPNameQualifier)
		}
		for _, sc := range a.Subject.SubjectConfirmations {
			fmt.Fprintf(&sb, "conf method=%q", sc.Method)
			if d := sc.SubjectConfirmationData; d != nil {
				fmt.Fprintf(&sb, " irt=%q rcpt=%q nooa=%s addr=%q", d.InResponseTo, d.Recipient, d.NotOnOrAfter.UTC().Format(time.RFC3339Nano), d.Address)
			}
			sb.WriteString("\n")
		}
	}
	if c := a.Conditions; c != nil {
		fmt.Fprintf(&sb, "cond nb=%s nooa=%s", c.NotBefore.UTC().Format(time.RFC3339Nano), c.NotOnOrAfter.UTC().Format(time.RFC3339Nano))
		for _, ar := range c.AudienceRestrictions {
			fmt.Fprintf(&sb, " aud=%q", ar.Audience.Value)
		}
		sb.WriteString("\n")
	}
	for _, as := range a.AuthnStatements {
		cr := ""
		if as.AuthnContext.AuthnContextClassRef != nil {
			cr = as.AuthnContext.AuthnContextClassRef.Value
		}
		fmt.Fprintf(&sb, "authn at=%s idx=%q ctx=%q\n", as.AuthnInstant.UTC().Format(time.RFC3339Nano), as.SessionIndex, cr)
	}
	for _, st := range a.AttributeStatements {
		sb.WriteString("attrstmt\n")
		for _, at := range st.Attributes {
			fmt.Fprintf(&sb, " attr name=%q fn=%q nf=%q", at.Name, at.FriendlyName, at.NameFormat)
			for _, v := range at.Values {
				fmt.Fprintf(&sb, " v=%q/%q", v.Type, v.Value)
				if v.NameID != nil {
					fmt.Fprintf(&sb, "/nid=%q", v.NameID.Value)
				}
			}
			sb.WriteString("\n")
		}
	}
	return sb.String()
}

// fpOfElement unmarshals a (detached) assertion element and fingerprints it.
func fpOfElement(el *etree.Element) (string, error) {
	det, err := detach(el)
	if err != nil {
		return "", err
	}
	b := samlgen.Doc(det)
	var a saml.Assertion
	if err := xml.Unmarshal(b, &a); err != nil {
		return "", err
	}
	return assertionFP(&a), nil
}

func detach(el *etree.Element) (*etree.Element, error) {
	ctx, err := etreeutils.NSBuildParentContext(el)
	if err != nil {
		return nil, err
	}
	ctx, err = ctx.SubContext(el)
	if err != nil {
		return nil, err
	}
	return etreeutils.NSDetatch(ctx, el)
}

// ---------- namespace-aware tree helpers ----------

func walk(el *etree.Element, f func(*etree.Element)) {
	f(el)
	for _, c := range el.ChildElements() {
		walk(c, f)
	}
}

func findNS(root *etree.Element, ns, tag string) []*etree.Element {
	var out []*etree.Element
	walk(root, func(e *etree.Element) {
		if e.Tag == tag && e.NamespaceURI() == ns {
			out = append(out, e)
		}
	})
	return out
}

func childNS(el *etree.Element, ns, tag string) []*etree.Element {
	var out []*etree.Element
	for _, c := range el.ChildElements() {
		if c.Tag == tag && c.NamespaceURI() == ns {
			out = append(out, c)
		}
	}
	return out
}

func byID(root *etree.Element, id string) *etree.Element {
	var r *etree.Element
	walk(root, func(e *etree.Element) {
		if r == nil && e.SelectAttrValue("ID", "\x00") == id {
			r = e
		}
	})
	return r
}

// ---------- reference ("naive") verifier for oracle (b) ----------

// validlySigned: el has a direct-child ds:Signature (namespace-aware) that verifies over el under roots.
func validlySigned(el *etree.Element, roots []*x509.Certificate, now time.Time) bool {
	sigs := childNS(el, samlgen.NSDsig, "Signature")
	if len(sigs) != 1 {
		return false
	}
	det, err := detach(el)
	if err != nil {
		return false
	}
	// a KeyInfo that names no certificate is not key material we trust or reject by: drop it (verification then falls back to the configured root)
	for _, s := range childNS(det, samlgen.NSDsig, "Signature") {
		ncert := 0
		for _, ki := range childNS(s, samlgen.NSDsig, "KeyInfo") { // only the signature's own KeyInfo, not certificates elsewhere under it (ds:Object)
			ncert += len(findNS(ki, samlgen.NSDsig, "X509Certificate"))
		}
		if ncert == 0 {
			for _, ki := range childNS(s, samlgen.NSDsig, "KeyInfo") {
				s.RemoveChild(ki)
			}
		}
	}
	vc := dsig.NewDefaultValidationContext(&dsig.MemoryX509CertificateStore{Roots: roots})
	vc.IdAttribute = "ID"
	vc.Clock = dsig.NewFakeClockAt(now)
	ok := false
	func() {
		defer func() { recover() }()
		_, err := vc.Validate(det)
		ok = err == nil
	}()
	return ok
}

// coveredFPs returns the fingerprints of every assertion element in doc that is itself validly
// signed or lies under a validly signed Response / ArtifactResponse (decrypting EncryptedAssertions with the SP key).
func coveredFPs(doc []byte, roots []*x509.Certificate, now time.Time) map[string]bool {
	out := map[string]bool{}
	d := etree.NewDocument()
	if err := d.ReadFromBytes(doc); err != nil || d.Root() == nil {
		return out
	}
	covered := func(el *etree.Element) bool {
		for c, p := el, el.Parent(); p != nil; c, p = p, p.Parent() {
			// c is the child of p on the way down to el; what sits inside p's own ds:Signature child is removed by the
			// enveloped-signature transform and so is not covered by p's signature
			viaOwnSignature := c.Tag == "Signature" && c.NamespaceURI() == samlgen.NSDsig
			if !viaOwnSignature && (p.Tag == "Response" || p.Tag == "ArtifactResponse") && p.NamespaceURI() == samlgen.NSProtocol && validlySigned(p, roots, now) {
				return true
			}
		}
		return false
	}
	for _, a := range findNS(d.Root(), samlgen.NSAssertion, "Assertion") {
		if validlySigned(a, roots, now) || covered(a) {
			if fp, err := fpOfElement(a); err == nil {
				out[fp] = true
			}
		}
	}
	for _, ea := range findNS(d.Root(), samlgen.NSAssertion, "EncryptedAssertion") {
		// the ciphertext of an EncryptedAssertion is its own EncryptedData child (not one nested deeper, e.g. inside another
		// EncryptedAssertion planted in it)
		eds := childNS(ea, xenc.NSXenc, "EncryptedData")
		if len(eds) == 0 {
			continue
		}
		ed := eds[0].Copy()
		// a sibling EncryptedKey is equivalent to one inside KeyInfo
		if ed.FindElement("./KeyInfo/EncryptedKey") == nil {
			for _, ek := range childNS(ea, xenc.NSXenc, "EncryptedKey") {
				ki := etree.NewElement("ds:KeyInfo")
				ki.CreateAttr("xmlns:ds", samlgen.NSDsig)
				ki.AddChild(ek.Copy())
				ed.InsertChildAt(1, ki)
				break
			}
		}
		pt, err := xenc.DecryptElement(spKey().Key, ed)
		if err != nil {
			continue
		}
		pd := etree.NewDocument()
		if pd.ReadFromBytes(pt) != nil || pd.Root() == nil {
			continue
		}
		r := pd.Root()
		if validlySigned(r, roots, now) || covered(ea) {
			if fp, err := fpOfElement(r); err == nil {
				out[fp] = true
			}
		}
	}
	return out
}

// ---------- pool ----------

type c01Pool struct {
	A, B, E     *samlgen.Assertion // alice (genuine), mallory (genuine, attacker's own account), evil (never signed by a trusted key)
	genuineFP   map[string]string  // fp -> who
	evilFP      string
	signedB     *etree.Element // B signed by idp1, standalone
	signedEatk  *etree.Element // E signed by attacker key
	signedEenc  *etree.Element // E signed by the IdP's encryption-use key
	unsignedE   *etree.Element
	signedEidp2 *etree.Element // E signed by idp2 (trusted only in meta2)
	signedStale *etree.Element // alice's assertion of a month ago, signed by idp1, same ID as A, long expired
}

func mkPool() *c01Pool {
	p := &c01Pool{genuineFP: map[string]string{}}
	p.A = samlgen.DefaultAssertion()
	p.B = samlgen.DefaultAssertion()
	p.B.ID = "id-assertion-mallory"
	p.B.NameID = samlgen.S("mallory@example.com")
	p.B.Attrs[0].Values = []string{"mallory"}
	p.E = samlgen.DefaultAssertion()
	p.E.ID = "id-evil"
	p.E.NameID = samlgen.S("admin@example.com")
	p.E.Attrs[0].Values = []string{"admin"}
	p.E.Attrs[1].Values = []string{"Administrators"}
	for who, a := range map[string]*samlgen.Assertion{"alice": p.A, "mallory": p.B} {
		fp, err := fpOfElement(a.Element())
		if err != nil {
			panic(err)
		}
		p.genuineFP[fp] = who
	}
	p.evilFP, _ = fpOfElement(p.E.Element())
	p.unsignedE = p.E.Element()
	p.signedB = p.B.Element()
	samlgen.Sign(p.signedB, idp1(), "")
	p.signedEatk = p.E.Element()
	samlgen.Sign(p.signedEatk, samlgen.Key("attacker"), "")
	p.signedEenc = p.E.Element()
	samlgen.Sign(p.signedEenc, samlgen.Key("idpenc"), "")
	p.signedEidp2 = p.E.Element()
	samlgen.Sign(p.signedEidp2, samlgen.Key("idp2"), "")
	// an old assertion of alice's, genuinely signed by the IdP long ago (captured then, expired since), under the same ID as A
	st := samlgen.DefaultAssertion()
	old := samlgen.TS(samlgen.T0.Add(-30 * 24 * time.Hour))
	oldEnd := samlgen.TS(samlgen.T0.Add(-30*24*time.Hour + 5*time.Minute))
	st.IssueInstant, st.NotBefore, st.NotOnOrAfter = samlgen.S(old), samlgen.S(old), samlgen.S(oldEnd)
	st.Confirmations[0].NotOnOrAfter = samlgen.S(oldEnd)
	if fp, err := fpOfElement(st.Element()); err == nil {
		p.genuineFP[fp] = "alice-a-month-ago"
	}
	p.signedStale = st.Element()
	samlgen.Sign(p.signedStale, idp1(), "")
	return p
}

// ---------- mutation operators ----------

type c01Op struct {
	name string
	f    func(root *etree.Element, p *c01Pool) bool // false = not applicable
}

func theResponse(root *etree.Element) *etree.Element {
	if r := findNS(root, samlgen.NSProtocol, "Response"); len(r) > 0 {
		return r[0]
	}
	return nil
}

func theA(root *etree.Element) *etree.Element { return byID(root, "id-assertion-1") }

func firstSig(el *etree.Element) *etree.Element {
	if s := childNS(el, samlgen.NSDsig, "Signature"); len(s) > 0 {
		return s[0]
	}
	return nil
}

func poolVariants(p *c01Pool) map[string]*etree.Element {
	return map[string]*etree.Element{"Eunsigned": p.unsignedE, "Eattacker": p.signedEatk, "Eenckey": p.signedEenc, "Bgenuine": p.signedB}
}

func c01Ops(p *c01Pool) []c01Op {
	var ops []c01Op
	add := func(name string, f func(root *etree.Element, p *c01Pool) bool) { ops = append(ops, c01Op{name, f}) }

	// 1. insert a pool assertion at an anchor
	variants := poolVariants(p)
	var vnames []string
	for k := range variants {
		vnames = append(vnames, k)
	}
	sort.Strings(vnames)
	type anchor struct {
		name string
		f    func(root *etree.Element, x *etree.Element) bool
	}
	anchors := []anchor{
		{"before-A", func(root, x *etree.Element) bool {
			a := theA(root)
			if a == nil || a.Parent() == nil {
				return false
			}
			a.Parent().InsertChildAt(a.Index(), x)
			return true
		}},
		{"after-A", func(root, x *etree.Element) bool {
			a := theA(root)
			if a == nil || a.Parent() == nil {
				return false
			}
			a.Parent().InsertChildAt(a.Index()+1, x)
			return true
		}},
		{"first-in-Response", func(root, x *etree.Element) bool {
			r := theResponse(root)
			if r == nil {
				return false
			}
			r.InsertChildAt(0, x)
			return true
		}},
		{"last-in-Response", func(root, x *etree.Element) bool {
			r := theResponse(root)
			if r == nil {
				return false
			}
			r.AddChild(x)
			return true
		}},
		{"in-Extensions", func(root, x *etree.Element) bool {
			r := theResponse(root)
			if r == nil {
				return false
			}
			ext := etree.NewElement("samlp:Extensions")
			ext.AddChild(x)
			idx := 0
			for _, c := range r.ChildElements() {
				if c.Tag == "Issuer" || c.Tag == "Signature" {
					idx = c.Index() + 1
				}
			}
			r.InsertChildAt(idx, ext)
			return true
		}},
		{"in-A-Signature-Object", func(root, x *etree.Element) bool {
			a := theA(root)
			if a == nil || firstSig(a) == nil {
				return false
			}
			firstSig(a).CreateElement("ds:Object").AddChild(x)
			return true
		}},
		{"in-Response-Signature-Object", func(root, x *etree.Element) bool {
			r := theResponse(root)
			if r == nil || firstSig(r) == nil {
				return false
			}
			firstSig(r).CreateElement("ds:Object").AddChild(x)
			return true
		}},
		{"in-A-Advice", func(root, x *etree.Element) bool {
			a := theA(root)
			if a == nil {
				return false
			}
			a.CreateElement("saml:Advice").AddChild(x)
			return true
		}},
	}
	for _, vn := range vnames {
		for _, an := range anchors {
			vn, an := vn, an
			add("insert/"+vn+"/"+an.name, func(root *etree.Element, p *c01Pool) bool { return an.f(root, variants[vn].Copy()) })
		}
	}

	// 3. wrap: evil assertion takes A's place and carries A inside
	for _, where := range []string{"last-child", "Advice", "Signature-Object", "Subject"} {
		for _, sameID := range []bool{false, true} {
			where, sameID := where, sameID
			add(fmt.Sprintf("wrap-A-in-E/%s/sameID=%v", where, sameID), func(root *etree.Element, p *c01Pool) bool {
				a := theA(root)
				if a == nil || a.Parent() == nil {
					return false
				}
				par, idx := a.Parent(), a.Index()
				par.RemoveChild(a)
				e := p.unsignedE.Copy()
				if sameID {
					e.CreateAttr("ID", a.SelectAttrValue("ID", ""))
					a.CreateAttr("ID", "id-moved")
				}
				switch where {
				case "last-child":
					e.AddChild(a)
				case "Advice":
					e.CreateElement("saml:Advice").AddChild(a)
				case "Signature-Object":
					s := etree.NewElement("ds:Signature")
					s.CreateAttr("xmlns:ds", samlgen.NSDsig)
					s.CreateElement("ds:Object").AddChild(a)
					e.InsertChildAt(1, s)
				case "Subject":
					if sub := e.FindElement("./Subject"); sub != nil {
						sub.AddChild(a)
					}
				}
				if sameID {
					a.CreateAttr("ID", "id-assertion-1")
				}
				par.InsertChildAt(idx, e)
				return true
			})
		}
	}
	// evil Response wraps the genuine Response
	for _, where := range []string{"Extensions", "last-child", "Signature-Object"} {
		where := where
		add("wrap-Response-in-evil-Response/"+where, func(root *etree.Element, p *c01Pool) bool {
			r := theResponse(root)
			if r == nil {
				return false
			}
			par := r.Parent()
			idx := 0
			if par != nil {
				idx = r.Index()
				par.RemoveChild(r)
			}
			er := samlgen.DefaultResponse()
			er.ID = "id-evil-response"
			ev := er.Element()
			ev.AddChild(p.unsignedE.Copy())
			inner := r.Copy()
			switch where {
			case "Extensions":
				ext := etree.NewElement("samlp:Extensions")
				ext.AddChild(inner)
				ev.InsertChildAt(1, ext)
			case "last-child":
				ev.AddChild(inner)
			case "Signature-Object":
				s := etree.NewElement("ds:Signature")
				s.CreateAttr("xmlns:ds", samlgen.NSDsig)
				s.CreateElement("ds:Object").AddChild(inner)
				ev.InsertChildAt(1, s)
			}
			if par != nil {
				par.InsertChildAt(idx, ev)
			} else {
				// root replacement: copy ev into root
				root.Space, root.Tag, root.Attr, root.Child = ev.Space, ev.Tag, ev.Attr, nil
				for _, ch := range ev.Child {
					root.AddChild(ch)
				}
			}
			return true
		})
	}

	// 2. signature moves / copies
	add("copy-A-signature-into-other-assertions", func(root *etree.Element, p *c01Pool) bool {
		a := theA(root)
		if a == nil || firstSig(a) == nil {
			return false
		}
		n := 0
		for _, x := range findNS(root, samlgen.NSAssertion, "Assertion") {
			if x != a && firstSig(x) == nil {
				samlgen.InsertSignature(x, firstSig(a).Copy())
				n++
			}
		}
		return n > 0
	})
	add("move-A-signature-into-other-assertions", func(root *etree.Element, p *c01Pool) bool {
		a := theA(root)
		if a == nil || firstSig(a) == nil {
			return false
		}
		s := firstSig(a)
		n := 0
		for _, x := range findNS(root, samlgen.NSAssertion, "Assertion") {
			if x != a && firstSig(x) == nil {
				samlgen.InsertSignature(x, s.Copy())
				n++
			}
		}
		if n > 0 {
			a.RemoveChild(s)
		}
		return n > 0
	})
	add("copy-Response-signature-into-assertions", func(root *etree.Element, p *c01Pool) bool {
		r := theResponse(root)
		if r == nil || firstSig(r) == nil {
			return false
		}
		n := 0
		for _, x := range findNS(root, samlgen.NSAssertion, "Assertion") {
			if firstSig(x) == nil {
				samlgen.InsertSignature(x, firstSig(r).Copy())
				n++
			}
		}
		return n > 0
	})
	add("copy-A-signature-onto-Response", func(root *etree.Element, p *c01Pool) bool {
		a, r := theA(root), theResponse(root)
		if a == nil || r == nil || firstSig(a) == nil || firstSig(r) != nil {
			return false
		}
		samlgen.InsertSignature(r, firstSig(a).Copy())
		return true
	})
	add("copy-B-signature-into-unsigned-assertions", func(root *etree.Element, p *c01Pool) bool {
		n := 0
		for _, x := range findNS(root, samlgen.NSAssertion, "Assertion") {
			if firstSig(x) == nil {
				samlgen.InsertSignature(x, firstSig(p.signedB).Copy())
				n++
			}
		}
		return n > 0
	})

	// 4. ID edits
	add("evil-IDs-become-A-ID", func(root *etree.Element, p *c01Pool) bool {
		n := 0
		walk(root, func(e *etree.Element) {
			if e.SelectAttrValue("ID", "") == "id-evil" {
				e.CreateAttr("ID", "id-assertion-1")
				n++
			}
		})
		return n > 0
	})
	add("evil-IDs-become-B-ID", func(root *etree.Element, p *c01Pool) bool {
		n := 0
		walk(root, func(e *etree.Element) {
			if e.SelectAttrValue("ID", "") == "id-evil" {
				e.CreateAttr("ID", "id-assertion-mallory")
				n++
			}
		})
		return n > 0
	})
	add("A-ID-changed", func(root *etree.Element, p *c01Pool) bool {
		a := theA(root)
		if a == nil {
			return false
		}
		a.CreateAttr("ID", "id-renamed")
		return true
	})
	add("A-ID-removed", func(root *etree.Element, p *c01Pool) bool {
		a := theA(root)
		if a == nil {
			return false
		}
		a.RemoveAttr("ID")
		return true
	})
	add("all-Reference-URIs-emptied", func(root *etree.Element, p *c01Pool) bool {
		refs := findNS(root, samlgen.NSDsig, "Reference")
		for _, r := range refs {
			r.CreateAttr("URI", "")
		}
		return len(refs) > 0
	})
	add("evil-Reference-URIs-point-to-A", func(root *etree.Element, p *c01Pool) bool {
		n := 0
		for _, r := range findNS(root, samlgen.NSDsig, "Reference") {
			if r.SelectAttrValue("URI", "") == "#id-evil" {
				r.CreateAttr("URI", "#id-assertion-1")
				n++
			}
		}
		return n > 0
	})

	// 5. KeyInfo edits on every signature
	keyInfoOp := func(name string, f func(sig, ki *etree.Element)) {
		add("keyinfo/"+name, func(root *etree.Element, p *c01Pool) bool {
			sigs := findNS(root, samlgen.NSDsig, "Signature")
			n := 0
			for _, s := range sigs {
				kis := childNS(s, samlgen.NSDsig, "KeyInfo")
				if len(kis) == 0 {
					continue
				}
				f(s, kis[0])
				n++
			}
			return n > 0
		})
	}
	atk := samlgen.Key("attacker").CertB64
	keyInfoOp("drop", func(s, ki *etree.Element) { s.RemoveChild(ki) })
	keyInfoOp("swap-cert-for-attacker", func(s, ki *etree.Element) {
		for _, c := range findNS(ki, samlgen.NSDsig, "X509Certificate") {
			c.SetText(atk)
		}
	})
	keyInfoOp("attacker-cert-first", func(s, ki *etree.Element) {
		for _, xd := range findNS(ki, samlgen.NSDsig, "X509Data") {
			c := etree.NewElement("ds:X509Certificate")
			c.SetText(atk)
			xd.InsertChildAt(0, c)
		}
	})
	keyInfoOp("trusted-cert-first", func(s, ki *etree.Element) {
		for _, xd := range findNS(ki, samlgen.NSDsig, "X509Data") {
			c := etree.NewElement("ds:X509Certificate")
			c.SetText(idp1().CertB64)
			xd.InsertChildAt(0, c)
		}
	})
	keyInfoOp("trusted-cert-last", func(s, ki *etree.Element) {
		for _, xd := range findNS(ki, samlgen.NSDsig, "X509Data") {
			xd.CreateElement("ds:X509Certificate").SetText(idp1().CertB64)
		}
	})
	keyInfoOp("keyname-only", func(s, ki *etree.Element) {
		ki.Child = nil
		ki.CreateElement("ds:KeyName").SetText("idp1")
	})
	keyInfoOp("second-keyinfo-trusted", func(s, ki *etree.Element) {
		k2 := etree.NewElement("ds:KeyInfo")
		k2.CreateElement("ds:X509Data").CreateElement("ds:X509Certificate").SetText(idp1().CertB64)
		s.InsertChildAt(ki.Index(), k2)
	})
	keyInfoOp("cert-whitespace", func(s, ki *etree.Element) {
		for _, c := range findNS(ki, samlgen.NSDsig, "X509Certificate") {
			t := c.Text()
			c.SetText("\n" + t[:len(t)/2] + "\n" + t[len(t)/2:] + "\n")
		}
	})

	// re-sign A (after whatever was done to it) with a key the attacker holds
	// ("lookalike1" is an attacker key under a certificate that copies every name-like field of the IdP's: subject, issuer, serial,
	// validity, subject and authority key identifiers)
	for _, kn := range []string{"attacker", "idpenc", "lookalike1", "wikileaf"} {
		kn := kn
		add("resign-A-with-"+kn, func(root *etree.Element, p *c01Pool) bool {
			a := theA(root)
			if a == nil {
				return false
			}
			for _, s := range childNS(a, samlgen.NSDsig, "Signature") {
				a.RemoveChild(s)
			}
			samlgen.Sign(a, samlgen.Key(kn), "")
			return true
		})
		add("resign-Response-with-"+kn, func(root *etree.Element, p *c01Pool) bool {
			r := theResponse(root)
			if r == nil {
				return false
			}
			for _, s := range childNS(r, samlgen.NSDsig, "Signature") {
				r.RemoveChild(s)
			}
			samlgen.Sign(r, samlgen.Key(kn), "")
			return true
		})
		add("sign-unsigned-assertions-with-"+kn, func(root *etree.Element, p *c01Pool) bool {
			n := 0
			for _, x := range findNS(root, samlgen.NSAssertion, "Assertion") {
				if firstSig(x) == nil {
					samlgen.Sign(x, samlgen.Key(kn), "")
					n++
				}
			}
			return n > 0
		})
	}

	// 11. content edits (tampering)
	add("tamper/A-NameID-to-admin", func(root *etree.Element, p *c01Pool) bool {
		a := theA(root)
		if a == nil {
			return false
		}
		n := a.FindElement("./Subject/NameID")
		if n == nil {
			return false
		}
		n.SetText("admin@example.com")
		return true
	})
	add("tamper/A-attribute-value", func(root *etree.Element, p *c01Pool) bool {
		a := theA(root)
		if a == nil {
			return false
		}
		v := a.FindElement("./AttributeStatement/Attribute/AttributeValue")
		if v == nil {
			return false
		}
		v.SetText("admin")
		return true
	})
	add("tamper/A-add-attribute", func(root *etree.Element, p *c01Pool) bool {
		a := theA(root)
		if a == nil {
			return false
		}
		st := a.FindElement("./AttributeStatement")
		if st == nil {
			return false
		}
		at := st.CreateElement("saml:Attribute")
		at.CreateAttr("Name", "role")
		at.CreateElement("saml:AttributeValue").SetText("superuser")
		return true
	})
	add("tamper/A-add-second-NameID-first", func(root *etree.Element, p *c01Pool) bool {
		a := theA(root)
		if a == nil {
			return false
		}
		sub := a.FindElement("./Subject")
		if sub == nil {
			return false
		}
		n := etree.NewElement("saml:NameID")
		n.SetText("admin@example.com")
		sub.InsertChildAt(0, n)
		return true
	})

	// 6. canonicalisation-invariant edits inside signed content
	nameIDText := func(f func(n *etree.Element)) func(root *etree.Element, p *c01Pool) bool {
		return func(root *etree.Element, p *c01Pool) bool {
			a := theA(root)
			if a == nil {
				return false
			}
			n := a.FindElement("./Subject/NameID")
			if n == nil {
				return false
			}
			f(n)
			return true
		}
	}
	add("c14n/comment-inside-NameID", nameIDText(func(n *etree.Element) {
		t := n.Text()
		n.Child = nil
		n.CreateText(t[:5])
		n.CreateComment(" x ")
		n.CreateText(t[5:])
	}))
	add("c14n/comment-before-NameID-text", nameIDText(func(n *etree.Element) {
		t := n.Text()
		n.Child = nil
		n.CreateComment("x")
		n.CreateText(t)
	}))
	add("c14n/comment-after-NameID-text", nameIDText(func(n *etree.Element) {
		n.CreateComment("x")
	}))
	add("c14n/NameID-as-CDATA", nameIDText(func(n *etree.Element) {
		t := n.Text()
		n.Child = nil
		n.CreateCData(t)
	}))
	add("c14n/pi-inside-NameID", nameIDText(func(n *etree.Element) {
		t := n.Text()
		n.Child = nil
		n.CreateText(t[:5])
		n.CreateProcInst("x", "y")
		n.CreateText(t[5:])
	}))
	add("c14n/comment-inside-AttributeValue", func(root *etree.Element, p *c01Pool) bool {
		a := theA(root)
		if a == nil {
			return false
		}
		v := a.FindElement("./AttributeStatement/Attribute/AttributeValue")
		if v == nil {
			return false
		}
		t := v.Text()
		v.Child = nil
		v.CreateText(t[:2])
		v.CreateComment("")
		v.CreateText(t[2:])
		return true
	})
	add("c14n/comment-inside-Audience+Issuer", func(root *etree.Element, p *c01Pool) bool {
		a := theA(root)
		if a == nil {
			return false
		}
		n := 0
		for _, path := range []string{"./Conditions/AudienceRestriction/Audience", "./Issuer"} {
			if v := a.FindElement(path); v != nil {
				t := v.Text()
				v.Child = nil
				v.CreateText(t[:8])
				v.CreateComment("c")
				v.CreateText(t[8:])
				n++
			}
		}
		return n > 0
	})
	add("c14n/superfluous-xmlns-on-A", func(root *etree.Element, p *c01Pool) bool {
		a := theA(root)
		if a == nil {
			return false
		}
		a.CreateAttr("xmlns:unused", "urn:example:unused")
		return true
	})
	add("c14n/sort-attrs-of-A", func(root *etree.Element, p *c01Pool) bool {
		a := theA(root)
		if a == nil {
			return false
		}
		a.SortAttrs()
		return true
	})
	add("c14n/whitespace-between-A-children", func(root *etree.Element, p *c01Pool) bool {
		a := theA(root)
		if a == nil || len(a.ChildElements()) < 2 {
			return false
		}
		a.InsertChildAt(1, etree.NewText("\n  "))
		return true
	})

	// 7. namespace games on unsigned wrappers
	add("ns/foreign-Signature-lookalike-with-trusted-cert-first", func(root *etree.Element, p *c01Pool) bool {
		n := 0
		for _, x := range findNS(root, samlgen.NSAssertion, "Assertion") {
			d := etree.NewElement("decoy:Signature")
			d.CreateAttr("xmlns:decoy", "urn:example:decoy")
			d.CreateElement("decoy:KeyInfo").CreateElement("decoy:X509Data").CreateElement("decoy:X509Certificate").SetText(idp1().CertB64)
			x.InsertChildAt(0, d)
			n++
		}
		if r := theResponse(root); r != nil {
			d := etree.NewElement("decoy:Signature")
			d.CreateAttr("xmlns:decoy", "urn:example:decoy")
			d.CreateElement("decoy:KeyInfo").CreateElement("decoy:X509Data").CreateElement("decoy:X509Certificate").SetText(idp1().CertB64)
			r.InsertChildAt(0, d)
			n++
		}
		return n > 0
	})
	add("ns/rebind-ds-prefix-on-evil-signatures", func(root *etree.Element, p *c01Pool) bool {
		n := 0
		for _, s := range findNS(root, samlgen.NSDsig, "Signature") {
			if par := s.Parent(); par != nil && par.SelectAttrValue("ID", "") == "id-evil" {
				s.CreateAttr("xmlns:ds", "urn:example:not-dsig")
				n++
			}
		}
		return n > 0
	})
	add("ns/evil-assertion-in-foreign-namespace", func(root *etree.Element, p *c01Pool) bool {
		n := 0
		walk(root, func(e *etree.Element) {
			if e.SelectAttrValue("ID", "") == "id-evil" && e.Tag == "Assertion" {
				e.CreateAttr("xmlns:saml", "urn:example:not-saml")
				n++
			}
		})
		return n > 0
	})
	add("ns/default-namespace-on-Response", func(root *etree.Element, p *c01Pool) bool {
		r := theResponse(root)
		if r == nil {
			return false
		}
		r.CreateAttr("xmlns", samlgen.NSAssertion)
		return true
	})
	add("ns/A-Signature-renamed-to-foreign", func(root *etree.Element, p *c01Pool) bool {
		a := theA(root)
		if a == nil || firstSig(a) == nil {
			return false
		}
		s := firstSig(a)
		s.Space = "x"
		s.CreateAttr("xmlns:x", "urn:example:foreign")
		return true
	})

	// 7b. prefix games across the whole document: the library re-serialises elements with every prefix re-declared on the root
	// (elementToBytes), so a prefix bound differently in two places can make the two parsers (etree / encoding/xml) disagree.
	for _, where := range []string{"first", "last"} {
		where := where
		add("ns/evil-assertion-under-prefix-x-bound-to-foreign-on-Response/"+where, func(root *etree.Element, p *c01Pool) bool {
			r := theResponse(root)
			if r == nil {
				return false
			}
			e := p.unsignedE.Copy()
			e.Space = "x" // only the element itself: its children keep the saml prefix declared on it
			r.CreateAttr("xmlns:x", "urn:example:foreign")
			if where == "first" {
				r.InsertChildAt(0, e)
			} else {
				r.AddChild(e)
			}
			return true
		})
	}
	for _, pfx := range []struct{ prefix, uri string }{{"x", samlgen.NSAssertion}, {"saml", "urn:example:foreign"}, {"samlp", "urn:example:foreign"}, {"ds", "urn:example:foreign"}} {
		pfx := pfx
		add("ns/trailing-element-rebinds-prefix-"+pfx.prefix, func(root *etree.Element, p *c01Pool) bool {
			r := theResponse(root)
			if r == nil {
				return false
			}
			pad := etree.NewElement(pfx.prefix + ":Pad")
			pad.CreateAttr("xmlns:"+pfx.prefix, pfx.uri)
			r.AddChild(pad)
			return true
		})
	}

	// 8. encryption by the attacker to the SP's public certificate
	encryptEl := func(x *etree.Element, pre, post string, seed string) *etree.Element {
		det, err := detach(x)
		if err != nil {
			det = x.Copy()
		}
		pt := pre + string(samlgen.Doc(det)) + post
		return harness.EncryptAssertionEl([]byte(pt), spKey(), seed)
	}
	for _, which := range []string{"A", "evil", "all"} {
		for _, junk := range []string{"", "trailing-evil", "leading-comment", "trailing-x::y", "leading-evil"} {
			which, junk := which, junk
			add("encrypt/"+which+"/"+junk, func(root *etree.Element, p *c01Pool) bool {
				n := 0
				for i, x := range findNS(root, samlgen.NSAssertion, "Assertion") {
					id := x.SelectAttrValue("ID", "")
					if which == "A" && id != "id-assertion-1" || which == "evil" && id != "id-evil" {
						continue
					}
					if x.Parent() == nil || x.Parent().Tag != "Response" {
						continue
					}
					pre, post := "", ""
					ev := string(samlgen.Doc(p.unsignedE.Copy()))
					switch junk {
					case "trailing-evil":
						post = ev
					case "leading-evil":
						pre = ev
					case "leading-comment":
						pre = "<!-- c --><?pi x?>"
					case "trailing-x::y":
						post = "<x::y/>"
					}
					ea := encryptEl(x, pre, post, fmt.Sprint(which, junk, i))
					par, idx := x.Parent(), x.Index()
					par.RemoveChild(x)
					par.InsertChildAt(idx, ea)
					n++
				}
				return n > 0
			})
		}
	}

	// 8b. a ciphertext of the attacker's own (the evil assertion encrypted to the SP's public certificate) planted where no signature covers
	// it - inside a Signature element (the enveloped transform removes that), inside its Object, before / after everything else in the
	// Response - as a bare EncryptedData and as a whole EncryptedAssertion: whatever the SP decrypts must be the ciphertext inside the
	// EncryptedAssertion it is processing
	for _, whole := range []bool{false, true} {
		for _, where := range []string{"Signature-first", "Signature-last", "Signature-Object", "Response-first", "Response-last", "EncryptedAssertion-first"} {
			whole, where := whole, where
			nm := "bare-EncryptedData"
			if whole {
				nm = "EncryptedAssertion"
			}
			add("plant-attacker-ciphertext/"+nm+"/"+where, func(root *etree.Element, p *c01Pool) bool {
				var planted *etree.Element = encryptEl(p.unsignedE, "", "", "plant"+where)
				if !whole {
					eds := findNS(planted, "http://www.w3.org/2001/04/xmlenc#", "EncryptedData")
					if len(eds) == 0 {
						return false
					}
					planted = eds[0].Copy()
					planted.CreateAttr("xmlns:xenc", "http://www.w3.org/2001/04/xmlenc#")
					planted.CreateAttr("xmlns:ds", samlgen.NSDsig)
				}
				r := theResponse(root)
				if r == nil {
					return false
				}
				n := 0
				switch where {
				case "Signature-first", "Signature-last", "Signature-Object":
					for _, sg := range findNS(root, samlgen.NSDsig, "Signature") {
						switch where {
						case "Signature-first":
							sg.InsertChildAt(0, planted.Copy())
						case "Signature-last":
							sg.AddChild(planted.Copy())
						default:
							sg.CreateElement("ds:Object").AddChild(planted.Copy())
						}
						n++
					}
				case "Response-first":
					r.InsertChildAt(0, planted)
					n++
				case "Response-last":
					r.AddChild(planted)
					n++
				case "EncryptedAssertion-first":
					for _, ea := range findNS(root, samlgen.NSAssertion, "EncryptedAssertion") {
						ea.InsertChildAt(0, planted.Copy())
						n++
					}
				}
				return n > 0
			})
		}
	}

	// 9. deletions
	add("delete/all-signatures", func(root *etree.Element, p *c01Pool) bool {
		sigs := findNS(root, samlgen.NSDsig, "Signature")
		for _, s := range sigs {
			if s.Parent() != nil {
				s.Parent().RemoveChild(s)
			}
		}
		return len(sigs) > 0
	})
	add("delete/Response-signature", func(root *etree.Element, p *c01Pool) bool {
		r := theResponse(root)
		if r == nil || firstSig(r) == nil {
			return false
		}
		r.RemoveChild(firstSig(r))
		return true
	})
	add("delete/A-signature", func(root *etree.Element, p *c01Pool) bool {
		a := theA(root)
		if a == nil || firstSig(a) == nil {
			return false
		}
		a.RemoveChild(firstSig(a))
		return true
	})
	for _, part := range []string{"Conditions", "Subject", "AttributeStatement", "Issuer", "AuthnStatement"} {
		part := part
		add("delete/A-"+part, func(root *etree.Element, p *c01Pool) bool {
			a := theA(root)
			if a == nil {
				return false
			}
			x := a.FindElement("./" + part)
			if x == nil {
				return false
			}
			a.RemoveChild(x)
			return true
		})
	}
	add("delete/truncate-SignatureValues", func(root *etree.Element, p *c01Pool) bool {
		vs := findNS(root, samlgen.NSDsig, "SignatureValue")
		for _, v := range vs {
			t := v.Text()
			if len(t) > 8 {
				v.SetText(t[:len(t)-8])
			}
		}
		return len(vs) > 0
	})
	add("delete/empty-DigestValues", func(root *etree.Element, p *c01Pool) bool {
		vs := findNS(root, samlgen.NSDsig, "DigestValue")
		for _, v := range vs {
			v.SetText("")
		}
		return len(vs) > 0
	})

	// 10. duplicate direct-child signatures
	for _, order := range []string{"attacker-first", "trusted-first"} {
		order := order
		add("dup-signature-on-A/"+order, func(root *etree.Element, p *c01Pool) bool {
			a := theA(root)
			if a == nil || firstSig(a) == nil {
				return false
			}
			s := firstSig(p.signedEatk).Copy()
			if order == "attacker-first" {
				a.InsertChildAt(firstSig(a).Index(), s)
			} else {
				a.InsertChildAt(firstSig(a).Index()+1, s)
			}
			return true
		})
	}
	// the same on the Response, and Signature children that are mere shells: more than one ds:Signature child is an error of the message,
	// never a reason to skip the verification
	for _, order := range []string{"attacker-first", "trusted-first"} {
		order := order
		add("dup-signature-on-Response/"+order, func(root *etree.Element, p *c01Pool) bool {
			r := theResponse(root)
			if r == nil || firstSig(r) == nil {
				return false
			}
			s := firstSig(p.signedEatk).Copy()
			if order == "attacker-first" {
				r.InsertChildAt(firstSig(r).Index(), s)
			} else {
				r.InsertChildAt(firstSig(r).Index()+1, s)
			}
			return true
		})
	}
	for _, n := range []int{1, 2} {
		for _, where := range []string{"Response", "A"} {
			n, where := n, where
			add(fmt.Sprintf("empty-signature-shells/%d-on-%s", n, where), func(root *etree.Element, p *c01Pool) bool {
				var target *etree.Element
				if where == "Response" {
					target = theResponse(root)
				} else {
					target = theA(root)
				}
				if target == nil {
					return false
				}
				at := 1
				if len(target.ChildElements()) == 0 {
					at = 0
				}
				for i := 0; i < n; i++ {
					sh := etree.NewElement("ds:Signature")
					sh.CreateAttr("xmlns:ds", samlgen.NSDsig)
					target.InsertChildAt(at, sh)
				}
				return true
			})
		}
	}
	// a verified signature vouches for the element it is on, not for another element that shares its ID: an expired but genuinely signed
	// assertion followed (or preceded) by an unsigned twin of the same ID
	for _, order := range []string{"stale-first", "evil-first"} {
		order := order
		add("replace-A-with-stale-genuine+evil-twin-of-the-same-ID/"+order, func(root *etree.Element, p *c01Pool) bool {
			a := theA(root)
			if a == nil || a.Parent() == nil || a.Parent().Tag != "Response" {
				return false
			}
			par, idx := a.Parent(), a.Index()
			par.RemoveChild(a)
			evil := p.unsignedE.Copy()
			evil.CreateAttr("ID", "id-assertion-1")
			if order == "stale-first" {
				par.InsertChildAt(idx, evil)
				par.InsertChildAt(idx, p.signedStale.Copy())
			} else {
				par.InsertChildAt(idx, p.signedStale.Copy())
				par.InsertChildAt(idx, evil)
			}
			return true
		})
	}
	// a signature made by the attacker that names an algorithm no verifier implements, under the (public) trusted certificate: not verifiable
	// is not verified
	for _, where := range []string{"Response", "A"} {
		for _, alg := range []string{"http://www.w3.org/2007/05/xmldsig-more#sha256-rsa-MGF1", "urn:example:no-such-signature-method", ""} {
			where, alg := where, alg
			add("attacker-signature+trusted-cert+unknown-method/"+where+"/"+alg[strings.LastIndexAny(alg, "#:")+1:], func(root *etree.Element, p *c01Pool) bool {
				target := theResponse(root)
				if where == "A" {
					target = theA(root)
				}
				if target == nil {
					return false
				}
				for _, sg := range childNS(target, samlgen.NSDsig, "Signature") {
					target.RemoveChild(sg)
				}
				sg := samlgen.Sign(target, samlgen.Key("attacker"), "")
				for _, x := range findNS(sg, samlgen.NSDsig, "X509Certificate") {
					x.SetText(idp1().CertB64)
				}
				for _, sm := range findNS(sg, samlgen.NSDsig, "SignatureMethod") {
					sm.CreateAttr("Algorithm", alg)
				}
				return true
			})
		}
	}
	add("replace-A-with-evil", func(root *etree.Element, p *c01Pool) bool {
		a := theA(root)
		if a == nil || a.Parent() == nil {
			return false
		}
		par, idx := a.Parent(), a.Index()
		par.RemoveChild(a)
		par.InsertChildAt(idx, p.unsignedE.Copy())
		return true
	})
	return ops
}

// ---------- trust configurations ----------

type c01Trust struct {
	name  string
	roots []string // key fixture names trusted
}

var c01Trusts = []c01Trust{
	{"meta2", []string{"idp2", "idp1"}},
	{"fingerprint", []string{"idp1"}},
	{"meta1", []string{"idp1"}},
	{"pinned", []string{"idp1"}},
}

// IdP metadata that publishes no usable signing key (an encryption key only / an empty signing descriptor): nothing may be accepted.
var c01NoKeyTrusts = []c01Trust{{"metaenconly", nil}, {"metaemptysign", nil}, {"verifier-rejecting", nil}}

// IdP metadata in key rollover: next to (or instead of) the current certificate it lists certificates that are outside their validity
// window on the validation clock - "idpnext" becomes valid one minute after T0 (inside the default clock-skew allowance), "idpfar" an
// hour after, "idpold" expired one minute before T0, "idpancient" ten years before. The reference verifier is given all listed
// certificates as roots and, like any X.509 verifier, accepts none of them outside its window.
var c01WindowTrusts = []c01Trust{
	{"metacerts:idp1,idpnext", []string{"idp1", "idpnext"}},
	{"metacerts:idpnext", []string{"idpnext"}},
	{"metacerts:idpold,idpnext", []string{"idpold", "idpnext"}},
	{"metacerts:idp1,idpold,idpfar,idpancient", []string{"idp1", "idpold", "idpfar", "idpancient"}},
	// metadata that publishes the chain: the signing certificate and the CA that issued it. Only those two certificates are trusted -
	// not everything else that CA ever issued ("wikileaf" is another leaf of the same CA, key held by the attacker)
	{"metacerts:idp1,idpca", []string{"idp1", "idpca"}},
	{"metacerts:idpcaleaf,idpca", []string{"idpcaleaf", "idpca"}},
}

// c01FingerprintSpellings: see the group of that name.
var c01FingerprintSpellings = func() []c01Trust {
	var out []c01Trust
	for _, v := range []string{"openssl-line", "algorithm-prefix", "0x-prefix", "base64", "empty", "first-8-octets", "not-hex", "lower-case", "no-colons", "blank-padded", "one-colon"} {
		out = append(out, c01Trust{"fingerprint-spelt:" + v, []string{"idp1"}})
	}
	return out
}()

func rootsOf(t c01Trust) []*x509.Certificate {
	var r []*x509.Certificate
	for _, n := range t.roots {
		r = append(r, samlgen.Key(n).Cert)
	}
	return r
}

func init() {
	Register(&Check{
		ID:     "C01",
		Engine: "bfs",
		Rule: "explicit-state search over documents: initial states = harness-signed responses (layouts R, A, RA, none; plaintext and IdP-encrypted); transitions = ~120 mutation-operator instances (insert unsigned/attacker-signed/encryption-key-signed/second-genuine assertions at 8 anchors, XSW wraps, signature moves/copies, ID and Reference edits, KeyInfo edits, re-signing with attacker and encryption-use keys, content tampering, c14n-invariant edits, namespace look-alikes, attacker-side encryption with junk around the plaintext root, deletions, duplicate signatures); " +
			"every reachable document to the depth bound is presented through ParseXMLResponse and an ArtifactResponse wrapper under several trust configurations; oracle: a returned assertion's identity-bearing content equals content the harness signed with a key trusted in that configuration AND is the content of an element a naive reference verifier finds validly signed (or under a validly signed Response/ArtifactResponse) in the presented document; " +
			"plus trust-rotation sequences on one SP object. distinct = distinct serialised document; non-trivial = depth >= 1",
		Bounds: func(tier string) string {
			if tier == "thorough" {
				return "depth <= 2 under 4 trust configurations x 2 entry points; depth 3 under 2 configurations (time-capped: completed fraction reported)"
			}
			return "depth <= 2, 2 trust configurations (metadata with two signing certs + distinct encryption cert; fingerprint), 2 entry points; trust-rotation sequences of length <= 3"
		},
		Assumptions: []string{"signatures cannot be forged (the attacker holds the attacker key and the IdP's encryption-use key only)", "goxmldsig is the verifier in the reference oracle as well", "documents more than the bound away from a genuine message are not covered"},
		Run:         runC01,
		CapQuick:    8 * time.Minute,
		CapThorough: 25 * time.Minute,
	})
}

type c01Init struct {
	name string
	doc  *etree.Element
}

func c01Inits(p *c01Pool) []c01Init {
	var out []c01Init
	for _, lay := range []harness.Layout{{SignResponse: true}, {SignAssertion: true}, {SignResponse: true, SignAssertion: true}, {},
		{SignResponse: true, Encrypt: true}, {SignAssertion: true, Encrypt: true}} {
		out = append(out, c01Init{"layout=" + lay.String(), harness.BuildResponse(samlgen.DefaultResponse(), []*samlgen.Assertion{p.A}, lay, idp1(), spKey())})
	}
	return out
}

func runC01(c *core.Ctx) {
	g := harness.Pin(samlgen.T0)
	defer g.Restore()
	pool := mkPool()
	ops := c01Ops(pool)
	inits := c01Inits(pool)
	trusts := c01Trusts[:2]
	if c.Thorough() {
		trusts = c01Trusts
	}
	sps := map[string]*saml.ServiceProvider{}
	for _, t := range append(append(append(append([]c01Trust{}, c01Trusts...), c01NoKeyTrusts...), c01WindowTrusts...), c01FingerprintSpellings...) {
		sps[t.name] = harness.NewSP(harness.SPOpt{Trust: t.name})
	}
	// ordinary metadata, but the application installed its own SignatureVerifier, which refuses everything
	sps["verifier-rejecting"].SignatureVerifier = c18Verifier{reject: true}
	seen := map[string]bool{}
	c.Note("operators", float64(0))

	evaluate := func(t *core.T, root *etree.Element, depth int, key string, trs []c01Trust, entries []string) {
		doc := samlgen.Doc(root.Copy())
		h := core.Hash12(string(doc) + trs[0].name)
		if seen[h] {
			t.Outcome("duplicate-state")
			return
		}
		seen[h] = true
		if depth > 0 {
			t.NonTrivial()
		}
		outs := []string{}
		for _, tr := range trs {
			sp := sps[tr.name]
			roots := rootsOf(tr)
			var cov map[string]bool
			for _, entry := range entries {
				var a *saml.Assertion
				var err error
				presented := doc
				_, pan := guard(func() error {
					if entry == "xml" {
						a, err = parseXML(sp, doc, []string{samlgen.ReqID})
					} else {
						r := samlgen.Parse(doc)
						if r.Tag != "Response" {
							err = fmt.Errorf("n/a")
							return nil
						}
						ar := harness.ArtifactResponseEl("id-artresp-1", "id-resolve-1", samlgen.TS(samlgen.T0), samlgen.S(samlgen.IDPEntity), samlgen.StatusOK, r)
						presented = samlgen.Doc(harness.SoapEnvelope(ar))
						a, err = sp.ParseXMLArtifactResponse(presented, []string{samlgen.ReqID}, "id-resolve-1", acsURL)
					}
					return nil
				})
				t.Impl(1)
				fk := "C01/" + tr.name + "/" + entry
				if pan != "" {
					// totality is C09's subject; record it here only as an outcome so that one defect is not reported twice
					outs = append(outs, "panic")
					continue
				}
				if err != nil && err.Error() == "n/a" {
					continue
				}
				if (a == nil) != (err != nil) {
					t.Fail(fk+"/assertion-xor-error", "assertion nil=%v err=%v", a == nil, err)
				}
				if a == nil {
					outs = append(outs, "reject")
					continue
				}
				outs = append(outs, "accept")
				fp := assertionFP(a)
				who, genuine := pool.genuineFP[fp]
				if !genuine {
					t.Fail(fk+"/returned-content-never-signed-by-trusted-key", "the SP returned an assertion whose content no trusted key signed (NameID %q); path: %s", nameIDOf(a), key)
					t.Input("presented_xml", string(presented))
					continue
				}
				_ = who
				if cov == nil || entry != "xml" {
					cov = coveredFPs(presented, roots, samlgen.T0)
				}
				if !cov[fp] {
					t.Fail(fk+"/returned-content-not-under-a-valid-signature-in-this-document", "the SP returned %s's assertion, but the reference verifier finds no valid trusted signature covering that content in the presented document; path: %s", who, key)
					t.Input("presented_xml", string(presented))
				}
			}
		}
		t.Compared()
		t.Outcome(strings.Join(outs, ","))
		t.Sample(map[string]interface{}{"path": key, "depth": depth, "outcomes_per_config_and_entry": strings.Join(outs, ",")})
	}

	apply := func(root *etree.Element, op c01Op) (*etree.Element, bool) {
		cp := root.Copy()
		holder := etree.NewDocument()
		holder.SetRoot(cp)
		ok := false
		func() {
			defer func() {
				if r := recover(); r != nil {
					ok = false
				}
			}()
			ok = op.f(cp, pool)
		}()
		if !ok {
			return nil, false
		}
		return holder.Root(), true
	}
	entries := []string{"xml", "artifact"}

	// depth 0: anti-vacuity
	c.Group("depth0")
	for _, in := range inits {
		in := in
		c.Case("d0/"+in.name, func(t *core.T) {
			doc := samlgen.Doc(in.doc.Copy())
			for _, tr := range c01Trusts {
				a, err := parseXML(sps[tr.name], doc, []string{samlgen.ReqID})
				t.Impl(1)
				unsigned := strings.HasPrefix(in.name, "layout=none")
				if unsigned && err == nil {
					t.Fail("C01/unsigned-accepted", "a response with no signature at all was accepted under %s", tr.name)
				}
				if !unsigned && err != nil {
					t.Fail("C01/genuine-rejected/"+in.name, "the unmutated genuinely signed message is rejected under %s: %s", tr.name, privErr(err))
				}
				if a != nil {
					if _, ok := pool.genuineFP[assertionFP(a)]; !ok {
						t.Fail("C01/genuine-content-mismatch", "fingerprint of the returned genuine assertion is not in the genuine set (harness problem)")
					}
				}
			}
			t.Compared()
			t.Outcome("initial")
		})
	}

	// depth 1 and 2
	sub := 0
	for depth := 1; depth <= 2; depth++ {
		c.Group(fmt.Sprintf("depth%d", depth))
		sub = 0
		for _, in := range inits {
			for i1, op1 := range ops {
				c.Affinity(sub)
				sub++
				in, op1 := in, op1
				if depth == 1 {
					key := "d1/" + in.name + "/" + op1.name
					c.Case(key, func(t *core.T) {
						s1, ok := apply(in.doc, op1)
						if !ok {
							t.Outcome("op-not-applicable")
							return
						}
						evaluate(t, s1, 1, key, trusts, entries)
					})
					continue
				}
				var s1 *etree.Element
				var s1ok, s1done bool
				for _, op2 := range ops {
					op2 := op2
					key := "d2/" + in.name + "/" + op1.name + " ; " + op2.name
					c.Case(key, func(t *core.T) {
						if !s1done {
							s1, s1ok = apply(in.doc, op1)
							s1done = true
						}
						if !s1ok {
							t.Outcome("op-not-applicable")
							return
						}
						s2, ok := apply(s1, op2)
						if !ok {
							t.Outcome("op-not-applicable")
							return
						}
						evaluate(t, s2, 2, key, trusts, entries)
					})
				}
				_ = i1
			}
		}
	}

	c.Affinity(-1) // (the groups below are sharded case by case again)
	c01ArtifactEnvelopes(c, pool, sps)

	// genuine assertions of alice's that say less about the request they answer than the usual one does (issued unsolicited): whatever the
	// SP returns of them is what the IdP signed - nothing in the returned subject, conditions or statements comes from unsigned parts
	c.Group("genuine-assertions-that-name-no-request")
	for _, v := range []struct {
		name string
		f    func(a *samlgen.Assertion)
	}{{"confirmation-without-InResponseTo", func(a *samlgen.Assertion) { a.Confirmations[0].InResponseTo = nil }},
		{"confirmation-with-empty-InResponseTo", func(a *samlgen.Assertion) { a.Confirmations[0].InResponseTo = samlgen.S("") }},
		{"confirmation-without-Recipient", func(a *samlgen.Assertion) { a.Confirmations[0].Recipient = nil }},
		{"confirmation-without-data", func(a *samlgen.Assertion) { a.Confirmations[0].NoData = true }},
		{"no-confirmation", func(a *samlgen.Assertion) { a.Confirmations = nil }},
		{"no-audience-restriction", func(a *samlgen.Assertion) { a.Audiences = nil }}} {
		av := samlgen.DefaultAssertion()
		v.f(av)
		if fp, err := fpOfElement(av.Element()); err == nil {
			pool.genuineFP[fp] = "alice/" + v.name
		}
		for _, lay := range []harness.Layout{{SignAssertion: true}, {SignAssertion: true, Encrypt: true}, {SignResponse: true, SignAssertion: true}} {
			for _, rirt := range []string{"answers-the-request", "names-no-request"} {
				if rirt == "names-no-request" && (lay.SignResponse || lay.Encrypt) {
					continue
				}
				resp := samlgen.DefaultResponse()
				if rirt == "names-no-request" {
					resp.InResponseTo = nil
				}
				in := c01Init{"unsolicited=" + v.name + "/layout=" + lay.String() + "/response-" + rirt, harness.BuildResponse(resp, []*samlgen.Assertion{av}, lay, idp1(), spKey())}
				for _, op1 := range append([]c01Op{{"unchanged", func(*etree.Element, *c01Pool) bool { return true }}}, ops...) {
					in, op1 := in, op1
					key := "unsolicited/" + in.name + "/" + op1.name
					c.Case(key, func(t *core.T) {
						s1, ok := apply(in.doc, op1)
						if !ok {
							t.Outcome("op-not-applicable")
							return
						}
						evaluate(t, s1, 1, key, c01Trusts[:2], entries)
					})
				}
			}
		}
	}

	c.Group("no-signing-key-published")
	for _, in := range inits {
		for _, op1 := range append([]c01Op{{"unchanged", func(*etree.Element, *c01Pool) bool { return true }}}, ops...) {
			in, op1 := in, op1
			key := "nokey/" + in.name + "/" + op1.name
			c.Case(key, func(t *core.T) {
				s1, ok := apply(in.doc, op1)
				if !ok {
					t.Outcome("op-not-applicable")
					return
				}
				evaluate(t, s1, 1, key, c01NoKeyTrusts, entries)
			})
		}
	}

	// fingerprint trust whose configured value is idp1's fingerprint written another way, or no fingerprint at all: whether such a value
	// still names idp1's certificate is the library's business - but it never names anybody else's. Whatever is returned lies under an
	// idp1 signature.
	c.Group("fingerprint-spellings")
	for _, tr := range c01FingerprintSpellings {
		for _, in := range inits {
			for _, op1 := range append([]c01Op{{"unchanged", func(*etree.Element, *c01Pool) bool { return true }}}, ops...) {
				tr, in, op1 := tr, in, op1
				key := "fpspelling/" + tr.name + "/" + in.name + "/" + op1.name
				c.Case(key, func(t *core.T) {
					s1, ok := apply(in.doc, op1)
					if !ok {
						t.Outcome("op-not-applicable")
						return
					}
					evaluate(t, s1, 1, key, []c01Trust{tr}, entries)
				})
			}
		}
	}

	// trusted certificates outside their validity window: quoting one of them in KeyInfo (certificates are public) gives nobody a valid
	// signature. Every operator alone, and every operator followed by each of the quoting operators.
	c.Group("trusted-certificates-outside-their-validity-window")
	{
		var quote []c01Op
		for _, kn := range []string{"idpnext", "idpold", "idpfar"} {
			kn := kn
			each := func(root *etree.Element, f func(s, ki *etree.Element)) bool {
				n := 0
				for _, s := range findNS(root, samlgen.NSDsig, "Signature") {
					if kis := childNS(s, samlgen.NSDsig, "KeyInfo"); len(kis) > 0 {
						f(s, kis[0])
						n++
					}
				}
				return n > 0
			}
			quote = append(quote, c01Op{"keyinfo/swap-cert-for-" + kn, func(root *etree.Element, _ *c01Pool) bool {
				return each(root, func(s, ki *etree.Element) {
					for _, x := range findNS(ki, samlgen.NSDsig, "X509Certificate") {
						x.SetText(samlgen.Key(kn).CertB64)
					}
				})
			}}, c01Op{"keyinfo/" + kn + "-cert-first", func(root *etree.Element, _ *c01Pool) bool {
				return each(root, func(s, ki *etree.Element) {
					for _, xd := range findNS(ki, samlgen.NSDsig, "X509Data") {
						x := etree.NewElement("ds:X509Certificate")
						x.SetText(samlgen.Key(kn).CertB64)
						xd.InsertChildAt(0, x)
					}
				})
			}})
		}
		all := append(append([]c01Op{{"unchanged", func(*etree.Element, *c01Pool) bool { return true }}}, ops...), quote...)
		for _, in := range inits {
			for _, op1 := range all {
				for qi := -1; qi < len(quote); qi++ {
					in, op1, qi := in, op1, qi
					key := "cert-window/" + in.name + "/" + op1.name
					if qi >= 0 {
						key += " ; " + quote[qi].name
					}
					c.Case(key, func(t *core.T) {
						s1, ok := apply(in.doc, op1)
						if ok && qi >= 0 {
							s1, ok = apply(s1, quote[qi])
						}
						if !ok {
							t.Outcome("op-not-applicable")
							return
						}
						evaluate(t, s1, 1, key, c01WindowTrusts, entries)
					})
				}
			}
		}
	}

	if c.Thorough() {
		c.Group("depth3")
		sub = 0
		for _, in := range inits[:4] {
			for _, op1 := range ops {
				for _, op2 := range ops {
					c.Affinity(sub)
					sub++
					in, op1, op2 := in, op1, op2
					var s2 *etree.Element
					var s2ok, s2done bool
					for _, op3 := range ops {
						op3 := op3
						key := "d3/" + in.name + "/" + op1.name + " ; " + op2.name + " ; " + op3.name
						c.Case(key, func(t *core.T) {
							if !s2done {
								s2done = true
								if s1, ok := apply(in.doc, op1); ok {
									s2, s2ok = apply(s1, op2)
								}
							}
							if !s2ok {
								t.Outcome("op-not-applicable")
								return
							}
							s3, ok := apply(s2, op3)
							if !ok {
								t.Outcome("op-not-applicable")
								return
							}
							evaluate(t, s3, 3, key, c01Trusts[:2], []string{"xml"})
						})
					}
				}
			}
		}
	}
	c.Affinity(-1)

	// trust rotation: sequences of (configure, present) steps on ONE ServiceProvider object
	c.Group("trust-rotation")
	c01Rotation(c, pool)
}

func nameIDOf(a *saml.Assertion) string {
	if a != nil && a.Subject != nil && a.Subject.NameID != nil {
		return a.Subject.NameID.Value
	}
	return ""
}

func c01Rotation(c *core.Ctx, pool *c01Pool) {
	type cfg struct {
		name    string
		trusted map[string]bool
		set     func(sp *saml.ServiceProvider)
	}
	kd := func(names ...string) []saml.KeyDescriptor {
		var k []saml.KeyDescriptor
		for _, n := range names {
			k = append(k, saml.KeyDescriptor{Use: "signing", KeyInfo: saml.KeyInfo{X509Data: saml.X509Data{X509Certificates: []saml.X509Certificate{{Data: samlgen.Key(n).CertB64}}}}})
		}
		return k
	}
	replaceMeta := func(names ...string) func(sp *saml.ServiceProvider) {
		return func(sp *saml.ServiceProvider) {
			md := harness.IDPMetadata("meta1", "", "")
			md.IDPSSODescriptors[0].KeyDescriptors = kd(names...)
			sp.IDPMetadata = md
			sp.IDPCertificate, sp.IDPCertificateFingerprint, sp.IDPCertificateFingerprintAlgorithm = nil, nil, nil
		}
	}
	inPlace := func(names ...string) func(sp *saml.ServiceProvider) {
		return func(sp *saml.ServiceProvider) {
			sp.IDPMetadata.IDPSSODescriptors[0].KeyDescriptors = kd(names...)
			sp.IDPCertificate, sp.IDPCertificateFingerprint, sp.IDPCertificateFingerprintAlgorithm = nil, nil, nil
		}
	}
	pin := func(name string) func(sp *saml.ServiceProvider) {
		return func(sp *saml.ServiceProvider) {
			c := samlgen.Key(name).CertB64
			sp.IDPCertificate = &c
			sp.IDPCertificateFingerprint, sp.IDPCertificateFingerprintAlgorithm = nil, nil
		}
	}
	fpr := func(name string) func(sp *saml.ServiceProvider) {
		return func(sp *saml.ServiceProvider) {
			f := harness.Fingerprint(samlgen.Key(name))
			alg := "http://www.w3.org/2001/04/xmlenc#sha256"
			sp.IDPCertificate = nil
			sp.IDPCertificateFingerprint, sp.IDPCertificateFingerprintAlgorithm = &f, &alg
		}
	}
	cfgs := []cfg{
		{"meta{idp1}", map[string]bool{"idp1": true}, replaceMeta("idp1")},
		{"meta{idp2}", map[string]bool{"idp2": true}, replaceMeta("idp2")},
		{"meta{idp1,idp2}", map[string]bool{"idp1": true, "idp2": true}, replaceMeta("idp1", "idp2")},
		{"inplace{idp2}", map[string]bool{"idp2": true}, inPlace("idp2")},
		{"inplace{idp1}", map[string]bool{"idp1": true}, inPlace("idp1")},
		{"pinned{idp2}", map[string]bool{"idp2": true}, pin("idp2")},
		{"fingerprint{idp2}", map[string]bool{"idp2": true}, fpr("idp2")},
	}
	type docT struct {
		name, signer string
		doc          []byte
	}
	var docs []docT
	for _, signer := range []string{"idp1", "idp2"} {
		for _, lay := range []harness.Layout{{SignResponse: true}, {SignAssertion: true}} {
			docs = append(docs, docT{signer + "/" + lay.String(), signer,
				samlgen.Doc(harness.BuildResponse(samlgen.DefaultResponse(), []*samlgen.Assertion{pool.A}, lay, samlgen.Key(signer), spKey()))})
		}
	}
	type step struct{ c, d int }
	var steps []step
	for ci := range cfgs {
		for di := range docs {
			steps = append(steps, step{ci, di})
		}
	}
	maxLen := 3
	if !c.Thorough() {
		maxLen = 2
	}
	var rec func(prefix []step)
	rec = func(prefix []step) {
		if len(prefix) > 0 {
			seq := append([]step{}, prefix...)
			var names []string
			for _, s := range seq {
				names = append(names, cfgs[s.c].name+"<-"+docs[s.d].name)
			}
			key := "rotation/" + strings.Join(names, " ; ")
			c.Case(key, func(t *core.T) {
				t.NonTrivial()
				sp := harness.NewSP(harness.SPOpt{})
				for i, s := range seq {
					cfgs[s.c].set(sp)
					a, err := parseXML(sp, docs[s.d].doc, []string{samlgen.ReqID})
					t.Impl(1)
					want := cfgs[s.c].trusted[docs[s.d].signer]
					v := core.MustReject
					if want {
						v = core.MustAccept
					}
					t.Modelled(v)
					if want && err != nil {
						t.Fail("C01/rotation/rejects-currently-trusted-signer", "step %d of %s: signer is trusted by the current configuration but the response was rejected: %s", i+1, key, privErr(err))
					}
					if !want && a != nil {
						t.Fail("C01/rotation/accepts-signer-no-longer-trusted", "step %d of %s: the signer is not trusted by the current configuration but the assertion was returned", i+1, key)
					}
				}
				t.Outcome("rotation")
			})
		}
		if len(prefix) == maxLen {
			return
		}
		for _, s := range steps {
			if len(prefix) >= 2 && c.Tier != "thorough" {
				break
			}
			rec(append(prefix, s))
		}
	}
	rec(nil)
}

// c01ArtifactEnvelopes: artifact resolution replies in which the IdP signed the ArtifactResponse envelope (the inner Response unsigned,
// or signed as well), and every sequence of <= 2 envelope-level edits an attacker on the back channel could make: a forged Response /
// Assertion placed inside the envelope's Signature (Object, KeyInfo), in Status, in Extensions, before / after / instead of / around the
// real Response, in the SOAP Header or Body. Same oracle as the document search: whatever is returned was signed by a trusted key and is
// covered by a valid signature in the presented document.
func c01ArtifactEnvelopes(c *core.Ctx, pool *c01Pool, sps map[string]*saml.ServiceProvider) {
	c.Group("artifact-signed-envelope")
	forged := func() *etree.Element {
		r := samlgen.DefaultResponse()
		r.ID = "id-response-forged"
		return harness.BuildResponse(r, []*samlgen.Assertion{pool.E}, harness.Layout{}, idp1(), spKey())
	}
	type eop struct {
		name string
		f    func(env *etree.Element) bool
	}
	// the evil assertion encrypted to the SP's certificate by the attacker, as a bare EncryptedData element
	attackerED := func() *etree.Element {
		det, _ := detach(pool.unsignedE)
		ea := harness.EncryptAssertionEl(samlgen.Doc(det), spKey(), "artenv-plant")
		ed := findNS(ea, "http://www.w3.org/2001/04/xmlenc#", "EncryptedData")[0].Copy()
		ed.CreateAttr("xmlns:xenc", "http://www.w3.org/2001/04/xmlenc#")
		ed.CreateAttr("xmlns:ds", samlgen.NSDsig)
		return ed
	}
	arOf := func(env *etree.Element) *etree.Element {
		if x := findNS(env, samlgen.NSProtocol, "ArtifactResponse"); len(x) > 0 {
			return x[0]
		}
		return nil
	}
	realResp := func(env *etree.Element) *etree.Element {
		ar := arOf(env)
		if ar == nil {
			return nil
		}
		for _, r := range childNS(ar, samlgen.NSProtocol, "Response") {
			if r.SelectAttrValue("ID", "") != "id-response-forged" {
				return r
			}
		}
		return nil
	}
	into := func(find func(env *etree.Element) *etree.Element, first bool) func(env *etree.Element) bool {
		return func(env *etree.Element) bool {
			t := find(env)
			if t == nil {
				return false
			}
			if first {
				t.InsertChildAt(0, forged())
			} else {
				t.AddChild(forged())
			}
			return true
		}
	}
	sigOf := func(env *etree.Element) *etree.Element {
		if ar := arOf(env); ar != nil {
			return firstSig(ar)
		}
		return nil
	}
	ops := []eop{
		{"forged-Response-in-envelope-Signature-Object", func(env *etree.Element) bool {
			s := sigOf(env)
			if s == nil {
				return false
			}
			s.CreateElement("ds:Object").AddChild(forged())
			return true
		}},
		{"forged-Response-in-envelope-Signature-Object-first", func(env *etree.Element) bool {
			s := sigOf(env)
			if s == nil {
				return false
			}
			o := etree.NewElement("ds:Object")
			o.AddChild(forged())
			s.InsertChildAt(0, o)
			return true
		}},
		{"forged-Response-in-envelope-KeyInfo", func(env *etree.Element) bool {
			s := sigOf(env)
			if s == nil || s.FindElement("./KeyInfo") == nil {
				return false
			}
			s.FindElement("./KeyInfo").AddChild(forged())
			return true
		}},
		{"forged-Response-in-envelope-SignatureValue-sibling", into(sigOf, false)},
		{"forged-Response-first-in-ArtifactResponse", into(arOf, true)},
		{"forged-Response-last-in-ArtifactResponse", into(arOf, false)},
		{"forged-Response-in-Status", func(env *etree.Element) bool {
			ar := arOf(env)
			if ar == nil || ar.FindElement("./Status") == nil {
				return false
			}
			ar.FindElement("./Status").CreateElement("samlp:StatusDetail").AddChild(forged())
			return true
		}},
		{"forged-Response-in-soap-Header", func(env *etree.Element) bool {
			h := etree.NewElement("soap:Header")
			h.AddChild(forged())
			env.InsertChildAt(0, h)
			return true
		}},
		{"forged-Response-in-soap-Body-before-ArtifactResponse", func(env *etree.Element) bool {
			ar := arOf(env)
			if ar == nil {
				return false
			}
			ar.Parent().InsertChildAt(ar.Index(), forged())
			return true
		}},
		{"real-Response-moved-into-Signature-Object-forged-in-its-place", func(env *etree.Element) bool {
			s, r := sigOf(env), realResp(env)
			if s == nil || r == nil {
				return false
			}
			par := r.Parent()
			idx := r.Index()
			par.RemoveChild(r)
			s.CreateElement("ds:Object").AddChild(r)
			par.InsertChildAt(idx, forged())
			return true
		}},
		{"real-Response-replaced-by-forged", func(env *etree.Element) bool {
			r := realResp(env)
			if r == nil {
				return false
			}
			par := r.Parent()
			idx := r.Index()
			par.RemoveChild(r)
			par.InsertChildAt(idx, forged())
			return true
		}},
		{"evil-Assertion-added-to-real-Response", func(env *etree.Element) bool {
			r := realResp(env)
			if r == nil {
				return false
			}
			r.AddChild(pool.unsignedE.Copy())
			return true
		}},
		{"evil-Assertion-in-envelope-Signature-Object", func(env *etree.Element) bool {
			s := sigOf(env)
			if s == nil {
				return false
			}
			s.CreateElement("ds:Object").AddChild(pool.unsignedE.Copy())
			return true
		}},
		{"envelope-signature-removed", func(env *etree.Element) bool {
			ar, s := arOf(env), sigOf(env)
			if s == nil {
				return false
			}
			ar.RemoveChild(s)
			return true
		}},
		{"envelope-resigned-by-attacker", func(env *etree.Element) bool {
			ar := arOf(env)
			if ar == nil {
				return false
			}
			for _, s := range childNS(ar, samlgen.NSDsig, "Signature") {
				ar.RemoveChild(s)
			}
			samlgen.Sign(ar, samlgen.Key("attacker"), "")
			return true
		}},
		{"envelope-resigned-by-lookalike", func(env *etree.Element) bool {
			ar := arOf(env)
			if ar == nil {
				return false
			}
			for _, s := range childNS(ar, samlgen.NSDsig, "Signature") {
				ar.RemoveChild(s)
			}
			samlgen.Sign(ar, samlgen.Key("lookalike1"), "")
			return true
		}},
		{"attacker-EncryptedData-in-soap-Header", func(env *etree.Element) bool {
			h := etree.NewElement("soap:Header")
			h.AddChild(attackerED())
			env.InsertChildAt(0, h)
			return true
		}},
		{"attacker-EncryptedData-first-in-soap-Body", func(env *etree.Element) bool {
			ar := arOf(env)
			if ar == nil {
				return false
			}
			ar.Parent().InsertChildAt(0, attackerED())
			return true
		}},
		{"attacker-EncryptedData-in-envelope-Signature", func(env *etree.Element) bool {
			s := sigOf(env)
			if s == nil {
				return false
			}
			s.InsertChildAt(0, attackerED())
			return true
		}},
		{"attacker-EncryptedData-in-inner-Response-Signature", func(env *etree.Element) bool {
			r := realResp(env)
			if r == nil || firstSig(r) == nil {
				return false
			}
			firstSig(r).InsertChildAt(0, attackerED())
			return true
		}},
		{"second-ArtifactResponse-unsigned-with-forged-first-in-Body", func(env *etree.Element) bool {
			ar := arOf(env)
			if ar == nil {
				return false
			}
			ar2 := harness.ArtifactResponseEl("id-artresp-2", "id-resolve-1", samlgen.TS(samlgen.T0), samlgen.S(samlgen.IDPEntity), samlgen.StatusOK, forged())
			ar.Parent().InsertChildAt(ar.Index(), ar2)
			return true
		}},
	}
	type einit struct {
		name string
		mk   func() *etree.Element
	}
	mkEnv := func(innerLay harness.Layout, outer bool) *etree.Element {
		inner := harness.BuildResponse(samlgen.DefaultResponse(), []*samlgen.Assertion{pool.A}, innerLay, idp1(), spKey())
		ar := harness.ArtifactResponseEl("id-artresp-1", "id-resolve-1", samlgen.TS(samlgen.T0), samlgen.S(samlgen.IDPEntity), samlgen.StatusOK, inner)
		env := harness.SoapEnvelope(ar)
		if outer {
			samlgen.Sign(ar, idp1(), "")
		}
		holder := etree.NewDocument()
		holder.SetRoot(env)
		return env
	}
	inits := []einit{
		{"envelope-signed/inner-unsigned", func() *etree.Element { return mkEnv(harness.Layout{}, true) }},
		{"envelope-signed/inner-Response-signed", func() *etree.Element { return mkEnv(harness.Layout{SignResponse: true}, true) }},
		{"envelope-signed/inner-Assertion-signed", func() *etree.Element { return mkEnv(harness.Layout{SignAssertion: true}, true) }},
		{"envelope-unsigned/inner-Response-signed", func() *etree.Element { return mkEnv(harness.Layout{SignResponse: true}, false) }},
		{"envelope-signed/inner-unsigned-encrypted", func() *etree.Element { return mkEnv(harness.Layout{Encrypt: true}, true) }},
		{"envelope-unsigned/inner-Response-signed-encrypted", func() *etree.Element { return mkEnv(harness.Layout{SignResponse: true, Encrypt: true}, false) }},
	}
	none := eop{"none", func(*etree.Element) bool { return true }}
	for _, in := range inits {
		for _, o1 := range append([]eop{none}, ops...) {
			for _, o2 := range append([]eop{none}, ops...) {
				if o1.name == "none" && o2.name != "none" {
					continue
				}
				in, o1, o2 := in, o1, o2
				key := "artenv/" + in.name + "/" + o1.name + " ; " + o2.name
				c.Case(key, func(t *core.T) {
					env := in.mk()
					ok1, ok2 := false, false
					func() {
						defer func() { recover() }()
						ok1 = o1.f(env)
						if ok1 {
							ok2 = o2.f(env)
						}
					}()
					if !ok1 || !ok2 {
						t.Outcome("op-not-applicable")
						return
					}
					if o1.name != "none" {
						t.NonTrivial()
					}
					doc := samlgen.Doc(env)
					for _, tr := range c01Trusts[:3] {
						sp := sps[tr.name]
						var a *saml.Assertion
						var err error
						_, pan := guard(func() error {
							a, err = sp.ParseXMLArtifactResponse(doc, []string{samlgen.ReqID}, "id-resolve-1", acsURL)
							return nil
						})
						t.Impl(1)
						if pan != "" {
							t.Outcome("panic")
							continue
						}
						fk := "C01/" + tr.name + "/artifact-envelope"
						if o1.name == "none" && err != nil {
							t.Fail(fk+"/genuine-rejected", "%s: the unmodified reply is rejected under %s: %s", in.name, tr.name, privErr(err))
						}
						if a == nil {
							t.Outcome("reject")
							continue
						}
						t.Outcome("accept")
						fp := assertionFP(a)
						if _, genuine := pool.genuineFP[fp]; !genuine {
							t.Fail(fk+"/returned-content-never-signed-by-trusted-key", "the SP returned an assertion whose content no trusted key signed (NameID %q); path: %s", nameIDOf(a), key)
							t.Input("presented_xml", string(doc))
							continue
						}
						if !coveredFPs(doc, rootsOf(tr), samlgen.T0)[fp] {
							t.Fail(fk+"/returned-content-not-under-a-valid-signature-in-this-document", "returned content is not covered by a valid trusted signature in the presented reply; path: %s", key)
							t.Input("presented_xml", string(doc))
						}
					}
					t.Compared()
				})
			}
		}
	}
}
