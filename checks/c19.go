package checks

import (
	"bytes"
	"encoding/base64"
	"encoding/json"
	"encoding/xml"
	"errors"
	"fmt"
	"net/http"
	"net/http/httptest"
	"net/url"
	"sort"
	"strings"
	"time"

	"github.com/crewjam/saml"
	"github.com/crewjam/saml/samlidp"
	dsig "github.com/russellhaering/goxmldsig"
	"golang.org/x/crypto/bcrypt"

	"verif/engine/core"
	"verif/engine/harness"
	"verif/engine/samlgen"
)

// C19 — the bundled IdP server issues assertions only to authenticated users.
//
// Explicit-state search over management/login/SSO histories. A state is the
// content of the backing store (a harness Store that can be cloned and made to
// fail), the browser's session cookie, the clock notch and the reference model.
// Every transition re-creates the server over a clone of the store (so every
// explored history has a restart at every position), runs one real request, and
// is then repeated with one injected store error at each store call.

// ---------- store ----------

type c19Store struct {
	data    map[string]string
	calls   []string
	failAt  int // 1-based index of the store call that fails (0 = none)
	failErr error
}

func (s *c19Store) clone() *c19Store {
	n := &c19Store{data: map[string]string{}}
	for k, v := range s.data {
		n.data[k] = v
	}
	return n
}

func (s *c19Store) hit(op, key string) error {
	s.calls = append(s.calls, op+" "+key)
	if s.failAt == len(s.calls) {
		return s.failErr
	}
	return nil
}

func (s *c19Store) Get(key string, value interface{}) error {
	if err := s.hit("Get", key); err != nil {
		return err
	}
	v, ok := s.data[key]
	if !ok {
		return samlidp.ErrNotFound
	}
	return json.Unmarshal([]byte(v), value)
}

func (s *c19Store) Put(key string, value interface{}) error {
	if err := s.hit("Put", key); err != nil {
		return err
	}
	b, err := json.Marshal(value)
	if err != nil {
		return err
	}
	s.data[key] = string(b)
	return nil
}

func (s *c19Store) Delete(key string) error {
	if err := s.hit("Delete", key); err != nil {
		return err
	}
	delete(s.data, key)
	return nil
}

func (s *c19Store) List(prefix string) ([]string, error) {
	if err := s.hit("List", prefix); err != nil {
		return nil, err
	}
	var out []string
	for k := range s.data {
		if strings.HasPrefix(k, prefix) {
			out = append(out, strings.TrimPrefix(k, prefix))
		}
	}
	sort.Strings(out)
	return out, nil
}

func (s *c19Store) digest(skipSessions bool) string {
	var ks []string
	for k := range s.data {
		if skipSessions && strings.HasPrefix(k, "/sessions/") {
			continue
		}
		ks = append(ks, k)
	}
	sort.Strings(ks)
	var sb strings.Builder
	for _, k := range ks {
		v := s.data[k]
		if strings.HasPrefix(k, "/users/") {
			// bcrypt salts differ between runs: key users by everything but the hash bytes
			var u map[string]interface{}
			json.Unmarshal([]byte(v), &u)
			_, has := u["hashed_password"]
			delete(u, "hashed_password")
			b, _ := json.Marshal(u)
			v = fmt.Sprintf("%s hash=%v", b, has)
		}
		sb.WriteString(k + "=" + core.Hash12(v) + ";")
	}
	return sb.String()
}

// ---------- strict response writer ----------

type strictWriter struct {
	hdr         http.Header
	code        int
	headerCalls int
	wroteBody   bool
	lateHeader  bool // WriteHeader after body bytes were written
	body        bytes.Buffer
}

func (w *strictWriter) Header() http.Header { return w.hdr }
func (w *strictWriter) WriteHeader(c int) {
	w.headerCalls++
	if w.wroteBody {
		w.lateHeader = true
		return
	}
	if w.code == 0 {
		w.code = c
	}
}
func (w *strictWriter) Write(b []byte) (int, error) {
	if w.code == 0 {
		w.code = 200
	}
	if len(b) > 0 {
		w.wroteBody = true
	}
	return w.body.Write(b)
}

// ---------- world ----------

const (
	c19Root  = "https://idp.example.com"
	c19EntA  = "https://sp-a.example.com/metadata"
	c19EntB  = "https://sp-b.example.com/metadata"
	c19EntZ  = "https://sp-z.example.com/metadata"
	c19EntN  = "https://sp-n.example.com/metadata"
	c19ArtN  = "https://sp-n.example.com/artifact" // N's only endpoint: HTTP-Artifact, nothing can be posted to it
	c19AcsA  = "https://sp-a.example.com/acs"
	c19AcsA2 = "https://sp-a.example.com/acs-moved"
	c19AcsB  = "https://sp-b.example.com/acs"
	c19EntAc = "https://SP-A.example.com/metadata" // another service provider: its entity ID differs from A's in letter case only
	c19AcsAc = "https://sp-a.example.com/acs-of-the-other-case"
)

func c19Metadata(which string) []byte {
	ent, acs := c19EntA, c19AcsA
	if which == "agg[idp,B,Ac]" { // a federation aggregate: an IdP-only entity, then SP B, then SP Ac. What a service stands for is the first SP in it
		idpOnly, _ := xml.Marshal(saml.EntityDescriptor{EntityID: "https://some-idp.example.org/metadata", IDPSSODescriptors: []saml.IDPSSODescriptor{{SSODescriptor: saml.SSODescriptor{RoleDescriptor: saml.RoleDescriptor{ProtocolSupportEnumeration: "urn:oasis:names:tc:SAML:2.0:protocol"}},
			SingleSignOnServices: []saml.Endpoint{{Binding: saml.HTTPRedirectBinding, Location: "https://some-idp.example.org/sso"}}}}})
		return []byte(`<EntitiesDescriptor xmlns="urn:oasis:names:tc:SAML:2.0:metadata" Name="urn:example:federation">` + string(idpOnly) + string(c19Metadata("B")) + string(c19Metadata("Ac")) + `</EntitiesDescriptor>`)
	}
	switch which {
	case "A2":
		acs = c19AcsA2
	case "B":
		ent, acs = c19EntB, c19AcsB
	case "Ac":
		ent, acs = c19EntAc, c19AcsAc
	}
	if which == "N" { // a registered SP without any HTTP-POST assertion consumer service (artifact only): legal metadata, nothing can be posted to it
		ed := saml.EntityDescriptor{EntityID: c19EntN, SPSSODescriptors: []saml.SPSSODescriptor{{SSODescriptor: saml.SSODescriptor{RoleDescriptor: saml.RoleDescriptor{ProtocolSupportEnumeration: "urn:oasis:names:tc:SAML:2.0:protocol"}},
			AssertionConsumerServices: []saml.IndexedEndpoint{{Binding: saml.HTTPArtifactBinding, Location: c19ArtN, Index: 1}}}}}
		b, _ := xml.Marshal(ed)
		return b
	}
	if which == "X" { // a third SP whose metadata carries validity attributes that lie in the past
		ent, acs = "https://sp-x.example.com/metadata", "https://sp-x.example.com/acs"
	}
	ed := saml.EntityDescriptor{EntityID: ent, SPSSODescriptors: []saml.SPSSODescriptor{{SSODescriptor: saml.SSODescriptor{RoleDescriptor: saml.RoleDescriptor{ProtocolSupportEnumeration: "urn:oasis:names:tc:SAML:2.0:protocol"}},
		AssertionConsumerServices: []saml.IndexedEndpoint{{Binding: saml.HTTPPostBinding, Location: acs, Index: 1}}}}}
	if which == "X" {
		ed.ValidUntil = time.Date(2020, 1, 1, 0, 0, 0, 0, time.UTC)
		ed.CacheDuration = time.Hour
	}
	b, _ := xml.Marshal(ed)
	return b
}

// c19EmptyPw is the model's value for "the stored hash is that of the empty string" ("" stands for "no hash stored").
const c19EmptyPw = "\x00"

type c19MSession struct {
	owner   string
	email   string
	groups  string // the user's groups as stored at login, comma-joined
	created int
}

// c19Groups: the groups an emitted assertion states (eduPersonAffiliation), comma-joined.
func c19Groups(d *decodedResponse) string {
	var g []string
	for _, at := range d.Attrs {
		if at.Name == "urn:oid:1.3.6.1.4.1.5923.1.1.1.1" {
			g = append(g, at.Values...)
		}
	}
	return strings.Join(g, ",")
}

// c19User is the model's user record: pw "" = no hash stored; groups comma-joined.
type c19User struct{ pw, email, groups string }

type c19Model struct {
	users     map[string]c19User     // pw "" = no hash
	services  map[string]string      // name -> A / A2 / B
	shortcuts map[string]string      // name -> entity id
	sessions  map[string]c19MSession // id -> session
	cookie    string
	notch     int
}

func (m *c19Model) clone() *c19Model {
	n := &c19Model{users: map[string]c19User{}, services: map[string]string{}, shortcuts: map[string]string{}, sessions: map[string]c19MSession{}, cookie: m.cookie, notch: m.notch}
	for k, v := range m.users {
		n.users[k] = v
	}
	for k, v := range m.services {
		n.services[k] = v
	}
	for k, v := range m.shortcuts {
		n.shortcuts[k] = v
	}
	for k, v := range m.sessions {
		n.sessions[k] = v
	}
	return n
}

// registry per the model: entity id -> ACS of the (unique) stored service naming it
func (m *c19Model) registry() map[string]string {
	r := map[string]string{}
	var names []string
	for n := range m.services {
		names = append(names, n)
	}
	sort.Strings(names)
	for _, n := range names {
		switch m.services[n] {
		case "A":
			r[c19EntA] = c19AcsA
		case "A2":
			r[c19EntA] = c19AcsA2
		case "B":
			r[c19EntB] = c19AcsB
		case "Ac":
			r[c19EntAc] = c19AcsAc
		case "N":
			r[c19EntN] = c19ArtN // registered, but there is no endpoint a response could be posted to
		}
	}
	return r
}

func (m *c19Model) liveSession(id string) (c19MSession, bool) {
	s, ok := m.sessions[id]
	if !ok {
		return s, false
	}
	// a session lives for one hour (samlidp's sessionMaxAge) from the moment of the login that created it
	if c19T[m.notch].After(c19T[s.created].Add(time.Hour)) {
		return s, false
	}
	return s, true
}

type c19State struct {
	store *c19Store
	m     *c19Model
	path  []string
}

func (s *c19State) key() string {
	cs := "none"
	if s.m.cookie != "" {
		if ses, ok := s.m.sessions[s.m.cookie]; ok {
			_, live := s.m.liveSession(s.m.cookie)
			cs = fmt.Sprintf("%s/%v", ses.owner, live)
		} else {
			cs = "dangling"
		}
	}
	return fmt.Sprintf("%s|cookie=%s|n=%d", s.store.digest(true), cs, s.m.notch)
}

var c19T = []time.Time{samlgen.T0, samlgen.T0.Add(time.Hour + time.Minute), samlgen.T0.Add(2*time.Hour + 2*time.Minute)}

func c19Server(st *c19Store) (*samlidp.Server, error) {
	kp := samlgen.Key("idpec")
	srv, err := samlidp.New(samlidp.Options{URL: harness.MustURL(c19Root), Signer: kp.Key, Certificate: kp.Cert, Store: st, Logger: harness.NullLogger{}})
	if err != nil {
		return nil, err
	}
	srv.IDP.SignatureMethod = dsig.ECDSASHA256SignatureMethod
	return srv, nil
}

func minHash(pw string) []byte {
	h, err := bcrypt.GenerateFromPassword([]byte(pw), bcrypt.MinCost)
	if err != nil {
		panic(err)
	}
	return h
}

// cheapen rewrites DefaultCost hashes the handler stored into MinCost hashes of the same password (the harness owns the store),
// so that later logins do not cost 60 ms each. The stored password is unchanged.
func cheapen(st *c19Store, m *c19Model) {
	for name, u := range m.users {
		k := "/users/" + name
		raw, ok := st.data[k]
		if !ok || u.pw == "" {
			continue
		}
		var su samlidp.User
		if json.Unmarshal([]byte(raw), &su) != nil || len(su.HashedPassword) == 0 {
			continue
		}
		if c, err := bcrypt.Cost(su.HashedPassword); err == nil && c > bcrypt.MinCost {
			su.HashedPassword = minHash(strings.TrimPrefix(u.pw, c19EmptyPw))
			b, _ := json.Marshal(su)
			st.data[k] = string(b)
		}
	}
}

// ---------- actions ----------

type c19Req struct {
	method, path string
	body         string
	ctype        string
	cookie       string
}

type c19Action struct {
	name  string
	heavy bool
	req   func(m *c19Model) c19Req
	// apply updates the model given the (fault-free) reply and returns the expectation about an assertion
	apply func(m *c19Model, rep *c19Reply) (mayAssert bool, wantNameID, wantACS, wantAudience string)
}

type c19Reply struct {
	code    int
	body    []byte
	setSess string // session cookie value set by the reply
	w       *strictWriter
	panic   string
	calls   []string
}

func ssoBody(issuer string, extra url.Values) string {
	doc := authnRequestXML(samlgen.S(issuer), nil, samlgen.S("2.0"), samlgen.S(samlgen.TS(time.Time{})), nil, nil, "id-req-c19")
	_ = doc
	return ""
}

func c19Actions() []c19Action {
	var acts []c19Action
	putUser := func(name, pw, email string, heavy bool) c19Action {
		return c19Action{name: fmt.Sprintf("PUT user %s pw=%q email=%s", name, pw, email), heavy: heavy,
			req: func(*c19Model) c19Req {
				u := map[string]interface{}{"name": name, "email": email}
				if pw != "" {
					u["password"] = pw
				}
				b, _ := json.Marshal(u)
				return c19Req{method: "PUT", path: "/users/" + name, body: string(b)}
			},
			apply: func(m *c19Model, rep *c19Reply) (bool, string, string, string) {
				if rep.code < 300 {
					u := m.users[name]
					if pw != "" {
						u.pw = pw
					}
					u.email, u.groups = email, "" // the record is replaced: a body without groups stores none
					m.users[name] = u
				}
				return false, "", "", ""
			}}
	}
	acts = append(acts, putUser("alice", "p2", "alice@new.example.com", true), putUser("alice", "", "alice@changed.example.com", false), putUser("bob", "", "bob@example.com", false))
	// a body whose password member is present and empty: the empty string becomes the password (model value c19EmptyPw); what was the
	// password before no longer is
	acts = append(acts, c19Action{name: `PUT user alice with "password":"" present`, heavy: true, req: func(*c19Model) c19Req {
		return c19Req{method: "PUT", path: "/users/alice", body: `{"name":"alice","email":"alice@example.com","password":""}`}
	}, apply: func(m *c19Model, rep *c19Reply) (bool, string, string, string) {
		if rep.code < 300 {
			u := m.users["alice"]
			u.pw, u.email, u.groups = c19EmptyPw, "alice@example.com", ""
			m.users["alice"] = u
		}
		return false, "", "", ""
	}})
	// a profile update without a password member whose body carries a hashed_password (a bcrypt hash of "p3"): for an existing user the
	// stored credential stays what it was; only for a user that does not exist yet is the supplied hash what gets stored
	acts = append(acts, c19Action{name: "PUT user alice without password, body carries hashed_password", req: func(*c19Model) c19Req {
		return c19Req{method: "PUT", path: "/users/alice", body: `{"name":"alice","email":"alice@changed.example.com","hashed_password":"JDJhJDA0JENtZnZJa1gwajl3azVnR2Q0UVRmQXUuQVZnYkRtYS5XcHY4UmdCd1hJb1BwUTFSQzk0LzRD"}`}
	}, apply: func(m *c19Model, rep *c19Reply) (bool, string, string, string) {
		if rep.code < 300 {
			u, existed := m.users["alice"]
			if !existed {
				u.pw = "p3"
			}
			u.email, u.groups = "alice@changed.example.com", ""
			m.users["alice"] = u
		}
		return false, "", "", ""
	}})
	// a profile update that changes the user's groups: sessions opened before it keep describing the user as stored at their login
	acts = append(acts, c19Action{name: "PUT user alice without password, groups=admins,interns", req: func(*c19Model) c19Req {
		return c19Req{method: "PUT", path: "/users/alice", body: `{"name":"alice","email":"alice@changed.example.com","groups":["admins","interns"]}`}
	}, apply: func(m *c19Model, rep *c19Reply) (bool, string, string, string) {
		if rep.code < 300 {
			u := m.users["alice"]
			u.email, u.groups = "alice@changed.example.com", "admins,interns"
			m.users["alice"] = u
		}
		return false, "", "", ""
	}})
	// a profile update whose body names another user: the path decides whose record it is
	acts = append(acts, c19Action{name: "PUT user bob with body name=alice, no password", req: func(*c19Model) c19Req {
		b, _ := json.Marshal(map[string]interface{}{"name": "alice", "email": "bob@renamed.example.com"})
		return c19Req{method: "PUT", path: "/users/bob", body: string(b)}
	}, apply: func(m *c19Model, rep *c19Reply) (bool, string, string, string) {
		if rep.code < 300 {
			u := m.users["bob"]
			u.email, u.groups = "bob@renamed.example.com", ""
			m.users["bob"] = u
		}
		return false, "", "", ""
	}})
	acts = append(acts, c19Action{name: "DELETE user alice", req: func(*c19Model) c19Req { return c19Req{method: "DELETE", path: "/users/alice"} },
		apply: func(m *c19Model, rep *c19Reply) (bool, string, string, string) {
			if rep.code < 300 {
				delete(m.users, "alice")
			}
			return false, "", "", ""
		}})
	for _, sv := range []struct{ name, md string }{{"s1", "A"}, {"s1", "A2"}, {"s1", "B"}, {"s2", "B"}, {"s2", "N"}, {"s2", "Ac"}} {
		sv := sv
		acts = append(acts, c19Action{name: fmt.Sprintf("PUT service %s=%s", sv.name, sv.md), req: func(*c19Model) c19Req {
			return c19Req{method: "PUT", path: "/services/" + sv.name, body: string(c19Metadata(sv.md))}
		}, apply: func(m *c19Model, rep *c19Reply) (bool, string, string, string) {
			if rep.code < 300 {
				m.services[sv.name] = sv.md
			}
			return false, "", "", ""
		}})
	}
	acts = append(acts, c19Action{name: "PUT service s2=aggregate[idp-only,B,Ac]", req: func(*c19Model) c19Req {
		return c19Req{method: "PUT", path: "/services/s2", body: string(c19Metadata("agg[idp,B,Ac]"))}
	}, apply: func(m *c19Model, rep *c19Reply) (bool, string, string, string) {
		if rep.code < 300 {
			m.services["s2"] = "B" // the first SP of the aggregate
		}
		return false, "", "", ""
	}})
	for _, n := range []string{"s1", "s2"} {
		n := n
		acts = append(acts, c19Action{name: "DELETE service " + n, req: func(*c19Model) c19Req { return c19Req{method: "DELETE", path: "/services/" + n} },
			apply: func(m *c19Model, rep *c19Reply) (bool, string, string, string) {
				if rep.code < 300 {
					delete(m.services, n)
				}
				return false, "", "", ""
			}})
	}
	for _, sc := range []struct{ n, ent string }{{"A", c19EntA}, {"B", c19EntB}, {"Z", c19EntZ}, {"N", c19EntN}} {
		sc := sc
		acts = append(acts, c19Action{name: "PUT shortcut sc1->" + sc.n, req: func(*c19Model) c19Req {
			b, _ := json.Marshal(map[string]interface{}{"service_provider": sc.ent, "relay_state": "rs-" + sc.n})
			return c19Req{method: "PUT", path: "/shortcuts/sc1", body: string(b)}
		}, apply: func(m *c19Model, rep *c19Reply) (bool, string, string, string) {
			if rep.code < 300 {
				m.shortcuts["sc1"] = sc.ent
			}
			return false, "", "", ""
		}})
	}
	acts = append(acts, c19Action{name: "DELETE shortcut sc1", req: func(*c19Model) c19Req { return c19Req{method: "DELETE", path: "/shortcuts/sc1"} },
		apply: func(m *c19Model, rep *c19Reply) (bool, string, string, string) {
			if rep.code < 300 {
				delete(m.shortcuts, "sc1")
			}
			return false, "", "", ""
		}})

	credsOK := func(m *c19Model, user, pw string) bool {
		u, ok := m.users[user]
		return ok && u.pw != "" && (u.pw == pw || u.pw == c19EmptyPw && pw == "")
	}
	login := func(m *c19Model, rep *c19Reply, user string) {
		if rep.setSess != "" {
			m.sessions[rep.setSess] = c19MSession{owner: user, email: m.users[user].email, groups: m.users[user].groups, created: m.notch}
			m.cookie = rep.setSess
		}
	}
	for _, cr := range []struct{ u, p string }{{"alice", "p1"}, {"alice", "p2"}, {"alice", ""}, {"bob", ""}, {"bob", "x"}, {"bob", "p1"}, {"nobody", "p1"}} {
		cr := cr
		acts = append(acts, c19Action{name: fmt.Sprintf("login %s/%q", cr.u, cr.p), req: func(m *c19Model) c19Req {
			return c19Req{method: "POST", path: "/login", body: url.Values{"user": {cr.u}, "password": {cr.p}}.Encode(), ctype: "application/x-www-form-urlencoded", cookie: m.cookie}
		}, apply: func(m *c19Model, rep *c19Reply) (bool, string, string, string) {
			if credsOK(m, cr.u, cr.p) {
				login(m, rep, cr.u)
			}
			return false, "", "", ""
		}})
	}
	ssoReq := func(m *c19Model, issuer string, cookie string, creds url.Values) c19Req {
		doc := authnRequestXML(samlgen.S(issuer), samlgen.S(c19Root+"/sso"), samlgen.S("2.0"), samlgen.S(samlgen.TS(c19T[m.notch])), nil, nil, "id-req-c19")
		form := url.Values{"SAMLRequest": {base64.StdEncoding.EncodeToString(doc)}, "RelayState": {"rs"}}
		for k, v := range creds {
			form[k] = v
		}
		return c19Req{method: "POST", path: "/sso", body: form.Encode(), ctype: "application/x-www-form-urlencoded", cookie: cookie}
	}
	for _, iss := range []struct{ n, ent string }{{"A", c19EntA}, {"B", c19EntB}} {
		for _, ck := range []string{"current", "none", "forged"} {
			iss, ck := iss, ck
			cookieOf := func(m *c19Model) string {
				switch ck {
				case "current":
					return m.cookie
				case "forged":
					return "Zm9yZ2VkLXNlc3Npb24taWQ="
				}
				return ""
			}
			acts = append(acts, c19Action{name: fmt.Sprintf("SSO from %s cookie=%s", iss.n, ck), req: func(m *c19Model) c19Req { return ssoReq(m, iss.ent, cookieOf(m), nil) },
				apply: func(m *c19Model, rep *c19Reply) (bool, string, string, string) {
					acs, reg := m.registry()[iss.ent]
					ses, live := m.liveSession(cookieOf(m))
					if reg && live && cookieOf(m) != "" {
						return true, ses.email + "\x00" + ses.groups, acs, iss.ent
					}
					return false, "", "", ""
				}})
		}
		for _, cr := range []struct{ u, p string }{{"alice", "p1"}, {"alice", "p2"}, {"bob", ""}, {"bob", "p1"}} {
			iss, cr := iss, cr
			if iss.n == "B" && cr.p != "p1" {
				continue
			}
			acts = append(acts, c19Action{name: fmt.Sprintf("SSO from %s with credentials %s/%q", iss.n, cr.u, cr.p), req: func(m *c19Model) c19Req {
				return ssoReq(m, iss.ent, m.cookie, url.Values{"user": {cr.u}, "password": {cr.p}})
			}, apply: func(m *c19Model, rep *c19Reply) (bool, string, string, string) {
				acs, reg := m.registry()[iss.ent]
				if !reg {
					return false, "", "", "" // the request is refused before credentials are looked at
				}
				if credsOK(m, cr.u, cr.p) {
					email := m.users[cr.u].email + "\x00" + m.users[cr.u].groups
					login(m, rep, cr.u)
					return true, email, acs, iss.ent
				}
				return false, "", "", ""
			}})
		}
	}
	for _, ck := range []string{"current", "none", "forged"} {
		ck := ck
		cookieOf := func(m *c19Model) string {
			switch ck {
			case "current":
				return m.cookie
			case "forged":
				return "Zm9yZ2VkLXNlc3Npb24taWQ="
			}
			return ""
		}
		acts = append(acts, c19Action{name: "shortcut launch /login/sc1 cookie=" + ck, req: func(m *c19Model) c19Req { return c19Req{method: "GET", path: "/login/sc1", cookie: cookieOf(m)} },
			apply: func(m *c19Model, rep *c19Reply) (bool, string, string, string) {
				ent, has := m.shortcuts["sc1"]
				acs, reg := m.registry()[ent]
				ses, live := m.liveSession(cookieOf(m))
				if has && reg && acs != c19ArtN && live && cookieOf(m) != "" {
					return true, ses.email + "\x00" + ses.groups, acs, ent
				}
				return false, "", "", ""
			}})
	}
	acts = append(acts, c19Action{name: "DELETE current session", req: func(m *c19Model) c19Req {
		id := m.cookie
		if id == "" {
			id = "none"
		}
		return c19Req{method: "DELETE", path: "/sessions/" + url.PathEscape(id)}
	}, apply: func(m *c19Model, rep *c19Reply) (bool, string, string, string) {
		if rep.code < 300 {
			delete(m.sessions, m.cookie)
		}
		return false, "", "", ""
	}})
	for _, g := range []string{"/users/alice", "/users/bob", "/users/", "/sessions/", "/services/", "/services/s1", "/shortcuts/", "/shortcuts/sc1", "/metadata", "/sessions/current"} {
		g := g
		acts = append(acts, c19Action{name: "GET " + g, req: func(m *c19Model) c19Req {
			p := g
			if g == "/sessions/current" {
				id := m.cookie
				if id == "" {
					id = "none"
				}
				p = "/sessions/" + url.PathEscape(id)
			}
			return c19Req{method: "GET", path: p, cookie: m.cookie}
		}, apply: func(m *c19Model, rep *c19Reply) (bool, string, string, string) { return false, "", "", "" }})
	}
	if c19WithExtras {
		// credentials around bcrypt's 72-byte input limit (only for the live credential sequences: each PUT costs a DefaultCost hash)
		p72 := "p1" + strings.Repeat("x", 70)
		p73, p73alt := p72+"Z", p72+"Q"
		acts = append(acts, putUser("alice", p73, "alice@example.com", true), putUser("alice", p72, "alice@example.com", true))
		// strings that differ from a password by blanks around it are other strings
		for _, pw := range []string{"p1 ", " p1", "p1\n", "\tp1\r\n", "p2 ", "P1", "p3"} {
			pw := pw
			acts = append(acts, c19Action{name: fmt.Sprintf("login alice/%+q", pw), req: func(m *c19Model) c19Req {
				return c19Req{method: "POST", path: "/login", body: url.Values{"user": {"alice"}, "password": {pw}}.Encode(), ctype: "application/x-www-form-urlencoded", cookie: m.cookie}
			}, apply: func(m *c19Model, rep *c19Reply) (bool, string, string, string) {
				if credsOK(m, "alice", pw) {
					login(m, rep, "alice")
				}
				return false, "", "", ""
			}})
		}
		for _, pw := range []string{p72, p73, p73alt, p72 + "ZZ"} {
			pw := pw
			acts = append(acts, c19Action{name: fmt.Sprintf("login alice/%d-byte-password-ending-%q", len(pw), pw[len(pw)-2:]), req: func(m *c19Model) c19Req {
				return c19Req{method: "POST", path: "/login", body: url.Values{"user": {"alice"}, "password": {pw}}.Encode(), ctype: "application/x-www-form-urlencoded", cookie: m.cookie}
			}, apply: func(m *c19Model, rep *c19Reply) (bool, string, string, string) {
				if credsOK(m, "alice", pw) {
					login(m, rep, "alice")
				}
				return false, "", "", ""
			}})
		}
	}
	acts = append(acts, c19Action{name: "tick past the session lifetime", req: nil, apply: nil})
	return acts
}

// c19WithExtras makes c19Actions add the slow credential-boundary actions (used by the live credential sequences only).
var c19WithExtras bool

func c19Do(srv *samlidp.Server, rq c19Req, notch int, seed string) *c19Reply {
	harness.SetNow(c19T[notch])
	saml.RandReader = harness.NewCtr("c19" + seed)
	var body *strings.Reader
	r := httptest.NewRequest(rq.method, rq.path, strings.NewReader(rq.body))
	_ = body
	r.Host = "idp.example.com"
	if rq.ctype != "" {
		r.Header.Set("Content-Type", rq.ctype)
	}
	if rq.cookie != "" {
		r.AddCookie(&http.Cookie{Name: "session", Value: rq.cookie})
	}
	w := &strictWriter{hdr: http.Header{}}
	rep := &c19Reply{w: w}
	// a request that never returns (a handler deadlocked against itself) must end the case, not the worker: 30 s is three orders of
	// magnitude above the slowest request here (a bcrypt hash), and after the first such request no further one is attempted
	if c19Hung {
		return &c19Reply{w: &strictWriter{hdr: http.Header{}}, panic: "request never returned (an earlier request of this process still has not)@samlidp.Server.ServeHTTP-never-returned"}
	}
	if !returnsWithin(30*time.Second, func() { _, rep.panic = guard(func() error { srv.ServeHTTP(w, r); return nil }) }) {
		c19Hung = true
		return &c19Reply{w: &strictWriter{hdr: http.Header{}}, panic: fmt.Sprintf("%s %s did not return within 30 s@samlidp.Server.ServeHTTP-never-returned", rq.method, rq.path)}
	}
	rep.code = w.code
	rep.body = w.body.Bytes()
	resp := http.Response{Header: w.hdr}
	for _, ck := range resp.Cookies() {
		if ck.Name == "session" && ck.Value != "" {
			rep.setSess = ck.Value
		}
	}
	return rep
}

func hasAssertionForm(body []byte) bool { return bytes.Contains(body, []byte("name=\"SAMLResponse\"")) }

// storedHashes returns raw and base64 forms of every stored password hash.
func storedHashes(st *c19Store) [][]byte {
	var out [][]byte
	for k, v := range st.data {
		if !strings.HasPrefix(k, "/users/") {
			continue
		}
		var u samlidp.User
		if json.Unmarshal([]byte(v), &u) == nil && len(u.HashedPassword) > 0 {
			out = append(out, u.HashedPassword, []byte(base64.StdEncoding.EncodeToString(u.HashedPassword)))
		}
	}
	return out
}

func init() {
	Register(&Check{
		ID:     "C19",
		Engine: "bfs",
		Rule: "explicit-state breadth-first search from two initial stores (empty; seeded users/service/shortcut) over ~55 actions {put/delete user with/without password, put/delete two services with three metadata variants, put/delete shortcut to registered/unregistered SPs, login attempts with right/wrong/empty passwords and a hash-less user, SSO from two issuers with current/no/forged cookie or posted credentials, shortcut launch, delete session, GETs and lists, clock advance past the session lifetime}; " +
			"the server is re-created over a clone of the store before every transition (a restart at every position of every history) and its registry after the action is compared with that of a server created over the resulting store; every transition is re-run with one injected store error (not-found, I/O) at each store call. Oracle: reference model (users, passwords, sessions with owner snapshot and expiry, services by current stored metadata, shortcuts) decides whether an assertion may be emitted, for whom and to which ACS; no reply discloses a stored hash; one status line, no header after body; no panic. states canonicalised on (store content without session ids and hash salts, what the browser's cookie refers to, clock notch)",
		Bounds: func(tier string) string {
			if tier == "thorough" {
				return "depth <= 6 (time-capped; completed depth reported), one injected fault per request at every store call"
			}
			return "depth <= 4 from both initial stores, one injected fault per request at every store call"
		},
		Assumptions: []string{"hidden server state is the service registry only (checked by the registry comparison at every transition); histories on one long-lived server object are covered by that inductive argument plus live sequences of length <= 3 (group live-sequences)", "crash inside a request is out of scope (the statement restarts between requests)"},
		Run:         runC19,
		CapQuick:    8 * time.Minute,
		CapThorough: 25 * time.Minute,
		Post: func(res *core.Result, cov map[string]interface{}) {
			if v, ok := res.Notes["bfs_states"].(float64); ok {
				cov["states"] = int(v)
			}
			if v, ok := res.Notes["bfs_transitions"].(float64); ok {
				cov["transitions"] = int(v)
			}
			if v, ok := res.Notes["fault_runs"].(float64); ok {
				cov["fault_injected_runs"] = int(v)
			}
		},
	})
}

func c19Initials() []*c19State {
	empty := &c19State{store: &c19Store{data: map[string]string{}}, m: &c19Model{users: map[string]c19User{}, services: map[string]string{}, shortcuts: map[string]string{}, sessions: map[string]c19MSession{}}, path: []string{"init:empty"}}
	seeded := &c19State{store: &c19Store{data: map[string]string{}}, m: empty.m.clone(), path: []string{"init:seeded"}}
	put := func(k string, v interface{}) { b, _ := json.Marshal(v); seeded.store.data[k] = string(b) }
	put("/users/alice", samlidp.User{Name: "alice", Email: "alice@example.com", HashedPassword: minHash("p1"), Groups: []string{"staff"}})
	put("/users/bob", samlidp.User{Name: "bob", Email: "bob@example.com"})
	seeded.m.users["alice"] = c19User{"p1", "alice@example.com", "staff"}
	seeded.m.users["bob"] = c19User{"", "bob@example.com", ""}
	var md saml.EntityDescriptor
	xml.Unmarshal(c19Metadata("A"), &md)
	put("/services/s1", samlidp.Service{Name: "s1", Metadata: md})
	seeded.m.services["s1"] = "A"
	rs := "rs-A"
	put("/shortcuts/sc1", samlidp.Shortcut{Name: "sc1", ServiceProviderID: c19EntA, RelayState: &rs})
	seeded.m.shortcuts["sc1"] = c19EntA
	return []*c19State{seeded, empty}
}

// c19Hung: a request or registry lookup of this process never returned; nothing further is sent to the library by these drivers.
var c19Hung bool

// returnsWithin runs f on its own goroutine and reports whether it returned within d (f keeps running otherwise).
func returnsWithin(d time.Duration, f func()) bool {
	done := make(chan struct{})
	go func() { defer close(done); f() }()
	select {
	case <-done:
		return true
	case <-time.After(d):
		return false
	}
}

const registryLookupHung = "REGISTRY-LOOKUP-NEVER-RETURNED"

func observeRegistry(srv *samlidp.Server) string {
	if c19Hung {
		return registryLookupHung
	}
	var out string
	if !returnsWithin(30*time.Second, func() { out = observeRegistry1(srv) }) {
		c19Hung = true
		return registryLookupHung
	}
	return out
}

func observeRegistry1(srv *samlidp.Server) string {
	var parts []string
	for _, e := range []string{c19EntA, c19EntB, c19EntZ, c19EntN, c19EntAc} {
		md, err := srv.GetServiceProvider(nil, e)
		if err != nil || md == nil {
			parts = append(parts, "-")
			continue
		}
		acs := ""
		if len(md.SPSSODescriptors) > 0 && len(md.SPSSODescriptors[0].AssertionConsumerServices) > 0 {
			acs = md.SPSSODescriptors[0].AssertionConsumerServices[0].Location
		}
		parts = append(parts, md.EntityID+"@"+acs)
	}
	return strings.Join(parts, " ")
}

func runC19(c *core.Ctx) {
	g := harness.Pin(samlgen.T0)
	defer g.Restore()
	acts := c19Actions()
	maxDepth := 4
	if c.Thorough() {
		maxDepth = 6
	}
	totalStates, totalTrans, faultRuns := 0, 0, 0
	sub := 0
	for ii, ini := range c19Initials() {
		for ai := range acts {
			ii, ini, ai := ii, ini, ai
			c.Affinity(sub)
			sub++
			c.Case(fmt.Sprintf("bfs/init=%d/first=%s", ii, acts[ai].name), func(t *core.T) {
				t.NonTrivial()
				st, tr, fr := c19BFS(t, c, ini, acts, ai, maxDepth)
				totalStates += st
				totalTrans += tr
				faultRuns += fr
				t.Evals(tr)
				t.Compared()
			})
		}
	}
	c.Affinity(-1)
	c.Note("bfs_states", float64(totalStates))
	c.Note("bfs_transitions", float64(totalTrans))
	c.Note("fault_runs", float64(faultRuns))
	c19Live(c, acts)
	c19SessionLifetimes(c, acts)
	c19LiveCredentials(c, acts)
}

// c19Step runs one action from state s. Returns the successor (nil if the action is not applicable) and violations.
func c19Step(s *c19State, a c19Action, faults bool, depth int) (*c19State, []string, int) {
	var viols []string
	fr := 0
	ns := &c19State{store: s.store.clone(), m: s.m.clone(), path: append(append([]string{}, s.path...), a.name)}
	if a.req == nil { // tick
		if ns.m.notch >= len(c19T)-1 {
			return nil, nil, 0
		}
		ns.m.notch++
		return ns, nil, 0
	}
	seed := core.Hash12(strings.Join(ns.path, ";"))
	srv, err := c19Server(ns.store)
	if err != nil {
		return nil, []string{"server-does-not-start|samlidp.New over a reachable store failed: " + err.Error()}, 0
	}
	ns.store.calls = nil
	rq := a.req(s.m)
	hashesBefore := storedHashes(s.store)
	rep := c19Do(srv, rq, s.m.notch, seed)
	rep.calls = append([]string{}, ns.store.calls...)
	ctx := fmt.Sprintf("history: %s\nrequest: %s %s cookie=%q -> status %d, %d body bytes, store calls %v", strings.Join(ns.path, " ; "), rq.method, rq.path, rq.cookie, rep.code, len(rep.body), rep.calls)
	if rep.panic != "" {
		return nil, []string{"panic@" + rep.panic[strings.LastIndex(rep.panic, "@")+1:] + "|" + ctx + "\n" + rep.panic}, 0
	}
	viols = append(viols, c19ReplyShape(rep, "fault-free", ctx)...)
	viols = append(viols, c19NoHash(rep, append(hashesBefore, storedHashes(ns.store)...), ctx)...)
	// model
	may, wantName, wantACS, wantAud := a.apply(ns.m, rep)
	got := hasAssertionForm(rep.body)
	switch {
	case got && !may:
		viols = append(viols, "assertion-without-right/"+actClass(a.name)+"|the reference model allows no assertion here, but one was emitted\n"+ctx)
	case !got && may:
		viols = append(viols, "legitimate-request-refused/"+actClass(a.name)+"|the reference model expects an assertion (valid credentials or live session, registered SP) but none was emitted\n"+ctx+"\n"+string(trunc(rep.body, 300)))
	case got && may:
		d, derr := decodeIDPForm(rep.body, nil, samlgen.Key("idpec").Cert, c19T[s.m.notch])
		if derr != nil {
			viols = append(viols, "assertion-undecodable|"+derr.Error()+"\n"+ctx)
		} else {
			wantMail, wantGroups, _ := strings.Cut(wantName, "\x00")
			if d.NameID != wantMail {
				viols = append(viols, fmt.Sprintf("assertion-describes-wrong-user/%s|NameID %q, the user as stored at login has %q\n%s", actClass(a.name), d.NameID, wantMail, ctx))
			}
			if g := c19Groups(d); g != wantGroups {
				viols = append(viols, fmt.Sprintf("assertion-describes-wrong-groups/%s|the assertion states the groups %q, the user as stored at login has %q\n%s", actClass(a.name), g, wantGroups, ctx))
			}
			if d.Destination != wantACS || d.Form.Action != wantACS {
				viols = append(viols, fmt.Sprintf("assertion-to-wrong-endpoint/%s|Destination %q / form action %q, the currently stored service has ACS %q\n%s", actClass(a.name), d.Destination, d.Form.Action, wantACS, ctx))
			}
			if len(d.Audiences) != 1 || d.Audiences[0] != wantAud {
				viols = append(viols, fmt.Sprintf("assertion-wrong-audience|audiences %v, want %q\n%s", d.Audiences, wantAud, ctx))
			}
			if !d.RespSigOK || !d.AssSigOK {
				viols = append(viols, "assertion-signature|"+d.RespSigErr+" / "+d.AssSigErr+"\n"+ctx)
			}
			// an assertion issued at login must be backed by a stored session
			if rep.setSess != "" {
				if _, ok := ns.store.data["/sessions/"+rep.setSess]; !ok {
					viols = append(viols, "assertion-without-stored-session|a session cookie was set and an assertion issued but the session is not in the store\n"+ctx)
				}
			}
		}
	}
	if rep.setSess != "" {
		if _, ok := ns.store.data["/sessions/"+rep.setSess]; !ok {
			viols = append(viols, "cookie-for-unstored-session|Set-Cookie names a session that is not in the store\n"+ctx)
		}
	}
	// restart differential: registry of the live server after the action vs a server re-created over the resulting store
	live := observeRegistry(srv)
	fresh, ferr := c19Server(ns.store.clone())
	if ferr != nil {
		viols = append(viols, "server-does-not-restart|"+ferr.Error()+"\n"+ctx)
	} else if fr := observeRegistry(fresh); fr != live {
		viols = append(viols, fmt.Sprintf("restart-differential/registry|after the request the running server knows [%s] but a server re-created over the same store knows [%s]\n%s", live, fr, ctx))
	}
	var mreg []string
	for _, e := range []string{c19EntA, c19EntB, c19EntZ, c19EntN, c19EntAc} {
		if acs, ok := ns.m.registry()[e]; ok {
			mreg = append(mreg, e+"@"+acs)
		} else {
			mreg = append(mreg, "-")
		}
	}
	if strings.Join(mreg, " ") != live {
		viols = append(viols, fmt.Sprintf("registry-differs-from-stored-services|running server knows [%s], the stored services give [%s]\n%s", live, strings.Join(mreg, " "), ctx))
	}
	cheapen(ns.store, ns.m)

	// fault injection: one error at each store call of this request
	if faults {
		n := len(rep.calls)
		for i := 1; i <= n; i++ {
			for _, fe := range []struct {
				n string
				e error
			}{{"not-found", samlidp.ErrNotFound}, {"io-error", errors.New("store: input/output error")}} {
				fs := s.store.clone()
				fsrv, err := c19Server(fs)
				if err != nil {
					continue
				}
				fs.calls, fs.failAt, fs.failErr = nil, i, fe.e
				frep := c19Do(fsrv, rq, s.m.notch, seed)
				fr++
				fctx := fmt.Sprintf("%s\ninjected %s at store call %d (%s): status %d", ctx, fe.n, i, rep.calls[i-1], frep.code)
				cls := fe.n + "@" + strings.SplitN(rep.calls[i-1], " ", 2)[0] + "-" + keyClass(rep.calls[i-1])
				if frep.panic != "" {
					viols = append(viols, "fault/panic@"+frep.panic[strings.LastIndex(frep.panic, "@")+1:]+"|"+fctx+"\n"+frep.panic)
					continue
				}
				for _, v := range c19ReplyShape(frep, "fault/"+cls, fctx) {
					viols = append(viols, v)
				}
				viols = append(viols, c19NoHash(frep, hashesBefore, fctx)...)
				if hasAssertionForm(frep.body) {
					if !may {
						viols = append(viols, "fault/assertion-without-right/"+cls+"|"+fctx)
					}
					if frep.setSess != "" {
						if _, ok := fs.data["/sessions/"+frep.setSess]; !ok {
							viols = append(viols, "fault/assertion-without-stored-session/"+cls+"|an assertion was issued although the session could not be stored\n"+fctx)
						}
					}
				}
				if frep.setSess != "" {
					if _, ok := fs.data["/sessions/"+frep.setSess]; !ok {
						viols = append(viols, "fault/cookie-for-unstored-session/"+cls+"|"+fctx)
					}
				}
				// whatever the failed request left behind: the running server serves the service providers the store holds - the same
				// ones a server started afresh over that store would serve
				fs.failAt = 0
				live := observeRegistry(fsrv)
				if fresh, ferr := c19Server(fs); ferr == nil {
					if fr2 := observeRegistry(fresh); fr2 != live {
						viols = append(viols, "fault/registry-differs-from-store-after-failed-request/"+cls+"|running server: "+live+"\nserver restarted over the same store: "+fr2+"\n"+fctx)
					}
				}
			}
		}
	}
	return ns, viols, fr
}

func keyClass(call string) string {
	p := strings.SplitN(call, " ", 2)
	if len(p) < 2 {
		return "?"
	}
	k := strings.Trim(p[1], "/")
	if i := strings.Index(k, "/"); i >= 0 {
		k = k[:i]
	}
	return k
}

func actClass(n string) string {
	switch {
	case strings.HasPrefix(n, "SSO from") && strings.Contains(n, "credentials"):
		return "sso-with-credentials"
	case strings.HasPrefix(n, "SSO from"):
		return "sso-" + n[strings.Index(n, "cookie="):]
	case strings.HasPrefix(n, "shortcut"):
		return "shortcut-" + n[strings.Index(n, "cookie="):]
	case strings.HasPrefix(n, "login"):
		return "login"
	}
	return strings.Fields(n)[0]
}

func c19ReplyShape(rep *c19Reply, cls, ctx string) []string {
	var v []string
	if rep.w.lateHeader {
		v = append(v, cls+"/status-after-body|the handler wrote body bytes and then a (different) status line: the client sees one reply glued to another\n"+ctx+"\nbody: "+string(trunc(rep.body, 300)))
	}
	if rep.w.headerCalls > 1 && !rep.w.lateHeader {
		v = append(v, cls+"/two-status-lines|WriteHeader was called "+fmt.Sprint(rep.w.headerCalls)+" times\n"+ctx)
	}
	if rep.code == 0 {
		v = append(v, cls+"/no-reply|the handler wrote nothing\n"+ctx)
	}
	if rep.code >= 400 && hasAssertionForm(rep.body) {
		v = append(v, cls+"/assertion-in-error-reply|status "+fmt.Sprint(rep.code)+" with a SAMLResponse form\n"+ctx)
	}
	if bytes.Contains(rep.body, []byte("Internal Server Error")) && (hasAssertionForm(rep.body) || bytes.Contains(rep.body, []byte("\"ID\""))) {
		v = append(v, cls+"/error-text-followed-by-content|the body carries an error message and then a normal reply\n"+ctx+"\nbody: "+string(trunc(rep.body, 300)))
	}
	return v
}

func c19NoHash(rep *c19Reply, hashes [][]byte, ctx string) []string {
	for _, h := range hashes {
		if len(h) > 8 && bytes.Contains(rep.body, h) {
			return []string{"password-hash-disclosed|a reply body contains a stored password hash\n" + ctx}
		}
	}
	return nil
}

func c19BFS(t *core.T, c *core.Ctx, ini *c19State, acts []c19Action, first, maxDepth int) (int, int, int) {
	seen := map[string]bool{}
	frontier := []*c19State{ini}
	transitions, faultRuns := 0, 0
	reported := map[string]bool{}
	report := func(viols []string) {
		for _, v := range viols {
			p := strings.SplitN(v, "|", 2)
			if !reported[p[0]] {
				reported[p[0]] = true
				t.Fail("C19/"+p[0], "%s", p[1])
			}
		}
	}
	for depth := 1; depth <= maxDepth && len(frontier) > 0; depth++ {
		var next []*c19State
		for si, s := range frontier {
			if si%16 == 0 && c.TimeUp() {
				// out of time: what was explored so far stands, the run is reported as capped
				t.Outcome("bfs-capped-by-time")
				t.Impl(transitions + faultRuns)
				t.Sample(map[string]interface{}{"first_action": acts[first].name, "states": len(seen), "transitions": transitions, "fault_injected_runs": faultRuns, "capped_at_depth": depth})
				return len(seen), transitions, faultRuns
			}
			for ai, a := range acts {
				if depth == 1 && ai != first {
					continue
				}
				if a.heavy && depth > 2 && !c.Thorough() {
					continue // bcrypt at DefaultCost: only as one of the first two actions in the quick tier
				}
				ns, viols, fr := c19Step(s, a, true, depth)
				if ns == nil && viols == nil {
					continue
				}
				transitions++
				faultRuns += fr
				report(viols)
				if ns == nil {
					continue
				}
				k := ns.key()
				if !seen[k] {
					seen[k] = true
					next = append(next, ns)
				}
			}
		}
		frontier = next
	}
	t.Impl(transitions + faultRuns)
	t.Outcome("bfs")
	t.Sample(map[string]interface{}{"first_action": acts[first].name, "states": len(seen), "transitions": transitions, "fault_injected_runs": faultRuns})
	return len(seen), transitions, faultRuns
}

// c19RunLiveSeq runs one sequence of actions on one long-lived server and compares every reply with the reference model.
func c19RunLiveSeq(t *core.T, acts []c19Action, ini *c19State, seq []int, reported map[string]bool, n *int) {
	st := ini.store.clone()
	m := ini.m.clone()
	srv, err := c19Server(st)
	if err != nil {
		return
	}
	var path []string
	for _, ai := range seq {
		a := acts[ai]
		path = append(path, a.name)
		if a.req == nil {
			if m.notch < len(c19T)-1 {
				m.notch++
			}
			continue
		}
		rq := a.req(m)
		rep := c19Do(srv, rq, m.notch, core.Hash12(strings.Join(path, ";")))
		*n++
		if rep.panic != "" {
			if !reported["panic"] {
				reported["panic"] = true
				t.Fail("C19/live/panic@"+rep.panic[strings.LastIndex(rep.panic, "@")+1:], "%s: %s", strings.Join(path, " ; "), rep.panic)
			}
			return
		}
		may, wantName, wantACS, _ := a.apply(m, rep)
		got := hasAssertionForm(rep.body)
		f := ""
		if got != may {
			f = "live/assertion-verdict-differs-from-model/" + actClass(a.name)
		} else if got {
			if d, derr := decodeIDPForm(rep.body, nil, samlgen.Key("idpec").Cert, c19T[m.notch]); derr == nil && (d.NameID+"\x00"+c19Groups(d) != wantName || d.Destination != wantACS) {
				f = "live/assertion-content-differs-from-model/" + actClass(a.name)
			}
		}
		if f != "" && !reported[f] {
			reported[f] = true
			t.Fail("C19/"+f, "on one long-lived server, history %s (clock positions %v): assertion emitted=%v, model allows=%v (status %d)", strings.Join(path, " ; "), c19T, got, may, rep.code)
		}
		cheapen(st, m)
	}
}

// c19SessionLifetimes: a login, then every sequence of <= 5 steps out of {use the session for SSO, launch a shortcut with it, let the
// clock move on} with the clock moving in steps finer than the session lifetime (0, +40 min, +80 min, +122 min): a session ends one
// hour after the login that created it, however often it was used in between.
func c19SessionLifetimes(c *core.Ctx, acts []c19Action) {
	c.Group("session-lifetime-histories")
	idx := map[string]int{}
	for i, a := range acts {
		idx[a.name] = i
	}
	login, ok1 := idx[`login alice/"p1"`]
	sso, ok2 := idx["SSO from A cookie=current"]
	sc, ok3 := idx["shortcut launch /login/sc1 cookie=current"]
	tick, ok4 := idx["tick past the session lifetime"]
	if !ok1 || !ok2 || !ok3 || !ok4 {
		c.Case("session-lifetimes/alphabet", func(t *core.T) { t.Fail("C19/harness/alphabet", "actions not found: %v %v %v %v", ok1, ok2, ok3, ok4) })
		return
	}
	steps := []int{sso, sc, tick}
	for first := range steps {
		first := first
		c.Case(fmt.Sprintf("session-lifetimes/login-then-%s", acts[steps[first]].name), func(t *core.T) {
			t.NonTrivial()
			old := c19T
			c19T = []time.Time{samlgen.T0, samlgen.T0.Add(40 * time.Minute), samlgen.T0.Add(80 * time.Minute), samlgen.T0.Add(122 * time.Minute)}
			defer func() { c19T = old }()
			ini := c19Initials()[0]
			reported := map[string]bool{}
			n := 0
			served, refused := 0, 0
			var rec func(seq []int)
			rec = func(seq []int) {
				if len(seq) >= 3 {
					before := len(reported)
					c19RunLiveSeq(t, acts, ini, seq, reported, &n)
					_ = before
				}
				if len(seq) == 6 {
					return
				}
				for _, sidx := range steps {
					rec(append(append([]int{}, seq...), sidx))
				}
			}
			rec([]int{login, steps[first]})
			_ = served
			_ = refused
			t.Evals(n)
			t.Impl(n)
			t.Compared()
			t.Outcome("session-lifetime-block")
		})
	}
}

// c19Live runs every sequence of <= 3 light actions on ONE long-lived server and compares each reply with the reference model
// (catches hidden server state that a restart would wipe).
func c19Live(c *core.Ctx, acts []c19Action) {
	c.Group("live-sequences")
	var light []int
	for i, a := range acts {
		if !a.heavy && !strings.HasPrefix(a.name, "GET ") {
			light = append(light, i)
		}
	}
	maxLen := 3
	ini := c19Initials()[0]
	for _, a1 := range light {
		a1 := a1
		c.Case("live/first="+acts[a1].name, func(t *core.T) {
			t.NonTrivial()
			n := 0
			reported := map[string]bool{}
			var rec func(seq []int)
			rec = func(seq []int) {
				if len(seq) == maxLen {
					c19RunLiveSeq(t, acts, ini, seq, reported, &n)
					return
				}
				for _, ai := range light {
					rec(append(seq, ai))
				}
			}
			rec([]int{a1})
			t.Evals(n)
			t.Impl(n)
			t.Compared()
		})
	}
}

// c19LiveCredentials: on ONE long-lived server, every sequence over the actions that touch alice's credentials - logins and SSO with
// posted credentials (right, superseded, empty password), password change, profile change, deletion - with at most one (slow, bcrypt
// DefaultCost) password change per sequence. What a restart would forget must not matter: after a password change only the current
// password opens a session or obtains an assertion.
func c19LiveCredentials(c *core.Ctx, _ []c19Action) {
	c.Group("live-credential-sequences")
	c19WithExtras = true
	acts := c19Actions()
	c19WithExtras = false
	var alpha []int
	for i, a := range acts {
		n := a.name
		if strings.HasPrefix(n, "login alice/") || strings.Contains(n, "with credentials alice/") || strings.HasPrefix(n, "PUT user alice") || strings.HasPrefix(n, "DELETE user alice") {
			alpha = append(alpha, i)
		}
	}
	maxLen := 3
	if c.Thorough() {
		maxLen = 4
	}
	ini := c19Initials()[0] // the seeded store: alice has password p1
	for _, a1 := range alpha {
		for _, a2 := range alpha {
			a1, a2 := a1, a2
			c.Case("livecreds/"+acts[a1].name+" ; "+acts[a2].name, func(t *core.T) {
				t.NonTrivial()
				n := 0
				reported := map[string]bool{}
				var rec func(seq []int, heavy int)
				rec = func(seq []int, heavy int) {
					if heavy > 1 {
						return
					}
					if len(seq) == maxLen {
						st := ini.store.clone()
						m := ini.m.clone()
						srv, err := c19Server(st)
						if err != nil {
							return
						}
						var path []string
						for _, ai := range seq {
							a := acts[ai]
							path = append(path, a.name)
							rq := a.req(m)
							rep := c19Do(srv, rq, m.notch, core.Hash12(strings.Join(path, ";")))
							n++
							if rep.panic != "" {
								if !reported["panic"] {
									reported["panic"] = true
									t.Fail("C19/live/panic@"+rep.panic[strings.LastIndex(rep.panic, "@")+1:], "%s: %s", strings.Join(path, " ; "), rep.panic)
								}
								return
							}
							cookieBefore := m.cookie
							may, _, _, _ := a.apply(m, rep)
							got := hasAssertionForm(rep.body)
							f := ""
							if got != may {
								f = "live/assertion-verdict-differs-from-model/" + actClass(a.name)
							}
							if strings.HasPrefix(a.name, "login ") && rep.setSess != "" && m.cookie == cookieBefore {
								f = "live/session-without-valid-credentials" // the model did not log anybody in, the server set a session cookie
							}
							if f != "" && !reported[f] {
								reported[f] = true
								t.Fail("C19/"+f, "on one long-lived server, history %s: assertion emitted=%v (model allows=%v), session cookie set=%v (status %d)", strings.Join(path, " ; "), got, may, rep.setSess != "", rep.code)
							}
							if rep.setSess != "" {
								t.Outcome("a-login-succeeded")
							}
							if got {
								t.Outcome("an-assertion-was-emitted")
							}
						}
						return
					}
					for _, ai := range alpha {
						h := heavy
						if acts[ai].heavy {
							h++
						}
						rec(append(append([]int{}, seq...), ai), h)
					}
				}
				h0 := 0
				for _, ai := range []int{a1, a2} {
					if acts[ai].heavy {
						h0++
					}
				}
				rec([]int{a1, a2}, h0)
				t.Evals(n)
				t.Impl(n)
				t.Compared()
			})
		}
	}
}
