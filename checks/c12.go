package checks

import (
	"bytes"
	"compress/flate"
	"encoding/base64"
	"encoding/xml"
	"fmt"
	"io"
	"net/http/httptest"
	"net/url"
	"strings"
	"time"
	"unicode/utf8"

	"github.com/beevik/etree"
	"github.com/crewjam/saml"
	dsig "github.com/russellhaering/goxmldsig"

	"verif/engine/core"
	"verif/engine/harness"
	"verif/engine/htmlform"
	"verif/engine/lattice"
	"verif/engine/samlgen"
)

// C12 — SP outbound messages survive their binding encodings; relay state intact.

var c12Tokens = []string{"a", "&", "=", "#", "+", "%", "%26", " ", "\"", "'", "<", ";", "?", "/", "é", "\U0001F600", "\r\n", "&SAMLRequest=x", "&SigAlg=x", "%zz", "\t"}

// "resploc": the IdP's logout endpoints also advertise a ResponseLocation (where logout RESPONSES may be sent); requests still go to Location
var c12Endpoints = []struct{ name, suffix string }{{"plain", ""}, {"q1", "?a=b"}, {"q2", "?a=b&c=d%26e"}, {"trailing-q", "?"}, {"resploc", ""}, {"port", ":8443"}, {"endpoints-in-second-role-descriptor", ""}, {"bindings-split-over-two-role-descriptors", ""}}

var c12Messages = []string{"authn-redirect", "authn-post", "logoutreq-redirect", "logoutreq-post", "logoutresp-redirect", "logoutresp-post"}

// splitQuery is an independent, order-preserving query-string splitter.
func splitQuery(raw string) (keys, vals []string, err error) {
	if raw == "" {
		return nil, nil, nil
	}
	for _, part := range strings.Split(raw, "&") {
		k, v, _ := strings.Cut(part, "=")
		ku, e1 := url.QueryUnescape(k)
		vu, e2 := url.QueryUnescape(v)
		if e1 != nil || e2 != nil {
			return nil, nil, fmt.Errorf("parameter %q is not valid percent-encoding", part)
		}
		keys = append(keys, ku)
		vals = append(vals, vu)
	}
	return
}

func inflate(b []byte) ([]byte, error) {
	return io.ReadAll(flate.NewReader(bytes.NewReader(b)))
}

type c12Cfg struct {
	sign     bool
	nidFmt   int
	force    int
	reqCtx   bool
	entity   bool
	endpoint int
	artifact bool // the AuthnRequest asks for its response over HTTP-Artifact (what samlsp does with UseArtifactResponse)
	idpFmts  int  // NameIDFormat entries the IdP's metadata lists: none (0), transient only (1), emailAddress + persistent (2), unspecified (3) - what the SP asks for is what it was configured to ask for
	method   int  // with sign: which of c12Methods signs (0 = rsa-sha256, the usual one); the ECDSA ones come with an EC key
	zone     int  // the library clock returns the same instant in UTC (0), in -08:00 (1), in +05:30 (2): saml.TimeNow = time.Now on such a machine
}

var c12Methods = []string{dsig.RSASHA256SignatureMethod, dsig.RSASHA1SignatureMethod, dsig.RSASHA384SignatureMethod, dsig.RSASHA512SignatureMethod,
	dsig.ECDSASHA1SignatureMethod, dsig.ECDSASHA256SignatureMethod, dsig.ECDSASHA384SignatureMethod, dsig.ECDSASHA512SignatureMethod}

var c12Zones = []*time.Location{time.UTC, time.FixedZone("", -8*3600), time.FixedZone("", 5*3600+1800)}

var c12NIDFormats = []saml.NameIDFormat{"", saml.UnspecifiedNameIDFormat, saml.TransientNameIDFormat, saml.EmailAddressNameIDFormat, saml.PersistentNameIDFormat}

func (c c12Cfg) String() string {
	s := fmt.Sprintf("sign=%v/nid=%d/force=%d/ctx=%v/entity=%v/ep=%s", c.sign, c.nidFmt, c.force, c.reqCtx, c.entity, c12Endpoints[c.endpoint].name)
	if c.artifact {
		s += "/response-binding=artifact"
	}
	if c.idpFmts != 0 {
		s += "/idp-lists-nameid-formats=" + []string{"none", "transient", "email+persistent", "unspecified"}[c.idpFmts]
	}
	if c.method != 0 {
		s += "/method=" + shortAlg(c12Methods[c.method])
	}
	if c.zone != 0 {
		s += "/clock-zone=" + []string{"UTC", "-08:00", "+05:30"}[c.zone]
	}
	return s
}

// c12URLs gives the IdP endpoints of a configuration; the "port" form names an explicit port in the authority.
func c12URLs(cf c12Cfg) (sso, slo string) {
	e := c12Endpoints[cf.endpoint]
	if e.name == "port" {
		return strings.Replace(samlgen.IDPSSO, "idp.example.com", "idp.example.com"+e.suffix, 1), strings.Replace(samlgen.IDPSLO, "idp.example.com", "idp.example.com"+e.suffix, 1)
	}
	return samlgen.IDPSSO + e.suffix, samlgen.IDPSLO + e.suffix
}

func c12SP(cf c12Cfg) (*saml.ServiceProvider, string, string) {
	sso, slo := c12URLs(cf)
	o := harness.SPOpt{IDPSSOURL: sso, IDPSLOURL: slo, NoEntityID: !cf.entity}
	if cf.sign {
		o.SignMethod = c12Methods[cf.method]
		if strings.Contains(o.SignMethod, "ecdsa") {
			o.SPKey = "spec256"
		}
	}
	sp := harness.NewSP(o)
	sp.AuthnNameIDFormat = c12NIDFormats[cf.nidFmt]
	tr, fa := true, false
	switch cf.force {
	case 1:
		sp.ForceAuthn = &tr
	case 2:
		sp.ForceAuthn = &fa
	}
	if cf.reqCtx {
		sp.RequestedAuthnContext = &saml.RequestedAuthnContext{Comparison: "exact", AuthnContextClassRef: "urn:oasis:names:tc:SAML:2.0:ac:classes:PasswordProtectedTransport"}
	}
	if c12Endpoints[cf.endpoint].name == "resploc" {
		for i := range sp.IDPMetadata.IDPSSODescriptors {
			d := &sp.IDPMetadata.IDPSSODescriptors[i]
			for j := range d.SingleLogoutServices {
				d.SingleLogoutServices[j].ResponseLocation = c12RespLoc
			}
			for j := range d.SingleSignOnServices {
				d.SingleSignOnServices[j].ResponseLocation = c12RespLoc
			}
		}
	}
	if cf.idpFmts != 0 {
		fm := [][]string{nil, {"urn:oasis:names:tc:SAML:2.0:nameid-format:transient"}, {"urn:oasis:names:tc:SAML:1.1:nameid-format:emailAddress", "urn:oasis:names:tc:SAML:2.0:nameid-format:persistent"}, {"urn:oasis:names:tc:SAML:1.1:nameid-format:unspecified"}}[cf.idpFmts]
		for i := range sp.IDPMetadata.IDPSSODescriptors {
			sp.IDPMetadata.IDPSSODescriptors[i].NameIDFormats = nil
			for _, f := range fm {
				sp.IDPMetadata.IDPSSODescriptors[i].NameIDFormats = append(sp.IDPMetadata.IDPSSODescriptors[i].NameIDFormats, saml.NameIDFormat(f))
			}
		}
	}
	// IdP metadata with more than one IDPSSODescriptor: the endpoint for the binding in use is in a later one
	switch c12Endpoints[cf.endpoint].name {
	case "endpoints-in-second-role-descriptor":
		full := sp.IDPMetadata.IDPSSODescriptors[0]
		bare := full
		bare.SingleSignOnServices, bare.SingleLogoutServices, bare.ArtifactResolutionServices = nil, nil, nil
		sp.IDPMetadata.IDPSSODescriptors = []saml.IDPSSODescriptor{bare, full}
	case "bindings-split-over-two-role-descriptors":
		full := sp.IDPMetadata.IDPSSODescriptors[0]
		only := func(b string) saml.IDPSSODescriptor {
			d := full
			d.SingleSignOnServices, d.SingleLogoutServices = nil, nil
			for _, e := range full.SingleSignOnServices {
				if e.Binding == b {
					d.SingleSignOnServices = append(d.SingleSignOnServices, e)
				}
			}
			for _, e := range full.SingleLogoutServices {
				if e.Binding == b {
					d.SingleLogoutServices = append(d.SingleLogoutServices, e)
				}
			}
			return d
		}
		sp.IDPMetadata.IDPSSODescriptors = []saml.IDPSSODescriptor{only(saml.HTTPPostBinding), only(saml.HTTPRedirectBinding)}
	}
	return sp, sso, slo
}

const c12RespLoc = "https://idp.example.com/saml/slo-return"

func init() {
	Register(&Check{
		ID:     "C12",
		Engine: "lattice",
		Rule: "full product of relay-state / name-ID strings (every string of <=2 tokens over 21 tokens incl. & = # + % space quotes ; ? non-ASCII CRLF and parameter-injection payloads, plus lengths 79/80/81/200/4096) x 6 message kinds (AuthnRequest, LogoutRequest, LogoutResponse x redirect/POST) x 4 IdP endpoint URLs (with and without query strings) x signing on/off; configuration axes (NameID format x ForceAuthn x RequestedAuthnContext x EntityID) deviation-bounded on probe strings; " +
			"all sequences of <=3 message constructions with a recording random source, also with a one-byte-per-Read source. Oracle: independent decoder (own query splitter, flate, HTML tokenizer, etree) recovers exactly one message parameter and the relay state byte-for-byte, the configured fields and the given IDs; the library's IdP validates every AuthnRequest; IDs depend on >=16 drawn bytes and never repeat. non-trivial = any non-default string/endpoint/config",
		Bounds: func(tier string) string {
			if tier == "thorough" {
				return "strings of <= 3 tokens; configuration axes full product on probes"
			}
			return "strings of <= 2 tokens (463) + 5 lengths; configuration axes with <= 2 deviations on 6 probe strings; creation sequences <= 3"
		},
		Assumptions: []string{"relay states / name IDs containing NUL or invalid UTF-8 are outside the statement"},
		Run:         runC12,
		CapQuick:    6 * time.Minute,
		CapThorough: 20 * time.Minute,
	})
}

func runC12(c *core.Ctx) {
	g := harness.Pin(samlgen.T0)
	defer g.Restore()
	var strs []string
	maxTok := 2
	if c.Thorough() {
		maxTok = 3
	}
	var gen func(p string, d int)
	gen = func(p string, d int) {
		strs = append(strs, p)
		if d == maxTok {
			return
		}
		for _, tk := range c12Tokens {
			gen(p+tk, d+1)
		}
	}
	gen("", 0)
	for _, n := range []int{79, 80, 81, 200, 4096} {
		strs = append(strs, strings.Repeat("r", n))
	}
	// strings that read as markup to an HTML or template layer: complete tags, character references, comments, template actions
	strs = append(strs, "next=<dashboard>", "<b>bold</b> move", "tom&amp;jerry", "x&lt;y", "5&#43;5", "&#x26;", "&quot;q&quot;", "&apos;", "&nbsp;", "&amp;amp;", "<!-- c -->x", "<![CDATA[x]]>", "</form><form action=x>",
		"<script>x</script>", "<a href='x'>", "{{.RelayState}}", "{{`x`}}", "<?xml x?>", "a<b>c", "<>", "</>", "<br/>", "&#0;", "&#xD;&#xA;", "\\u003c", "%3Cb%3E", "javascript:alert(1)")
	spCache := map[string]*saml.ServiceProvider{}
	getSP := func(cf c12Cfg) (*saml.ServiceProvider, string, string) {
		sso, slo := c12URLs(cf)
		if sp, ok := spCache[cf.String()]; ok {
			return sp, sso, slo
		}
		sp, _, _ := c12SP(cf)
		spCache[cf.String()] = sp
		return sp, sso, slo
	}

	c.Group("strings-x-messages-x-endpoints")
	for si, s := range strs {
		for _, msg := range c12Messages {
			for ep := range c12Endpoints {
				for _, sign := range []bool{false, true} {
					if sign && si%8 != 0 && si > 30 && !c.Thorough() {
						continue // signing on: every 8th string plus the first 30 (signing is C13's subject)
					}
					s, msg, ep, sign := s, msg, ep, sign
					cf := c12Cfg{sign: sign, entity: true, endpoint: ep}
					key := fmt.Sprintf("str#%d=%+q/%s/%s", si, truncStr(s, 40), msg, cf)
					c.Case(key, func(t *core.T) {
						if s != "" || ep != 0 || sign {
							t.NonTrivial()
						}
						c12One(t, getSP, cf, msg, s, key)
					})
				}
			}
		}
	}

	c.Group("configuration-axes")
	probes := []string{"", "rs", "a b&c=d#e+f%", "é\U0001F600", strings.Repeat("x", 81), "\"'<>"}
	fields := []lattice.Field{{Name: "sign", N: 2}, {Name: "nid", N: len(c12NIDFormats)}, {Name: "force", N: 3}, {Name: "ctx", N: 2}, {Name: "entity", N: 2}, {Name: "ep", N: len(c12Endpoints)}, {Name: "respbinding", N: 2}, {Name: "clockzone", N: 3}, {Name: "idp-nameid-formats", N: 4}}
	k := 2
	if c.Thorough() {
		k = -1
	}
	lattice.Enumerate(fields, k, func(idx []int, dev int) {
		cf := c12Cfg{sign: idx[0] == 1, nidFmt: idx[1], force: idx[2], reqCtx: idx[3] == 1, entity: idx[4] == 0, endpoint: idx[5], artifact: idx[6] == 1, zone: idx[7], idpFmts: idx[8]}
		for _, msg := range c12Messages {
			for pi, pr := range probes {
				msg, pr, pi := msg, pr, pi
				key := fmt.Sprintf("cfg/%s/%s/probe=%d", cf, msg, pi)
				c.Case(key, func(t *core.T) {
					t.NonTrivial()
					c12One(t, getSP, cf, msg, pr, key)
				})
			}
		}
	})

	// every signature method the SP can be configured with: the request still reaches this library's IdP whole
	c.Group("signature-methods-toward-the-idp")
	for mi := 1; mi < len(c12Methods); mi++ {
		for _, msg := range c12Messages {
			for pi, pr := range []string{"", "rs", "a b&c=d#e+f%"} {
				for _, ep := range []int{0, 1} {
					mi, msg, pr, pi, ep := mi, msg, pr, pi, ep
					cf := c12Cfg{sign: true, entity: true, method: mi, endpoint: ep}
					key := fmt.Sprintf("sigmethod/%s/%s/probe=%d", cf, msg, pi)
					c.Case(key, func(t *core.T) {
						t.NonTrivial()
						c12One(t, getSP, cf, msg, pr, key)
					})
				}
			}
		}
	}

	c12IDs(c)
	c12Held(c, getSP)

	// the ID of the LogoutRequest being answered, in shapes other than "id-<hex>": it comes back in InResponseTo exactly as given
	c.Group("logout-response-request-ids")
	for gi, gid := range []string{"4f2c9a60-1d2e-4b7a-9c3d-5e6f708192a3", "-leading-dash", ".leading-dot", "9", "_underscore", "ID with blanks", "Üml:aut", "a/b?c=d&e", strings.Repeat("9", 200)} {
		for _, msg := range []string{"logoutresp-redirect", "logoutresp-post"} {
			for _, sign := range []bool{false, true} {
				gid, msg, sign := gid, msg, sign
				cf := c12Cfg{sign: sign, entity: true}
				key := fmt.Sprintf("logout-response-id/%d/%s/sign=%v", gi, msg, sign)
				c.Case(key, func(t *core.T) {
					t.NonTrivial()
					c12GivenID = gid
					defer func() { c12GivenID = "id-logout-request-given" }()
					c12One(t, getSP, cf, msg, "rs", key)
				})
			}
		}
	}
}

// c12GivenID is the ID of the LogoutRequest that the logout responses of a case answer.
var c12GivenID = "id-logout-request-given"

// c12Held: every ordered pair of message kinds (and a-b-a triples) produced one after the other on one ServiceProvider with different relay
// states and name IDs; each output is decoded and checked only after all exist, on exactly the value returned.
func c12Held(c *core.Ctx, getSP func(c12Cfg) (*saml.ServiceProvider, string, string)) {
	c.Group("outputs-checked-after-later-calls")
	for _, sign := range []bool{false, true} {
		for a := range c12Messages {
			for b := range c12Messages {
				for _, triple := range []bool{false, true} {
					sign, a, b, triple := sign, a, b, triple
					seq := []int{a, b}
					if triple {
						seq = append(seq, a)
					}
					var names []string
					for _, i := range seq {
						names = append(names, c12Messages[i])
					}
					key := fmt.Sprintf("held/sign=%v/%s", sign, strings.Join(names, ">"))
					c.Case(key, func(t *core.T) {
						t.NonTrivial()
						cf := c12Cfg{sign: sign, entity: true}
						var later []func()
						for step, i := range seq {
							c12OneHold(t, getSP, cf, c12Messages[i], fmt.Sprintf("relay-%d-%s", step, strings.Repeat("x", 3*step)), key, &later)
						}
						for step, chk := range later {
							before := t.Failed()
							chk()
							if !before && t.Failed() {
								t.Fail("C12/held-output/"+c12Messages[seq[step]]+"/altered-by-a-later-call", "%s: output %d (%s) no longer decodes to its own message after the later ones were produced", key, step+1, c12Messages[seq[step]])
								return
							}
						}
					})
				}
			}
		}
	}
}

func truncStr(s string, n int) string {
	if len(s) > n {
		return s[:n] + "..."
	}
	return s
}

// c12One builds one message through the public API and checks its wire form.
func c12One(t *core.T, getSP func(c12Cfg) (*saml.ServiceProvider, string, string), cf c12Cfg, msg, s, key string) {
	c12OneHold(t, getSP, cf, msg, s, key, nil)
}

// c12OneHold is c12One with the checks optionally postponed (hold != nil): the message is produced now, the closure that decodes and
// checks exactly the returned value is appended to *hold.
func c12OneHold(t *core.T, getSP func(c12Cfg) (*saml.ServiceProvider, string, string), cf c12Cfg, msg, s, key string, hold *[]func()) {
	if !utf8.ValidString(s) {
		return
	}
	resultBinding := saml.HTTPPostBinding
	if cf.artifact {
		resultBinding = saml.HTTPArtifactBinding
	}
	if cf.zone != 0 {
		harness.SetNow(samlgen.T0.In(c12Zones[cf.zone]))
		defer harness.SetNow(samlgen.T0)
	}
	sp, sso, slo := getSP(cf)
	rec := harness.NewCtr("c12" + key)
	saml.RandReader = rec
	redirect := strings.HasSuffix(msg, "-redirect")
	kind := msg[:strings.Index(msg, "-")]
	param := "SAMLRequest"
	endpoint := sso
	if kind != "authn" {
		endpoint = slo
	}
	if kind == "logoutresp" {
		param = "SAMLResponse"
	}
	relay, nameID := s, "alice@example.com"
	if kind == "logoutreq" {
		nameID = "n" + s // the string is exercised in both the relay state and the name ID
	}
	givenID := c12GivenID
	var u *url.URL
	var page []byte
	var err error
	var ar *saml.AuthnRequest
	_, p := guard(func() error {
		switch msg {
		case "authn-redirect":
			ar, err = sp.MakeAuthenticationRequest(sp.GetSSOBindingLocation(saml.HTTPRedirectBinding), saml.HTTPRedirectBinding, resultBinding)
			if err == nil {
				u, err = ar.Redirect(relay, sp)
			}
		case "authn-post":
			ar, err = sp.MakeAuthenticationRequest(sp.GetSSOBindingLocation(saml.HTTPPostBinding), saml.HTTPPostBinding, resultBinding)
			if err == nil {
				page = ar.Post(relay)
			}
		case "logoutreq-redirect":
			u, err = sp.MakeRedirectLogoutRequest(nameID, relay)
		case "logoutreq-post":
			page, err = sp.MakePostLogoutRequest(nameID, relay)
		case "logoutresp-redirect":
			u, err = sp.MakeRedirectLogoutResponse(givenID, relay)
		case "logoutresp-post":
			page, err = sp.MakePostLogoutResponse(givenID, relay)
		}
		return nil
	})
	t.Impl(1)
	t.Compared()
	fk := func(k string) string { return "C12/" + msg + "/" + k }
	check := func() {
		if p != "" {
			t.Fail(fk("panic@"+p[strings.LastIndex(p, "@")+1:]), "constructor panicked: %s", p)
			return
		}
		if err != nil {
			t.Fail(fk("constructor-error"), "constructor failed for relay state %+q: %v", relay, err)
			return
		}
		t.Input("relay_state", fmt.Sprintf("%+q", relay))
		var payload []byte
		if redirect {
			t.Input("url", u.String())
			// re-parse what is actually emitted
			u2, perr := url.Parse(u.String())
			if perr != nil {
				t.Fail(fk("url-unparseable"), "emitted URL does not parse: %v", perr)
				return
			}
			if u2.Fragment != "" || strings.Contains(u.String(), "#") {
				t.Fail(fk("fragment-introduced"), "emitted URL carries a fragment %q: relay state truncated the query", u2.Fragment)
			}
			base, _ := url.Parse(endpoint)
			if u2.Scheme != base.Scheme || u2.Host != base.Host || u2.Path != base.Path {
				t.Fail(fk("endpoint-changed"), "URL %s does not target endpoint %s", u2.String(), endpoint)
			}
			keys, vals, qerr := splitQuery(u2.RawQuery)
			if qerr != nil {
				t.Fail(fk("query-not-decodable"), "%v (query %q)", qerr, truncStr(u2.RawQuery, 300))
				return
			}
			pk, pv, _ := splitQuery(base.RawQuery)
			count := map[string]int{}
			var relayGot *string
			for i, kk := range keys {
				count[kk]++
				switch kk {
				case param:
					payload = []byte(vals[i])
				case "RelayState":
					v := vals[i]
					relayGot = &v
				}
			}
			if count[param] != 1 {
				t.Fail(fk("message-parameter-count"), "%d %s parameters in %q", count[param], param, truncStr(u2.RawQuery, 300))
				return
			}
			if relay != "" {
				if count["RelayState"] != 1 || relayGot == nil {
					t.Fail(fk("relaystate-parameter-count"), "%d RelayState parameters for relay state %+q", count["RelayState"], relay)
				} else if *relayGot != relay {
					t.Fail(fk("relaystate-altered"), "RelayState %+q decodes to %+q", relay, *relayGot)
				}
			} else if count["RelayState"] > 1 {
				t.Fail(fk("relaystate-parameter-count"), "%d RelayState parameters for an empty relay state", count["RelayState"])
			}
			// pre-existing parameters preserved, nothing else introduced
			allowed := map[string]bool{param: true, "RelayState": true, "SigAlg": true, "Signature": true}
			for i, kk := range pk {
				found := false
				for j, k2 := range keys {
					if k2 == kk && vals[j] == pv[i] {
						found = true
					}
				}
				if !found {
					t.Fail(fk("endpoint-parameter-lost"), "pre-existing endpoint parameter %q=%q is missing from %q", kk, pv[i], truncStr(u2.RawQuery, 300))
				}
				allowed[kk] = true
			}
			for _, kk := range keys {
				if !allowed[kk] {
					t.Fail(fk("parameter-injected"), "unexpected parameter %q in the emitted query", kk)
				}
			}
			if cf.sign && kind == "authn" && (count["SigAlg"] != 1 || count["Signature"] != 1) {
				t.Fail(fk("signature-parameters"), "signing configured: SigAlg x%d, Signature x%d", count["SigAlg"], count["Signature"])
			}
			raw, derr := base64.StdEncoding.DecodeString(string(payload))
			if derr != nil {
				t.Fail(fk("payload-not-base64"), "%v", derr)
				return
			}
			payload, derr = inflate(raw)
			if derr != nil {
				t.Fail(fk("payload-not-deflate"), "%v", derr)
				return
			}
		} else {
			f, ferr := htmlform.Parse(page)
			if ferr != nil {
				t.Fail(fk("form-unparseable"), "%v", ferr)
				return
			}
			if f.NForms != 1 || len(f.Dup) > 0 {
				t.Fail(fk("form-structure"), "%d forms, duplicated fields %v", f.NForms, f.Dup)
			}
			if f.Action != endpoint && !(kind == "logoutresp" && c12Endpoints[cf.endpoint].name == "resploc" && f.Action == c12RespLoc) {
				t.Fail(fk("form-action"), "form action %q, endpoint %q", f.Action, endpoint)
			}
			// a browser normalises newlines in form values (HTML tokenizer: CRLF/CR -> LF; form submission: -> CRLF), which the
			// library cannot influence: compare modulo that normalisation on the POST binding
			if formNL(f.Fields["RelayState"]) != formNL(relay) {
				t.Fail(fk("relaystate-altered"), "RelayState field %+q, want %+q", f.Fields["RelayState"], relay)
			}
			raw, derr := base64.StdEncoding.DecodeString(f.Fields[param])
			if derr != nil {
				t.Fail(fk("payload-not-base64"), "%v", derr)
				return
			}
			payload = raw
		}
		doc := etree.NewDocument()
		if err := doc.ReadFromBytes(payload); err != nil || doc.Root() == nil {
			t.Fail(fk("payload-not-xml"), "payload is not well-formed XML: %v", err)
			return
		}
		var probe struct{ XMLName xml.Name }
		if err := xml.Unmarshal(payload, &probe); err != nil {
			t.Fail(fk("payload-not-xml"), "encoding/xml rejects the payload: %v", err)
			return
		}
		r := doc.Root()
		wantTag := map[string]string{"authn": "AuthnRequest", "logoutreq": "LogoutRequest", "logoutresp": "LogoutResponse"}[kind]
		if r.Tag != wantTag || r.NamespaceURI() != samlgen.NSProtocol {
			t.Fail(fk("wrong-message"), "root is %s", r.Tag)
			return
		}
		wantIssuer := samlgen.SPEntity
		if !cf.entity {
			wantIssuer = samlgen.SPMetaURL
		}
		if got := textOf(one(r, samlgen.NSAssertion, "Issuer")); got != wantIssuer {
			t.Fail(fk("issuer"), "Issuer %q, configured %q", got, wantIssuer)
		}
		if got := r.SelectAttrValue("Destination", ""); got != endpoint && !(kind == "logoutresp" && c12Endpoints[cf.endpoint].name == "resploc" && got == c12RespLoc) {
			t.Fail(fk("destination"), "Destination %q, endpoint %q", got, endpoint)
		}
		id := r.SelectAttrValue("ID", "")
		if id == "" {
			t.Fail(fk("no-id"), "message has no ID")
		}
		switch kind {
		case "authn":
			if ar != nil && id != ar.ID {
				t.Fail(fk("id-mismatch"), "wire ID %q, constructor returned %q", id, ar.ID)
			}
			if got := r.SelectAttrValue("AssertionConsumerServiceURL", ""); got != samlgen.SPAcs {
				t.Fail(fk("acs-url"), "AssertionConsumerServiceURL %q", got)
			}
			// an explicitly configured format must be emitted; what "unset" and "unspecified" map to is the library's choice
			if f := c12NIDFormats[cf.nidFmt]; f != "" && f != saml.UnspecifiedNameIDFormat {
				pol := one(r, samlgen.NSProtocol, "NameIDPolicy")
				gotFmt := ""
				if pol != nil {
					gotFmt = pol.SelectAttrValue("Format", "")
				}
				if gotFmt != string(f) {
					t.Fail(fk("nameid-policy"), "NameIDPolicy Format %q, configured %q", gotFmt, f)
				}
			}
			fa := r.SelectAttrValue("ForceAuthn", "absent")
			if cf.force == 1 && fa != "true" {
				t.Fail(fk("forceauthn"), "ForceAuthn %q although configured true", fa)
			}
			if cf.force != 1 && fa == "true" {
				t.Fail(fk("forceauthn"), "ForceAuthn true although not configured")
			}
			if (one(r, samlgen.NSProtocol, "RequestedAuthnContext") != nil) != cf.reqCtx {
				t.Fail(fk("requested-authn-context"), "RequestedAuthnContext present=%v configured=%v", !cf.reqCtx, cf.reqCtx)
			}
			// this library's IdP must parse and validate it and see the same relay state
			md := spMetadataFor(sp)
			idp := harness.NewIDP("idp1", harness.SPRegistry{md.EntityID: md}, nil)
			idp.SSOURL = harness.MustURL(endpoint)
			var hr = httptest.NewRequest("GET", "http://x/", nil)
			if redirect {
				if strings.ContainsAny(u.String(), " \r\n\t") {
					return // not a usable request line; already reported above as url-unparseable / relaystate-altered
				}
				if u.Host == "" || u.Scheme == "" {
					return // nowhere to send it; reported above (destination / target checks)
				}
				hr = httptest.NewRequest("GET", u.String(), nil)
			} else {
				f, _ := htmlform.Parse(page)
				if au, aerr := url.Parse(f.Action); aerr != nil || au.Host == "" || strings.ContainsAny(f.Action, " \r\n\t") {
					return // a form that posts nowhere; reported above
				}
				hr = httptest.NewRequest("POST", f.Action, strings.NewReader(url.Values{"SAMLRequest": {f.Fields["SAMLRequest"]}, "RelayState": {f.Fields["RelayState"]}}.Encode()))
				hr.Header.Set("Content-Type", "application/x-www-form-urlencoded")
			}
			var ireq *saml.IdpAuthnRequest
			var ierr error
			_, p := guard(func() error {
				ireq, ierr = saml.NewIdpAuthnRequest(idp, hr)
				if ierr == nil {
					ierr = ireq.Validate()
				}
				return nil
			})
			t.Impl(1)
			if p != "" {
				t.Fail(fk("idp-panic@"+p[strings.LastIndex(p, "@")+1:]), "IdP panicked on the SP's own request: %s", p)
			} else if ierr != nil {
				t.Fail(fk("idp-rejects-sp-request"), "this library's IdP refuses the request the SP emitted (relay %+q): %v", relay, ierr)
			} else if ireq.RelayState != relay && (redirect || formNL(ireq.RelayState) != formNL(relay)) {
				t.Fail(fk("idp-sees-other-relaystate"), "IdP sees relay state %+q, SP sent %+q", ireq.RelayState, relay)
			} else if ireq.Request.ID != id {
				t.Fail(fk("idp-sees-other-id"), "IdP sees request ID %q, SP returned %q", ireq.Request.ID, id)
			}
		case "logoutreq":
			if got := textOf(one(r, samlgen.NSAssertion, "NameID")); got != nameID {
				t.Fail(fk("nameid-altered"), "NameID %+q decodes to %+q", nameID, got)
			}
		case "logoutresp":
			if got := r.SelectAttrValue("InResponseTo", ""); got != givenID {
				t.Fail(fk("inresponseto"), "InResponseTo %q, given %q", got, givenID)
			}
		}
		if len(rec.Drawn) < 16 {
			t.Fail(fk("id-entropy"), "only %d bytes were drawn from saml.RandReader while creating the message", len(rec.Drawn))
		}
		t.Outcome("ok")
		t.Sample(map[string]interface{}{"case": key})
	}
	if hold != nil {
		*hold = append(*hold, check)
		return
	}
	check()
}

// formNL applies the HTML form-submission newline normalisation (every CRLF, CR or LF becomes CRLF).
func formNL(s string) string {
	s = strings.ReplaceAll(s, "\r\n", "\n")
	s = strings.ReplaceAll(s, "\r", "\n")
	return strings.ReplaceAll(s, "\n", "\r\n")
}

// ---------- message IDs ----------

type fixedReader struct {
	data  []byte
	pos   int
	chunk int // max bytes per Read (0 = unlimited)
	drawn int
}

func (r *fixedReader) Read(p []byte) (int, error) {
	n := len(p)
	if r.chunk > 0 && n > r.chunk {
		n = r.chunk
	}
	for i := 0; i < n; i++ {
		p[i] = r.data[(r.pos+i)%len(r.data)] + byte((r.pos+i)/len(r.data))
	}
	r.pos += n
	r.drawn += n
	return n, nil
}

func c12IDs(c *core.Ctx) {
	c.Group("message-ids")
	sp := harness.NewSP(harness.SPOpt{})
	spSigned := harness.NewSP(harness.SPOpt{SignMethod: dsig.RSASHA256SignatureMethod})
	type ctor struct {
		name string
		f    func(sp *saml.ServiceProvider) (string, error)
	}
	idOfURL := func(u *url.URL, param string) (string, error) {
		_, vals, _ := splitQuery(u.RawQuery)
		keys, _, _ := splitQuery(u.RawQuery)
		for i, k := range keys {
			if k == param {
				raw, err := base64.StdEncoding.DecodeString(vals[i])
				if err != nil {
					return "", err
				}
				x, err := inflate(raw)
				if err != nil {
					return "", err
				}
				return samlgen.Parse(x).SelectAttrValue("ID", ""), nil
			}
		}
		return "", fmt.Errorf("no %s", param)
	}
	ctors := []ctor{
		{"MakeAuthenticationRequest", func(sp *saml.ServiceProvider) (string, error) {
			r, err := sp.MakeAuthenticationRequest(samlgen.IDPSSO, saml.HTTPRedirectBinding, saml.HTTPPostBinding)
			if err != nil {
				return "", err
			}
			return r.ID, nil
		}},
		{"MakeRedirectAuthenticationRequest", func(sp *saml.ServiceProvider) (string, error) {
			u, err := sp.MakeRedirectAuthenticationRequest("rs")
			if err != nil {
				return "", err
			}
			return idOfURL(u, "SAMLRequest")
		}},
		{"MakePostAuthenticationRequest", func(sp *saml.ServiceProvider) (string, error) {
			b, err := sp.MakePostAuthenticationRequest("rs")
			if err != nil {
				return "", err
			}
			f, _ := htmlform.Parse(b)
			raw, _ := base64.StdEncoding.DecodeString(f.Fields["SAMLRequest"])
			return samlgen.Parse(raw).SelectAttrValue("ID", ""), nil
		}},
		{"MakeLogoutRequest", func(sp *saml.ServiceProvider) (string, error) {
			r, err := sp.MakeLogoutRequest(samlgen.IDPSLO, "alice")
			if err != nil {
				return "", err
			}
			return r.ID, nil
		}},
		{"MakeLogoutResponse", func(sp *saml.ServiceProvider) (string, error) {
			r, err := sp.MakeLogoutResponse(samlgen.IDPSLO, "id-x")
			if err != nil {
				return "", err
			}
			return r.ID, nil
		}},
		{"MakeRedirectLogoutResponse", func(sp *saml.ServiceProvider) (string, error) {
			u, err := sp.MakeRedirectLogoutResponse("id-x", "rs")
			if err != nil {
				return "", err
			}
			return idOfURL(u, "SAMLResponse")
		}},
		{"MakeArtifactResolveRequest", func(sp *saml.ServiceProvider) (string, error) {
			r, err := sp.MakeArtifactResolveRequest("artifact")
			if err != nil {
				return "", err
			}
			return r.ID, nil
		}},
	}
	base := make([]byte, 64)
	harness.NewCtr("idbase").Read(base)
	// per-constructor: determinism and sensitivity to each drawn byte, with full and one-byte reads
	for _, ct := range ctors {
		for _, chunk := range []int{0, 1, 7} {
			for _, signed := range []bool{false, true} {
				ct, chunk, signed := ct, chunk, signed
				key := fmt.Sprintf("id/%s/chunk=%d/signed=%v", ct.name, chunk, signed)
				c.Case(key, func(t *core.T) {
					t.NonTrivial()
					s := sp
					if signed {
						s = spSigned
					}
					mk := func(data []byte) (string, int, error) {
						r := &fixedReader{data: data, chunk: chunk}
						saml.RandReader = r
						id, err := ct.f(s)
						return id, r.drawn, err
					}
					id0, drawn, err := mk(base)
					t.Impl(1)
					if err != nil {
						t.Fail("C12/id/constructor-error", "%s: %v", ct.name, err)
						return
					}
					if drawn < 16 {
						t.Fail("C12/id/too-few-random-bytes", "%s drew %d bytes from saml.RandReader (chunked reads of %d)", ct.name, drawn, chunk)
					}
					id1, _, _ := mk(base)
					if id1 != id0 {
						t.Fail("C12/id/not-a-function-of-drawn-bytes", "same random bytes gave IDs %q and %q", id0, id1)
					}
					sensitive := 0
					n := drawn
					if n > 64 {
						n = 64
					}
					for i := 0; i < n; i++ {
						d := append([]byte{}, base...)
						d[i] ^= 0x5a
						idi, _, _ := mk(d)
						t.Impl(1)
						if idi != id0 {
							sensitive++
						}
					}
					if sensitive < 16 {
						t.Fail("C12/id/less-than-128-bits", "%s (reads of %d bytes): the ID depends on only %d of the %d bytes drawn - fewer than 128 bits of the random source reach the ID (%q)", ct.name, chunk, sensitive, drawn, id0)
					}
					t.Compared()
				})
			}
		}
	}
	// all sequences of <= 3 constructions: IDs pairwise distinct
	var rec func(seq []int)
	rec = func(seq []int) {
		if len(seq) > 0 {
			seq := append([]int{}, seq...)
			var names []string
			for _, i := range seq {
				names = append(names, ctors[i].name)
			}
			for _, chunk := range []int{0, 1} {
				chunk := chunk
				c.Case(fmt.Sprintf("idseq/chunk=%d/%s", chunk, strings.Join(names, ">")), func(t *core.T) {
					t.NonTrivial()
					saml.RandReader = &chunkReader{r: harness.NewCtr("seq"), chunk: chunk}
					seen := map[string]int{}
					for step, i := range seq {
						id, err := ctors[i].f(sp)
						t.Impl(1)
						if err != nil {
							t.Fail("C12/id/constructor-error", "%v", err)
							return
						}
						if prev, dup := seen[id]; dup {
							t.Fail("C12/id/repeated", "step %d (%s) produced ID %q already produced at step %d", step+1, ctors[i].name, id, prev+1)
						}
						seen[id] = step
					}
					t.Compared()
				})
			}
		}
		if len(seq) == 3 {
			return
		}
		for i := range ctors {
			rec(append(seq, i))
		}
	}
	rec(nil)
	_ = time.Now
}

type chunkReader struct {
	r     io.Reader
	chunk int
}

func (c *chunkReader) Read(p []byte) (int, error) {
	if c.chunk > 0 && len(p) > c.chunk {
		p = p[:c.chunk]
	}
	return c.r.Read(p)
}
