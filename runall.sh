#!/bin/bash
# runall.sh [tier] — run every claimed check, summarise.
cd /verif
tier="${1:-quick}"
for id in $(python3 -c "import json;print(' '.join(c['property_id'] for c in json.load(open('MANIFEST.json'))['checks']))"); do
  s=$(date +%s)
  out=$(./run.sh $id $tier 2>&1); rc=$?
  e=$(( $(date +%s) - s ))
  echo "$id rc=$rc ${e}s :: $(echo "$out" | grep -E "^$id " | cut -c1-160)"
  echo "$out" | grep -E "^VIOLATION|HARNESS|BUILD" | head -5
done
