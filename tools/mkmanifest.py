#!/usr/bin/env python3
"""Regenerates /verif/MANIFEST.json from the table below (one entry per claimed property)."""
import json, sys

BASELINE_OFF = ("cd /repo && export GOFLAGS=-mod=mod GOPROXY=off GOSUMDB=off GOTOOLCHAIN=local && "
                "go build ./... && go test -json -vet=off -count=1 -timeout 25m ./...")

TRUST = ("Go toolchain; goxmldsig (used harness-side to sign messages and, in oracles, to verify); "
         "the reference model written from the property statement; enumerated alphabets only - values outside them are not covered")

# id -> (engine, technique, text, design_ref, level_note)
CLAIMED = {
 "C01": ("bfs", "explicit-state search over documents (mutation-operator transitions from genuinely signed messages, depth-bounded, deduplicated) with a ground-truth + reference-verifier oracle, plus exhaustive trust-rotation sequences",
         "Every document reachable from 6 genuinely signed initial messages by at most 2 (thorough: 3, time-capped) of ~120 attacker mutation operators is presented to ParseXMLResponse and ParseXMLArtifactResponse under 2-4 trust configurations; whenever an assertion is returned its identity-bearing content must be content the harness signed with a key trusted in that configuration and must be the content of an element a naive reference verifier finds validly signed in the presented document. All (configure, present) sequences up to length 2-3 on one SP object check that trust follows the current configuration.",
         "DESIGN.md §3 C01", "unforgeable signatures; goxmldsig verification (also used by the reference verifier); operator alphabet and depth bound"),
 "C04": ("lattice", "bounded-exhaustive enumeration (full product) against a three-valued reference model, on the real API",
         "Every point of the full cross product of outstanding-ID sets x InResponseTo values (Response, 1-2 confirmations) x AllowIDPInitiated x validator x entry point x signing layout, "
         "and the artifact path end-to-end, is built as a harness-signed message, pushed through ParseXMLResponse/ParseResponse and compared with a reference model; nothing is sampled.",
         "DESIGN.md §3 C04", TRUST),
 "C02": ("lattice", "bounded-exhaustive enumeration (full 4^5 boundary lattice x layouts x tolerance settings) against a reference model, clock pinned",
         "The full product of {far inside, boundary-1ms, boundary+1ms, far outside} for the five instants, crossed with confirmation layouts, assertion position, tolerance settings (changed at run time) and signing layouts, "
         "plus lexical time forms and the artifact path, is driven through ParseXMLResponse with the library clock pinned and compared with the statement's inequalities.",
         "DESIGN.md §3 C02", TRUST),
 "C03": ("lattice", "deviation-bounded exhaustive enumeration (k<=2 quick, k<=3 thorough) x full configuration product against a three-valued reference model",
         "Every point with at most k fields (issuers, recipients, destination, audience sequences, status) deviating from the valid message, crossed with the full product of signing layout, EntityID set/unset, audience validator, received-at URL and entry point, is signed by the harness IdP and pushed through the public API; verdicts are compared with a reference model written from the statement.",
         "DESIGN.md §3 C03", TRUST),
 "C10": ("lattice", "bounded-exhaustive enumeration (full product of lengths x patterns x ciphers x key transports x keys) with round-trip and differential oracle against an independent implementation",
         "Every plaintext length 0..65 (+5 long) x content pattern x block cipher x key transport x RSA key x nonce mode is encrypted by the package and decrypted by the package and by an independent W3C implementation (engine/xenc), and vice versa; wrong-size keys 0..33 must be errors; repository samples decrypt under both.",
         "DESIGN.md §3 C10", "Go standard library crypto primitives; engine/xenc (independent implementation written from the W3C specification); byte contents and keys limited to the listed patterns"),
 "C11": ("lattice", "bounded-exhaustive enumeration of malformed ciphertext elements (lengths, identifiers, structure operators, key types, GCM bit flips) with a totality + must-reject oracle",
         "Every CipherValue length 0..65 per algorithm (direct/wrapped), crafted padding bytes, encodings, identifier substitutions at both levels, single and paired structure operators, every admitted Go key type, every single-bit flip of AES-GCM cipher values, and the same elements as attacker-built EncryptedAssertion through ParseXMLResponse: Decrypt must return plaintext xor error, never panic, and must reject the classes the statement lists.",
         "DESIGN.md §3 C11", "element trees produced by the harness-side encryptor (engine/xenc) and mutated structurally; arbitrary bytes outside these families not covered"),
 "C05": ("lattice", "bounded-exhaustive enumeration of registry shapes x routing requests (full product) and of the request gate product, on the real Validate/ServeSSO/ServeIDPInitiated, against a reference selection model",
         "Every SP metadata shape with <=2 (thorough <=3) ACS endpoints over bindings x indices x isDefault x locations and every split over descriptors, registered through XML, is crossed with every routing request (ACS URL absent/registered/request-only x index absent/0/1/7/x): the selected endpoint must be a registered one in the statement's order and the written form must post to it; the gate product (Issuer x Destination x Version x IssueInstant around the freshness boundary x encoding x tolerance settings) must be refused exactly when the statement says.",
         "DESIGN.md §3 C05", TRUST),
 "C06": ("lattice", "deviation-bounded exhaustive enumeration (<=4 axes off default quick, full product thorough) of request x session x SP shape x IdP key/signer x signature method x intermediates x clock x tolerance, with an independent decoder and fresh signature verification as oracle",
         "Each point drives the real ServeSSO / ServeIDPInitiated (after a decoy-session response on the same IdP object); the emitted page is decoded independently (HTML tokenizer, base64, etree, own decryption) and every scoping field, the identity content and both enveloped signatures (method, key, certificate) are checked against the registry, the request, the session and the clock.",
         "DESIGN.md §3 C06", TRUST),
 "C07": ("lattice", "bounded-exhaustive enumeration of session strings over an XML token alphabet (<=2 tokens quick, <=3 thorough) in 12 positions, position pairs, a length ladder and configuration axes, through the complete real IdP->SP round trip with a differential oracle",
         "SP and IdP are wired only through their published metadata (serialised and re-parsed); for every enumerated session the SP emits a request, the IdP validates it and answers, the SP parses the POSTed form, and the parsed NameID, ordered attribute names/values and session index must equal those of the assertion the IdP built, which must in turn carry every session string.",
         "DESIGN.md §3 C07", TRUST),
 "C08": ("lattice", "bounded-exhaustive enumeration of key-descriptor layouts x sessions x launch kinds x response sequences (incl. re-registration) on the IdP, and of assertion variants x layouts x plaintext framings plus every ciphertext fault on the SP, with leak/recoverability/freshness and plaintext-vs-encrypted differential oracles",
         "IdP: for each of 23 key-descriptor layouts, 5 marker sessions and both launch kinds, three consecutive responses are decoded independently: an advertised key means an error reply or a Response with no plaintext Assertion and no marker string outside CipherValue, recoverable only with an advertised key, with content keys and IVs pairwise distinct and drawn from the recording random source; re-registration sequences check that the current certificate is used. SP: every assertion variant gets the same verdict in plaintext and harness-encrypted form; every truncation, byte flip, structure fault and degenerate plaintext is an InvalidResponseError.",
         "DESIGN.md §3 C08", "engine/xenc independent decryption; enumerated layouts and variants; side channels not covered"),
 "C09": ("lattice", "bounded-exhaustive enumeration of message shapes (all subsets of optional parts with a valid signature re-applied, framings, prefixes, single tree edits, size ladders) and exhaustive single-fault enumeration of the artifact resolver, with a totality oracle",
         "For every consuming API: all subsets (size <=3 quick, <=4 thorough; all subsets for the smaller messages) of optional elements/attributes are removed from a schema-valid message, the harness IdP re-signs (and optionally encrypts) it, and the call must return a result xor an error of the documented type - never panic; plus base64/deflate framings, inflate ladders around the 10 MB limit with an allocation bound, every prefix and every single-node edit of fixtures, degenerate documents, depth/width ladders, and every single resolver fault including a read error after k bytes for every k.",
         "DESIGN.md §3 C09", "enumerated families only (no coverage-guided byte fuzzing); a hang shows up as a worker that never reports, attributed to the case it was running"),
 "C12": ("lattice", "bounded-exhaustive enumeration (full product of strings x message kinds x endpoints x signing; deviation-bounded configuration axes; all creation sequences <=3) with an independent wire decoder and the library's own IdP as oracles",
         "Every relay-state / name-ID string of <=2 tokens (thorough <=3) over a 21-token URL/HTML metacharacter alphabet plus a length ladder is sent through each of the six message constructors against four IdP endpoint URLs; the emitted URL or form is decoded independently and must yield exactly one message parameter, the relay state byte-for-byte, preserved endpoint parameters, no fragment, the configured fields and IDs; the library's IdP must validate each AuthnRequest and see the same relay state; message IDs must depend on >=16 bytes of the configured reader (also with short reads) and never repeat within any sequence of <=3 constructions.",
         "DESIGN.md §3 C12", TRUST + "; on the POST binding relay states are compared modulo the HTML newline normalisation a browser applies"),
 "C13": ("lattice", "bounded-exhaustive enumeration (full product of signature methods x key types/sizes x message kinds x relay states x endpoint forms x request options) with independent signature verification under the certificate from the published metadata",
         "For each of 9 method URIs x 7 keys x 7 message kinds x relay states x endpoint with/without query x request options the real constructor is called; a method that does not fit the key (or is unknown) must yield an error and no message; otherwise the detached redirect signature must verify over exactly the emitted SAMLRequest..SigAlg octets with crypto/rsa / crypto/ecdsa, and XML messages must carry exactly one enveloped signature verifying under a fresh context rooted in the certificate re-parsed from the SP's metadata, with the configured method.",
         "DESIGN.md §3 C13", TRUST),
 "C14": ("lattice", "bounded-exhaustive enumeration of hostile strings (<=2 tokens quick, <=3 thorough) in every interpolated position of the five emitted forms, tokenised by an HTML5 tokenizer, and the full product of schemes x bindings x attributes x endpoint-bearing elements x parsers for metadata",
         "Every string over a 30-token HTML/JS/URL metacharacter alphabet is placed in the action URL and RelayState positions of the SP request / logout forms, the IdP response form and the bundled IdP login form; the emitted page must tokenise to exactly the template's tag sequence and attribute names, carry the string verbatim in its hidden field and never expose a script-scheme action; about 14,800 metadata documents (22 location schemes x 7 bindings x Location/ResponseLocation x 16 endpoint slots x EntityDescriptor/EntitiesDescriptor) go through xml.Unmarshal, samlsp.ParseMetadata and samlidp PUT: surviving locations of known bindings must be http(s), of unknown bindings blank.",
         "DESIGN.md §3 C14", "golang.org/x/net/html tokenizer stands in for browsers; hidden-field values compared modulo what HTML itself does to CR/NUL"),
 "C16": ("lattice", "bounded-exhaustive enumeration of a structure-aware token-edit catalogue x clock positions x deployments through the real RequireAccount / RequireAttribute handlers, against a three-valued reference model",
         "Genuine session and tracking tokens are minted by the real codecs (RSA and ECDSA keys, default and custom lifetime / cookie name); every catalogued edit (algorithm substitution incl. none and HMAC keyed with the public key, re-signing by own / other / other-family keys, header extras, each claim removed / altered / mistyped, audience arrays, marker swap, other deployments, every signature byte flip and truncation, segment counts, encoding variants) is presented at 8 clock positions around issue and expiry: the wrapped handler must run iff the token is one the codec minted and nbf <= now < exp. Attribute exposure and RequireAttribute are checked relationally over 8 assertion shapes.",
         "DESIGN.md §3 C16", "golang-jwt is used harness-side to sign the forged tokens; both saml.TimeNow and jwt.TimeFunc are pinned"),
 "C17": ("bfs", "explicit-state breadth-first search over browser/IdP/attacker histories (states = cookie jar + flows + clock, canonicalised and deduplicated), every transition a call into the real middleware, reference model stepped in lock-step",
         "From the empty browser, every history of bounded depth over {start flow, IdP answers, deliver with each RelayState x cookie view (jar, empty, another flow's cookie, renamed, tampered, session token as tracking cookie, expired/cleared cookies), deliver unsolicited / partially matching responses, tick across the tracking lifetime, request a page} is executed against samlsp.Middleware for several configurations; the model decides for each delivery whether a session may be established, the redirect target, which tracking cookie is cleared and the cookie attributes; states, transitions and distinct middleware requests are reported.",
         "DESIGN.md §3 C17", "browser cookie model (RFC 6265 subset) and explicit attacker views; harness-signed responses; clock notches 1 s from the lifetime boundary"),
 "C18": ("lattice", "bounded-exhaustive enumeration (full field product with a valid signature; signature treatments x single-field deviations; both encodings and the request dispatcher; tolerance and trust configurations) against a reference model of the statement's conjunction",
         "Every combination of Destination (9) x Issuer (7) x Status (7) x IssueInstant position (8) with a valid harness signature, in POST and redirect encodings, under two tolerance settings and 2-3 trust configurations, and 15 signature treatments on otherwise valid and single-deviation responses through all four entry points, is built immediately before the call (the path uses the process clock) and must be reported valid exactly when the statement's five conditions hold.",
         "DESIGN.md §3 C18", TRUST + "; exact freshness boundary not decided (5 s margin, process clock)"),
 "C15": ("lattice", "exhaustive sub-range sweeps (dense nanosecond ranges, digit-sparse values, carries), bounded grammar enumeration of duration strings vs a reference recogniser, instant lattice, 2^14 metadata shapes with a fixed-point oracle",
         "Durations: every value of dense and digit-sparse sub-ranges (thorough: all 1e9 sub-second values) x carries x sign round-trips exactly; every duration string of <=5 tokens agrees with a hand-written xsd:duration recogniser; instants on the year/date/time/rounding-edge/zone lattice round-trip to the ms-rounded UTC instant and documented lexical forms are accepted, others rejected; every library-generated SP/IdP metadata document and 2^14 generated EntityDescriptor shapes (plus EntitiesDescriptor by value/pointer) re-parse to an equal value and reach a fixed point after one generation.",
         "DESIGN.md §3 C15", "encoding/xml; the reference xsd:duration recogniser in checks/c15.go; values outside the enumerated sub-ranges are not covered"),
 "C19": ("bfs", "explicit-state breadth-first search over management/login/SSO histories with a reference model in lock-step, a restart (server re-created over a clone of the store) at every position, exhaustive single-fault injection at every store call of every transition, and live sequences on one long-lived server",
         "From an empty and a seeded store, every history of bounded depth over ~57 requests (users with/without password and cross-named bodies, two services x three metadata variants, shortcuts, logins with right/wrong/empty passwords and a hash-less user, SSO from two issuers with current/no/forged cookie or posted credentials, shortcut launch, session deletion, reads, clock advance) is executed on the real samlidp.Server; the model decides whether an assertion may be emitted, for whom and to which ACS; the registry after each request must equal that of a restarted server; each transition is repeated with a not-found and an I/O error at each store call: no assertion without right, no cookie or assertion for an unstored session, one status line, no hash disclosure, no panic.",
         "DESIGN.md §3 C19", "harness Store with sequential semantics; bcrypt cost lowered by the harness between requests (same passwords); hidden server state assumed to be the registry (checked) plus live sequences of length <= 3"),
 "C20": ("sched", "stateless model checking of the implementation: preemption-bounded depth-first enumeration of goroutine schedules under a controlled scheduler (lock and store-operation granularity, sync rewritten by go build -overlay), linearizability checking of every recorded store history (porcupine), RWMutex model bound to sync by a conformance table, plus a separate free-running race-detector pass",
         "Real samlidp handler goroutines over the real MemoryStore run one at a time under the harness scheduler; every schedule within the preemption bound of all 169 ordered handler pairs, selected triples and a 4-thread scenario is executed: no deadlock, every request exactly one reply, no panic (serial-order equivalence is reported as information only - the statement does not promise it). MemoryStore client programs on colliding keys (pre-populated and zero-value store) are explored under all / bounded schedules and every history is checked for linearizability against a map. The same scenario bodies then run free-running under `go build -race`.",
         "DESIGN.md §3 C20", "scheduler model of sync.RWMutex/Mutex (conformance-checked against the real type); Go memory-model effects below lock granularity are left to the race detector in the free-running pass, which is not exhaustive over schedules"),
}

ALL = ["C%02d" % i for i in range(1, 21)]

def main():
    checks = []
    for pid in ALL:
        if pid not in CLAIMED:
            continue
        eng, tech, text, ref, note = CLAIMED[pid]
        checks.append({
            "property_id": pid,
            "quick_cmd": "./run.sh %s quick" % pid,
            "thorough_cmd": "./run.sh %s thorough" % pid,
            "evidence_file": "/verif/evidence/%s.json" % pid,
            "replay_cmd_template": "./run.sh replay {path}",
            "engine": eng,
            "level_claimed": {"category": "model_checking", "text": text, "design_ref": ref},
            "level_note": note,
            "technique": tech,
        })
    na = [{"property_id": p, "reason": "check not built yet in this session (work in progress; planned in DESIGN.md §3 %s)" % p}
          for p in ALL if p not in CLAIMED]
    m = {
        "version": 1,
        "setup_cmd": "./setup.sh",
        "hooks": {
            "guard": "verif-overlay",
            "enable": "no hooks are committed to /repo: checks import /repo through a go.mod replace; C20 builds with `go build -overlay <generated>` where tools/mkoverlay rewrites the \"sync\" import of the working tree's non-test files to the scheduler shim overlay/vsync.go.tmpl (see DESIGN.md §2.2); with the overlay off the tree is byte-identical to the committed one",
            "baseline_off_cmd": BASELINE_OFF,
            "source_commits": [],
            "add_only": True,
        },
        "engines": [
            {"name": "lattice", "path": "engine/core + checks/", "serves_properties": [p for p in ALL if p in CLAIMED and CLAIMED[p][0] == "lattice"],
             "kind_free_text": "deviation-bounded / full-product exhaustive enumeration of inputs and configurations on the real code against a three-valued reference model"},
            {"name": "bfs", "path": "engine/bfs", "serves_properties": [p for p in ALL if p in CLAIMED and CLAIMED[p][0] == "bfs"],
             "kind_free_text": "explicit-state breadth-first search over operation sequences / document mutations, each transition calling the real code"},
            {"name": "sched", "path": "engine/sched", "serves_properties": [p for p in ALL if p in CLAIMED and CLAIMED[p][0] == "sched"],
             "kind_free_text": "stateless exploration of goroutine interleavings under a controlled scheduler (lock and store-operation granularity)"},
        ],
        "checks": checks,
        "not_applicable": na,
        "notes": "All checks rebuild the harness against /repo's working tree via `replace github.com/crewjam/saml => /repo`. Exit 0 = held (KNOWN-FINDING lines possible), 1 = VIOLATION, 2 = harness/build error.",
    }
    json.dump(m, open("/verif/MANIFEST.json", "w"), indent=1)
    print("claimed:", [c["property_id"] for c in checks])

if __name__ == "__main__":
    main()
