// genkeys writes the committed key/cert fixtures under /verif/keys (run once).
package main

import (
	"crypto"
	"crypto/ecdsa"
	"crypto/elliptic"
	"crypto/rand"
	"crypto/rsa"
	"crypto/x509"
	"crypto/x509/pkix"
	"encoding/pem"
	"math/big"
	"os"
	"time"
)

func write(name string, key crypto.Signer) {
	tmpl := &x509.Certificate{
		SerialNumber: big.NewInt(int64(len(name)) + 1000),
		Subject:      pkix.Name{CommonName: name + ".verif.example"},
		NotBefore:    time.Date(2000, 1, 1, 0, 0, 0, 0, time.UTC),
		NotAfter:     time.Date(2100, 1, 1, 0, 0, 0, 0, time.UTC),
		KeyUsage:     x509.KeyUsageDigitalSignature | x509.KeyUsageKeyEncipherment,
	}
	der, err := x509.CreateCertificate(rand.Reader, tmpl, tmpl, key.Public(), key)
	if err != nil {
		panic(err)
	}
	kb, err := x509.MarshalPKCS8PrivateKey(key)
	if err != nil {
		panic(err)
	}
	os.WriteFile("/verif/keys/"+name+".key", pem.EncodeToMemory(&pem.Block{Type: "PRIVATE KEY", Bytes: kb}), 0o644)
	os.WriteFile("/verif/keys/"+name+".crt", pem.EncodeToMemory(&pem.Block{Type: "CERTIFICATE", Bytes: der}), 0o644)
}

func rsaKey(bits int) crypto.Signer {
	k, err := rsa.GenerateKey(rand.Reader, bits)
	if err != nil {
		panic(err)
	}
	return k
}

func ecKey(c elliptic.Curve) crypto.Signer {
	k, err := ecdsa.GenerateKey(c, rand.Reader)
	if err != nil {
		panic(err)
	}
	return k
}

func main() {
	write("idp1", rsaKey(2048))
	write("idp2", rsaKey(2048))
	write("idpenc", rsaKey(2048))
	write("attacker", rsaKey(2048))
	write("idpec", ecKey(elliptic.P256()))
	write("sp1024", rsaKey(1024))
	write("sp2048", rsaKey(2048))
	write("sp3072", rsaKey(3072))
	write("sp4096", rsaKey(4096))
	write("spother", rsaKey(2048))
	write("spother2", rsaKey(2048))
	write("spec256", ecKey(elliptic.P256()))
	write("spec384", ecKey(elliptic.P384()))
	write("spec521", ecKey(elliptic.P521()))
}
