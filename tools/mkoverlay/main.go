// mkoverlay generates a `go build -overlay` file that rewrites the "sync"
// import of every non-test Go file in /repo/samlidp to the vsync shim and adds
// the shim as a virtual package. /repo is not touched.
//
//	mkoverlay <outdir>   -> writes <outdir>/overlay.json
package main

import (
	"encoding/json"
	"fmt"
	"os"
	"path/filepath"
	"regexp"
	"strings"
)

var importRe = regexp.MustCompile(`(?m)^(\s*)(?:sync\s+)?"sync"\s*$`)

func main() {
	out := os.Args[1]
	repo := "/repo"
	if d := os.Getenv("VERIF_REPO"); d != "" {
		repo = d
	}
	pkg := repo + "/samlidp"
	repl := map[string]string{}
	var files []string
	for _, d := range []string{repo, repo + "/samlidp", repo + "/samlsp", repo + "/xmlenc", repo + "/logger"} {
		fs, _ := filepath.Glob(d + "/*.go")
		files = append(files, fs...)
	}
	n := 0
	for _, f := range files {
		if strings.HasSuffix(f, "_test.go") {
			continue
		}
		b, err := os.ReadFile(f)
		if err != nil {
			panic(err)
		}
		if !importRe.Match(b) {
			continue
		}
		nb := importRe.ReplaceAll(b, []byte(`${1}sync "github.com/crewjam/saml/samlidp/vsync"`))
		dst := filepath.Join(out, strings.ReplaceAll(strings.TrimPrefix(f, repo+"/"), "/", "__"))
		if err := os.WriteFile(dst, nb, 0o644); err != nil {
			panic(err)
		}
		repl[f] = dst
		n++
	}
	shim, err := os.ReadFile("/verif/overlay/vsync.go.tmpl")
	if err != nil {
		panic(err)
	}
	sp := filepath.Join(out, "vsync.go")
	os.WriteFile(sp, shim, 0o644)
	repl[pkg+"/vsync/vsync.go"] = sp
	j, _ := json.MarshalIndent(map[string]interface{}{"Replace": repl}, "", " ")
	os.WriteFile(filepath.Join(out, "overlay.json"), j, 0o644)
	fmt.Printf("mkoverlay: rewrote \"sync\" in %d files of /repo (shim at %s/vsync)\n", n, pkg)
	if n == 0 {
		fmt.Println("mkoverlay: WARNING no file imports sync")
	}
}
