// gencert writes keys/<name>.key and keys/<name>.crt: an RSA-2048 key under a self-signed certificate with the given validity window.
// Usage: go run ./tools/gencert <name> <notBefore RFC3339> <notAfter RFC3339>
// (the fixtures idpnext / idpfar / idpold / idpancient were made with it; fixtures are committed, the checks never generate keys)
package main

import (
	"crypto/rand"
	"crypto/rsa"
	"crypto/x509"
	"crypto/x509/pkix"
	"encoding/pem"
	"fmt"
	"math/big"
	"os"
	"time"
)

func main() {
	if len(os.Args) != 4 {
		fmt.Fprintln(os.Stderr, "usage: gencert <name> <notBefore> <notAfter>")
		os.Exit(2)
	}
	name := os.Args[1]
	nb, err := time.Parse(time.RFC3339, os.Args[2])
	if err != nil {
		panic(err)
	}
	na, err := time.Parse(time.RFC3339, os.Args[3])
	if err != nil {
		panic(err)
	}
	k, err := rsa.GenerateKey(rand.Reader, 2048)
	if err != nil {
		panic(err)
	}
	tpl := &x509.Certificate{SerialNumber: big.NewInt(time.Now().UnixNano()), Subject: pkix.Name{CommonName: name + ".verif.example"},
		NotBefore: nb, NotAfter: na, KeyUsage: x509.KeyUsageDigitalSignature, BasicConstraintsValid: true}
	der, err := x509.CreateCertificate(rand.Reader, tpl, tpl, &k.PublicKey, k)
	if err != nil {
		panic(err)
	}
	kb, _ := x509.MarshalPKCS8PrivateKey(k)
	os.WriteFile("keys/"+name+".key", pem.EncodeToMemory(&pem.Block{Type: "PRIVATE KEY", Bytes: kb}), 0o644)
	os.WriteFile("keys/"+name+".crt", pem.EncodeToMemory(&pem.Block{Type: "CERTIFICATE", Bytes: der}), 0o644)
}
