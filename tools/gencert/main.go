// gencert writes keys/<name>.key and keys/<name>.crt: an RSA-2048 key under a self-signed certificate with the given validity window.
// Usage: go run ./tools/gencert <name> <notBefore RFC3339> <notAfter RFC3339> [ca | issued-by:<ca fixture name> | twin-of:<fixture name>]
// "ca" makes a self-signed CA certificate; "issued-by:x" makes a leaf signed by the CA fixture keys/x.{key,crt}; "twin-of:x" makes a
// self-signed certificate for a NEW key under the subject name and serial number of fixture x (what a key rollover with fixed-serial
// tooling produces).
// (the fixtures idpnext / idpfar / idpold / idpancient were made with it; fixtures are committed, the checks never generate keys)
package main

import (
	"crypto/rand"
	"crypto/rsa"
	"crypto/x509"
	"crypto/x509/pkix"
	"encoding/pem"
	"fmt"
	"math/big"
	"os"
	"strings"
	"time"
)

func main() {
	if len(os.Args) != 4 && len(os.Args) != 5 {
		fmt.Fprintln(os.Stderr, "usage: gencert <name> <notBefore> <notAfter>")
		os.Exit(2)
	}
	name := os.Args[1]
	nb, err := time.Parse(time.RFC3339, os.Args[2])
	if err != nil {
		panic(err)
	}
	na, err := time.Parse(time.RFC3339, os.Args[3])
	if err != nil {
		panic(err)
	}
	k, err := rsa.GenerateKey(rand.Reader, 2048)
	if err != nil {
		panic(err)
	}
	tpl := &x509.Certificate{SerialNumber: big.NewInt(time.Now().UnixNano()), Subject: pkix.Name{CommonName: name + ".verif.example"},
		NotBefore: nb, NotAfter: na, KeyUsage: x509.KeyUsageDigitalSignature, BasicConstraintsValid: true}
	parent, signer := tpl, interface{}(k)
	if len(os.Args) == 5 {
		if os.Args[4] == "ca" {
			tpl.IsCA = true
			tpl.KeyUsage = x509.KeyUsageCertSign | x509.KeyUsageDigitalSignature
		} else if tw, ok := strings.CutPrefix(os.Args[4], "twin-of:"); ok {
			cb, _ := os.ReadFile("keys/" + tw + ".crt")
			cblk, _ := pem.Decode(cb)
			oc, err := x509.ParseCertificate(cblk.Bytes)
			if err != nil {
				panic(err)
			}
			tpl.SerialNumber, tpl.Subject = oc.SerialNumber, oc.Subject
		} else if ca, ok := strings.CutPrefix(os.Args[4], "issued-by:"); ok {
			cb, _ := os.ReadFile("keys/" + ca + ".crt")
			kb, _ := os.ReadFile("keys/" + ca + ".key")
			cblk, _ := pem.Decode(cb)
			kblk, _ := pem.Decode(kb)
			pc, err := x509.ParseCertificate(cblk.Bytes)
			if err != nil {
				panic(err)
			}
			pk, err := x509.ParsePKCS8PrivateKey(kblk.Bytes)
			if err != nil {
				panic(err)
			}
			parent, signer = pc, pk
		}
	}
	der, err := x509.CreateCertificate(rand.Reader, tpl, parent, &k.PublicKey, signer)
	if err != nil {
		panic(err)
	}
	kb, _ := x509.MarshalPKCS8PrivateKey(k)
	os.WriteFile("keys/"+name+".key", pem.EncodeToMemory(&pem.Block{Type: "PRIVATE KEY", Bytes: kb}), 0o644)
	os.WriteFile("keys/"+name+".crt", pem.EncodeToMemory(&pem.Block{Type: "CERTIFICATE", Bytes: der}), 0o644)
}
